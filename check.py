#!/venv/bin/python
"""Entry point of every check:  check.py <Cxx> --tier quick|thorough [--replay file]
                               check.py --setup

Decision procedure (DESIGN.md §2.3): regenerate facts, build the Lean library, audit the property's
theorems, run the correspondence + monitor of the property on the real code, classify, write evidence.
Exit 0 = held on everything explored; 1 = VIOLATION line printed; 2 = internal error / timeout.
"""
import argparse
import importlib
import json
import os
import sys
import time
import traceback

HERE = os.path.dirname(os.path.abspath(__file__))
sys.path.insert(0, HERE)

from harness import common  # noqa: E402

PROPS = {
    "C08": "harness.corr_filter",
    "C10": "harness.corr_layers",
    "C11": "harness.corr_shuffle",
    "C20": "harness.corr_digraph",
    "C01": "harness.corr_c01",
    "C02": "harness.corr_c02",
    "C03": "harness.corr_c03",
    "C04": "harness.corr_c04",
    "C05": "harness.corr_c05",
    "C06": "harness.corr_sched",
    "C07": "harness.corr_channel",
    "C12": "harness.corr_c12",
    "C14": "harness.corr_discovery",
    "C15": "harness.corr_bytecode",
    "C13": "harness.corr_c13",
    "C16": "harness.corr_c16",
    "C17": "harness.corr_xml",
    "C18": "harness.corr_globals",
    "C19": "harness.corr_threads",
    "C09": "harness.corr_suites",
}

TRUSTED_BASE = [
    "Lean 4.33.0 kernel; axioms limited to propext, Classical.choice, Quot.sound (audited per theorem on every run)",
    "harness/facts.py (AST -> Lean literals) for Generated/Facts.lean",
    "the correspondence harness (generators, canonicaliser, Driver.lean JSON glue)",
]


def run_check(prop, tier, seed, replay=None):
    t0 = time.monotonic()
    mod = importlib.import_module(PROPS[prop])
    ctx = common.Ctx(prop, tier, seed)
    lines = []
    try:
        info = common.lean_build()
        # ---- proof obligations -------------------------------------------------------------
        theorems = list(mod.THEOREMS)
        broken = []          # (theorem or component, reason)
        axioms = {}
        module_failed = any(m == mod.LEAN_MODULE or m in getattr(mod, "LEAN_DEPS", [])
                            for m in info.failed_modules)
        if module_failed:
            broken.append((mod.LEAN_MODULE, "does not build: " + _build_excerpt(info.log)))
        else:
            res, out = common.audit(prop, mod.LEAN_MODULE, theorems, deps=getattr(mod, "LEAN_DEPS", []))
            for t in theorems:
                ax = res.get(t)
                if ax is None:
                    broken.append((t, "theorem missing or not checked: " + out[-600:]))
                else:
                    axioms[t] = ax
                    bad = [a for a in ax if a not in common.ALLOWED_AXIOMS]
                    if bad:
                        broken.append((t, "depends on axioms %s" % bad))
        if tier == "thorough" and not module_failed:
            # the compiled proofs once more, through the independent re-checker
            ok, out_lc = common.leanchecker([mod.LEAN_MODULE] + list(getattr(mod, "LEAN_DEPS", [])))
            if ok is None:
                ctx.notes.append(out_lc)
            elif not ok:
                broken.append(("leanchecker", "the independent re-check of %s failed: %s" % (mod.LEAN_MODULE, out_lc[-400:])))
            else:
                ctx.notes.append("leanchecker accepted %s and its imports" % mod.LEAN_MODULE)
        if info.facts_error:
            broken.append(("Generated/Facts.lean", "the translator could not read the source: " + info.facts_error))
        forb = common.grep_forbidden()
        for hit in forb:
            broken.append(("source audit", hit))
        if info.facts.get("unparsed"):
            ctx.notes.append("facts extractor could not parse: %s" % info.facts["unparsed"])
        discharged = len([t for t in theorems if t in axioms
                          and all(a in common.ALLOWED_AXIOMS for a in axioms[t])])

        # ---- correspondence + monitor ------------------------------------------------------
        if info.driver_ok:
            ctx.driver = common.Driver()
            try:
                if replay is not None:
                    mod.replay(ctx, json.load(open(replay)))
                else:
                    mod.run(ctx)
                    # option parsing is a function of the arguments (no state of an earlier parse), for the option
                    # fields this property depends on
                    from harness import optglue
                    optglue.stateless(ctx, prop)
                    if prop in ("C03", "C04", "C05", "C12", "C13", "C16"):
                        from harness import corr_world
                        corr_world.same_world_twice(ctx, prop)
            except common.InternalError:
                raise
            except (Exception, SystemExit) as e:  # noqa: BLE001
                # (SystemExit: argparse inside the real get_options rejecting arguments the real code composed)
                # an exception that comes out of /repo's code while the harness drives it in-process is a broken
                # correspondence (the model says the call returns), not a machinery failure
                tb = traceback.extract_tb(e.__traceback__)
                src = os.path.join(common.REPO, "src")
                if tb and any(fr.filename.startswith(src) for fr in tb):
                    last = [fr for fr in tb if fr.filename.startswith(src)][-1]
                    ctx.drift("in-process call of %s" % os.path.relpath(last.filename, src),
                              "the real code raised %s: %s at %s:%d (%s)" % (
                                  type(e).__name__, e, os.path.relpath(last.filename, src), last.lineno, last.name),
                              {"traceback": traceback.format_exception(type(e), e, e.__traceback__)[-12:]})
                else:
                    raise
        else:
            broken.append(("driver", "the model no longer builds against the regenerated facts: "
                           + _build_excerpt(info.log)))

        # ---- failing-input search: the proof or the correspondence is broken but nothing fails yet ----
        if replay is None and (ctx.drifts or broken) and not ctx.violations and hasattr(mod, "search") \
                and ctx.driver is not None:
            try:
                mod.search(ctx)
            except Exception as e:  # noqa: BLE001
                ctx.notes.append("failing-input search ended with %s: %s" % (type(e).__name__, e))

        # ---- known findings ----------------------------------------------------------------
        known = common.load_known()
        mine = [k for k in known.get("findings", []) if k["property"] == prop]
        known_sigs = {}
        for k in mine:
            sigs = k["signature"] if isinstance(k["signature"], list) else [k["signature"]]
            for sg in sigs:
                known_sigs[sg] = k
        probes = getattr(mod, "KNOWN_PROBES", {})
        if replay is None and ctx.driver is not None:
            for k in mine:
                probe = probes.get(k["id"])
                if probe is None:
                    continue
                still, what = probe(ctx)
                if still:
                    lines.append("KNOWN-FINDING: property=%s %s: %s" % (prop, k["id"], what))
                else:
                    ctx.stale_findings.append(k["id"])

        # ---- classify ----------------------------------------------------------------------
        nviol = 0
        seen_known = set()
        reported = set()
        for desc, rep, sig in ctx.violations:
            if sig is not None and sig in known_sigs:
                k = known_sigs[sig]
                if k["id"] not in seen_known:
                    seen_known.add(k["id"])
                    ctx.known_hits[k["id"]] = desc
                continue
            key = sig or desc
            if key in reported:
                continue
            reported.add(key)
            nviol += 1
            path = common.write_replay(prop, {"property": prop, "kind": "violation", "what": desc,
                                              "seed": seed, "tier": tier, "case": rep})
            lines.append("VIOLATION property=%s replay=%s" % (prop, path))
            print("  violation: %s" % desc[:400], file=sys.stderr)
        if nviol == 0 and (ctx.drifts or broken):
            nviol = 1
            rep = {"property": prop, "kind": "unproved", "seed": seed, "tier": tier,
                   "broken_obligations": [{"name": n, "reason": r} for n, r in broken],
                   "correspondence_failures": [{"component": c, "what": d, "case": r}
                                               for c, d, r in ctx.drifts[:5]]}
            path = common.write_replay(prop, rep)
            lines.append("VIOLATION property=%s replay=%s no-failing-input-found" % (prop, path))
            for n, r in broken[:5]:
                print("  broken obligation %s: %s" % (n, r[:300]), file=sys.stderr)
            for c, d, _ in ctx.drifts[:5]:
                print("  correspondence %s: %s" % (c, d[:300]), file=sys.stderr)

        # ---- evidence ----------------------------------------------------------------------
        cov = {
            "obligations": len(theorems),
            "discharged": discharged,
            "checker_cmd": "cd lean && lake build && lake env lean <#print axioms %s theorems>" % prop,
            "trusted_base": TRUSTED_BASE + list(getattr(mod, "TRUSTED", [])),
            "theorems": {t: axioms.get(t) for t in theorems},
            "evaluations": ctx.evaluations,
            "distinct_nontrivial": len(ctx._distinct),
            "traces_validated_against_impl": ctx.traces or ctx.evaluations,
            "rule": getattr(mod, "RULE", ""),
            "samples": ctx.samples or [{"note": "no case generated"}],
            "exhaustive": bool(ctx.exhaustive),
            "input_distribution": ctx.hist,
            "correspondence_failures": len(ctx.drifts),
            "monitor_violations": len(ctx.violations),
            "known_findings_seen": sorted(set(list(ctx.known_hits) + [ln.split()[2].rstrip(":") for ln in lines
                                                                       if ln.startswith("KNOWN-FINDING")])),
            "stale_known_findings": ctx.stale_findings,
            "facts": {k: v for k, v in info.facts.items() if k in ("featureOrder", "unparsed")},
            "lean_build_s": round(info.wall, 1),
            "notes": ctx.notes,
        }
        cov.update(ctx.extra)
        common.write_evidence(prop, tier, seed, cov, list(getattr(mod, "ASSUMPTIONS", [])),
                              time.monotonic() - t0, nviol)
        for ln in lines:
            print(ln)
        print("%s %s: %d evaluations, %d/%d obligations, %d violation(s), %.1fs" % (
            prop, tier, ctx.evaluations, discharged, len(theorems), nviol, time.monotonic() - t0),
            file=sys.stderr)
        return 1 if nviol else 0
    finally:
        ctx.cleanup()


def _build_excerpt(log):
    errs = [ln for ln in log.split("\n") if "error" in ln]
    return " | ".join(errs[:4])[:800]


def main():
    ap = argparse.ArgumentParser()
    ap.add_argument("prop", nargs="?")
    ap.add_argument("--tier", default=os.environ.get("VERIF_TIER", "quick"))
    ap.add_argument("--replay")
    ap.add_argument("--setup", action="store_true")
    a = ap.parse_args()
    common.setup_env()
    try:
        seed = int(os.environ.get("VERIF_SEED", "0"))
    except ValueError:
        seed = 0
    try:
        if a.setup:
            info = common.lean_build(timeout=3000)
            if not info.ok:
                print(info.log[-4000:])
                return 2
            print("setup ok (%.0fs)" % info.wall)
            return 0
        if a.prop not in PROPS:
            print("unknown property %r" % a.prop, file=sys.stderr)
            return 2
        if a.tier not in ("quick", "thorough"):
            a.tier = "quick"
        return run_check(a.prop, a.tier, seed, a.replay)
    except common.InternalError as e:
        print("internal error: %s" % e, file=sys.stderr)
        return 2
    except Exception:
        traceback.print_exc()
        return 2


if __name__ == "__main__":
    sys.exit(main())
