import Ztr.Generated.Facts
import Ztr.Model.Filter
import Ztr.Model.Layers
import Ztr.Props.C08
import Ztr.Lemmas.Layers
import Ztr.Props.C10
import Ztr.Model.Shuffle
import Ztr.Props.C11
