import Ztr.Model.Filter
import Ztr.Props.C08
