import Ztr.Model.Layers
/-
Model of `Runner.ordered_layers` (runner.py) over layer *names*: `tests_by_layer_name` maps names to
suites, and several names may resolve to one layer object (a test names its layer by a dotted name
that is an alias of the object other tests refer to directly).

    layer_names = {}
    for layer_name in self.tests_by_layer_name:
        layer_names.setdefault(layer_from_name(layer_name), []).append(layer_name)
    for layer in order_by_bases(layer_names):
        for layer_name in sorted(layer_names[layer]):
            yield layer_name, layer, self.tests_by_layer_name[layer_name]

Names are code-point lists (Python compares `str` by code point); `layerOf` is `layer_from_name`.
-/
namespace Ztr.Ordered
open Ztr.Layers

abbrev Name := List Nat

def nameLe (a b : Name) : Bool := decide (a ≤ b)

/-- the keys of the dict `layer_names`, in insertion order -/
def keys (layerOf : Name → Nat) (names : List Name) : List Nat := dedupFirst (names.map layerOf)

/-- `layer_names[layer]`: the names registered for a layer, in insertion order -/
def namesOf (layerOf : Name → Nat) (names : List Name) (l : Nat) : List Name :=
  names.filter (fun n => layerOf n == l)

/-- what the loop yields for one layer -/
def block (layerOf : Name → Nat) (names : List Name) (l : Nat) : List (Name × Nat) :=
  (PySort.isort nameLe (namesOf layerOf names l)).map (fun n => (n, l))

/-- `ordered_layers` (without the `-j` placeholder layer) -/
def orderedLayers (G : Graph) (layerOf : Name → Nat) (names : List Name) : List (Name × Nat) :=
  (orderByBases G (keys layerOf names)).flatMap (block layerOf names)

/-- the code before f7718a1: `{layer_from_name(n): n for n in names}` keeps the last name of a layer -/
def lastName (layerOf : Name → Nat) (names : List Name) (l : Nat) : Option Name :=
  (namesOf layerOf names l).getLast?

def orderedLayersOld (G : Graph) (layerOf : Name → Nat) (names : List Name) : List (Name × Nat) :=
  (orderByBases G (keys layerOf names)).flatMap (fun l =>
    match lastName layerOf names l with
    | some n => [(n, l)]
    | none => [])

end Ztr.Ordered
