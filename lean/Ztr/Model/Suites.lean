import Ztr.Model.Filter
/-
Model of `tests_from_suite` (find.py 430-481), `find_tests` grouping (find.py 167-201), the option
normalisation of `get_options` (options.py 692-706) and the layer selection of
`Filter.global_setup` (filter.py 30-66).
-/
namespace Ztr.Suites

/-- a unittest suite tree.  `lvl`/`lyr` = the `level` / `layer` attribute if the object has one
(for a test case: on the instance or its class). -/
inductive Suite
  | leaf (id : Nat) (lvl : Option Int) (lyr : Option Nat)
  | startup (id : Nat)                                 -- a `StartUpFailure`
  | node (lvl : Option Int) (lyr : Option Nat) (kids : List Suite)

/-- a flattened entry: test id, effective level, effective layer (`none` = import failure) -/
abbrev Entry := Nat × Int × Option Nat

mutual
/-- `tests_from_suite` without the level/accept filter: every leaf with its inherited level/layer -/
def flatten (dl : Int) (dly : Nat) : Suite → List Entry
  | .leaf id lvl lyr => [(id, lvl.getD dl, some (lyr.getD dly))]
  | .startup id => [(id, dl, none)]
  | .node lvl lyr kids => flattenList (lvl.getD dl) (lyr.getD dly) kids
def flattenList (dl : Int) (dly : Nat) : List Suite → List Entry
  | [] => []
  | k :: ks => flatten dl dly k ++ flattenList dl dly ks
end

/-- the level predicate, find.py 474-481 -/
def eligible (atLevel : Int) (onlyLevel : Option Int) (level : Int) : Bool :=
  match onlyLevel with
  | none => decide (atLevel ≤ 0) || decide (level ≤ atLevel)
  | some k => decide (level = k)

/-- `tests_from_suite`: the selected (test, layer) pairs of one suite in discovery order;
import failures are yielded unconditionally -/
def testsFromSuite (atLevel : Int) (onlyLevel : Option Int) (acceptTest : Nat → Bool) (unit : Nat)
    (s : Suite) : List (Nat × Option Nat) :=
  ((flatten 1 unit s).filter (fun e =>
    match e.2.2 with
    | none => true
    | some _ => eligible atLevel onlyLevel e.2.1 && acceptTest e.1)).map (fun e => (e.1, e.2.2))

/-- insertion-ordered grouping `suites[layer_name].addTest(test)` -/
def addTo (groups : List (Option Nat × List Nat)) (k : Option Nat) (t : Nat) : List (Option Nat × List Nat) :=
  match groups with
  | [] => [(k, [t])]
  | (k', ts) :: rest => if k' = k then (k', ts ++ [t]) :: rest else (k', ts) :: addTo rest k t

/-- `find_tests`: all suites flattened into one group per layer, in first-seen order -/
def findTests (atLevel : Int) (onlyLevel : Option Int) (acceptTest : Nat → Bool) (unit : Nat)
    (suites : List Suite) : List (Option Nat × List Nat) :=
  (suites.flatMap (testsFromSuite atLevel onlyLevel acceptTest unit)).foldl
    (fun g p => addTo g p.2 p.1) []

/-! ### options -/

structure Opts (P : Type) where
  all : Bool
  atLevel : Int
  onlyLevel : Option Int
  unit : Bool
  nonUnit : Bool
  layer : List (Bool × P)        -- `--layer` patterns, `[]` = option absent

/-- `sys.maxsize` -/
def maxsize : Int := 9223372036854775807

/-- options.py 692-706: `--all` sets `at_level = sys.maxsize`; `-u -f` cancel each other; `-u`
replaces the layer patterns by the unit-layer pattern -/
def normalize {P : Type} (unitPat : P) (o : Opts P) : Opts P :=
  let both := o.unit && o.nonUnit
  let unit := o.unit && !both
  let nonUnit := o.nonUnit && !both
  { all := o.all
    atLevel := if o.all then maxsize else o.atLevel
    onlyLevel := o.onlyLevel
    unit := unit
    nonUnit := nonUnit
    layer := if unit then [(false, unitPat)] else o.layer }

/-- `Filter.global_setup`: is the layer named `n` kept?  `isUnit n` = `n == UNITTEST_LAYER`.
`resume` = the `--resume-layer` of a child process. -/
def layerKept {P N : Type} [DecidableEq N] (m : P → N → Bool) (dot : N → Bool) (isUnit : N → Bool)
    (o : Opts P) (resume : Option N) (n : N) : Bool :=
  let unitOk :=
    if isUnit n then
      (if !o.nonUnit then (if o.layer.isEmpty then true else Filter.accept m dot o.layer n) else false)
    else true
  match resume with
  | some r => unitOk && decide (n = r)
  | none => if o.layer.isEmpty then unitOk else unitOk && Filter.accept m dot o.layer n

end Ztr.Suites
