/-
The standard-stream capture of `TestResult` (runner.py: `_setUpStdStreams`, `_restoreStdStreams`,
`_takeBufferedOutput`, the re-capture after a skip in `addSkip`) as a state machine over *stream
objects*: which object is `sys.stdout` / `sys.stderr`, which capture stream objects the result holds
(`_stdout_buffer`, `_stderr_buffer` - created lazily, dropped when found closed), whether they are
open, what they hold, and the flag `_std_streams_buffered`.

Runner operations and what test code can do to the streams (write, close the stream it finds, put a
stream it saved earlier back, install a stream of its own) are the alphabet; any sequence is a
history.  `Model/Result` abstracts all of this to one Boolean (`captured`); this model is the level
below it, tied to the real methods by operation sequences (harness/corr_streams.py).
-/
namespace Ztr.Streams

/-- a stream object: the original one, a capture stream (identified by its generation), a stream of
the test's own -/
inductive Ref
  | orig
  | buf (gen : Nat)
  | own (n : Nat)
  deriving DecidableEq, Repr

/-- a capture stream object held by the result -/
structure Buf where
  gen : Nat
  closed : Bool := false
  content : List Nat := []       -- tokens, oldest first
  deriving DecidableEq, Repr

inductive Which
  | out | err
  deriving DecidableEq, Repr

structure St where
  out : Ref := .orig                 -- sys.stdout
  err : Ref := .orig                 -- sys.stderr
  bufOut : Option Buf := none        -- self._stdout_buffer
  bufErr : Option Buf := none        -- self._stderr_buffer
  flag : Bool := false               -- self._std_streams_buffered
  nextGen : Nat := 0
  raised : Bool := false             -- an exception left one of the runner's own operations
  shown : List Nat := []             -- tokens written straight to an original stream
  deriving DecidableEq, Repr

inductive Op
  | setUp                            -- `_setUpStdStreams()` (startTest)
  | restore                          -- `_restoreStdStreams()` (result events, stopTest)
  | skipReport                       -- the stream juggling of `addSkip` when startTest had been called
  | write (w : Which) (tok : Nat)    -- test code writes to sys.stdout / sys.stderr
  | close (w : Which)                -- test code closes the stream it finds as sys.stdout / sys.stderr
  | install (w : Which) (r : Ref)    -- test code sets sys.stdout / sys.stderr to a stream it holds
  deriving DecidableEq, Repr

def St.sys (s : St) : Which → Ref
  | .out => s.out
  | .err => s.err

def St.setSys (s : St) (w : Which) (r : Ref) : St :=
  match w with
  | .out => { s with out := r }
  | .err => { s with err := r }

/-- the reference to a held capture stream -/
def refOf : Option Buf → Option Ref
  | none => none
  | some b => some (.buf b.gen)

/-- is `r` the object held in this attribute? (`sys.stdout is self._stdout_buffer`, guarded against None) -/
def isHeld (r : Ref) (b : Option Buf) : Bool :=
  match b with
  | none => false
  | some b => r == .buf b.gen

/-- `_takeBufferedOutput`: (what is left in the attribute, the text handed back) -/
def take : Option Buf → Option Buf × List Nat
  | none => (none, [])
  | some b => if b.closed then (none, []) else (some { b with content := [] }, b.content)

/-- `_setUpStdStreams` -/
def setUp (buffer : Bool) (s : St) : St :=
  if !buffer then s else
  let (bo, n1) := match s.bufOut with
    | some b => (b, s.nextGen)
    | none => ({ gen := s.nextGen }, s.nextGen + 1)
  let (be, n2) := match s.bufErr with
    | some b => (b, n1)
    | none => ({ gen := n1 }, n1 + 1)
  { s with bufOut := some bo, bufErr := some be, out := .buf bo.gen, err := .buf be.gen, flag := true, nextGen := n2 }

/-- does `_restoreStdStreams` act? -/
def restoreActs (buffer : Bool) (s : St) : Bool :=
  buffer && (s.flag || isHeld s.out s.bufOut || isHeld s.err s.bufErr)

/-- `_restoreStdStreams`: the new state and what it returns (`none` = `(None, None)`) -/
def restore (buffer : Bool) (s : St) : St × Option (List Nat × List Nat) :=
  if restoreActs buffer s then
    let to := take s.bufOut
    let te := take s.bufErr
    ({ s with flag := false, out := .orig, err := .orig, bufOut := to.1, bufErr := te.1 }, some (to.2, te.2))
  else (s, none)

/-- `addSkip` after `startTest`: report on the real streams, then go on capturing -/
def skipReport (buffer : Bool) (s : St) : St :=
  if buffer && s.flag then
    match s.bufOut, s.bufErr with
    | some bo, some be => { s with out := .buf bo.gen, err := .buf be.gen }
    | _, _ => { s with raised := true }       -- `sys.stdout = None`: unreachable (see `Inv`)
  else s

/-- append to the held capture stream `r` designates, if it is open -/
def writeBuf (r : Ref) (tok : Nat) : Option Buf → Option Buf
  | some b => if r == .buf b.gen && !b.closed then some { b with content := b.content ++ [tok] } else some b
  | none => none

def closeBuf (r : Ref) : Option Buf → Option Buf
  | some b => if r == .buf b.gen then some { b with closed := true, content := [] } else some b
  | none => none

def step (buffer : Bool) (s : St) : Op → St
  | .setUp => setUp buffer s
  | .restore => (restore buffer s).1
  | .skipReport => skipReport buffer s
  | .write w tok =>
    match s.sys w with
    | .orig => { s with shown := s.shown ++ [tok] }
    | .own _ => s
    | r => { s with bufOut := writeBuf r tok s.bufOut, bufErr := writeBuf r tok s.bufErr }
  | .close w =>
    match s.sys w with
    | .buf g => { s with bufOut := closeBuf (.buf g) s.bufOut, bufErr := closeBuf (.buf g) s.bufErr }
    | _ => s                                -- (the world only closes capture streams)
  | .install w r => s.setSys w r

def run (buffer : Bool) (ops : List Op) (s : St := {}) : St := ops.foldl (step buffer) s

/-- what `_restoreStdStreams` returns at each `restore` of a history, in order -/
def returns (buffer : Bool) : List Op → St → List (Option (List Nat × List Nat))
  | [], _ => []
  | .restore :: ops, s => (restore buffer s).2 :: returns buffer ops (restore buffer s).1
  | op :: ops, s => returns buffer ops (step buffer s op)

/-! The two earlier versions of the code, kept to witness the defects they had. -/

/-- before e2eb74d: the contents are read before the real streams are put back, closed or not -/
def restoreV0 (buffer : Bool) (s : St) : St :=
  if buffer && s.bufOut.isSome && (s.flag || isHeld s.out s.bufOut || isHeld s.err s.bufErr) then
    let s := { s with flag := false }
    if (s.bufOut.any (·.closed)) || (s.bufErr.any (·.closed)) then { s with raised := true }   -- getvalue(): ValueError
    else { s with out := .orig, err := .orig, bufOut := (take s.bufOut).1, bufErr := (take s.bufErr).1 }
  else s

/-- e2eb74d: closed streams are dropped, but the guard still reads `_stdout_buffer is not None` only and
`_takeBufferedOutput` dereferences a dropped attribute -/
def restoreV1 (buffer : Bool) (s : St) : St :=
  if buffer && s.bufOut.isSome && (s.flag || isHeld s.out s.bufOut || isHeld s.err s.bufErr) then
    if s.bufErr.isNone then { s with flag := false, out := .orig, err := .orig, raised := true }  -- None.closed
    else { s with flag := false, out := .orig, err := .orig, bufOut := (take s.bufOut).1, bufErr := (take s.bufErr).1 }
  else s

end Ztr.Streams
