/-
The environment of the runner's `TestResult`: CPython 3.12.1 `unittest.TestCase.run`
(case.py 599-667, `_Outcome.testPartExecutor` 52-83, `subTest`, `doCleanups`) as a function from a
test *script* to the sequence of calls it makes on the result object, interleaved with the moments
at which test code runs.  Validated against the real `unittest` on every run (corr_world: proto).
-/
namespace Ztr.Proto

/-- what a part of a test raises.  `interrupt` = `KeyboardInterrupt` (re-raised by unittest) -/
inductive Exc
  | fail | error | skip | interrupt
  deriving DecidableEq, Repr

/-- the phases of a test in which user code runs -/
inductive Phase
  | setUp | body | sub (k : Nat) | tearDown | cleanup (k : Nat)
  deriving DecidableEq, Repr

/-- one `testPartExecutor` region: what it writes to the std streams, then what it raises -/
structure Part where
  writes : List (Bool × Nat) := []     -- (to stderr?, token)
  exc : Option Exc := none
  deriving DecidableEq, Repr

structure TestDef where
  id : Nat
  count : Nat := 1                     -- `countTestCases()`
  decoSkip : Bool := false             -- `@unittest.skip`
  expectFail : Bool := false           -- `@unittest.expectedFailure`
  setUp : Part := {}
  subs : List Part := []               -- `with self.subTest(): …` blocks at the start of the body
  body : Part := {}                    -- the rest of the body
  tearDown : Part := {}
  cleanups : List Part := []           -- in execution order
  deriving DecidableEq, Repr

/-- calls on the result object and code-execution moments, in order -/
inductive Op
  | startTest | stopTest
  | code (ph : Phase) (writes : List (Bool × Nat))
  | addSuccess | addFailure | addError | addSkip
  | addSubTest (exc : Option Exc)      -- `none` = the subtest passed; only `fail`/`error` otherwise
  | addSubSkip                          -- `addSkip(subtest, reason)`
  | addExpectedFailure | addUnexpectedSuccess
  | raiseInterrupt                      -- KeyboardInterrupt leaves `TestCase.run` (after its `finally`)
  deriving DecidableEq, Repr

/-- `_Outcome` -/
structure Outcome where
  success : Bool := true
  expecting : Bool := false
  expectedFailure : Bool := false
  interrupted : Bool := false
  deriving Repr

/-- a non-subtest `testPartExecutor` region -/
def runPart (ph : Phase) (p : Part) (o : Outcome) : List Op × Outcome :=
  let ops := [Op.code ph p.writes]
  match p.exc with
  | none => (ops, o)
  | some .interrupt => (ops, { o with interrupted := true })
  | some .skip => (ops ++ [.addSkip], { o with success := false })
  | some .fail =>
    if o.expecting then (ops, { o with expectedFailure := true })
    else (ops ++ [.addFailure], { o with success := false })
  | some .error =>
    if o.expecting then (ops, { o with expectedFailure := true })
    else (ops ++ [.addError], { o with success := false })

/-- the subtests of a body, in order; returns whether `_ShouldStop` ended the body -/
def runSubs : Nat → List Part → Outcome → List Op × Outcome × Bool
  | _, [], o => ([], o, false)
  | k, p :: ps, o =>
    let ops := [Op.code (.sub k) p.writes]
    match p.exc with
    | some .interrupt => (ops, { o with interrupted := true }, true)
    | none =>
      -- `old_success = success; success = True; …; else: addSubTest(None); success = success and old`
      let r := runSubs (k + 1) ps o
      (ops ++ [.addSubTest none] ++ r.1, r.2.1, r.2.2)
    | some .skip =>
      let o' := { o with success := false }
      let r := runSubs (k + 1) ps o'
      (ops ++ [.addSubSkip] ++ r.1, r.2.1, r.2.2)
    | some e =>
      if o.expecting then
        -- recorded as the expected failure; `subTest` then raises `_ShouldStop`
        (ops, { o with expectedFailure := true }, true)
      else
        let o' := { o with success := false }
        let r := runSubs (k + 1) ps o'
        (ops ++ [.addSubTest (some e)] ++ r.1, r.2.1, r.2.2)

def runCleanups : Nat → List Part → Outcome → List Op × Outcome
  | _, [], o => ([], o)
  | k, p :: ps, o =>
    let r := runPart (.cleanup k) p o
    if r.2.interrupted then r
    else
      let r2 := runCleanups (k + 1) ps r.2
      (r.1 ++ r2.1, r2.2)

/-- the test method: its subtests, then the rest of the body (skipped after `_ShouldStop` or an
interrupt) -/
def methodOps (t : TestDef) (o : Outcome) : List Op × Outcome :=
  let rs := runSubs 0 t.subs o
  if rs.2.2 then (rs.1, rs.2.1)
  else (rs.1 ++ (runPart .body t.body rs.2.1).1, (runPart .body t.body rs.2.1).2)

/-- the part of `TestCase.run` between a successful `setUp` and `doCleanups`: the test method and
`tearDown` -/
def bodyBlock (t : TestDef) (o1 : Outcome) : List Op × Outcome :=
  if o1.success then
    let rb := methodOps t { o1 with expecting := t.expectFail }
    if rb.2.interrupted then rb
    else
      let rt := runPart .tearDown t.tearDown { rb.2 with expecting := false }
      (rb.1 ++ rt.1, rt.2)
  else ([], o1)

/-- the closing result of a test whose parts all ran -/
def finalOps (t : TestDef) (o : Outcome) : List Op :=
  if o.success then
    (if t.expectFail then (if o.expectedFailure then [Op.addExpectedFailure] else [Op.addUnexpectedSuccess])
     else [Op.addSuccess])
  else []

/-- `TestCase.run(result)` -/
def run (t : TestDef) : List Op :=
  if t.decoSkip then [.addSkip, .stopTest]
  else
    let r1 := runPart .setUp t.setUp {}
    if r1.2.interrupted then .startTest :: (r1.1 ++ [] ++ .stopTest :: [.raiseInterrupt])
    else
      let b := bodyBlock t r1.2
      if b.2.interrupted then .startTest :: ((r1.1 ++ b.1) ++ [] ++ .stopTest :: [.raiseInterrupt])
      else
        let rc := runCleanups 0 t.cleanups b.2
        if rc.2.interrupted then .startTest :: ((r1.1 ++ b.1 ++ rc.1) ++ [] ++ .stopTest :: [.raiseInterrupt])
        else .startTest :: ((r1.1 ++ b.1 ++ rc.1) ++ finalOps t rc.2 ++ .stopTest :: [])

end Ztr.Proto
