/-
Model of `resume_tests` (runner.py 718-795) as a labelled transition system: the parent's polling loop
(`iter`), and what the spawned threads / children do in between, in any order and interleaving.

Children are numbered 0 … k-1 in `layers` order.  A label whose precondition does not hold is a no-op,
so every label sequence is a schedule.
-/
namespace Ztr.Sched

abbrev Line := Nat     -- a stdout line of a child (token); dot lines are a separate label

inductive Label
  | iter                          -- one pass of the parent's `while ready_threads or running_threads`
  | line (i : Nat) (ln : Line)    -- child `i` writes a (non-dots) stdout line, relayed to its result
  | dots (i : Nat)                -- child `i` writes a keep-alive line of dots
  | done (i : Nat)                -- `result.done = True` in the thread's `finally`
  | dead (i : Nat)                -- the thread is no longer alive
  deriving Repr

structure SS where
  n : Nat                                  -- `options.processes`
  k : Nat                                  -- number of layers to resume
  ready : List Nat                         -- `ready_threads`
  running : List Nat                       -- `running_threads`
  doneF : Nat → Bool := fun _ => false
  deadF : Nat → Bool := fun _ => false
  buf : Nat → List Line := fun _ => []     -- `result.stdout`
  cur : Nat := 0                           -- index of `current_result`
  printed : List (Nat × List Line) := []   -- blocks written to the parent's stdout, in order
  marks : Nat := 0                         -- keep-alive marks forwarded (not part of any block)
  maxRunning : Nat := 0                    -- ghost: the largest `len(running_threads)` seen

def init (n k : Nat) : SS := { n := n, k := k, ready := List.range k, running := [] }

/-- `while len(running_threads) < options.processes and ready_threads: start …` -/
def startSome : Nat → SS → SS
  | 0, s => s
  | f + 1, s =>
    match s.ready with
    | [] => s
    | i :: rest =>
      if s.running.length < s.n then startSome f { s with ready := rest, running := s.running ++ [i] }
      else s

/-- `while current_result and current_result.done: stdout.writelines(current_result.stdout); next` -/
def printDone : Nat → SS → SS
  | 0, s => s
  | f + 1, s =>
    if s.cur < s.k ∧ s.doneF s.cur then
      printDone f { s with printed := s.printed ++ [(s.cur, s.buf s.cur)], cur := s.cur + 1 }
    else s

/-- drop the threads that are no longer alive -/
def reap (s : SS) : SS := { s with running := s.running.filter (fun i => !s.deadF i) }

/-- ghost bookkeeping of the largest `running_threads` -/
def note (s : SS) : SS := { s with maxRunning := max s.maxRunning s.running.length }

/-- one pass of the parent loop -/
def iterStep (s : SS) : SS :=
  let s1 := note (startSome s.ready.length s)
  let s2 := reap s1
  printDone (s2.k - s2.cur) s2

def addLine (s : SS) (i : Nat) (ln : Line) : SS :=
  { s with buf := fun j => if j = i then s.buf i ++ [ln] else s.buf j }

def setDone (s : SS) (i : Nat) : SS := { s with doneF := fun j => if j = i then true else s.doneF j }

def setDead (s : SS) (i : Nat) : SS := { s with deadF := fun j => if j = i then true else s.deadF j }

def step (s : SS) : Label → SS
  | .iter => iterStep s
  | .line i ln => if s.running.contains i && !s.doneF i then addLine s i ln else s
  | .dots i => if s.running.contains i && !s.doneF i then { s with marks := s.marks + 1 } else s
  | .done i => if s.running.contains i then setDone s i else s
  | .dead i => if s.running.contains i && s.doneF i then setDead s i else s

def exec (ls : List Label) (s : SS) : SS := ls.foldl step s

/-- the parent's loop condition -/
def finished (s : SS) : Bool := s.ready.isEmpty && s.running.isEmpty

end Ztr.Sched
