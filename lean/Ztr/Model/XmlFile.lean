/-
The name of a report file (formatter.py, `writeXMLReports`, since 2d5a04c): the suite name with `%` written
`%25` and the path separator `/` written `%2F`, plus `.xml`.
    stem = name.replace('%', '%25')
    for sep in {os.sep, os.altsep or os.sep}: stem = stem.replace(sep, f'%{ord(sep):02X}')
(On this platform `os.sep == '/'` and `os.altsep is None`.)  Characters are code points.
-/
namespace Ztr.XmlFile

abbrev Str := List Nat

def pct : Nat := 37      -- '%'
def slash : Nat := 47    -- '/'

/-- one character of the suite name as it appears in the file name -/
def encChar (c : Nat) : Str :=
  if c = pct then [37, 50, 53]            -- "%25"
  else if c = slash then [37, 50, 70]     -- "%2F"
  else [c]

/-- the file name without its `.xml` -/
def stem (name : Str) : Str := name.flatMap encChar

/-- reading a stem back -/
def decode : Str → Str
  | 37 :: 50 :: 53 :: rest => pct :: decode rest
  | 37 :: 50 :: 70 :: rest => slash :: decode rest
  | c :: rest => c :: decode rest
  | [] => []

end Ztr.XmlFile
