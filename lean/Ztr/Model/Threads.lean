/-
Model of the "threads left behind" check: `threadsupport.enumerate` / `ThreadProxy.__eq__` (identity by
ident), the snapshot at `startTest` (runner.py `self._threads = threadsupport.enumerate()`) and the
difference at `stopTest` (alive, not in the snapshot, name not ignored).

The OS assigns thread identifiers; the history gives each thread's identifier explicitly, so reuse
of an identifier is expressible.
-/
namespace Ztr.Threads

structure Th where
  uid : Nat            -- unique per started thread (the harness' own numbering)
  ident : Nat          -- `thread.ident` / key of `sys._current_frames()`
  ignored : Bool       -- the name matches one of the `--ignore-new-thread` patterns
  deriving DecidableEq, Repr

inductive HEv
  | start (th : Th)        -- a thread starts running (through any API)
  | finish (uid : Nat)     -- it is gone from `sys._current_frames()`
  | rename (uid : Nat) (ignored : Bool)
      -- the thread's name changes (`thread.name = …`, or a `_thread` thread registers with `threading` and
      -- turns from `Dummy-<ident>` into `Dummy-<n>`): whether it matches an ignore pattern from now on
  | testStart              -- `startTest`: snapshot
  | testStop               -- `stopTest`: report
  deriving Repr

structure St where
  alive : List Th := []
  snapshot : List Nat := []          -- idents at the last `startTest`
  born : List Nat := []              -- ghost: uids started since the last `startTest`
  reports : List (List Nat) := []    -- uids reported, one list per `stopTest`, oldest first
  spec : List (List Nat) := []       -- ghost: what the property demands

def step (s : St) : HEv → St
  | .start th => { s with alive := s.alive ++ [th], born := s.born ++ [th.uid] }
  | .finish u => { s with alive := s.alive.filter (fun th => th.uid != u) }
  | .rename u b => { s with alive := s.alive.map (fun th => if th.uid == u then { th with ignored := b } else th) }
  | .testStart => { s with snapshot := s.alive.map (·.ident), born := [] }
  | .testStop =>
    { s with
      reports := s.reports ++ [(s.alive.filter (fun th => !s.snapshot.contains th.ident && !th.ignored)).map (·.uid)]
      spec := s.spec ++ [(s.alive.filter (fun th => s.born.contains th.uid && !th.ignored)).map (·.uid)] }

def run (h : List HEv) : St := h.foldl step {}

end Ztr.Threads
