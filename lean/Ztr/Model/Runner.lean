import Ztr.Model.Layers
import Ztr.Model.Result
/-
Model of the layer loop of one runner process:
`Runner.run_tests` (runner.py 287-334), `run_layer` 459-484, `setup_layer` 833-861,
`tear_down_unneeded` 798-824, function `run_tests` 347-456 and `resume_tests`' choice of what to spawn.

A process produces a trace of events; layers that cannot run here are *spawned* (`spawn l n`), and the
same function with `resume := some (l, n)` models the child.
-/
namespace Ztr.Runner
open Ztr.Layers Ztr.Proto Ztr.Result

/-- result of a layer's `tearDown` -/
inductive TD
  | ok | raised | notImpl
  deriving DecidableEq, Repr

inductive Ev
  | setUp (l : Nat) (ok : Bool)                 -- `layer.setUp()` called; did it return?
  | tearDown (l : Nat) (r : TD)                 -- `layer.tearDown()` called
  | test (r : REv)                               -- effects of the test phase (hooks, code, reports)
  | header (l : Nat)                             -- "Running <layer> tests:"
  | summary (ran nfail nerr nskip : Nat)         -- "Ran … tests with …"
  | spawn (l : Nat) (number : Nat)               -- a child is started for layer `l`
  deriving DecidableEq, Repr

structure LayerInfo where
  hasSetUp : Bool
  hasTearDown : Bool
  hasTestSetUp : Bool
  hasTestTearDown : Bool

structure World where
  graph : Graph
  info : Nat → LayerInfo
  /-- does the `k`-th call (from 0, in this process) of `layer.setUp()` raise? -/
  setUpRaises : Nat → Nat → Bool
  /-- outcome of the `k`-th call of `layer.tearDown()` in this process -/
  tearDownResult : Nat → Nat → TD
  /-- `tests_by_layer_name` after discovery, shuffling and filtering: insertion order -/
  groups : List (Nat × List TestDef)
  importErrors : Nat

structure Opts where
  repeat_ : Nat := 1
  stopOnError : Bool := false
  buffer : Bool := false
  processes : Nat := 1
  resume : Option (Nat × Nat) := none     -- (layer, resume_number): this process is a child

/-- an error recorded in `Runner.errors` -/
inductive Err
  | test (t : Nat)            -- an erroring test (or subtest)
  | layerSetUp (l : Nat)
  | layerTearDown (l : Nat)
  | child (l : Nat)           -- "subprocess for <layer>"
  deriving DecidableEq, Repr

/-- ghost: what `setup_layers` held when an event was emitted, and (for test events) the layer whose
tests are running.  Never read by the model itself; the theorems of C01 are stated about it and the
correspondence compares it with the real `setup_layers` dict found on the Python stack. -/
structure Snap where
  setup : List Nat
  layer : Option Nat := none
  deriving DecidableEq, Repr

structure PS where
  setup : List Nat := []            -- `setup_layers`, insertion order
  trace : List Ev := []             -- oldest first
  glog : List (Ev × Snap) := []     -- ghost: the trace, each event with its snapshot
  ran : Nat := 0
  failures : List Nat := []         -- test ids (failures and unexpected successes)
  errors : List Err := []
  skipped : Nat := 0
  aborted : Bool := false
  interrupted : Bool := false

def PS.emit (s : PS) (e : Ev) : PS :=
  { s with trace := s.trace ++ [e], glog := s.glog ++ [(e, { setup := s.setup })] }

def countSetUp (l : Nat) : List Ev → Nat
  | [] => 0
  | .setUp l' _ :: r => (if l' = l then 1 else 0) + countSetUp l r
  | _ :: r => countSetUp l r

def countTearDown (l : Nat) : List Ev → Nat
  | [] => 0
  | .tearDown l' _ :: r => (if l' = l then 1 else 0) + countTearDown l r
  | _ :: r => countTearDown l r

/-- `tear_down_unneeded`; returns the state and whether `CanNotTearDown` was raised -/
def tearDownList (w : World) (optional : Bool) : List Nat → PS → PS × Bool
  | [], s => (s, false)
  | l :: ls, s =>
    -- `finally: del setup_layers[layer]`
    let forget (s : PS) : PS := { s with setup := s.setup.filter (· != l) }
    if (w.info l).hasTearDown then
      let r := w.tearDownResult l (countTearDown l s.trace)
      let s := s.emit (.tearDown l r)
      match r with
      | .ok => tearDownList w optional ls (forget s)
      | .raised => tearDownList w optional ls (forget { s with errors := s.errors ++ [.layerTearDown l] })
      | .notImpl => if optional then tearDownList w optional ls (forget s) else (forget s, true)
    else tearDownList w optional ls (forget s)

def tearDownUnneeded (w : World) (needed : List Nat) (optional : Bool) (s : PS) : PS × Bool :=
  let unneeded := s.setup.filter (fun l => !needed.contains l)
  let order := (orderByBases w.graph unneeded).reverse
  tearDownList w optional order s

/-- the loop `for base in layer.__bases__: setup_layer(base)`; stops at the first failure -/
def setupBases (f : Nat → PS → PS × Bool) : List Nat → PS → PS × Bool
  | [], s => (s, true)
  | b :: bs, s =>
    let r := f b s
    if r.2 then setupBases f bs r.1 else r

/-- `setup_layer`: bases first, mark after `setUp` returned.  Returns `false` when a `setUp` raised.
Fuel makes the recursion structural (`l + 1` suffices for well-formed graphs). -/
def setupLayerF (w : World) : Nat → Nat → PS → PS × Bool
  | 0, _, s => (s, true)
  | f + 1, l, s =>
    if s.setup.contains l then (s, true)
    else
      let r := setupBases (setupLayerF w f) (w.graph.bases l) s
      if !r.2 then r
      else
        let s := r.1
        if (w.info l).hasSetUp then
          let raises := w.setUpRaises l (countSetUp l s.trace)
          let s := s.emit (.setUp l (!raises))
          if raises then (s, false) else ({ s with setup := s.setup ++ [l] }, true)
        else ({ s with setup := s.setup ++ [l] }, true)

def setupLayer (w : World) (l : Nat) (s : PS) : PS × Bool := setupLayerF w (l + 1) l s

/-- configuration of the `TestResult` of layer `l` -/
def resultCfg (w : World) (o : Opts) (l : Nat) : Cfg :=
  let layers := orderByBases w.graph (gather w.graph l)
  { buffer := o.buffer, stopOnError := o.stopOnError,
    hooksUp := layers.filter (fun x => (w.info x).hasTestSetUp),
    hooksDown := layers.reverse.filter (fun x => (w.info x).hasTestTearDown) }

/-- function `run_tests`: the repeat loop over fresh `TestResult`s -/
def runIterations (w : World) (o : Opts) (l : Nat) (tests : List TestDef) : Nat → PS → PS
  | 0, s => s
  | n + 1, s =>
    let c := resultCfg w o l
    let r := runTests c tests {}
    let s := { s with
      trace := s.trace ++ r.evs.map Ev.test
      glog := s.glog ++ r.evs.map (fun e => (Ev.test e, ({ setup := s.setup, layer := some l } : Snap))) }
    if r.aborted then { s with aborted := true }
    else if r.interrupted then { s with interrupted := true }
    else
      let nfail := r.failures.length + r.unexpected.length
      let s := { s with
        failures := s.failures ++ r.failures ++ r.unexpected
        errors := s.errors ++ r.errors.map Err.test
        skipped := s.skipped + r.skipped.length
        ran := r.testsRun }    -- placeholder: overwritten by the caller with `ran +=`
      let s := s.emit (.summary r.testsRun nfail (r.errors.length + w.importErrors) r.skipped.length)
      if r.shouldStop then s else runIterations w o l tests n s

/-- `run_layer`; returns the state and whether `CanNotTearDown` was raised -/
def runLayer (w : World) (o : Opts) (l : Nat) (tests : List TestDef) (s : PS) : PS × Bool :=
  let needed := gather w.graph l
  let s := match o.resume with
    | some (_, 0) => s
    | _ => s.emit (.header l)
  let r := tearDownUnneeded w needed false s
  if r.2 then r
  else
    let r2 := setupLayer w l r.1
    if !r2.2 then ({ r2.1 with errors := r2.1.errors ++ [.layerSetUp l] }, false)
    else
      let before := r2.1.ran
      let s := runIterations w o l tests (if o.repeat_ = 0 then 1 else o.repeat_) { r2.1 with ran := 0 }
      -- `self.ran += run_layer(...)`: the value returned is the last iteration's `testsRun`
      ({ s with ran := before + s.ran }, false)

/-- the `while layers_to_run` loop; returns the state and the layers left for `resume_tests` -/
def layerLoop (w : World) (o : Opts) : List (Nat × List TestDef) → PS → PS × List (Nat × List TestDef)
  | [], s => (s, [])
  | (l, tests) :: rest, s =>
    let r := runLayer w o l tests s
    if r.1.aborted || r.1.interrupted then (r.1, [])
    else if r.2 then
      -- CanNotTearDown: in the parent the current layer and all later ones go to subprocesses
      (match o.resume with
       | none => (r.1, (l, tests) :: rest)
       | some _ => layerLoop w o rest r.1)   -- a child falls through (`layers_to_run.pop(0)`)
    else if o.processes > 1 then (r.1, rest)
    else if o.stopOnError && (!r.1.failures.isEmpty || !r.1.errors.isEmpty) then (r.1, [])
    else layerLoop w o rest r.1

/-- `ordered_layers` of this process -/
def orderedLayers (w : World) (o : Opts) : List (Nat × List TestDef) :=
  let groups : List (Nat × List TestDef) := match o.resume with
    | some (l, _) => w.groups.filter (fun (g : Nat × List TestDef) => g.1 == l)
    | none => w.groups
  let order := orderByBases w.graph (groups.map (·.1))
  order.filterMap (fun l => (groups.find? (fun (g : Nat × List TestDef) => g.1 == l)))

/-- `resume_tests`: one child per remaining layer, numbered from `int(processes > 1)`;
under `--stop-on-error` no further child is started once a failure or error is known — which
children report failures is a parameter (`childBad l`). -/
def spawnAll (o : Opts) (childBad : Nat → Bool) : List (Nat × List TestDef) → Nat → PS → PS
  | [], _, s => s
  | (l, _) :: rest, n, s =>
    if o.stopOnError && o.processes ≤ 1 && (!s.failures.isEmpty || !s.errors.isEmpty) then s
    else
      let s := s.emit (.spawn l n)
      let s := if childBad l then { s with errors := s.errors ++ [.child l] } else s
      spawnAll o childBad rest (n + 1) s

structure Outcome where
  trace : List Ev            -- oldest first
  ran : Nat
  failures : List Nat
  errors : List Err
  skipped : Nat
  failed : Bool
  aborted : Bool
  interrupted : Bool
  leftover : List Nat        -- `setup_layers` at the very end (always empty unless aborted)

/-- the final state of `Runner.run_tests`.  `childBad l` tells whether the child for layer `l` ends up
reporting a failure or an error (only its effect on the parent's stop-on-error decision is modelled
here; the children's results are merged by the harness / `Model.Channel`). -/
def finalState (w : World) (o : Opts) (childBad : Nat → Bool) : PS :=
  let layers := orderedLayers w o
  -- the parent of a `-j N` run first "runs" the empty layer
  let parentJ := o.processes > 1 && o.resume.isNone
  let s0 : PS := if parentJ then ({} : PS).emit (.summary 0 0 w.importErrors 0) else {}
  let r := if parentJ then (s0, layers) else layerLoop w o layers s0
  if r.1.aborted || r.1.interrupted then r.1
  else
    let s := if o.resume.isNone then spawnAll o childBad r.2 (if o.processes > 1 then 1 else 0) r.1 else r.1
    (tearDownUnneeded w [] true s).1

/-- `self.failed = bool(self.import_errors or self.failures or self.errors)` and what is reported -/
def outcomeOf (w : World) (s : PS) : Outcome :=
  { trace := s.trace, ran := s.ran, failures := s.failures, errors := s.errors, skipped := s.skipped,
    failed := w.importErrors > 0 || !s.failures.isEmpty || !s.errors.isEmpty,
    aborted := s.aborted, interrupted := s.interrupted, leftover := s.setup }

/-- `Runner.run_tests` of one process -/
def runProcess (w : World) (o : Opts) (childBad : Nat → Bool) : Outcome :=
  outcomeOf w (finalState w o childBad)

/-! ### the parts of `finalState`, named -/

def fsStart (w : World) (o : Opts) : PS :=
  if o.processes > 1 && o.resume.isNone then ({} : PS).emit (.summary 0 0 w.importErrors 0) else {}

/-- the state after the layer loop of this process, with the layers left for `resume_tests` -/
def fsLoop (w : World) (o : Opts) : PS × List (Nat × List TestDef) :=
  if o.processes > 1 && o.resume.isNone then (fsStart w o, orderedLayers w o)
  else layerLoop w o (orderedLayers w o) (fsStart w o)

def fsSpawned (w : World) (o : Opts) (cb : Nat → Bool) : PS :=
  if o.resume.isNone then spawnAll o cb (fsLoop w o).2 (if o.processes > 1 then 1 else 0) (fsLoop w o).1
  else (fsLoop w o).1

end Ztr.Runner
