/-
Model of `zope.testrunner.digraph.DiGraph.sccs` (digraph.py 111-185): the iterative Tarjan
algorithm as a step machine, one step per iteration of the inner `while visits` loop (or of the outer
`while unvisited` loop when `visits` is empty).

Nodes are natural numbers.  Python iterates over sets; the iteration orders are explicit parameters:
`order` = iteration order of `self._nodes.copy()`, `nbrs n` = iteration order of
`self._neighbors.get(n, ())` (unknown targets already dropped by `add_neighbors`).
Lists used as Python stacks (`ancestors`, `stack`, `visits`) keep their top at the head.
-/
namespace Ztr.Digraph

structure St where
  unvisited : List Nat
  num : Nat → Option Nat           -- `state[n].dfs`; `none` = not yet in `state`
  low : Nat → Nat                  -- `state[n].low`
  stacked : Nat → Bool             -- `state[n].stacked`
  ancestors : List Nat
  stack : List Nat
  visits : List (Option Nat)       -- `none` = `rtn_marker`
  counter : Nat
  out : List (List Nat)            -- yielded components, most recent first

def init (order : List Nat) : St :=
  { unvisited := order, num := fun _ => none, low := fun _ => 0, stacked := fun _ => false,
    ancestors := [], stack := [], visits := [], counter := 0, out := [] }

def upd {β : Type} (f : Nat → β) (k : Nat) (v : β) : Nat → β := fun x => if x = k then v else f x

/-- `while True: n = stack.pop(); …; scc.append(n); if n is node: break` —
returns the component in pop order and the remaining stack -/
def popUntil (node : Nat) : List Nat → List Nat → List Nat × List Nat
  | [], acc => (acc.reverse, [])
  | n :: rest, acc => if n = node then ((n :: acc).reverse, rest) else popUntil node rest (n :: acc)

/-- lower `low p` to `v` if smaller -/
def lowerLow (s : St) (p v : Nat) : St :=
  if v < s.low p then { s with low := upd s.low p v } else s

/-- state after `visits.pop(); node = ancestors.pop()` -/
def popFrame (s : St) (vs : List (Option Nat)) (anc : List Nat) : St :=
  { s with visits := vs, ancestors := anc }

/-- state after the `while True: n = stack.pop() …` loop produced `r = (scc, rest)` -/
def popScc (s : St) (r : List Nat × List Nat) : St :=
  { s with stack := r.2, stacked := fun x => if x ∈ r.1 then false else s.stacked x }

/-- `yield scc` -/
def emit (s : St) (scc : List Nat) : St := { s with out := scc :: s.out }

/-- `if low < pstate.low: pstate.low = low` for the new top of `ancestors` (nothing when empty) -/
def foldIntoParent (s : St) (node : Nat) : St :=
  match s.ancestors with
  | [] => s
  | p :: _ => lowerLow s p (s.low node)

/-- first visit of an unvisited node -/
def expand (nbrs : Nat → List Nat) (s : St) (node : Nat) (vs : List (Option Nat)) : St :=
  { s with
    unvisited := s.unvisited.erase node
    num := upd s.num node (some s.counter)
    low := upd s.low node s.counter
    counter := s.counter + 1
    ancestors := node :: s.ancestors
    stack := node :: s.stack
    stacked := upd s.stacked node true
    visits := (nbrs node).reverse.map some ++ none :: vs }

/-- the triviality test of digraph.py 397-401 on a popped component -/
def isTrivialScc (nbrs : Nat → List Nat) : List Nat → Bool
  | [n] => !(nbrs n).contains n
  | _ => false

/-- one loop iteration; `none` = the generator is exhausted -/
def step (trivial : Bool) (nbrs : Nat → List Nat) (s : St) : Option St :=
  match s.visits with
  | [] =>
    match s.unvisited with
    | [] => none
    | n :: _ => some { s with visits := [some n] }
  | none :: vs =>
    match s.ancestors with
    | [] => none        -- unreachable: a marker is scheduled only together with an ancestor
    | node :: anc =>
      let s1 := popFrame s vs anc
      if s.low node = (s.num node).getD 0 then
        -- SCC root
        let r := popUntil node s.stack []
        let s2 := popScc s1 r
        if !trivial && isTrivialScc nbrs r.1 then
          some s2       -- `continue`: trivial component ignored
        else
          some (foldIntoParent (emit s2 r.1) node)
      else
        some (foldIntoParent s1 node)
  | some node :: vs =>
    match s.num node with
    | some d =>
      -- already visited
      let s1 := { s with visits := vs }
      if s.stacked node then
        match s.ancestors with
        | [] => some s1   -- unreachable
        | p :: _ => some (lowerLow s1 p d)
      else some s1
    | none => some (expand nbrs s node vs)

/-- run for at most `fuel` steps; returns the final state and whether the machine halted -/
def run (trivial : Bool) (nbrs : Nat → List Nat) : Nat → St → St × Bool
  | 0, s => (s, false)
  | f + 1, s =>
    match step trivial nbrs s with
    | none => (s, true)
    | some s' => run trivial nbrs f s'

/-- `list(g.sccs(trivial))` for nodes in iteration order `order`; `fuel` bounds the steps -/
def sccs (trivial : Bool) (order : List Nat) (nbrs : Nat → List Nat) (fuel : Nat) : List (List Nat) × Bool :=
  let r := run trivial nbrs fuel (init order)
  (r.1.out.reverse, r.2)

/-- steps that always suffice: per node one outer step, one expansion, one return; per edge one
visit; plus the final exhausted step -/
def fuelFor (order : List Nat) (nbrs : Nat → List Nat) : Nat :=
  3 * order.length + (order.map (fun n => (nbrs n).length)).sum + 3

end Ztr.Digraph
