import Ztr.Model.Proto
/-
Model of `zope.testrunner.runner.TestResult` (runner.py): what it does for each call unittest makes on
it.  State attributes that Python creates/deletes dynamically are explicit flags; an operation the
Python code could not perform (AttributeError) sets `aborted`.
-/
namespace Ztr.Result
open Ztr.Proto

/-- kinds of recorded bad outcomes -/
inductive Bad
  | failure | error | unexpectedSuccess | subFailure | subError
  deriving DecidableEq, Repr

/-- observable effects, in order -/
inductive REv
  | hookSetUp (l : Nat) (streamsOrig : Bool)      -- `layer.testSetUp()`; are sys.stdout/stderr the originals?
  | hookTearDown (l : Nat) (streamsOrig : Bool)   -- `layer.testTearDown()`
  | code (t : Nat) (ph : Phase)                   -- user code of test `t` runs
  | leak (t : Nat) (tok : Nat)                    -- a token reaches the real stream directly
  | report (t : Nat) (b : Bad) (toks : List Nat)  -- a failure/error report carrying captured output
  | skipped (t : Nat)
  | passed (t : Nat)                              -- test_success (addSuccess / addExpectedFailure)
  | tstart (t : Nat)                              -- `test(result)` is entered
  | tend (t : Nat)                                -- `test(result)` is left
  deriving DecidableEq, Repr

structure Cfg where
  buffer : Bool
  stopOnError : Bool
  hooksUp : List Nat          -- layers of `self.layers` that define testSetUp, bases first
  hooksDown : List Nat        -- layers that define testTearDown, in `self.layers[-1::-1]` order

structure RS where
  hasTestState : Bool := false
  hasStartTime : Bool := false
  testsRun : Nat := 0
  shouldStop : Bool := false
  failures : List Nat := []          -- test ids, one entry per recorded failure (incl. failing subtests)
  errors : List Nat := []
  skipped : List Nat := []
  unexpected : List Nat := []
  captured : Bool := false           -- sys.stdout / sys.stderr are the capture buffers
  buf : List Nat := []               -- tokens in the buffers
  aborted : Bool := false
  interrupted : Bool := false        -- KeyboardInterrupt is propagating
  evs : List REv := []               -- oldest first

def RS.emit (s : RS) (e : REv) : RS := { s with evs := s.evs ++ [e] }

/-- `_setUpStdStreams` -/
def setUpStreams (c : Cfg) (s : RS) : RS := { s with captured := c.buffer || s.captured }

/-- `_restoreStdStreams`: restores only while the buffers are installed; returns the drained tokens -/
def restoreStreams (c : Cfg) (s : RS) : RS × List Nat :=
  ({ s with captured := s.captured && !c.buffer, buf := if c.buffer && s.captured then [] else s.buf },
   if c.buffer && s.captured then s.buf else [])

def stopIf (c : Cfg) (s : RS) : RS := { s with shouldStop := s.shouldStop || c.stopOnError }

/-- `testSetUp()`: the hook of every layer of `self.layers` that has one, bases first -/
def callHooksUp (c : Cfg) (s : RS) : RS :=
  { s with evs := s.evs ++ c.hooksUp.map (fun l => REv.hookSetUp l (!s.captured)) }

/-- `testTearDown()`: the hooks in `self.layers[-1::-1]` order -/
def callHooksDown (c : Cfg) (s : RS) : RS :=
  { s with evs := s.evs ++ c.hooksDown.map (fun l => REv.hookTearDown l (!s.captured)) }

/-- user code writes tokens: captured or straight through -/
def writeToks (t : Nat) (s : RS) (ws : List (Bool × Nat)) : RS :=
  { s with
    buf := if s.captured then s.buf ++ ws.map (·.2) else s.buf
    evs := if s.captured then s.evs else s.evs ++ ws.map (fun w => REv.leak t w.2) }

/-- `unittest.TestResult.addFailure/addError/addSubTest/addUnexpectedSuccess`: the lists -/
def record (t : Nat) (b : Bad) (s : RS) : RS :=
  { s with
    failures := if b = .failure ∨ b = .subFailure then s.failures ++ [t] else s.failures
    errors := if b = .error ∨ b = .subError then s.errors ++ [t] else s.errors
    unexpected := if b = .unexpectedSuccess then s.unexpected ++ [t] else s.unexpected }

def bad (c : Cfg) (t : Nat) (b : Bad) (s : RS) : RS :=
  let r := restoreStreams c s
  stopIf c (record t b (r.1.emit (.report t b r.2)))

/-- `addSkip` when `startTest` was not called: set up the expected state, incl. the per-test
layer hooks -/
def skipFallback (c : Cfg) (t : TestDef) (s : RS) : RS :=
  let s := callHooksUp c { s with hasTestState := true }
  { s with testsRun := s.testsRun + t.count, hasStartTime := true }

def noteSkip (t : Nat) (s : RS) : RS := ({ s with skipped := s.skipped ++ [t] }).emit (.skipped t)

/-- `startTest` -/
def startTest (c : Cfg) (t : TestDef) (s : RS) : RS :=
  let s := callHooksUp c { s with hasTestState := true }
  setUpStreams c { s with testsRun := s.testsRun + t.count, hasStartTime := true }

/-- `stopTest` -/
def stopTest (c : Cfg) (s : RS) : RS :=
  let s := callHooksDown c (restoreStreams c s).1
  { s with hasTestState := false, aborted := s.aborted || !s.hasTestState }

/-- one call on the result object (or one moment of user code) for test `t` -/
def step (c : Cfg) (t : TestDef) (s : RS) (op : Op) : RS :=
  if s.aborted then s else
  match op with
  | .startTest => startTest c t s
  | .code ph ws =>
    let s := s.emit (.code t.id ph)
    writeToks t.id s ws
  | .addSuccess =>
    let (s, _) := restoreStreams c s
    if s.hasStartTime then s.emit (.passed t.id) else { s with aborted := true }
  | .addSkip | .addSubSkip =>
    -- when `startTest` was called the skip is reported on the real streams and the capture buffers
    -- stay as they are
    noteSkip t.id (if !s.hasTestState then skipFallback c t s else s)
  | .addSubTest none => s
  | .addSubTest (some e) =>
    if !s.hasStartTime then { s with aborted := true }
    else bad c t.id (if e = .fail then .subFailure else .subError) s
  | .addError => if !s.hasStartTime then { s with aborted := true } else bad c t.id .error s
  | .addFailure => if !s.hasStartTime then { s with aborted := true } else bad c t.id .failure s
  | .addUnexpectedSuccess => if !s.hasStartTime then { s with aborted := true } else bad c t.id .unexpectedSuccess s
  | .addExpectedFailure =>
    let (s, _) := restoreStreams c s
    if s.hasStartTime then s.emit (.passed t.id) else { s with aborted := true }
  | .stopTest => stopTest c s
  | .raiseInterrupt => { s with interrupted := true }

/-- `test(result)` -/
def runTest (c : Cfg) (s : RS) (t : TestDef) : RS :=
  ((Proto.run t).foldl (step c t) (s.emit (.tstart t.id))).emit (.tend t.id)

/-- the loop `for test in tests: if result.shouldStop: break; test(result)` -/
def runTests (c : Cfg) : List TestDef → RS → RS
  | [], s => s
  | t :: ts, s =>
    if s.shouldStop || s.aborted || s.interrupted then s
    else runTests c ts (runTest c s t)

end Ztr.Result
