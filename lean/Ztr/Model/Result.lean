import Ztr.Model.Proto
/-
Model of `zope.testrunner.runner.TestResult` (runner.py): what it does for each call unittest makes on
it.  State attributes that Python creates/deletes dynamically are explicit flags; an operation the
Python code could not perform (AttributeError) sets `aborted`.
-/
namespace Ztr.Result
open Ztr.Proto

/-- kinds of recorded bad outcomes -/
inductive Bad
  | failure | error | unexpectedSuccess | subFailure | subError
  deriving DecidableEq, Repr

/-- observable effects, in order -/
inductive REv
  | hookSetUp (l : Nat) (streamsOrig : Bool)      -- `layer.testSetUp()`; are sys.stdout/stderr the originals?
  | hookTearDown (l : Nat) (streamsOrig : Bool)   -- `layer.testTearDown()`
  | code (t : Nat) (ph : Phase)                   -- user code of test `t` runs
  | leak (t : Nat) (tok : Nat)                    -- a token reaches the real stream directly
  | report (t : Nat) (b : Bad) (toks : List Nat)  -- a failure/error report carrying captured output
  | skipped (t : Nat)
  | passed (t : Nat)                              -- test_success (addSuccess / addExpectedFailure)
  | tstart (t : Nat)                              -- `test(result)` is entered
  | tend (t : Nat)                                -- `test(result)` is left
  deriving DecidableEq, Repr

structure Cfg where
  buffer : Bool
  stopOnError : Bool
  hooksUp : List Nat          -- layers of `self.layers` that define testSetUp, bases first
  hooksDown : List Nat        -- layers that define testTearDown, in `self.layers[-1::-1]` order

structure RS where
  hasTestState : Bool := false
  hasStartTime : Bool := false
  testsRun : Nat := 0
  shouldStop : Bool := false
  failures : List Nat := []          -- test ids, one entry per recorded failure (incl. failing subtests)
  errors : List Nat := []
  skipped : List Nat := []
  unexpected : List Nat := []
  captured : Bool := false           -- sys.stdout / sys.stderr are the capture buffers
  buf : List Nat := []               -- tokens in the buffers
  aborted : Bool := false
  interrupted : Bool := false        -- KeyboardInterrupt is propagating
  evs : List REv := []               -- most recent first

def RS.emit (s : RS) (e : REv) : RS := { s with evs := e :: s.evs }

/-- `_setUpStdStreams` -/
def setUpStreams (c : Cfg) (s : RS) : RS := if c.buffer then { s with captured := true } else s

/-- `_restoreStdStreams`: restores only while the buffers are installed; returns the drained tokens -/
def restoreStreams (c : Cfg) (s : RS) : RS × List Nat :=
  if c.buffer && s.captured then ({ s with captured := false, buf := [] }, s.buf) else (s, [])

def stopIf (c : Cfg) (s : RS) : RS := if c.stopOnError then { s with shouldStop := true } else s

def callHooksUp (c : Cfg) (s : RS) : RS :=
  c.hooksUp.foldl (fun s l => s.emit (.hookSetUp l (!s.captured))) s

def callHooksDown (c : Cfg) (s : RS) : RS :=
  c.hooksDown.foldl (fun s l => s.emit (.hookTearDown l (!s.captured))) s

/-- user code writes tokens: captured or straight through -/
def writeToks (t : Nat) (s : RS) (ws : List (Bool × Nat)) : RS :=
  if s.captured then { s with buf := s.buf ++ ws.map (·.2) }
  else ws.foldl (fun s w => s.emit (.leak t w.2)) s

def bad (c : Cfg) (t : Nat) (b : Bad) (s : RS) : RS :=
  let (s, toks) := restoreStreams c s
  let s := s.emit (.report t b toks)
  let s := match b with
    | .failure | .subFailure => { s with failures := s.failures ++ [t] }
    | .error | .subError => { s with errors := s.errors ++ [t] }
    | .unexpectedSuccess => { s with unexpected := s.unexpected ++ [t] }
  stopIf c s

/-- one call on the result object (or one moment of user code) for test `t` -/
def step (c : Cfg) (t : TestDef) (s : RS) (op : Op) : RS :=
  if s.aborted then s else
  match op with
  | .startTest =>
    let s := { s with hasTestState := true }
    let s := callHooksUp c s
    let s := { s with testsRun := s.testsRun + t.count, hasStartTime := true }
    setUpStreams c s
  | .code ph ws =>
    let s := s.emit (.code t.id ph)
    writeToks t.id s ws
  | .addSuccess =>
    let (s, _) := restoreStreams c s
    if s.hasStartTime then s.emit (.passed t.id) else { s with aborted := true }
  | .addSkip | .addSubSkip =>
    let s :=
      if !s.hasTestState then
        -- `startTest` was not called: set up the expected state (incl. the per-test layer hooks)
        let s := { s with hasTestState := true }
        let s := callHooksUp c s
        { s with testsRun := s.testsRun + t.count, hasStartTime := true }
      else (restoreStreams c s).1
    let s := { s with skipped := s.skipped ++ [t.id] }
    let s := s.emit (.skipped t.id)
    -- the rest of a skipped test stays captured
    setUpStreams c s
  | .addSubTest none => s
  | .addSubTest (some e) =>
    if !s.hasStartTime then { s with aborted := true }
    else bad c t.id (if e = .fail then .subFailure else .subError) s
  | .addError => if !s.hasStartTime then { s with aborted := true } else bad c t.id .error s
  | .addFailure => if !s.hasStartTime then { s with aborted := true } else bad c t.id .failure s
  | .addUnexpectedSuccess => if !s.hasStartTime then { s with aborted := true } else bad c t.id .unexpectedSuccess s
  | .addExpectedFailure =>
    let (s, _) := restoreStreams c s
    if s.hasStartTime then s.emit (.passed t.id) else { s with aborted := true }
  | .stopTest =>
    let (s, _) := restoreStreams c s
    let s := callHooksDown c s
    if s.hasTestState then { s with hasTestState := false } else { s with aborted := true }
  | .raiseInterrupt => { s with interrupted := true }

/-- `test(result)` -/
def runTest (c : Cfg) (s : RS) (t : TestDef) : RS :=
  ((Proto.run t).foldl (step c t) (s.emit (.tstart t.id))).emit (.tend t.id)

/-- the loop `for test in tests: if result.shouldStop: break; test(result)` -/
def runTests (c : Cfg) : List TestDef → RS → RS
  | [], s => s
  | t :: ts, s =>
    if s.shouldStop || s.aborted || s.interrupted then s
    else runTests c ts (runTest c s t)

end Ztr.Result
