import Ztr.Model.Bytecode
import Ztr.Model.Sort
import Ztr.Model.Filter
/-
Model of test-file discovery: `find_test_files` / `find_test_files_` (find.py 269-320),
`walk_with_symlinks` (no symlinks), `strip_py_ext`, `contains_init_py`, and the module-name / `--module`
gate of `find_suites` (find.py 204-217, without `--package`).

Names are lists of code points (`Bytecode.Name`); directory trees are `Bytecode.Tree`.  The regular
expressions are abstract predicates evaluated by the harness.
-/
namespace Ztr.Discovery
open Ztr.Bytecode

structure Env where
  identifier : Name → Bool        -- `identifier(d)`
  testsPat : Name → Bool          -- `options.tests_pattern`
  testFilePat : Name → Bool       -- `options.test_file_pattern`
  ignoreDir : Name → Bool         -- `d in options.ignore_dir`
  ignoreFolders : Name → Bool     -- `d in IGNORE_FOLDERS`
  usecompiled : Bool

def dotPy : Name := strName ".py"
def dotPyc : Name := strName ".pyc"
def initPy : Name := strName "__init__.py"
def initPyc : Name := strName "__init__.pyc"

def endsWith (s suf : Name) : Bool := s.length ≥ suf.length && s.drop (s.length - suf.length) == suf

/-- `strip_py_ext` (Python running without -O) -/
def stripPyExt (e : Env) (f : Name) : Option Name :=
  if endsWith f dotPy then some (f.take (f.length - 3))
  else if e.usecompiled && endsWith f dotPyc then some (f.take (f.length - 4))
  else none

/-- `contains_init_py` -/
def containsInit (e : Env) (files : List Name) : Bool :=
  files.contains initPy || (e.usecompiled && files.contains initPyc)

def nameLe (a b : Name) : Bool := decide (a ≤ b)

/-- is `f` a test file of the directory called `base` with entries `files`? returns the key of
`root2ext` (the name without extension) -/
def candKey (e : Env) (base : Name) (files : List Name) (f : Name) : Option Name :=
  match stripPyExt e f with
  | none => none
  | some noext =>
    if noext.isEmpty then none
    else if e.testsPat noext || (e.testsPat base && containsInit e files && e.testFilePat noext) then some noext
    else none

/-- the files yielded for one directory: per key the smallest candidate (`.py` before `.pyc`),
sorted (`winners = sorted(root2ext.values())`) -/
def dirWinners (e : Env) (base : Name) (files : List Name) : List Name :=
  let sorted := PySort.isort nameLe files
  sorted.filter (fun f =>
    match candKey e base sorted f with
    | none => false
    | some k => !sorted.any (fun g => candKey e base sorted g == some k && decide (g < f)))

/-- which sub-directories the walk enters -/
def enters (e : Env) (n : Name) : Bool := !e.ignoreDir n && e.identifier n && !e.ignoreFolders n

def resLe (a b : Name × List (List Name)) : Bool := decide (a.1 ≤ b.1)

mutual
/-- paths (relative to the walked directory, whose own name is `base`) in yield order: the
directory's own winners, then its sub-directories in sorted order (`dirs.sort()`) -/
def findIn (e : Env) (base : Name) : Tree → List (List Name)
  | .dir files subs =>
    (dirWinners e base files).map (fun f => [f]) ++ (PySort.isort resLe (findSubs e subs)).flatMap (·.2)
/-- what each sub-directory contributes, in enumeration order -/
def findSubs (e : Env) : List (Name × Tree) → List (Name × List (List Name))
  | [] => []
  | (n, t) :: rest => (n, if enters e n then (findIn e n t).map (fun p => n :: p) else []) :: findSubs e rest
end

/-- first occurrences only: `find_test_files` -/
def dedup : List (List Name) → List (List Name) → List (List Name)
  | _, [] => []
  | seen, p :: ps => if seen.contains p then dedup seen ps else p :: dedup (p :: seen) ps

/-- `find_test_files(options)` for search paths given as (absolute component list, tree); the
basename of a search path is its last component -/
def findTestFiles (e : Env) (roots : List (List Name × Tree)) : List (List Name) :=
  dedup [] (roots.flatMap (fun r => (findIn e (r.1.getLast?.getD []) r.2).map (fun p => r.1 ++ p)))

/-- the package under which a file is yielded: `find_test_files` keeps the first occurrence of a file,
so it is the package of the first search path (in `options.test_path` order) that yields it.
`pkgs` gives the package of each search path (`[]` for `--path` / `--test-path`, the dotted name
split at the dots for `--package-path DIR PKG`). -/
def yieldPkg (e : Env) (roots : List (List Name × Tree)) (pkgs : List (List Name)) (path : List Name) : List Name :=
  match (roots.zip pkgs).find? (fun rp => ((findIn e (rp.1.1.getLast?.getD []) rp.1.2).map (fun p => rp.1.1 ++ p)).contains path) with
  | some rp => rp.2
  | none => []

/-- the dotted names under which a yielded file can be imported (`find_suites`), in the order the
code tries them: every search path that is a prefix of the file's path *and* carries the package
the file was yielded under (`pkg`), longest first (`options.prefix` is sorted by length, stably); the
prefix is stripped, the extension removed, the package put in front -/
def moduleNamesWith (e : Env) (roots : List (List Name × Tree)) (pkgs : List (List Name)) (pkg : List Name)
    (path : List Name) : List (List Name) :=
  let cands := ((roots.map (·.1)).zip pkgs).filter
    (fun rp => rp.1.isPrefixOf path && rp.1.length < path.length && rp.2 == pkg)
  let sorted := PySort.isort (fun (a b : List Name × List Name) => decide (b.1.length ≤ a.1.length)) cands
  sorted.filterMap (fun r =>
    let rel := path.drop r.1.length
    match rel.getLast? with
    | none => none
    | some f => (stripPyExt e f).map (fun noext => pkg ++ rel.dropLast ++ [noext]))

def moduleNames (e : Env) (roots : List (List Name × Tree)) (pkgs : List (List Name)) (path : List Name) :
    List (List Name) :=
  moduleNamesWith e roots pkgs (yieldPkg e roots pkgs path) path

/-- the first name tried: under the longest matching search path -/
def moduleName (e : Env) (roots : List (List Name × Tree)) (pkgs : List (List Name)) (path : List Name) :
    Option (List Name) := (moduleNames e roots pkgs path).head?

/-- `find_suites`: the modules that get imported, in order.  For each yielded file the candidate
names are tried in order; a name rejected by `--module` (`accept`) makes the loop `continue` with the
next (shorter) search path; the first accepted name is imported (and ends the loop: `break`). -/
def importedModules (e : Env) (accept : List Name → Bool) (roots : List (List Name × Tree))
    (pkgs : List (List Name)) : List (List Name) :=
  (findTestFiles e roots).filterMap (fun p => (moduleNames e roots pkgs p).find? accept)

/-! ### `--package` / `-s`: `test_dirs` (find.py 348-362)

With `-s PKG …` the walk does not start at the search paths but at the directories of the named
packages (`import_name(p).__path__`, resolved by Python's import system: supplied by the harness in
option order), each at most once, and only if it lies under (or is) a search path; it is yielded with
the package of the longest such search path. -/

/-- the sub-tree at a relative path -/
def subtreeAt : Tree → List Name → Option Tree
  | t, [] => some t
  | .dir _ subs, c :: cs =>
    match subs.find? (fun p => p.1 == c) with
    | some p => subtreeAt p.2 cs
    | none => none

/-- `options.prefix`: the search paths with their packages, longest first (stable) -/
def prefixes (roots : List (List Name × Tree)) (pkgs : List (List Name)) : List ((List Name × Tree) × List Name) :=
  PySort.isort (fun (a b : (List Name × Tree) × List Name) => decide (b.1.1.length ≤ a.1.1.length)) (roots.zip pkgs)

/-- the loop of `test_dirs` over the package directories, `seen` = directories already yielded -/
def testDirsAux (pre : List ((List Name × Tree) × List Name)) :
    List (List Name) → List (List Name) → List ((List Name × Tree) × List Name)
  | _, [] => []
  | seen, d :: ds =>
    if seen.contains d then testDirsAux pre seen ds
    else
      match pre.find? (fun rp => rp.1.1.isPrefixOf d) with
      | some rp =>
        match subtreeAt rp.1.2 (d.drop rp.1.1.length) with
        | some t => ((d, t), rp.2) :: testDirsAux pre (d :: seen) ds
        | none => testDirsAux pre seen ds      -- not a directory of the search path: cannot be a package directory
      | none => testDirsAux pre seen ds

/-- `test_dirs(options, {})`: where the walk starts, with the package of each start directory -/
def testDirs (roots : List (List Name × Tree)) (pkgs : List (List Name)) (pkgDirs : Option (List (List Name))) :
    List ((List Name × Tree) × List Name) :=
  match pkgDirs with
  | none => roots.zip pkgs
  | some ds => testDirsAux (prefixes roots pkgs) [] ds

/-- `find_test_files` with `--package` -/
def findTestFilesS (e : Env) (roots : List (List Name × Tree)) (pkgs : List (List Name))
    (pkgDirs : Option (List (List Name))) : List (List Name) :=
  findTestFiles e ((testDirs roots pkgs pkgDirs).map (·.1))

/-- the package a file is yielded under, with `--package` -/
def yieldPkgS (e : Env) (roots : List (List Name × Tree)) (pkgs : List (List Name))
    (pkgDirs : Option (List (List Name))) (path : List Name) : List Name :=
  yieldPkg e ((testDirs roots pkgs pkgDirs).map (·.1)) ((testDirs roots pkgs pkgDirs).map (·.2)) path

def moduleNamesS (e : Env) (roots : List (List Name × Tree)) (pkgs : List (List Name))
    (pkgDirs : Option (List (List Name))) (path : List Name) : List (List Name) :=
  moduleNamesWith e roots pkgs (yieldPkgS e roots pkgs pkgDirs path) path

def importedModulesS (e : Env) (accept : List Name → Bool) (roots : List (List Name × Tree))
    (pkgs : List (List Name)) (pkgDirs : Option (List (List Name))) : List (List Name) :=
  (findTestFilesS e roots pkgs pkgDirs).filterMap (fun p => (moduleNamesS e roots pkgs pkgDirs p).find? accept)

end Ztr.Discovery
