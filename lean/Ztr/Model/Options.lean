/-
Model of the part of `get_options` (options.py 649-666) that decides which filter patterns reach
`build_filtering_func`: the `-t` (`--test`) and `-m` (`--module`) options (argparse `append`), the two
deprecated positional filters, and the default `['.']`.

    if options.legacy_module_filter is not None:
        module_filter = options.legacy_module_filter
        if module_filter != '.':
            options.module = (options.module or []) + [module_filter]
        if options.legacy_test_filter is not None:
            options.test = (options.test or []) + [options.legacy_test_filter]
    options.test = options.test or ['.']
    options.module = options.module or ['.']

Patterns are abstract (`P`); `dot` is the pattern `'.'`.
-/
namespace Ztr.Options

structure Raw (P : Type) where
  test : List P := []                 -- the values of -t, in command-line order
  module : List P := []               -- the values of -m
  legacyModule : Option P := none     -- first positional argument
  legacyTest : Option P := none       -- second positional argument
  deriving Repr

/-- argparse fills the positionals from the left: a positional test filter implies a positional module filter -/
def Raw.WF {P : Type} (r : Raw P) : Prop := r.legacyTest.isSome → r.legacyModule.isSome

def orDot {P : Type} (dot : P) (l : List P) : List P := if l.isEmpty then [dot] else l

/-- (patterns for the module filter, patterns for the test filter) -/
def filters {P : Type} [DecidableEq P] (dot : P) (r : Raw P) : List P × List P :=
  match r.legacyModule with
  | none => (orDot dot r.module, orDot dot r.test)
  | some m =>
    let module := if m = dot then r.module else r.module ++ [m]
    let test := match r.legacyTest with
      | some t => r.test ++ [t]
      | none => r.test
    (orDot dot module, orDot dot test)

/-- the code before 754845a: the positional filters were tested for truth, and the empty pattern is false -/
def filtersOld {P : Type} [DecidableEq P] (dot empty : P) (r : Raw P) : List P × List P :=
  match r.legacyModule with
  | none => (orDot dot r.module, orDot dot r.test)
  | some m =>
    if m = empty then (orDot dot r.module, orDot dot r.test)
    else
      let module := if m = dot then r.module else r.module ++ [m]
      let test := match r.legacyTest with
        | some t => if t = empty then r.test else r.test ++ [t]
        | none => r.test
      (orDot dot module, orDot dot test)

end Ztr.Options
