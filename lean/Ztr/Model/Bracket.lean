import Ztr.Generated.Facts
/-
Model of the feature bracket of `Runner.run` (runner.py 164-206): `global_setup` and `late_setup`
of the active features in order, the test phase inside `try`, `early_teardown` and `global_teardown`
in reverse order inside `finally`, all inside `warnings.catch_warnings()`.

The interpreter-global state is a record of abstract values (0 stands for `None` where a hook can be
absent).  Each feature is transcribed from its module: garbagecollection.py (Threshold, Debug),
tb_format.py (Traceback), coverage.py (Coverage / TestTrace.start, stop), profiling.py (Profiling).
-/
namespace Ztr.Bracket

structure G where
  gcThr : Nat          -- gc.get_threshold()
  gcDbg : Nat          -- gc.get_debug()
  tbFormat : Nat       -- traceback.format_exception
  tbPrint : Nat        -- traceback.print_exception
  trace : Nat          -- sys.gettrace()
  thrTrace : Nat       -- threading.gettrace()
  setTrace : Nat       -- the function `sys.settrace` itself (coverage swaps it)
  profile : Nat        -- sys.getprofile()
  warn : Nat           -- warnings.filters
  stdout : Nat
  stderr : Nat
  deriving DecidableEq, Repr

inductive Feat
  | coverage (tracer : Nat)        -- `--coverage`
  | profiling (prof : Nat)         -- `--profile`
  | threshold (v : Nat)            -- `--gc`
  | debug (v : Nat)                -- `-G`
  | traceback (fmt prt : Nat)      -- always active
  | other                          -- features that touch none of the items (Find, Filter, Statistics, …)
  deriving DecidableEq, Repr

/-- what a feature remembers between set-up and tear-down -/
structure Saved where
  a : Nat := 0
  b : Nat := 0
  deriving Repr

/-- the original `sys.settrace` and coverage's wrapper -/
def osettrace : Nat := 1
def wrappedSettrace : Nat := 2

def globalSetup (f : Feat) (g : G) : G × Saved :=
  match f with
  | .coverage tr => ({ g with setTrace := wrappedSettrace, trace := tr, thrTrace := tr }, {})
  | .profiling _ => (g, {})
  | .threshold v => ({ g with gcThr := v }, { a := g.gcThr })
  | .debug v => ({ g with gcDbg := v }, { a := g.gcDbg })
  | .traceback fmt prt => ({ g with tbFormat := fmt, tbPrint := prt }, { a := g.tbFormat, b := g.tbPrint })
  | .other => (g, {})

def lateSetup (f : Feat) (g : G) : G :=
  match f with
  | .profiling p => { g with profile := p }      -- `profiler.enable`
  | _ => g

def earlyTeardown (f : Feat) (g : G) : G :=
  match f with
  | .coverage _ => { g with setTrace := osettrace, trace := 0, thrTrace := 0 }   -- `tracer.stop()`
  | .profiling _ => { g with profile := 0 }                                        -- `profiler.disable`
  | _ => g

def globalTeardown (f : Feat) (sv : Saved) (g : G) : G :=
  match f with
  | .threshold _ => { g with gcThr := sv.a }
  | .debug _ => { g with gcDbg := sv.a }
  | .traceback _ _ => { g with tbFormat := sv.a, tbPrint := sv.b }
  | _ => g

/-- `for feature in self.features: feature.global_setup()` collecting what each saved -/
def setupAll : List Feat → G → G × List (Feat × Saved)
  | [], g => (g, [])
  | f :: fs, g =>
    let r := globalSetup f g
    let r2 := setupAll fs r.1
    (r2.1, (f, r.2) :: r2.2)

/-- `Runner.run`: the bracket around the test phase `body`.  `body` may do anything to the warning
filters (the test phase runs inside `catch_warnings`) and leaves the std streams as `TestResult` does
(restored: C13). -/
def run (fs : List Feat) (body : G → G) (g : G) : G :=
  let w0 := g.warn                                         -- `with warnings.catch_warnings():`
  let r := setupAll fs g
  let g1 := fs.foldl (fun g f => lateSetup f g) r.1
  let g2 := body g1                                        -- try: run_tests()
  let g3 := fs.reverse.foldl (fun g f => earlyTeardown f g) g2            -- finally: reversed(...)
  let g4 := r.2.reverse.foldl (fun g p => globalTeardown p.1 p.2 g) g3
  { g4 with warn := w0 }

/-- the test phase changes nothing but the warning filters -/
def BodyOk (body : G → G) : Prop := ∀ g, body g = { g with warn := (body g).warn }

end Ztr.Bracket
