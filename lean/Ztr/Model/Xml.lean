import Ztr.Model.Channel
/-
Model of the XML reports: `XMLOutputFormattingWrapper._record` / `writeXMLReports` (formatter.py), the
name parsers for unittest cases, subtests and StartUpFailures, `xml_safe`, and the part of
`xml.etree.ElementTree` the reports go through (`indent`, `tostring` with the default `us-ascii`
encoding: escaping of text and attribute values, character references, empty-element tags).

Text is a list of code points.
-/
namespace Ztr.Xml

abbrev Str := List Nat

def lit (s : String) : Str := s.toList.map Char.toNat

/-- the XML 1.0 `Char` production -/
def xmlChar (c : Nat) : Bool :=
  c == 9 || c == 10 || c == 13 || (32 ≤ c && c ≤ 55295) || (57344 ≤ c && c ≤ 65533) || (65536 ≤ c && c ≤ 1114111)

/-- `xml_safe` -/
def sanitize (s : Str) : Str := s.map (fun c => if xmlChar c then c else 65533)

/-- `&#N;` -/
def charRef (c : Nat) : Str := [38, 35] ++ Channel.renderNat c ++ [59]

/-- `_escape_cdata` followed by `.encode('us-ascii', 'xmlcharrefreplace')` -/
def escTextChar (c : Nat) : Str :=
  if c == 38 then lit "&amp;" else if c == 60 then lit "&lt;" else if c == 62 then lit "&gt;"
  else if c < 128 then [c] else charRef c

def escText (s : Str) : Str := s.flatMap escTextChar

/-- `_escape_attrib` followed by the same encoding -/
def escAttrChar (c : Nat) : Str :=
  if c == 38 then lit "&amp;" else if c == 60 then lit "&lt;" else if c == 62 then lit "&gt;"
  else if c == 34 then lit "&quot;" else if c == 13 then lit "&#13;" else if c == 10 then lit "&#10;"
  else if c == 9 then lit "&#09;" else if c < 128 then [c] else charRef c

def escAttr (s : Str) : Str := s.flatMap escAttrChar

/-- ` name="value"` -/
def attr (name : String) (value : Str) : Str := [32] ++ lit name ++ [61, 34] ++ escAttr value ++ [34]

/-! ### what is recorded -/

inductive Kind
  | success | failure | error
  deriving DecidableEq, Repr

/-- one `_record` call: the parsed names and, for failures/errors, the exception data -/
structure Case where
  className : Str
  name : Str
  time : Str            -- `str(seconds)` (opaque, ASCII)
  kind : Kind
  message : Str := []   -- first line of `str(exception)`
  etype : Str := []     -- `str(type)`
  text : Str := []      -- message + two newlines + traceback
  deriving Repr

/-- the object handed to `_record` -/
inductive TestObj
  | unit (module cls method : Str)                 -- a `unittest.TestCase`: id = module.cls.method
  | sub (module cls method desc : Str)             -- a failing subtest of that test: id = … ++ " " ++ desc
  | startup (module : Str)                         -- a `StartUpFailure`
  | doctest (dotted : Str)                         -- a `doctest.DocTestCase`: the dotted name of its doctest
  deriving Repr

/-- `str.split('.')` -/
def splitDotsAux : Str → Str → List Str
  | [], cur => [cur.reverse]
  | c :: rest, cur => if c = 46 then cur.reverse :: splitDotsAux rest [] else splitDotsAux rest (c :: cur)

def splitDots (s : Str) : List Str := splitDotsAux s []

/-- `'.'.join(parts)` -/
def joinDots : List Str → Str
  | [] => []
  | [p] => p
  | p :: rest => p ++ [46] ++ joinDots rest

/-- the name parsers: (suite, name, class name) -/
def parseNames : TestObj → Str × Str × Str
  | .unit m c meth => (m ++ [46] ++ c, meth, m ++ [46] ++ c)
  | .sub m c meth desc => (m ++ [46] ++ c, meth ++ [32] ++ desc, m ++ [46] ++ c)
  | .startup m => (m, lit "Startup", m)
  | .doctest nm =>
    -- `parse_doc_test_case`: everything before the last dot is suite and class, the rest the name
    let parts := splitDots nm
    (joinDots parts.dropLast, parts.getLast?.getD [], joinDots parts.dropLast)

structure Suite where
  name : Str
  cases : List Case := []
  deriving Repr

/-- `self._testSuites.setdefault(testSuite, …).testCases.append(…)`: insertion-ordered -/
def record (suites : List Suite) (suite : Str) (c : Case) : List Suite :=
  match suites with
  | [] => [{ name := suite, cases := [c] }]
  | s :: rest => if s.name = suite then { s with cases := s.cases ++ [c] } :: rest else s :: record rest suite c

def nErrors (s : Suite) : Nat := (s.cases.filter (fun c => c.kind = .error)).length
def nFailures (s : Suite) : Nat := (s.cases.filter (fun c => c.kind = .failure)).length

/-! ### rendering (`writeXMLReports` + `ElementTree.indent` + `tostring`) -/

def nl (indent : Nat) : Str := [10] ++ List.replicate (2 * indent) 32

/-- `<error message=… type=…>text</error>` / `<failure …>` -/
def problemElem (tag : String) (c : Case) : Str :=
  [60] ++ lit tag ++ attr "message" (sanitize c.message) ++ attr "type" (sanitize c.etype) ++ [62]
    ++ escText (sanitize c.text) ++ [60, 47] ++ lit tag ++ [62]

def caseElem (c : Case) : Str :=
  let open_ := [60] ++ lit "testcase" ++ attr "classname" (sanitize c.className) ++ attr "name" (sanitize c.name)
    ++ attr "time" c.time
  match c.kind with
  | .success => open_ ++ lit " />"
  | .error => open_ ++ [62] ++ nl 2 ++ problemElem "error" c ++ nl 1 ++ lit "</testcase>"
  | .failure => open_ ++ [62] ++ nl 2 ++ problemElem "failure" c ++ nl 1 ++ lit "</testcase>"

/-- the text of one report file; `host`, `time`, `stamp` are opaque attribute values -/
def renderSuite (s : Suite) (host time stamp : Str) : Str :=
  [60] ++ lit "testsuite" ++ attr "tests" (Channel.renderNat s.cases.length) ++ attr "errors" (Channel.renderNat (nErrors s))
    ++ attr "failures" (Channel.renderNat (nFailures s)) ++ attr "hostname" host ++ attr "name" (sanitize s.name)
    ++ attr "time" time ++ attr "timestamp" stamp ++ [62]
    ++ nl 1 ++ lit "<properties />"
    ++ s.cases.flatMap (fun c => nl 1 ++ caseElem c)
    ++ nl 1 ++ lit "<system-out />" ++ nl 1 ++ lit "<system-err />" ++ nl 0 ++ lit "</testsuite>"

end Ztr.Xml
