import Ztr.Model.Sort
import Ztr.Generated.Facts
/-
Model of `zope.testrunner.shuffle.Shuffle` (shuffle.py 27-67) and of the seed hand-over to child
processes (runner.py `spawn_layer_in_subprocess`).

The random stream is abstract: `js` is the list of values `floor(rng.random() * (i + 1))` in the
order the code draws them.
-/
namespace Ztr.Shuffle

variable {α : Type}

/-- one exchange `tests[i], tests[j] = tests[j], tests[i]` (no-op outside the list; the code would
raise IndexError there, the harness asserts `j ≤ i`) -/
def swapAt (xs : Array α) (i j : Nat) : Array α :=
  if h : i < xs.size ∧ j < xs.size then xs.swap i j h.1 h.2 else xs

/-- the loop `for i in reversed(range(1, len(tests)))` at position `i+1 … 1`; returns the rest of
the stream -/
def fyLoop : Nat → List Nat → Array α → Array α × List Nat
  | 0, js, xs => (xs, js)
  | _ + 1, [], xs => (xs, [])            -- stream exhausted: the harness never does this
  | i + 1, j :: js, xs => fyLoop i js (swapAt xs (i + 1) j)

def fisherYates (js : List Nat) (xs : List α) : List α × List Nat :=
  let r := fyLoop (xs.length - 1) js xs.toArray
  (r.1.toList, r.2)

/-- code points of layer names, compared like Python strings -/
abbrev Name := List Nat

def nameLe (a b : Name × Nat) : Bool := decide (a.1 ≤ b.1)

/-- process the layers in sorted-name order, threading the stream; `layers` is the insertion-ordered
`tests_by_layer_name` -/
def shuffleSorted : List (Name × List α) → List Nat → List (Name × List α)
  | [], _ => []
  | (n, ts) :: rest, js =>
    let r := fisherYates js ts
    (n, r.1) :: shuffleSorted rest r.2

def lookup (n : Name) : List (Name × List α) → Option (List α)
  | [] => none
  | (m, ts) :: rest => if m = n then some ts else lookup n rest

/-- `Shuffle.global_setup`: every key keeps its position in the dict, its value is replaced -/
def shuffleAll (layers : List (Name × List α)) (js : List Nat) : List (Name × List α) :=
  let sorted := PySort.isort (fun a b => decide (a.1 ≤ b.1)) layers
  let sh := shuffleSorted sorted js
  layers.map (fun (n, ts) => (n, (lookup n sh).getD ts))

/-! ### seed -/

/-- `Shuffle.__init__`: the seed used (and reported) by a process -/
def effectiveSeed (given : Option Int) (clock : Int) : Int := given.getD clock

/-- the `--shuffle-seed` a child process receives: the parent's effective seed -/
def childGiven (parentGiven : Option Int) (parentClock : Int) : Option Int :=
  some (effectiveSeed parentGiven parentClock)

/-! ### position in the feature pipeline (from the generated facts) -/

def idx (s : String) : Nat := Facts.featureOrder.idxOf s

end Ztr.Shuffle

namespace Ztr.Shuffle
variable {α : Type}

/-- effect of one feature's `global_setup` on `tests_by_layer_name`, as far as test order and layer
selection are concerned: `Shuffle` permutes, `Filter` keeps the layers `S` accepts (`--layer`, `-u`,
`-f`, `--resume-layer`), every other feature leaves the mapping alone -/
def applyFeature (S : Name → Bool) (js : List Nat) : String → List (Name × List α) → List (Name × List α)
  | "Shuffle", ls => shuffleAll ls js
  | "Filter", ls => ls.filter (fun p => S p.1)
  | _, ls => ls

/-- `for feature in self.features: feature.global_setup()` -/
def pipeline (order : List String) (S : Name → Bool) (js : List Nat) (layers : List (Name × List α)) :
    List (Name × List α) :=
  order.foldl (fun ls f => applyFeature S js f ls) layers

end Ztr.Shuffle
