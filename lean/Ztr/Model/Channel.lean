/-
Model of the subprocess result channel at byte level.

Child: `SubProcess.report` (process.py 40-52).
Parent: the stderr parser in `spawn_layer_in_subprocess` (runner.py, after `stderr_thread.join()`),
including the spawn-failure path.

Bytes are `Nat`s below 256.  Text is a list of code points.
-/
namespace Ztr.Channel

abbrev Bytes := List Nat

/-! ### Python primitives -/

/-- ASCII whitespace of `bytes.strip()` / `bytes.split()` -/
def isWs (b : Nat) : Bool := b == 32 || b == 9 || b == 10 || b == 13 || b == 11 || b == 12

def dropWs : Bytes → Bytes
  | [] => []
  | b :: bs => if isWs b then dropWs bs else b :: bs

/-- `bytes.strip()` -/
def strip (bs : Bytes) : Bytes := (dropWs (dropWs bs).reverse).reverse

/-- `bytes.split()`: maximal runs of non-whitespace -/
def tokensAux : Bytes → Bytes → List Bytes
  | [], cur => if cur.isEmpty then [] else [cur.reverse]
  | b :: bs, cur =>
    if isWs b then (if cur.isEmpty then tokensAux bs [] else cur.reverse :: tokensAux bs [])
    else tokensAux bs (b :: cur)

def tokens (bs : Bytes) : List Bytes := tokensAux bs []

def isDigit (b : Nat) : Bool := 48 ≤ b && b ≤ 57

/-- digits with single underscores between them (Python `int()` grammar); accumulates the value.
`prevDigit` = the previous byte was a digit -/
def digitsVal : Bytes → Nat → Bool → Option Nat
  | [], acc, prevDigit => if prevDigit then some acc else none
  | b :: bs, acc, prevDigit =>
    if isDigit b then digitsVal bs (acc * 10 + (b - 48)) true
    else if b == 95 && prevDigit then
      (match bs with
       | [] => none
       | c :: _ => if isDigit c then digitsVal bs acc false else none)
    else none

/-- `int(token)` for a whitespace-free bytes token; `none` = ValueError -/
def parseInt : Bytes → Option Int
  | [] => none
  | 43 :: rest => (digitsVal rest 0 false).map Int.ofNat
  | 45 :: rest => (digitsVal rest 0 false).map (fun n => - Int.ofNat n)
  | bs => (digitsVal bs 0 false).map Int.ofNat

/-- `result.num_ran, nfail, nerr = map(int, line.strip().split())`; `none` = ValueError -/
def parseHeader (line : Bytes) : Option (Int × Int × Int) :=
  match tokens line with
  | [a, b, c] =>
    match parseInt a, parseInt b, parseInt c with
    | some x, some y, some z => some (x, y, z)
    | _, _, _ => none
  | _ => none

/-- split at '\n': the complete lines and the unterminated rest -/
def splitLinesAux : Bytes → Bytes → List Bytes × Bytes
  | [], cur => ([], cur.reverse)
  | b :: bs, cur =>
    if b == 10 then
      let r := splitLinesAux bs []
      (cur.reverse :: r.1, r.2)
    else splitLinesAux bs (b :: cur)

def splitLines (bs : Bytes) : List Bytes × Bytes := splitLinesAux bs []

/-- strict UTF-8 validity (`bytes.decode()` succeeds) -/
def utf8Valid : Bytes → Bool
  | [] => true
  | b :: rest =>
    if b < 128 then utf8Valid rest
    else if 194 ≤ b && b ≤ 223 then
      (match rest with
       | c :: r => (128 ≤ c && c ≤ 191) && utf8Valid r
       | _ => false)
    else if 224 ≤ b && b ≤ 239 then
      (match rest with
       | c :: d :: r =>
         let lo := if b == 224 then 160 else 128
         let hi := if b == 237 then 159 else 191
         (lo ≤ c && c ≤ hi) && (128 ≤ d && d ≤ 191) && utf8Valid r
       | _ => false)
    else if 240 ≤ b && b ≤ 244 then
      (match rest with
       | c :: d :: e :: r =>
         let lo := if b == 240 then 144 else 128
         let hi := if b == 244 then 143 else 191
         (lo ≤ c && c ≤ hi) && (128 ≤ d && d ≤ 191) && (128 ≤ e && e ≤ 191) && utf8Valid r
       | _ => false)
    else false

/-! ### parent -/

inductive ParseResult
  | ok (ran : Int) (fails errs : List Bytes)   -- recorded exactly
  | commError                                    -- "Could not communicate with subprocess!" + an error for the layer
  | crash                                        -- an exception leaves the reader (UnicodeDecodeError)
  deriving DecidableEq, Repr

/-- first line that parses as a header, with the lines after it -/
def findHeader : List Bytes → Option ((Int × Int × Int) × List Bytes)
  | [] => none
  | l :: ls =>
    match parseHeader l with
    | some h => some (h, ls)
    | none => findHeader ls

/-- `name.strip().decode('utf-8', 'replace')`: decoding cannot fail (the replacement of invalid
sequences by U+FFFD is applied by the harness when it compares names; names that are valid UTF-8 —
everything a child with a UTF-8 stderr writes — are recorded byte for byte) -/
def decodeNames (ls : List Bytes) : Option (List Bytes) := some (ls.map strip)

/-- the parser on complete lines: a report is used only when the header and all announced names
are present -/
def parseLines (ls : List Bytes) : ParseResult :=
  match findHeader ls with
  | none => .commError
  | some ((ran, nf, ne), rest) =>
    let k1 := nf.toNat
    let k2 := ne.toNat
    if rest.length < k1 + k2 then .commError
    else
      match decodeNames (rest.take k1), decodeNames ((rest.drop k1).take k2) with
      | some a, some b => .ok ran a b
      | _, _ => .crash

/-- an unterminated last line is used only as a header that announces no names (nothing can be
missing from such a report) -/
def parseTail (tail : Bytes) : ParseResult :=
  match parseHeader tail with
  | some (ran, nf, ne) => if nf.toNat + ne.toNat = 0 then .ok ran [] [] else .commError
  | none => .commError

/-- what the parent makes of the child's complete stderr: the first complete line that parses as a
header decides; only when there is none (`for … else`) the unterminated rest is looked at -/
def parse (stderr : Bytes) : ParseResult :=
  match findHeader (splitLines stderr).1 with
  | some _ => parseLines (splitLines stderr).1
  | none => parseTail (splitLines stderr).2

/-- `spawnFailed` = `subprocess.Popen` raised: an error is recorded for the layer -/
def parentOutcome (spawnFailed : Bool) (stderr : Bytes) : ParseResult :=
  if spawnFailed then .commError else parse stderr

/-! ### child -/

/-- decimal rendering of `str(n)` for `n ≥ 0`, most significant digit first (fuel = value) -/
def renderNatAux : Nat → Nat → Bytes → Bytes
  | 0, _, acc => acc
  | f + 1, n, acc => if n < 10 then (48 + n) :: acc else renderNatAux f (n / 10) ((48 + n % 10) :: acc)

def renderNat (n : Nat) : Bytes := renderNatAux (n + 1) n []

def headerLine (ran nf ne : Nat) : Bytes := renderNat ran ++ [32] ++ renderNat nf ++ [32] ++ renderNat ne

def joinLines (ls : List Bytes) : Bytes := ls.flatMap (fun l => l ++ [10])

/-- the bytes `SubProcess.report` writes, for already squashed and encoded names -/
def encodeReport (ran : Nat) (fails errs : List Bytes) : Bytes :=
  joinLines (headerLine ran fails.length errs.length :: (fails ++ errs))

/-- code points for which `str.isspace()` holds (validated against CPython on every run) -/
def pyWhitespace : List Nat :=
  [9, 10, 11, 12, 13, 28, 29, 30, 31, 32, 133, 160, 5760, 8192, 8193, 8194, 8195, 8196, 8197, 8198, 8199,
   8200, 8201, 8202, 8232, 8233, 8239, 8287, 12288]

def dropPyWs : List Nat → List Nat
  | [] => []
  | c :: cs => if pyWhitespace.contains c then dropPyWs cs else c :: cs

/-- `' '.join(str(test).strip().split('\n'))` -/
def squash (cps : List Nat) : List Nat :=
  ((dropPyWs (dropPyWs cps).reverse).reverse).map (fun c => if c == 10 then 32 else c)

/-- UTF-8 encoding of one scalar value (the child's stderr uses backslashreplace for the rest;
the harness only feeds scalar values here) -/
def utf8Char (c : Nat) : Bytes :=
  if c < 128 then [c]
  else if c < 2048 then [192 + c / 64, 128 + c % 64]
  else if c < 65536 then [224 + c / 4096, 128 + (c / 64) % 64, 128 + c % 64]
  else [240 + c / 262144, 128 + (c / 4096) % 64, 128 + (c / 64) % 64, 128 + c % 64]

def utf8 (cps : List Nat) : Bytes := cps.flatMap utf8Char

/-- the child's report for test names given as text -/
def childReport (ran : Nat) (fails errs : List (List Nat)) : Bytes :=
  encodeReport ran (fails.map (fun n => utf8 (squash n))) (errs.map (fun n => utf8 (squash n)))

/-! ### the child's stdout: keep-alive lines of dots (runner.py `_is_dots`, the deferred / keep-alive collectors) -/

/-- `_is_dots` (runner.py): the whole line is `\.+(\r\n?|\n)` — one or more dots and a line end -/
def isDotsLine (ln : Bytes) : Bool :=
  let rest := ln.dropWhile (· == 46)
  ln.head? == some 46 && (rest == [13, 10] || rest == [13] || rest == [10])

/-- the lines of a child's stdout as `readline()` delivers them: cut after every `\n`, the unterminated
rest (if any) last -/
def stdoutLines (bs : Bytes) : List Bytes :=
  let r := splitLines bs
  r.1.map (· ++ [10]) ++ (if r.2.isEmpty then [] else [r.2])

/-- what the deferred and the keep-alive collectors keep of a child's stdout: every line that is not a
keep-alive line of dots -/
def keptLines (bs : Bytes) : List Bytes := (stdoutLines bs).filter (fun l => !isDotsLine l)

end Ztr.Channel
