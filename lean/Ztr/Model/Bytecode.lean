import Ztr.Generated.Facts
/-
Model of `remove_stale_bytecode` (find.py 382-400) on top of `walk_with_symlinks` (find.py 365-376,
no symlinks).  File and directory names are lists of code points.
-/
namespace Ztr.Bytecode

abbrev Name := List Nat

/-- a directory: the names of its plain files and its sub-directories -/
inductive Tree
  | dir (files : List Name) (subs : List (Name × Tree))

def strName (s : String) : Name := s.toList.map Char.toNat

/-- `compiled_suffixes`, from the source -/
def compiledSuffixes : List Name := Facts.compiledSuffixes.map strName

def pycache : Name := strName "__pycache__"

/-- `file[-4:]` -/
def last4 (f : Name) : Name := f.drop (f.length - 4)

/-- `file[-4:] in compiled_suffixes and file[:-1] not in files` -/
def isStale (files : List Name) (f : Name) : Bool :=
  compiledSuffixes.contains (last4 f) && !files.contains f.dropLast

mutual
/-- the paths (relative to the walked directory) that get `os.unlink`ed.  `ignore` = `options.ignore_dir` -/
def stale (ignore : Name → Bool) : Tree → List (List Name)
  | .dir files subs => (files.filter (isStale files)).map (fun f => [f]) ++ staleSubs ignore subs
def staleSubs (ignore : Name → Bool) : List (Name × Tree) → List (List Name)
  | [] => []
  | (n, t) :: rest =>
    (if ignore n || n == pycache then [] else (stale ignore t).map (fun p => n :: p)) ++ staleSubs ignore rest
end

/-- `remove_stale_bytecode(options)` for the search paths `roots` (each with its tree):
absolute deleted paths.  `keep` = `options.keepbytecode` after normalisation
(`--usecompiled` implies it). -/
def deletions (keepbytecode usecompiled : Bool) (ignore : Name → Bool) (roots : List (List Name × Tree)) :
    List (List Name) :=
  if keepbytecode || usecompiled then []
  else roots.flatMap (fun r => (stale ignore r.2).map (fun p => r.1 ++ p))

end Ztr.Bytecode
