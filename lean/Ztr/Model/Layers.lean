import Ztr.Model.Sort
/-
Model of the layer ordering functions of runner.py:
`gather_layers` 1187-1191, `layer_sort_key` 1133-1163, `order_by_bases` 1166-1184.

Layers are natural numbers.  `bases l` are the `__bases__` of `l` without `object`, in declaration
order.  Python creates base classes before derived ones; the well-formedness guard `WF` says
`b < l` for every base.  `name l` is the code-point list of `name_from_layer(l)`; Python compares
`str` by code point and tuples lexicographically, which is `≤` on `List (List Nat)`.
`unit` is the index of `zope.testrunner.layer.UnitTests`.
-/
namespace Ztr.Layers

structure Graph where
  bases : Nat → List Nat
  name : Nat → List Nat
  unit : Nat

def WF (G : Graph) : Prop := ∀ l, ∀ b ∈ G.bases l, b < l

/-- `gather_layers`: pre-order, bases in declaration order, duplicates kept.  Fuel makes the
recursion structural; `gather` supplies enough fuel for well-formed graphs. -/
def gatherF (bases : Nat → List Nat) : Nat → Nat → List Nat
  | 0, _ => []
  | f + 1, l => l :: (bases l).flatMap (gatherF bases f)

def gather (G : Graph) (l : Nat) : List Nat := gatherF G.bases (l + 1) l

/-- `_gather` inside `layer_sort_key`: post-order over reversed bases with a `seen` set.
State = (seen, key). -/
def keyF (bases : Nat → List Nat) : Nat → Nat → List Nat × List Nat → List Nat × List Nat
  | 0, _, st => st
  | f + 1, l, st =>
    let st' := (bases l).reverse.foldl
      (fun st b => if st.1.contains b then st else keyF bases f b st) (l :: st.1, st.2)
    (st'.1, st'.2 ++ [l])

/-- `layer_sort_key` -/
def sortKey (G : Graph) (l : Nat) : List (List Nat) :=
  (((keyF G.bases (l + 1) l ([], [])).2).filter (fun x => x != G.unit)).map G.name

/-- comparison used by `sorted(layers, key=layer_sort_key, reverse=True)` -/
def leDesc (G : Graph) (a b : Nat) : Bool := decide (sortKey G b ≤ sortKey G a)

/-- the `seen` loop of `order_by_bases` 1177-1183 (without the membership test) -/
def dedupAux (seen : List Nat) : List Nat → List Nat
  | [] => []
  | x :: xs => if x ∈ seen then dedupAux seen xs else x :: dedupAux (x :: seen) xs

def dedupFirst (l : List Nat) : List Nat := dedupAux [] l

/-- `order_by_bases` -/
def orderByBases (G : Graph) (ls : List Nat) : List Nat :=
  let sorted := PySort.isort (leDesc G) ls
  let gathered := sorted.flatMap (gather G)
  let rev := gathered.reverse
  (dedupFirst rev).filter (fun l => decide (l ∈ sorted))

/-- transitive bases of `l`, `l` included -/
def closure (G : Graph) (l : Nat) : List Nat := gather G l

end Ztr.Layers
