/-
Model of `zope.testrunner.filter.build_filtering_func` (filter.py 94-127).

A pattern list is a list of `(neg, p)`: `neg` = the pattern text starts with '!', `p` identifies the
regular expression that follows.  The regex engine is abstract: `m p n` stands for
`re.compile(p).search(n) is not None`; `dot n` is the result of the implicit pattern that
filter.py 117-121 adds when only '!'-patterns were given (the harness evaluates the pattern object
the real code appends, so the model does not assume which regex that is).
-/
namespace Ztr.Filter

variable {P N : Type}

/-- the loop at filter.py 108-115: two lists, in pattern order -/
def split (ps : List (Bool × P)) : List P × List P :=
  ps.foldl (fun acc x => if x.1 then (acc.1, acc.2 ++ [x.2]) else (acc.1 ++ [x.2], acc.2)) ([], [])

/-- the closure returned by `build_filtering_func`, applied to `n` -/
def accept (m : P → N → Bool) (dot : N → Bool) (ps : List (Bool × P)) (n : N) : Bool :=
  let sel := (split ps).1
  let unsel := (split ps).2
  let selF : List (N → Bool) := sel.map m
  -- filter.py 117-121
  let selF := if sel.isEmpty && !unsel.isEmpty then selF ++ [dot] else selF
  -- filter.py 123-125
  selF.any (fun f => f n) && !(unsel.any (fun q => m q n))

/-- positive / negated patterns of a list, for specifications -/
def pos (ps : List (Bool × P)) : List P := (ps.filter (fun x => !x.1)).map (·.2)
def neg (ps : List (Bool × P)) : List P := (ps.filter (fun x => x.1)).map (·.2)

end Ztr.Filter
