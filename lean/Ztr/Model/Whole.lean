import Ztr.Model.Runner
/-
The whole run: the parent process and the layer subprocesses it starts, composed the way
`resume_tests` / `spawn_layer_in_subprocess` compose them (runner.py 517-639, 763-830), and the
numbers of the final "Total:" line (`Runner.run`, runner.py 200-240).

What can happen to a child is a parameter (`fate`): it completes and its report arrives, or it is
*lost* — it could not be started, died or was killed at any point, or its report was cut short; by
`C07_truncation`, `C07_spawn_failure` and `C07_never_crash` the parent then records a communication
error for the layer and nothing else.  A child that completes is bad for the parent iff its report
lists a failure or an error (`C07_roundtrip`: exactly the child's lists arrive).
-/
namespace Ztr.Runner
open Ztr.Layers Ztr.Proto Ztr.Result

inductive Fate
  | completes | lost
  deriving DecidableEq, Repr

/-- the resume number the parent hands to the child for layer `l` -/
def numberOf (w : World) (o : Opts) (l : Nat) : Nat :=
  (if o.processes > 1 then 1 else 0) + ((fsLoop w o).2.map (·.1)).idxOf l

/-- the child process for layer `l` (children never spawn) -/
def childOut (w : World) (o : Opts) (l : Nat) : Outcome :=
  runProcess w { o with resume := some (l, numberOf w o l) } (fun _ => false)

/-- how the parent sees the child for layer `l` -/
def cbOf (w : World) (o : Opts) (fate : Nat → Fate) (l : Nat) : Bool :=
  fate l == .lost || !(childOut w o l).failures.isEmpty || !(childOut w o l).errors.isEmpty

/-- the parent process of the run -/
def parentOut (w : World) (o : Opts) (fate : Nat → Fate) : Outcome := runProcess w o (cbOf w o fate)

/-- the layers for which a child was started -/
def spawnedLayers (τ : List Ev) : List Nat :=
  τ.filterMap (fun e => match e with | .spawn l _ => some l | _ => none)


/-- the errors of a process that are its own (not the markers for bad children) -/
def ownErrors (es : List Err) : List Err :=
  es.filter (fun e => match e with | .child _ => false | _ => true)

/-- the numbers of the "Total:" line: tests, failures, errors, skipped.
* `ran`: the parent's own count plus what each completed child's report says (`resume_tests` returns
  `sum(r.num_ran ...)`); a lost child counts 0 tests and one error;
* failures/errors: the parent's own plus the names each completed child reported, plus the import errors;
* skipped: only the parent's own list — a child's report does not carry its skipped tests. -/
def wholeTotals (w : World) (o : Opts) (fate : Nat → Fate) : Nat × Nat × Nat × Nat :=
  let P := parentOut w o fate
  let kids := spawnedLayers P.trace
  let done := kids.filter (fun l => fate l == .completes)
  let lost := kids.filter (fun l => fate l == .lost)
  (P.ran + (done.map (fun l => (childOut w o l).ran)).sum,
   P.failures.length + (done.map (fun l => (childOut w o l).failures.length)).sum,
   (ownErrors P.errors).length + (done.map (fun l => (childOut w o l).errors.length)).sum + lost.length
     + w.importErrors,
   P.skipped)

/-- the verdict of the run -/
def wholeFailed (w : World) (o : Opts) (fate : Nat → Fate) : Bool := (parentOut w o fate).failed

end Ztr.Runner
