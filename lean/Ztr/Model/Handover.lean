/-
Model of the hand-over of the command line from the parent to a layer subprocess and back:

* parent, `spawn_layer_in_subprocess` (runner.py):
      args = [sys.executable] + script_parts
      args.extend(['--resume-layer', layer_name, str(resume_number)])
      for d in options.testrunner_defaults: args.extend(['--default', d])
      if options.shuffle and options.shuffle_seed is not None:
          args.append('--shuffle-seed=%d' % options.shuffle_seed)
      args.extend(options.original_testrunner_args[1:])
  (Python itself consumes `[sys.executable] + script_parts`; what the child sees as `sys.argv` is
  `prog :: rest`.)
* child, `Runner.configure` (runner.py):
      if len(self.args) > 1 and self.args[1] == '--resume-layer':
          self.args.pop(1); resume_layer = self.args.pop(1); resume_number = int(self.args.pop(1))
          self.defaults = []
          while len(self.args) > 1 and self.args[1] == '--default':
              self.args.pop(1); self.defaults.append(self.args.pop(1))
      else: resume_layer = resume_number = None
      options = get_options(self.args, self.defaults)

Command-line words are an abstract type `S` with two distinguished words (`--resume-layer`,
`--default`).  `pop(1)` on a list that is too short is an `IndexError`, `int()` of a word that is not
a number a `ValueError`: both are `none` here (the child dies before it runs anything).
-/
namespace Ztr.Handover

structure Toks (S : Type) where
  resume : S            -- '--resume-layer'
  dflt : S              -- '--default'
  showNum : Nat → S     -- str(resume_number)
  parseNum : S → Option Nat   -- int(word)

/-- `Toks.Good`: `int(str(n)) == n` -/
def Toks.Good {S : Type} (t : Toks S) : Prop := ∀ n, t.parseNum (t.showNum n) = some n

/-- what follows `sys.argv[0]` in the child: composed by `spawn_layer_in_subprocess` -/
def childTail {S : Type} (t : Toks S) (name : S) (num : Nat) (defaults : List S) (seedOpt : Option S)
    (user : List S) : List S :=
  t.resume :: name :: t.showNum num :: (defaults.flatMap (fun d => [t.dflt, d]) ++ (seedOpt.toList ++ user))

/-- the `while` loop of `Runner.configure` on `self.args[1:]`: (collected defaults, remaining words);
`none` = IndexError (a trailing `--default` without a value) -/
def takeDefaults {S : Type} [DecidableEq S] (t : Toks S) : List S → Option (List S × List S)
  | [] => some ([], [])
  | [a] => if a = t.dflt then none else some ([], [a])
  | a :: d :: rest =>
    if a = t.dflt then
      match takeDefaults t rest with
      | some (ds, r) => some (d :: ds, r)
      | none => none
    else some ([], a :: d :: rest)

structure Configured (S : Type) where
  resume : Option (S × Nat)     -- (resume_layer, resume_number)
  defaults : List S             -- the defaults handed to get_options
  args : List S                 -- the words handed to get_options after args[0]
  deriving Repr, DecidableEq

/-- `Runner.configure` up to the call of `get_options`; `given` are the defaults the Runner object was
created with (used when the process is not a layer subprocess) -/
def configure {S : Type} [DecidableEq S] (t : Toks S) (given : List S) : List S → Option (Configured S)
  | [] => some { resume := none, defaults := given, args := [] }
  | a :: rest =>
    if a = t.resume then
      match rest with
      | name :: num :: rest' =>
        match t.parseNum num with
        | none => none
        | some n =>
          match takeDefaults t rest' with
          | some (ds, r) => some { resume := some (name, n), defaults := ds, args := r }
          | none => none
      | _ => none
    else some { resume := none, defaults := given, args := a :: rest }

end Ztr.Handover
