/-
Python's `sorted` is a stable sort.  On a total preorder every stable sort returns the same list, so
it is modelled by the stable insertion sort below (structural recursion, so that concrete instances
reduce in the kernel).
-/
namespace Ztr.PySort

variable {α : Type}

/-- insert `x` in front of the first element `y` with `le x y` -/
def insert (le : α → α → Bool) (x : α) : List α → List α
  | [] => [x]
  | y :: ys => if le x y then x :: y :: ys else y :: insert le x ys

/-- stable sort: elements that compare equal keep their input order -/
def isort (le : α → α → Bool) : List α → List α
  | [] => []
  | x :: xs => insert le x (isort le xs)

end Ztr.PySort
