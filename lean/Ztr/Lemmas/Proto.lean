import Ztr.Model.Proto
/-! Shape of `Proto.run`: `startTest`, then ops of the test's parts, then at most one final op,
then `stopTest` (and possibly the interrupt marker). -/
namespace Ztr.Proto

/-- ops that occur while the parts of a test run -/
def Mid : Op → Prop
  | .code _ _ | .addSkip | .addSubSkip | .addSubTest _ | .addFailure | .addError => True
  | _ => False

/-- the closing result of a test -/
def Final : Op → Prop
  | .addSuccess | .addExpectedFailure | .addUnexpectedSuccess => True
  | _ => False

theorem runPart_mid (ph : Phase) (p : Part) (o : Outcome) : ∀ op ∈ (runPart ph p o).1, Mid op := by
  unfold runPart
  cases p.exc with
  | none => simp [Mid]
  | some e =>
    cases e <;> simp only [] <;> (try split) <;> intro op hop <;>
      simp only [List.mem_append, List.mem_cons, List.mem_nil_iff, or_false] at hop <;>
      (rcases hop with rfl | rfl) <;> simp [Mid]

theorem runSubs_mid : ∀ (k : Nat) (ps : List Part) (o : Outcome), ∀ op ∈ (runSubs k ps o).1, Mid op
  | _, [], _ => by simp [runSubs]
  | k, p :: ps, o => by
    unfold runSubs
    cases p.exc with
    | none =>
      intro op hop
      simp only [List.mem_append, List.mem_cons, List.mem_nil_iff, or_false] at hop
      rcases hop with (rfl | rfl) | h
      · simp [Mid]
      · simp [Mid]
      · exact runSubs_mid (k + 1) ps o op h
    | some e =>
      cases e
      · -- fail
        simp only []
        split
        · intro op hop; simp at hop; subst hop; simp [Mid]
        · intro op hop
          simp only [List.mem_append, List.mem_cons, List.mem_nil_iff, or_false] at hop
          rcases hop with (rfl | rfl) | h
          · simp [Mid]
          · simp [Mid]
          · exact runSubs_mid (k + 1) ps _ op h
      · -- error
        simp only []
        split
        · intro op hop; simp at hop; subst hop; simp [Mid]
        · intro op hop
          simp only [List.mem_append, List.mem_cons, List.mem_nil_iff, or_false] at hop
          rcases hop with (rfl | rfl) | h
          · simp [Mid]
          · simp [Mid]
          · exact runSubs_mid (k + 1) ps _ op h
      · -- skip
        intro op hop
        simp only [List.mem_append, List.mem_cons, List.mem_nil_iff, or_false] at hop
        rcases hop with (rfl | rfl) | h
        · simp [Mid]
        · simp [Mid]
        · exact runSubs_mid (k + 1) ps _ op h
      · -- interrupt
        intro op hop; simp at hop; subst hop; simp [Mid]

theorem runCleanups_mid : ∀ (k : Nat) (ps : List Part) (o : Outcome), ∀ op ∈ (runCleanups k ps o).1, Mid op
  | _, [], _ => by simp [runCleanups]
  | k, p :: ps, o => by
    unfold runCleanups
    simp only []
    split
    · exact runPart_mid _ p o
    · intro op hop
      rcases List.mem_append.1 hop with h | h
      · exact runPart_mid _ p o op h
      · exact runCleanups_mid (k + 1) ps _ op h

theorem methodOps_mid (t : TestDef) (o : Outcome) : ∀ op ∈ (methodOps t o).1, Mid op := by
  unfold methodOps
  have hs := runSubs_mid 0 t.subs o
  simp only []
  split
  · exact hs
  · intro op hop
    rcases List.mem_append.1 hop with h1 | h1
    · exact hs op h1
    · exact runPart_mid _ _ _ op h1

theorem bodyBlock_mid (t : TestDef) (o : Outcome) : ∀ op ∈ (bodyBlock t o).1, Mid op := by
  unfold bodyBlock
  split
  · simp only []
    have hm := methodOps_mid t { o with expecting := t.expectFail }
    split
    · exact hm
    · intro op hop
      rcases List.mem_append.1 hop with h1 | h1
      · exact hm op h1
      · exact runPart_mid _ _ _ op h1
  · simp

theorem finalOps_shape (t : TestDef) (o : Outcome) :
    finalOps t o = [] ∨ ∃ f, finalOps t o = [f] ∧ Final f := by
  unfold finalOps
  split
  · split
    · split
      · exact Or.inr ⟨_, rfl, by simp [Final]⟩
      · exact Or.inr ⟨_, rfl, by simp [Final]⟩
    · exact Or.inr ⟨_, rfl, by simp [Final]⟩
  · exact Or.inl rfl

/-- the shape of the call sequence of a test that is not skipped by a decorator -/
theorem run_shape (t : TestDef) (h : t.decoSkip = false) :
    ∃ mid fin tail, run t = .startTest :: (mid ++ fin ++ .stopTest :: tail) ∧ (∀ op ∈ mid, Mid op) ∧
      (fin = [] ∨ ∃ f, fin = [f] ∧ Final f) ∧ (tail = [] ∨ tail = [.raiseInterrupt]) := by
  unfold run
  simp only [h, Bool.false_eq_true, if_false]
  have hp1 := runPart_mid .setUp t.setUp {}
  have hb := bodyBlock_mid t (runPart .setUp t.setUp {}).2
  have hc := runCleanups_mid 0 t.cleanups (bodyBlock t (runPart .setUp t.setUp {}).2).2
  split
  · exact ⟨_, [], _, rfl, hp1, Or.inl rfl, Or.inr rfl⟩
  · split
    · exact ⟨_, [], _, rfl, fun op hop => (List.mem_append.1 hop).elim (hp1 op) (hb op), Or.inl rfl, Or.inr rfl⟩
    · have hall : ∀ op ∈ (runPart .setUp t.setUp {}).1 ++ (bodyBlock t (runPart .setUp t.setUp {}).2).1 ++
          (runCleanups 0 t.cleanups (bodyBlock t (runPart .setUp t.setUp {}).2).2).1, Mid op := by
        intro op hop
        rcases List.mem_append.1 hop with h1 | h1
        · exact (List.mem_append.1 h1).elim (hp1 op) (hb op)
        · exact hc op h1
      split
      · exact ⟨_, [], _, rfl, hall, Or.inl rfl, Or.inr rfl⟩
      · exact ⟨_, _, [], rfl, hall, finalOps_shape t _, Or.inl rfl⟩

theorem run_decoSkip (t : TestDef) (h : t.decoSkip = true) : run t = [.addSkip, .stopTest] := by
  simp [run, h]

end Ztr.Proto
