import Ztr.Model.Result
import Ztr.Lemmas.Proto
/-! Helper lemmas about the `TestResult` model. -/
namespace Ztr.Result
open Ztr.Proto

def isHook : REv → Bool
  | .hookSetUp _ _ | .hookTearDown _ _ => true
  | _ => false

/-- `s'` extends `s` by non-hook events and keeps the per-test flags -/
structure Ext (s s' : RS) : Prop where
  aborted : s'.aborted = s.aborted
  hasTestState : s'.hasTestState = s.hasTestState
  hasStartTime : s'.hasStartTime = s.hasStartTime
  interrupted : s'.interrupted = s.interrupted
  evs : ∃ new, s'.evs = s.evs ++ new ∧ ∀ e ∈ new, isHook e = false

theorem Ext.refl (s : RS) : Ext s s := ⟨rfl, rfl, rfl, rfl, [], by simp, by simp⟩

theorem Ext.trans {a b c : RS} (h1 : Ext a b) (h2 : Ext b c) : Ext a c := by
  obtain ⟨n1, e1, p1⟩ := h1.evs
  obtain ⟨n2, e2, p2⟩ := h2.evs
  exact ⟨h2.aborted.trans h1.aborted, h2.hasTestState.trans h1.hasTestState,
    h2.hasStartTime.trans h1.hasStartTime, h2.interrupted.trans h1.interrupted,
    n1 ++ n2, by rw [e2, e1, List.append_assoc],
    fun e he => (List.mem_append.1 he).elim (p1 e) (p2 e)⟩

theorem ext_emit (s : RS) (e : REv) (h : isHook e = false) : Ext s (s.emit e) :=
  ⟨rfl, rfl, rfl, rfl, [e], rfl, by simp [h]⟩

theorem ext_restore (c : Cfg) (s : RS) : Ext s (restoreStreams c s).1 :=
  ⟨rfl, rfl, rfl, rfl, [], by simp [restoreStreams], by simp⟩

theorem restore_captured (c : Cfg) (s : RS) (h : c.buffer = false → s.captured = false) :
    (restoreStreams c s).1.captured = false := by
  cases hb : c.buffer
  · simp [restoreStreams, h hb]
  · simp [restoreStreams, hb]

theorem restore_evs (c : Cfg) (s : RS) : (restoreStreams c s).1.evs = s.evs := rfl

theorem ext_stopIf (c : Cfg) (s : RS) : Ext s (stopIf c s) :=
  ⟨rfl, rfl, rfl, rfl, [], by simp [stopIf], by simp⟩

theorem ext_writeToks (t : Nat) (s : RS) (ws : List (Bool × Nat)) : Ext s (writeToks t s ws) := by
  refine ⟨rfl, rfl, rfl, rfl, ?_⟩
  cases hc : s.captured
  · refine ⟨ws.map (fun w => REv.leak t w.2), by simp [writeToks, hc], ?_⟩
    intro e he
    obtain ⟨w, _, rfl⟩ := List.mem_map.1 he
    rfl
  · exact ⟨[], by simp [writeToks, hc], by simp⟩

theorem ext_record (t : Nat) (b : Bad) (s : RS) : Ext s (record t b s) :=
  ⟨rfl, rfl, rfl, rfl, [], by simp [record], by simp⟩

theorem ext_bad (c : Cfg) (t : Nat) (b : Bad) (s : RS) : Ext s (bad c t b s) := by
  unfold bad
  exact (((ext_restore c s).trans (ext_emit _ _ rfl)).trans (ext_record _ _ _)).trans (ext_stopIf c _)

theorem ext_noteSkip (t : Nat) (s : RS) : Ext s (noteSkip t s) :=
  ⟨rfl, rfl, rfl, rfl, [.skipped t], rfl, by simp [isHook]⟩

/-- inside a test: the state `startTest` (or the skip fallback) established -/
structure Running (s : RS) : Prop where
  aborted : s.aborted = false
  hasTestState : s.hasTestState = true
  hasStartTime : s.hasStartTime = true

theorem Running.of_ext {s s' : RS} (h : Running s) (e : Ext s s') : Running s' :=
  ⟨e.aborted.trans h.aborted, e.hasTestState.trans h.hasTestState, e.hasStartTime.trans h.hasStartTime⟩

theorem ext_step_mid (c : Cfg) (t : TestDef) (s : RS) (op : Op) (hr : Running s)
    (hop : Mid op ∨ Final op) : Ext s (step c t s op) := by
  unfold step
  simp only [hr.aborted, Bool.false_eq_true, if_false]
  cases op with
  | startTest => simp [Mid, Final] at hop
  | stopTest => simp [Mid, Final] at hop
  | raiseInterrupt => simp [Mid, Final] at hop
  | code ph ws => exact (ext_emit s _ rfl).trans (ext_writeToks _ _ _)
  | addSuccess =>
    simp only []
    have h1 := ext_restore c s
    have : (restoreStreams c s).1.hasStartTime = true := h1.hasStartTime.trans hr.hasStartTime
    simp only [this, if_true]
    exact h1.trans (ext_emit _ _ rfl)
  | addExpectedFailure =>
    simp only []
    have h1 := ext_restore c s
    have : (restoreStreams c s).1.hasStartTime = true := h1.hasStartTime.trans hr.hasStartTime
    simp only [this, if_true]
    exact h1.trans (ext_emit _ _ rfl)
  | addSkip =>
    simp only [hr.hasTestState, Bool.not_true, Bool.false_eq_true, if_false]
    exact ext_noteSkip _ _
  | addSubSkip =>
    simp only [hr.hasTestState, Bool.not_true, Bool.false_eq_true, if_false]
    exact ext_noteSkip _ _
  | addSubTest e =>
    cases e with
    | none => exact Ext.refl s
    | some e =>
      simp only [hr.hasStartTime, Bool.not_true, Bool.false_eq_true, if_false]
      exact ext_bad _ _ _ _
  | addError =>
    simp only [hr.hasStartTime, Bool.not_true, Bool.false_eq_true, if_false]
    exact ext_bad _ _ _ _
  | addFailure =>
    simp only [hr.hasStartTime, Bool.not_true, Bool.false_eq_true, if_false]
    exact ext_bad _ _ _ _
  | addUnexpectedSuccess =>
    simp only [hr.hasStartTime, Bool.not_true, Bool.false_eq_true, if_false]
    exact ext_bad _ _ _ _

theorem ext_foldl_mid (c : Cfg) (t : TestDef) : ∀ (ops : List Op) (s : RS), Running s →
    (∀ op ∈ ops, Mid op ∨ Final op) → Ext s (ops.foldl (step c t) s)
  | [], s, _, _ => Ext.refl s
  | op :: ops, s, hr, h => by
    simp only [List.foldl_cons]
    have h1 := ext_step_mid c t s op hr (h op (by simp))
    exact h1.trans (ext_foldl_mid c t ops _ (hr.of_ext h1) (fun o ho => h o (by simp [ho])))

/-- between two tests -/
structure Between (s : RS) : Prop where
  aborted : s.aborted = false
  hasTestState : s.hasTestState = false
  captured : s.captured = false

end Ztr.Result
