import Ztr.Model.Channel
/-! Helper lemmas for the byte-level channel model. -/
namespace Ztr.Channel

/-! ### lines -/

theorem splitLinesAux_noNl : ∀ (r cur : Bytes), 10 ∉ r → splitLinesAux r cur = ([], cur.reverse ++ r)
  | [], cur, _ => by simp [splitLinesAux]
  | b :: bs, cur, h => by
    have hb : b ≠ 10 := fun e => h (by simp [e])
    have hbs : 10 ∉ bs := fun e => h (by simp [e])
    have : (b == 10) = false := by simp [hb]
    simp [splitLinesAux, this, splitLinesAux_noNl bs (b :: cur) hbs]

theorem splitLinesAux_line : ∀ (l rest cur : Bytes), 10 ∉ l →
    splitLinesAux (l ++ 10 :: rest) cur =
      ((cur.reverse ++ l) :: (splitLinesAux rest []).1, (splitLinesAux rest []).2)
  | [], rest, cur, _ => by simp [splitLinesAux]
  | b :: bs, rest, cur, h => by
    have hb : b ≠ 10 := fun e => h (by simp [e])
    have hbs : 10 ∉ bs := fun e => h (by simp [e])
    have : (b == 10) = false := by simp [hb]
    simp [splitLinesAux, this, splitLinesAux_line bs rest (b :: cur) hbs]

/-- splitting re-assembles newline-free lines exactly, and keeps the unterminated rest apart -/
theorem splitLines_joinLines : ∀ (ls : List Bytes) (r : Bytes), (∀ l ∈ ls, 10 ∉ l) → 10 ∉ r →
    splitLines (joinLines ls ++ r) = (ls, r)
  | [], r, _, hr => by simp [splitLines, joinLines, splitLinesAux_noNl r [] hr]
  | l :: ls, r, h, hr => by
    have ih := splitLines_joinLines ls r (fun x hx => h x (by simp [hx])) hr
    unfold splitLines at *
    have e : joinLines (l :: ls) ++ r = l ++ 10 :: (joinLines ls ++ r) := by
      simp [joinLines, List.flatMap_cons]
    rw [e, splitLinesAux_line l _ [] (h l (by simp)), ih]
    simp

theorem joinLines_append (a b : List Bytes) : joinLines (a ++ b) = joinLines a ++ joinLines b := by
  simp [joinLines, List.flatMap_append]

/-- a strict prefix of newline-terminated lines is some complete lines plus a proper part of the
next one -/
theorem strictPrefix_joinLines : ∀ (ls : List Bytes) (p s : Bytes), s ≠ [] → p ++ s = joinLines ls →
    ∃ k r, k < ls.length ∧ p = joinLines (ls.take k) ++ r ∧ (∃ t, r ++ t = ls[k]?.getD [])
  | [], p, s, hs, h => by
    simp [joinLines] at h
    exact absurd h.2 hs
  | l :: ls, p, s, hs, h => by
    have e : joinLines (l :: ls) = l ++ 10 :: joinLines ls := by simp [joinLines, List.flatMap_cons]
    rw [e] at h
    rcases List.append_eq_append_iff.1 h with ⟨a', ha, hb⟩ | ⟨c', hc, hd⟩
    · -- l = p ++ a' : p lies inside the first line
      exact ⟨0, p, by simp, by simp [joinLines], a', by simp [ha]⟩
    · -- p = l ++ c', s = ... : c' ++ s = 10 :: joinLines ls
      cases c' with
      | nil =>
        simp only [List.append_nil] at hc
        exact ⟨0, p, by simp, by simp [joinLines], [], by simp [hc]⟩
      | cons c cs =>
        simp only [List.cons_append, List.cons.injEq] at hd
        obtain ⟨rfl, hd⟩ := hd
        obtain ⟨k, r, hk, hp, t, ht⟩ := strictPrefix_joinLines ls cs s hs hd.symm
        refine ⟨k + 1, r, by simp; omega, ?_, t, by simpa using ht⟩
        rw [hc, hp]
        simp [joinLines, List.flatMap_cons]

/-! ### decimal numbers -/

def dstep (x d : Nat) : Nat := x * 10 + (d - 48)

theorem digitsVal_allDigits : ∀ (ds : Bytes) (acc : Nat) (pd : Bool), (∀ b ∈ ds, isDigit b = true) →
    (ds ≠ [] ∨ pd = true) → digitsVal ds acc pd = some (ds.foldl dstep acc)
  | [], acc, pd, _, h => by
    rcases h with h | h
    · exact absurd rfl h
    · simp [digitsVal, h]
  | b :: bs, acc, pd, hd, _ => by
    have hb := hd b (by simp)
    simp only [digitsVal, hb, if_true, List.foldl_cons]
    exact digitsVal_allDigits bs _ true (fun x hx => hd x (by simp [hx])) (Or.inr rfl)

theorem renderNatAux_digits : ∀ (f n : Nat) (acc : Bytes), (∀ b ∈ acc, isDigit b = true) →
    ∀ b ∈ renderNatAux f n acc, isDigit b = true
  | 0, _, acc, h => by simpa [renderNatAux] using h
  | f + 1, n, acc, h => by
    unfold renderNatAux
    split
    · rename_i hn
      intro b hb
      rcases List.mem_cons.1 hb with rfl | hb'
      · simp [isDigit]; omega
      · exact h b hb'
    · apply renderNatAux_digits f (n / 10)
      intro b hb
      rcases List.mem_cons.1 hb with rfl | hb'
      · have : n % 10 < 10 := Nat.mod_lt _ (by omega)
        simp [isDigit]; omega
      · exact h b hb'

theorem renderNatAux_val : ∀ (f n : Nat) (acc : Bytes), n < f →
    (renderNatAux f n acc).foldl dstep 0 = acc.foldl dstep n
  | 0, n, _, h => by omega
  | f + 1, n, acc, h => by
    unfold renderNatAux
    split
    · simp [dstep]
    · rename_i hn
      have hlt : n / 10 < f := by omega
      rw [renderNatAux_val f (n / 10) _ hlt]
      simp only [List.foldl_cons, dstep]
      congr 1
      omega

theorem renderNatAux_ne_nil : ∀ (f n : Nat) (acc : Bytes), n < f → renderNatAux f n acc ≠ []
  | 0, n, _, h => by omega
  | f + 1, n, acc, h => by
    unfold renderNatAux
    split
    · simp
    · exact renderNatAux_ne_nil f (n / 10) _ (by omega)

theorem renderNat_digits (n : Nat) : ∀ b ∈ renderNat n, isDigit b = true :=
  renderNatAux_digits _ _ [] (by simp)

theorem renderNat_ne_nil (n : Nat) : renderNat n ≠ [] := renderNatAux_ne_nil _ _ [] (by omega)

/-- `int(str(n)) == n` for the model's decimal renderer and the Python `int()` grammar -/
theorem parseNat_renderNat (n : Nat) : parseInt (renderNat n) = some (Int.ofNat n) := by
  have hd := renderNat_digits n
  have hne := renderNat_ne_nil n
  have hv : (renderNat n).foldl dstep 0 = n := by
    have := renderNatAux_val (n + 1) n [] (by omega)
    simpa [renderNat] using this
  have hdv := digitsVal_allDigits (renderNat n) 0 false hd (Or.inl hne)
  cases hr : renderNat n with
  | nil => exact absurd hr hne
  | cons b bs =>
    have hb : isDigit b = true := hd b (by simp [hr])
    have h43 : b ≠ 43 := by intro e; simp [e, isDigit] at hb
    have h45 : b ≠ 45 := by intro e; simp [e, isDigit] at hb
    rw [hr] at hdv hv
    unfold parseInt
    split
    · rename_i heq; cases heq
    · rename_i heq; cases heq; exact absurd rfl h43
    · rename_i heq; cases heq; exact absurd rfl h45
    · rw [hdv, hv]; rfl

theorem isDigit_not_ws {b : Nat} (h : isDigit b = true) : isWs b = false := by
  simp [isDigit] at h
  simp [isWs]
  omega

/-! ### tokens -/

theorem tokensAux_word_end : ∀ (w cur : Bytes), (∀ b ∈ w, isWs b = false) → (w ≠ [] ∨ cur ≠ []) →
    tokensAux w cur = [cur.reverse ++ w]
  | [], cur, _, h => by
    have : cur ≠ [] := by rcases h with h | h; exact absurd rfl h; exact h
    simp [tokensAux, this]
  | b :: bs, cur, hw, _ => by
    have hb := hw b (by simp)
    simp only [tokensAux, hb, Bool.false_eq_true, if_false]
    rw [tokensAux_word_end bs (b :: cur) (fun x hx => hw x (by simp [hx])) (Or.inr (by simp))]
    simp

theorem tokensAux_word_sp : ∀ (w rest cur : Bytes), (∀ b ∈ w, isWs b = false) → (w ≠ [] ∨ cur ≠ []) →
    tokensAux (w ++ 32 :: rest) cur = (cur.reverse ++ w) :: tokensAux rest []
  | [], rest, cur, _, h => by
    have : cur ≠ [] := by rcases h with h | h; exact absurd rfl h; exact h
    simp [tokensAux, isWs, this]
  | b :: bs, rest, cur, hw, _ => by
    have hb := hw b (by simp)
    simp only [List.cons_append, tokensAux, hb, Bool.false_eq_true, if_false]
    rw [tokensAux_word_sp bs rest (b :: cur) (fun x hx => hw x (by simp [hx])) (Or.inr (by simp))]
    simp

theorem parseHeader_headerLine (a b c : Nat) :
    parseHeader (headerLine a b c) = some (Int.ofNat a, Int.ofNat b, Int.ofNat c) := by
  have wa : ∀ x ∈ renderNat a, isWs x = false := fun x hx => isDigit_not_ws (renderNat_digits a x hx)
  have wb : ∀ x ∈ renderNat b, isWs x = false := fun x hx => isDigit_not_ws (renderNat_digits b x hx)
  have wc : ∀ x ∈ renderNat c, isWs x = false := fun x hx => isDigit_not_ws (renderNat_digits c x hx)
  have ht : tokens (headerLine a b c) = [renderNat a, renderNat b, renderNat c] := by
    unfold tokens headerLine
    have e : renderNat a ++ [32] ++ renderNat b ++ [32] ++ renderNat c
        = renderNat a ++ 32 :: (renderNat b ++ 32 :: renderNat c) := by simp
    rw [e, tokensAux_word_sp _ _ [] wa (Or.inl (renderNat_ne_nil a)),
      tokensAux_word_sp _ _ [] wb (Or.inl (renderNat_ne_nil b)),
      tokensAux_word_end _ [] wc (Or.inl (renderNat_ne_nil c))]
    simp
  unfold parseHeader
  rw [ht]
  simp [parseNat_renderNat]


/-! ### prefixes of a header line (for the truncation theorem) -/

theorem tokens_digits (w : Bytes) (hw : ∀ b ∈ w, isDigit b = true) :
    tokensAux w [] = if w = [] then [] else [w] := by
  by_cases h : w = []
  · subst h; simp [tokensAux]
  · rw [tokensAux_word_end w [] (fun b hb => isDigit_not_ws (hw b hb)) (Or.inl h)]
    simp [h]

/-- a prefix `r` of `A␠B␠C` (digit strings) that splits into three tokens is `A␠B␠c` with `c` a
non-empty prefix of `C` -/
theorem tokens_prefix3 (A B C r t : Bytes)
    (hA : ∀ b ∈ A, isDigit b = true) (hB : ∀ b ∈ B, isDigit b = true) (hC : ∀ b ∈ C, isDigit b = true)
    (hAne : A ≠ []) (hBne : B ≠ [])
    (h : r ++ t = A ++ 32 :: (B ++ 32 :: C)) (a b c : Bytes) (ht : tokens r = [a, b, c]) :
    a = A ∧ b = B ∧ c ≠ [] ∧ c ++ t = C := by
  have wsA : ∀ x ∈ A, isWs x = false := fun x hx => isDigit_not_ws (hA x hx)
  have wsB : ∀ x ∈ B, isWs x = false := fun x hx => isDigit_not_ws (hB x hx)
  unfold tokens at ht
  rcases List.append_eq_append_iff.1 h with ⟨a', hr, _⟩ | ⟨c', hr, hc⟩
  · -- r is a prefix of A
    have hrd : ∀ x ∈ r, isDigit x = true := fun x hx => hA x (by rw [hr]; simp [hx])
    rw [tokens_digits r hrd] at ht
    split at ht <;> simp at ht
  · cases c' with
    | nil =>
      simp only [List.append_nil] at hr
      rw [hr, tokens_digits A hA] at ht
      split at ht <;> simp at ht
    | cons x c'' =>
      simp only [List.cons_append, List.cons.injEq] at hc
      obtain ⟨hx, hc⟩ := hc
      subst hx
      rw [hr, tokensAux_word_sp A c'' [] wsA (Or.inl hAne)] at ht
      simp only [List.reverse_nil, List.nil_append, List.cons.injEq] at ht
      obtain ⟨ha, ht⟩ := ht
      rcases List.append_eq_append_iff.1 hc.symm with ⟨b', hr2, _⟩ | ⟨d', hr2, hd⟩
      · -- c'' is a prefix of B
        have hcd : ∀ x ∈ c'', isDigit x = true := fun x hx => hB x (by rw [hr2]; simp [hx])
        rw [tokens_digits c'' hcd] at ht
        split at ht <;> simp at ht
      · cases d' with
        | nil =>
          simp only [List.append_nil] at hr2
          rw [hr2, tokens_digits B hB] at ht
          split at ht <;> simp at ht
        | cons y d'' =>
          simp only [List.cons_append, List.cons.injEq] at hd
          obtain ⟨hy, hd⟩ := hd
          subst hy
          rw [hr2, tokensAux_word_sp B d'' [] wsB (Or.inl hBne)] at ht
          simp only [List.reverse_nil, List.nil_append, List.cons.injEq] at ht
          obtain ⟨hb, ht⟩ := ht
          have hdd : ∀ x ∈ d'', isDigit x = true := fun x hx => hC x (by rw [hd]; simp [hx])
          rw [tokens_digits d'' hdd] at ht
          split at ht
          · simp at ht
          · rename_i hne
            simp only [List.cons.injEq, and_true] at ht
            subst ht
            exact ⟨ha.symm, hb.symm, hne, hd.symm⟩

theorem foldl_dstep_ge : ∀ (ds : Bytes) (acc : Nat), acc ≤ ds.foldl dstep acc
  | [], _ => Nat.le_refl _
  | d :: ds, acc => by
    simp only [List.foldl_cons]
    have : acc ≤ dstep acc d := by unfold dstep; omega
    exact Nat.le_trans this (foldl_dstep_ge ds _)

/-- a digit string whose value is 0 starts with `'0'` -/
theorem head_zero_of_value_zero (d : Nat) (ds : Bytes) (hd : isDigit d = true)
    (h : (d :: ds).foldl dstep 0 = 0) : d = 48 := by
  simp only [List.foldl_cons] at h
  have := foldl_dstep_ge ds (dstep 0 d)
  rw [h] at this
  unfold dstep at this
  simp [isDigit] at hd
  omega

/-- `str(n)` has no leading zero unless `n = 0` -/
theorem renderNatAux_head : ∀ (f n : Nat) (acc : Bytes), n < f → 0 < n →
    ∃ d rest, renderNatAux f n acc = d :: rest ∧ d ≠ 48
  | 0, n, _, h, _ => by omega
  | f + 1, n, acc, h, hn => by
    unfold renderNatAux
    split
    · exact ⟨48 + n, acc, rfl, by omega⟩
    · exact renderNatAux_head f (n / 10) _ (by omega) (by omega)

theorem renderNat_head_zero (n : Nat) (rest : Bytes) (h : renderNat n = 48 :: rest) : n = 0 := by
  by_cases hn : n = 0
  · exact hn
  · obtain ⟨d, r, hr, hd⟩ := renderNatAux_head (n + 1) n [] (by omega) (by omega)
    unfold renderNat at h
    rw [hr] at h
    simp only [List.cons.injEq] at h
    exact absurd h.1 hd

theorem renderNat_zero : renderNat 0 = [48] := by decide

/-- a non-empty prefix of `str(n)` that reads as the number 0 is all of `str(n)`, and `n = 0` -/
theorem prefix_value_zero (n : Nat) (c t : Bytes) (hc : c ≠ []) (h : c ++ t = renderNat n)
    (z : Int) (hz : parseInt c = some z) (hz0 : z.toNat = 0) : n = 0 ∧ t = [] := by
  have hcd : ∀ x ∈ c, isDigit x = true := fun x hx => renderNat_digits n x (by rw [← h]; simp [hx])
  cases c with
  | nil => exact absurd rfl hc
  | cons d ds =>
    have hd : isDigit d = true := hcd d (by simp)
    have h43 : d ≠ 43 := by intro e; simp [e, isDigit] at hd
    have h45 : d ≠ 45 := by intro e; simp [e, isDigit] at hd
    have hdv := digitsVal_allDigits (d :: ds) 0 false hcd (Or.inl (by simp))
    have hval : z = Int.ofNat ((d :: ds).foldl dstep 0) := by
      unfold parseInt at hz
      split at hz
      · rename_i heq; cases heq
      · rename_i heq; cases heq; exact absurd rfl h43
      · rename_i heq; cases heq; exact absurd rfl h45
      · rw [hdv] at hz
        simp only [Option.map_some, Option.some.injEq] at hz
        exact hz.symm
    have hv0 : (d :: ds).foldl dstep 0 = 0 := by
      rw [hval] at hz0
      simpa using hz0
    have hd48 := head_zero_of_value_zero d ds hd hv0
    subst hd48
    have hn : n = 0 := renderNat_head_zero n (ds ++ t) (by rw [← h]; simp)
    subst hn
    rw [renderNat_zero] at h
    simp only [List.cons_append, List.cons.injEq, true_and, List.append_eq_nil_iff] at h
    exact ⟨rfl, h.2⟩

/-- **the header of a cut report**: if a prefix `r` of the header line parses as a header that
announces no names, it carries exactly the child's numbers, and the child's lists were empty -/
theorem parseHeader_prefix_zero (ran nf ne : Nat) (r t : Bytes) (h : r ++ t = headerLine ran nf ne)
    (x y z : Int) (hp : parseHeader r = some (x, y, z)) (h0 : y.toNat + z.toNat = 0) :
    x = Int.ofNat ran ∧ nf = 0 ∧ ne = 0 := by
  have e : headerLine ran nf ne = renderNat ran ++ 32 :: (renderNat nf ++ 32 :: renderNat ne) := by
    unfold headerLine; simp
  rw [e] at h
  unfold parseHeader at hp
  split at hp
  · rename_i a b c htok
    obtain ⟨ha, hb, hcne, hct⟩ := tokens_prefix3 _ _ _ r t (renderNat_digits ran) (renderNat_digits nf)
      (renderNat_digits ne) (renderNat_ne_nil ran) (renderNat_ne_nil nf) h a b c htok
    subst ha; subst hb
    rw [parseNat_renderNat, parseNat_renderNat] at hp
    cases hz : parseInt c with
    | none => rw [hz] at hp; simp at hp
    | some z' =>
      rw [hz] at hp
      simp only [Option.some.injEq, Prod.mk.injEq] at hp
      obtain ⟨hx, hy, hzz⟩ := hp
      subst hx; subst hy; subst hzz
      have hy0 : nf = 0 := by
        have : (Int.ofNat nf).toNat = nf := rfl
        omega
      have hz0 : z'.toNat = 0 := by omega
      exact ⟨rfl, hy0, (prefix_value_zero ne c t hcne hct z' hz hz0).1⟩
  · cases hp

/-! ### header search -/

theorem findHeader_skip : ∀ (pre : List Bytes) (rest : List Bytes),
    (∀ l ∈ pre, parseHeader l = none) → findHeader (pre ++ rest) = findHeader rest
  | [], _, _ => rfl
  | l :: ls, rest, h => by
    simp only [List.cons_append, findHeader, h l (by simp)]
    exact findHeader_skip ls rest (fun x hx => h x (by simp [hx]))

theorem findHeader_none : ∀ (pre : List Bytes), (∀ l ∈ pre, parseHeader l = none) → findHeader pre = none
  | [], _ => rfl
  | l :: ls, h => by
    simp only [findHeader, h l (by simp)]
    exact findHeader_none ls (fun x hx => h x (by simp [hx]))

/-- a name as it travels: no newline, nothing for `strip` to remove, valid UTF-8 -/
def Clean (n : Bytes) : Prop := 10 ∉ n ∧ strip n = n ∧ utf8Valid n = true

theorem decodeNames_clean (ns : List Bytes) (h : ∀ n ∈ ns, Clean n) : decodeNames ns = some ns := by
  unfold decodeNames
  have h2 : ns.map strip = ns := by
    have : ∀ n ∈ ns, strip n = n := fun n hn => (h n hn).2.1
    clear h
    induction ns with
    | nil => rfl
    | cons x xs ih => simp [this x (by simp), ih (fun n hn => this n (by simp [hn]))]
  simp [h2]

end Ztr.Channel
