import Ztr.Model.Sort
namespace Ztr.PySort

variable {α : Type}

theorem insert_perm (le : α → α → Bool) (x : α) : ∀ l : List α, (insert le x l).Perm (x :: l)
  | [] => List.Perm.refl _
  | y :: ys => by
    unfold insert
    by_cases h : le x y
    · simp [h]
    · simp only [h, Bool.false_eq_true, if_false]
      exact ((insert_perm le x ys).cons y).trans (List.Perm.swap x y ys)

theorem isort_perm (le : α → α → Bool) : ∀ l : List α, (isort le l).Perm l
  | [] => List.Perm.refl _
  | x :: xs => by
    unfold isort
    exact (insert_perm le x _).trans ((isort_perm le xs).cons x)

theorem mem_isort (le : α → α → Bool) (l : List α) (x : α) : x ∈ isort le l ↔ x ∈ l :=
  (isort_perm le l).mem_iff

theorem insert_pairwise {le : α → α → Bool}
    (trans : ∀ a b c, le a b = true → le b c = true → le a c = true)
    (total : ∀ a b, (le a b || le b a) = true) (x : α) :
    ∀ l : List α, l.Pairwise (fun a b => le a b = true) →
      (insert le x l).Pairwise (fun a b => le a b = true)
  | [], _ => by simp [insert]
  | y :: ys, h => by
    unfold insert
    obtain ⟨hy, hys⟩ := List.pairwise_cons.1 h
    by_cases hxy : le x y = true
    · simp only [hxy, if_true]
      refine List.pairwise_cons.2 ⟨?_, h⟩
      intro z hz
      rcases List.mem_cons.1 hz with rfl | hz'
      · exact hxy
      · exact trans _ _ _ hxy (hy z hz')
    · simp only [hxy]
      refine List.pairwise_cons.2 ⟨?_, insert_pairwise trans total x ys hys⟩
      intro z hz
      rcases List.mem_cons.1 ((insert_perm le x ys).mem_iff.1 hz) with rfl | hz'
      · have := total z y
        simp only [Bool.or_eq_true] at this
        rcases this with h1 | h1
        · exact absurd h1 hxy
        · exact h1
      · exact hy z hz'

theorem isort_pairwise {le : α → α → Bool}
    (trans : ∀ a b c, le a b = true → le b c = true → le a c = true)
    (total : ∀ a b, (le a b || le b a) = true) :
    ∀ l : List α, (isort le l).Pairwise (fun a b => le a b = true)
  | [] => by simp [isort]
  | x :: xs => by
    unfold isort
    exact insert_pairwise trans total x _ (isort_pairwise trans total xs)

/-- a total preorder that is antisymmetric on the elements sorts every permutation to the same list -/
theorem isort_perm_eq {le : α → α → Bool}
    (trans : ∀ a b c, le a b = true → le b c = true → le a c = true)
    (total : ∀ a b, (le a b || le b a) = true)
    (antisymm : ∀ a b, le a b = true → le b a = true → a = b)
    {l l' : List α} (h : l.Perm l') : isort le l = isort le l' := by
  apply List.Perm.eq_of_pairwise (le := fun a b => le a b = true)
  · intro a b _ _ h1 h2; exact antisymm a b h1 h2
  · exact isort_pairwise trans total l
  · exact isort_pairwise trans total l'
  · exact ((isort_perm le l).trans h).trans (isort_perm le l').symm

end Ztr.PySort
