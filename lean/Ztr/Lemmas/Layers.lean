import Ztr.Model.Layers
import Ztr.Lemmas.Sort
/-! Helper lemmas about `gather`, the de-duplication loop and `order_by_bases`. -/
namespace Ztr.Layers

/-- keeps the *last* occurrence of every element (specification device) -/
def dedupLast : List Nat → List Nat
  | [] => []
  | x :: xs => if x ∈ xs then dedupLast xs else x :: dedupLast xs

theorem mem_dedupLast {a : Nat} : ∀ {l : List Nat}, a ∈ dedupLast l ↔ a ∈ l
  | [] => by simp [dedupLast]
  | x :: xs => by
    unfold dedupLast
    by_cases h : x ∈ xs
    · simp only [h, if_true, List.mem_cons]
      rw [mem_dedupLast (l := xs)]
      constructor
      · exact Or.inr
      · rintro (rfl | h') <;> assumption
    · simp only [h, if_false, List.mem_cons]
      rw [mem_dedupLast (l := xs)]

theorem nodup_dedupLast : ∀ l : List Nat, (dedupLast l).Nodup
  | [] => by simp [dedupLast]
  | x :: xs => by
    unfold dedupLast
    by_cases h : x ∈ xs
    · simp only [h, if_true]; exact nodup_dedupLast xs
    · simp only [h, if_false, List.nodup_cons]
      exact ⟨fun hh => h (mem_dedupLast.1 hh), nodup_dedupLast xs⟩

theorem dedupAux_append_singleton (seen xs : List Nat) (x : Nat) :
    dedupAux seen (xs ++ [x]) =
      if x ∈ seen ∨ x ∈ xs then dedupAux seen xs else dedupAux seen xs ++ [x] := by
  induction xs generalizing seen with
  | nil => by_cases h : x ∈ seen <;> simp [dedupAux, h]
  | cons y ys ih =>
    simp only [List.cons_append, dedupAux]
    by_cases hy : y ∈ seen
    · simp only [hy, if_true, ih]
      by_cases hx : x ∈ seen
      · simp [hx]
      · have : x ≠ y := fun e => hx (e ▸ hy)
        simp [hx, this]
    · simp only [hy, if_false, ih, List.mem_cons]
      by_cases hxy : x = y
      · simp [hxy]
      · by_cases hx : x ∈ seen <;> by_cases hx' : x ∈ ys <;> simp [hxy, hx, hx']

theorem dedupFirst_reverse (l : List Nat) : dedupFirst l.reverse = (dedupLast l).reverse := by
  induction l with
  | nil => simp [dedupFirst, dedupAux, dedupLast]
  | cons x xs ih =>
    unfold dedupFirst at *
    rw [List.reverse_cons, dedupAux_append_singleton, ih]
    by_cases h : x ∈ xs <;> simp [h, dedupLast]

/-- every occurrence of `l` in `L` is followed by an occurrence of `b` -/
def Followed (l b : Nat) (L : List Nat) : Prop := ∀ pre post, L = pre ++ l :: post → b ∈ post

theorem followed_nil (l b : Nat) : Followed l b [] := by
  intro pre post h; cases pre <;> simp at h

theorem followed_append {l b : Nat} {A B : List Nat} (hA : Followed l b A) (hB : Followed l b B) :
    Followed l b (A ++ B) := by
  intro pre post h
  rcases List.append_eq_append_iff.1 h with ⟨a', rfl, hB'⟩ | ⟨c', hA', hc⟩
  · exact hB a' post hB'
  · cases c' with
    | nil =>
      simp only [List.nil_append] at hc
      exact hB [] post hc.symm
    | cons c cs =>
      simp only [List.cons_append, List.cons.injEq] at hc
      obtain ⟨rfl, rfl⟩ := hc
      have := hA pre cs hA'
      exact List.mem_append_left _ this

theorem followed_flatMap {l b : Nat} {f : Nat → List Nat} {xs : List Nat}
    (h : ∀ x ∈ xs, Followed l b (f x)) : Followed l b (xs.flatMap f) := by
  induction xs with
  | nil => exact followed_nil l b
  | cons x xs ih =>
    rw [List.flatMap_cons]
    exact followed_append (h x (by simp)) (ih (fun y hy => h y (by simp [hy])))

theorem sublist_dedupLast_of_followed {l b : Nat} (hne : b ≠ l) :
    ∀ L : List Nat, Followed l b L → l ∈ L → [l, b].Sublist (dedupLast L)
  | [], _, hl => by simp at hl
  | x :: xs, hF, hl => by
    have hF' : Followed l b xs := fun pre post h => hF (x :: pre) post (by simp [h])
    unfold dedupLast
    by_cases hx : x ∈ xs
    · simp only [hx, if_true]
      have : l ∈ xs := by
        rcases List.mem_cons.1 hl with rfl | h
        · exact hx
        · exact h
      exact sublist_dedupLast_of_followed hne xs hF' this
    · simp only [hx, if_false]
      by_cases hxl : x = l
      · subst hxl
        have hb : b ∈ xs := hF [] xs rfl
        have hb' : b ∈ dedupLast xs := mem_dedupLast.2 hb
        exact List.Sublist.cons_cons _ (List.singleton_sublist.2 hb')
      · have : l ∈ xs := by
          rcases List.mem_cons.1 hl with rfl | h
          · exact absurd rfl hxl
          · exact h
        exact List.Sublist.cons _ (sublist_dedupLast_of_followed hne xs hF' this)

/-! ### `gather` -/

theorem flatMap_congr' {α β : Type} {f g : α → List β} :
    ∀ {l : List α}, (∀ a ∈ l, f a = g a) → l.flatMap f = l.flatMap g
  | [], _ => rfl
  | x :: xs, h => by
    rw [List.flatMap_cons, List.flatMap_cons, h x (by simp),
      flatMap_congr' (l := xs) (fun a ha => h a (by simp [ha]))]

theorem gatherF_fuel {G : Graph} (hwf : WF G) :
    ∀ f f' l, l < f → l < f' → gatherF G.bases f l = gatherF G.bases f' l := by
  intro f
  induction f with
  | zero => intro f' l h; omega
  | succ f ih =>
    intro f' l h h'
    cases f' with
    | zero => omega
    | succ f' =>
      simp only [gatherF]
      congr 1
      apply flatMap_congr'
      intro b hb
      have := hwf l b hb
      exact ih f' b (by omega) (by omega)

theorem gather_eq {G : Graph} (hwf : WF G) (l : Nat) :
    gather G l = l :: (G.bases l).flatMap (gather G) := by
  have e : gatherF G.bases (l + 1) l = l :: (G.bases l).flatMap (gatherF G.bases l) := rfl
  rw [gather, e]
  congr 1
  apply flatMap_congr'
  intro b hb
  have := hwf l b hb
  show gatherF G.bases l b = gatherF G.bases (b + 1) b
  exact gatherF_fuel hwf _ _ b (by omega) (by omega)

theorem self_mem_gather (G : Graph) (l : Nat) : l ∈ gather G l := by
  simp [gather, gatherF]

/-- everything gathered below the head is strictly smaller -/
theorem lt_of_mem_gather_tail {G : Graph} (hwf : WF G) :
    ∀ l b, b ∈ (G.bases l).flatMap (gather G) → b < l := by
  intro l
  induction l using Nat.strongRecOn with
  | _ l ih =>
    intro b hb
    obtain ⟨c, hc, hbc⟩ := List.mem_flatMap.1 hb
    have hcl := hwf l c hc
    rw [gather_eq hwf c] at hbc
    rcases List.mem_cons.1 hbc with rfl | h
    · exact hcl
    · exact Nat.lt_trans (ih c hcl b h) hcl

theorem closure_trans {G : Graph} (hwf : WF G) :
    ∀ l b c, b ∈ gather G l → c ∈ gather G b → c ∈ gather G l := by
  intro l
  induction l using Nat.strongRecOn with
  | _ l ih =>
    intro b c hb hc
    rw [gather_eq hwf l] at hb
    rcases List.mem_cons.1 hb with rfl | h
    · exact hc
    · obtain ⟨d, hd, hbd⟩ := List.mem_flatMap.1 h
      have := ih d (hwf l d hd) b c hbd hc
      rw [gather_eq hwf l]
      exact List.mem_cons_of_mem _ (List.mem_flatMap.2 ⟨d, hd, this⟩)

/-- in any gathered list every occurrence of `l` is followed by each of its strict bases -/
theorem followed_gather {G : Graph} (hwf : WF G) {l b : Nat} (hb : b ∈ gather G l) (hne : b ≠ l) :
    ∀ x, Followed l b (gather G x) := by
  intro x
  induction x using Nat.strongRecOn with
  | _ x ih =>
    rw [gather_eq hwf x]
    intro pre post h
    cases pre with
    | nil =>
      simp only [List.nil_append, List.cons.injEq] at h
      obtain ⟨rfl, rfl⟩ := h
      rw [gather_eq hwf x] at hb
      rcases List.mem_cons.1 hb with rfl | h'
      · exact absurd rfl hne
      · exact h'
    | cons p ps =>
      simp only [List.cons_append, List.cons.injEq] at h
      obtain ⟨rfl, h⟩ := h
      exact followed_flatMap (fun c hc => ih c (hwf x c hc)) ps post h

/-! ### the sort -/

theorem leDesc_trans (G : Graph) (a b c : Nat) :
    leDesc G a b = true → leDesc G b c = true → leDesc G a c = true := by
  simp only [leDesc, decide_eq_true_eq]
  intro h1 h2
  exact List.le_trans h2 h1

theorem leDesc_total (G : Graph) (a b : Nat) : (leDesc G a b || leDesc G b a) = true := by
  simp only [leDesc, Bool.or_eq_true, decide_eq_true_eq]
  exact (List.le_total _ _).symm

theorem sorted_pairwise (G : Graph) (ls : List Nat) :
    (PySort.isort (leDesc G) ls).Pairwise (fun a b => leDesc G a b = true) :=
  PySort.isort_pairwise (leDesc_trans G) (leDesc_total G) ls

theorem mem_sorted (G : Graph) (ls : List Nat) (x : Nat) :
    x ∈ PySort.isort (leDesc G) ls ↔ x ∈ ls :=
  PySort.mem_isort _ _ _

theorem nodup_reverse' {l : List Nat} (h : l.Nodup) : l.reverse.Nodup := by
  unfold List.Nodup at *
  rw [List.pairwise_reverse]
  exact h.imp (fun hab => fun e => hab e.symm)

/-! ### the sort key -/

structure Good (G : Graph) : Prop where
  wf : WF G
  nameInj : ∀ a b, G.name a = G.name b → a = b
  unitRoot : G.bases G.unit = []

theorem keyF_snd_last (bases : Nat → List Nat) (f l : Nat) (st : List Nat × List Nat) :
    ∃ K, (keyF bases (f + 1) l st).2 = K ++ [l] := by
  simp only [keyF]
  exact ⟨_, rfl⟩

theorem sortKey_ne_unit (G : Graph) {l : Nat} (h : l ≠ G.unit) :
    ∃ K, sortKey G l = K ++ [G.name l] := by
  obtain ⟨K, hK⟩ := keyF_snd_last G.bases l l ([], [])
  unfold sortKey
  rw [hK]
  have : (l != G.unit) = true := by simp [h]
  simp only [List.filter_append, List.filter_cons, this, if_true, List.filter_nil, List.map_append,
    List.map_cons, List.map_nil]
  exact ⟨_, rfl⟩

theorem sortKey_unit {G : Graph} (hg : Good G) : sortKey G G.unit = [] := by
  unfold sortKey
  simp [keyF, hg.unitRoot]

theorem sortKey_inj {G : Graph} (hg : Good G) {a b : Nat} (h : sortKey G a = sortKey G b) : a = b := by
  by_cases ha : a = G.unit <;> by_cases hb : b = G.unit
  · rw [ha, hb]
  · obtain ⟨K, hK⟩ := sortKey_ne_unit G hb
    rw [ha, sortKey_unit hg, hK] at h
    simp at h
  · obtain ⟨K, hK⟩ := sortKey_ne_unit G ha
    rw [hb, sortKey_unit hg, hK] at h
    simp at h
  · obtain ⟨K, hK⟩ := sortKey_ne_unit G ha
    obtain ⟨K', hK'⟩ := sortKey_ne_unit G hb
    rw [hK, hK'] at h
    have := List.append_inj_right' h (by simp)
    simp only [List.cons.injEq, and_true] at this
    exact hg.nameInj a b this

theorem leDesc_antisymm {G : Graph} (hg : Good G) {a b : Nat}
    (h1 : leDesc G a b = true) (h2 : leDesc G b a = true) : a = b := by
  simp only [leDesc, decide_eq_true_eq] at h1 h2
  exact sortKey_inj hg (List.le_antisymm h2 h1)

theorem sorted_perm_eq {G : Graph} (hg : Good G) {ls ls' : List Nat} (h : ls.Perm ls') :
    PySort.isort (leDesc G) ls = PySort.isort (leDesc G) ls' :=
  PySort.isort_perm_eq (leDesc_trans G) (leDesc_total G) (fun _ _ h1 h2 => leDesc_antisymm hg h1 h2) h

end Ztr.Layers
