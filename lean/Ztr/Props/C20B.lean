import Ztr.Props.C20
/-! # C20, stage B — the frame structure of the visit stack, termination, and (below) correctness

`visits` is a stack of *frames*, one per ancestor: the pending neighbour visits of that ancestor
followed by the return marker.  -/
namespace Ztr.Digraph

/-- `visits` decomposes into one frame per ancestor (top first): pending neighbours, then the marker -/
inductive Frames (nbrs : Nat → List Nat) : List Nat → List (Option Nat) → Prop
  | nil : Frames nbrs [] []
  | cons {a : Nat} {A : List Nat} {P : List Nat} {V : List (Option Nat)} :
      (∀ m ∈ P, m ∈ nbrs a) → Frames nbrs A V → Frames nbrs (a :: A) (P.map some ++ none :: V)

theorem Frames.nil_iff {nbrs : Nat → List Nat} {A : List Nat} {V : List (Option Nat)} (h : Frames nbrs A V) :
    A = [] ↔ V = [] := by
  cases h with
  | nil => simp
  | cons _ _ => simp

theorem Frames.inv_some {nbrs : Nat → List Nat} {A : List Nat} {m : Nat} {vs : List (Option Nat)}
    (h : Frames nbrs A (some m :: vs)) :
    ∃ (a : Nat) (A0 : List Nat) (P : List Nat) (V0 : List (Option Nat)), A = a :: A0 ∧
      vs = P.map some ++ none :: V0 ∧ m ∈ nbrs a ∧ (∀ x ∈ P, x ∈ nbrs a) ∧ Frames nbrs A0 V0 := by
  generalize hv : some m :: vs = V at h
  cases h with
  | nil => cases hv
  | @cons a A0 P V0 hP hF =>
    cases P with
    | nil => simp at hv
    | cons p P' =>
      simp only [List.map_cons, List.cons_append, List.cons.injEq, Option.some.injEq] at hv
      obtain ⟨rfl, rfl⟩ := hv
      exact ⟨a, A0, P', V0, rfl, rfl, hP m (by simp), fun x hx => hP x (by simp [hx]), hF⟩

theorem Frames.inv_none {nbrs : Nat → List Nat} {A : List Nat} {vs : List (Option Nat)}
    (h : Frames nbrs A (none :: vs)) : ∃ a A0, A = a :: A0 ∧ Frames nbrs A0 vs := by
  generalize hv : none :: vs = V at h
  cases h with
  | nil => cases hv
  | @cons a A0 P V0 hP hF =>
    cases P with
    | nil =>
      simp only [List.map_nil, List.nil_append, List.cons.injEq, true_and] at hv
      subst hv
      exact ⟨a, A0, rfl, hF⟩
    | cons p P' => simp at hv

/-- well-formedness of the visit stack: frames, or a freshly picked root that is still unvisited -/
def WF (nbrs : Nat → List Nat) (s : St) : Prop :=
  Frames nbrs s.ancestors s.visits ∨
  (s.ancestors = [] ∧ ∃ m, s.visits = [some m] ∧ s.num m = none ∧ m ∈ s.unvisited)

theorem wf_init (nbrs : Nat → List Nat) (order : List Nat) : WF nbrs (init order) := Or.inl Frames.nil

theorem lowerLow_wf {nbrs : Nat → List Nat} {s : St} (h : WF nbrs s) (p v : Nat) : WF nbrs (lowerLow s p v) := by
  obtain ⟨e1, _, _, e4, e5, e6⟩ := lowerLow_fields s p v
  unfold WF at *
  rw [e4, e6, e5, e1]
  exact h

theorem foldIntoParent_wf {nbrs : Nat → List Nat} {s : St} (h : WF nbrs s) (node : Nat) :
    WF nbrs (foldIntoParent s node) := by
  unfold foldIntoParent
  split
  · exact h
  · exact lowerLow_wf h _ _

/-- the step function keeps the visit stack well formed (both modes), given that the partition
invariant holds (a picked root is unvisited) -/
theorem wf_step {order : List Nat} {nbrs : Nat → List Nat} (trivial : Bool) {s s' : St}
    (hi : Inv order s) (h : WF nbrs s) (hs : step trivial nbrs s = some s') : WF nbrs s' := by
  unfold step at hs
  split at hs
  · -- visits = []
    rename_i hv
    split at hs
    · simp at hs
    · rename_i n rest hu
      simp only [Option.some.injEq] at hs
      subst hs
      rcases h with hF | ⟨_, m, hm, _⟩
      · have hA : s.ancestors = [] := hF.nil_iff.2 hv
        refine Or.inr ⟨hA, n, rfl, ?_, by rw [hu]; simp⟩
        have hn : n ∈ order := (hi.perm.mem_iff).1 (by simp [hu])
        exact (hi.unv n hn).2 (by rw [hu]; simp)
      · rw [hv] at hm; cases hm
  · -- marker
    rename_i vs hv
    rcases h with hF | ⟨_, m, hm, _⟩
    · rw [hv] at hF
      obtain ⟨a, A0, hA, hF0⟩ := hF.inv_none
      rw [hA] at hs
      simp only [] at hs
      have base : WF nbrs (popFrame s vs A0) := Or.inl hF0
      split at hs
      · split at hs
        · simp only [Option.some.injEq] at hs; subst hs
          exact Or.inl hF0
        · simp only [Option.some.injEq] at hs; subst hs
          apply foldIntoParent_wf
          exact Or.inl hF0
      · simp only [Option.some.injEq] at hs; subst hs
        exact foldIntoParent_wf base _
    · rw [hv] at hm; cases hm
  · -- a node on top
    rename_i node vs hv
    split at hs
    · -- already visited
      rename_i d hd
      rcases h with hF | ⟨_, m, hm, hw, _⟩
      · rw [hv] at hF
        obtain ⟨a, A0, P, V0, hA, hvs, _, hP, hF0⟩ := hF.inv_some
        have base : WF nbrs { s with visits := vs } := by
          refine Or.inl ?_
          show Frames nbrs s.ancestors vs
          rw [hA, hvs]
          exact Frames.cons hP hF0
        split at hs
        · split at hs
          · simp only [Option.some.injEq] at hs; subst hs; exact base
          · simp only [Option.some.injEq] at hs; subst hs; exact lowerLow_wf base _ _
        · simp only [Option.some.injEq] at hs; subst hs; exact base
      · rw [hv] at hm
        simp only [List.cons.injEq, Option.some.injEq] at hm
        obtain ⟨rfl, _⟩ := hm
        rw [hw] at hd; cases hd
    · -- expansion
      simp only [Option.some.injEq] at hs
      subst hs
      refine Or.inl ?_
      show Frames nbrs (node :: s.ancestors) ((nbrs node).reverse.map some ++ none :: vs)
      rcases h with hF | ⟨hA, m, hm, _, _⟩
      · rw [hv] at hF
        obtain ⟨a, A0, P, V0, hA, hvs, _, hP, hF0⟩ := hF.inv_some
        refine Frames.cons (fun m hm => List.mem_reverse.1 hm) ?_
        rw [hA, hvs]
        exact Frames.cons hP hF0
      · rw [hv] at hm
        simp only [List.cons.injEq, Option.some.injEq] at hm
        obtain ⟨_, rfl⟩ := hm
        rw [hA]
        exact Frames.cons (fun m hm => List.mem_reverse.1 hm) Frames.nil

/-! ## termination -/

def nbrSum (nbrs : Nat → List Nat) (l : List Nat) : Nat := (l.map (fun n => (nbrs n).length)).sum

def vWeight : List (Option Nat) → Nat
  | [] => 0
  | none :: r => 3 + vWeight r
  | some _ :: r => 1 + vWeight r

/-- an upper bound on the number of steps still to come -/
def potential (nbrs : Nat → List Nat) (s : St) : Nat :=
  3 * s.unvisited.length + nbrSum nbrs s.unvisited + vWeight s.visits +
    (if s.visits = [] ∧ s.unvisited ≠ [] then 2 else 0)

theorem vWeight_append (a b : List (Option Nat)) : vWeight (a ++ b) = vWeight a + vWeight b := by
  induction a with
  | nil => simp [vWeight]
  | cons x r ih => cases x <;> simp [vWeight, ih] <;> omega

theorem vWeight_somes (l : List Nat) : vWeight (l.map some) = l.length := by
  induction l with
  | nil => rfl
  | cons x r ih => simp [vWeight, ih]; omega

theorem nbrSum_erase (nbrs : Nat → List Nat) (l : List Nat) (n : Nat) (h : n ∈ l) :
    nbrSum nbrs l = (nbrs n).length + nbrSum nbrs (l.erase n) := by
  induction l with
  | nil => simp at h
  | cons x r ih =>
    by_cases e : x = n
    · subst e; simp [nbrSum]
    · have hn : n ∈ r := by
        rcases List.mem_cons.1 h with h' | h'
        · exact absurd h'.symm e
        · exact h'
      have : (x :: r).erase n = x :: r.erase n := by simp [List.erase_cons, e]
      rw [this]
      unfold nbrSum at *
      simp only [List.map_cons, List.sum_cons]
      rw [ih hn]
      omega

theorem lowerLow_potential (nbrs : Nat → List Nat) (s : St) (p v : Nat) :
    potential nbrs (lowerLow s p v) = potential nbrs s := by
  obtain ⟨e1, _, _, _, _, e6⟩ := lowerLow_fields s p v
  unfold potential
  rw [e1, e6]

theorem foldIntoParent_potential (nbrs : Nat → List Nat) (s : St) (node : Nat) :
    potential nbrs (foldIntoParent s node) = potential nbrs s := by
  unfold foldIntoParent
  split
  · rfl
  · exact lowerLow_potential nbrs s _ _

/-- every step strictly decreases the potential -/
theorem potential_step {order : List Nat} {nbrs : Nat → List Nat} (trivial : Bool) {s s' : St}
    (hi : Inv order s) (h : WF nbrs s) (hs : step trivial nbrs s = some s') : potential nbrs s' < potential nbrs s := by
  unfold step at hs
  split at hs
  · rename_i hv
    split at hs
    · simp at hs
    · rename_i n rest hu
      simp only [Option.some.injEq] at hs
      subst hs
      unfold potential
      simp [hv, hu, vWeight]
  · rename_i vs hv
    rcases h with hF | ⟨_, m, hm, _⟩
    · rw [hv] at hF
      obtain ⟨a, A0, hA, _⟩ := hF.inv_none
      rw [hA] at hs
      simp only [] at hs
      have key : ∀ (x : St), x.unvisited = s.unvisited → x.visits = vs → potential nbrs x < potential nbrs s := by
        intro x h1 h2
        unfold potential
        rw [h1, h2, hv]
        simp only [vWeight]
        split <;> split <;> simp_all <;> omega
      split at hs
      · split at hs
        · simp only [Option.some.injEq] at hs; subst hs
          exact key _ rfl rfl
        · simp only [Option.some.injEq] at hs; subst hs
          rw [foldIntoParent_potential]
          exact key _ rfl rfl
      · simp only [Option.some.injEq] at hs; subst hs
        rw [foldIntoParent_potential]
        exact key _ rfl rfl
    · rw [hv] at hm; cases hm
  · rename_i node vs hv
    split at hs
    · rename_i d hd
      have hvs : vs ≠ [] := by
        rcases h with hF | ⟨_, m, hm, hw, _⟩
        · rw [hv] at hF
          obtain ⟨_, _, P, V0, _, hvs, _, _, _⟩ := hF.inv_some
          rw [hvs]; simp
        · rw [hv] at hm
          simp only [List.cons.injEq, Option.some.injEq] at hm
          obtain ⟨rfl, _⟩ := hm
          rw [hw] at hd; cases hd
      have key : ∀ (x : St), x.unvisited = s.unvisited → x.visits = vs → potential nbrs x < potential nbrs s := by
        intro x h1 h2
        unfold potential
        rw [h1, h2, hv]
        simp [vWeight, hvs]
      split at hs
      · split at hs
        · simp only [Option.some.injEq] at hs; subst hs; exact key _ rfl rfl
        · simp only [Option.some.injEq] at hs; subst hs
          rw [lowerLow_potential]; exact key _ rfl rfl
      · simp only [Option.some.injEq] at hs; subst hs; exact key _ rfl rfl
    · rename_i hnum
      simp only [Option.some.injEq] at hs
      subst hs
      unfold potential expand
      simp only [hv, vWeight_append, vWeight_somes, vWeight, List.length_reverse]
      have hmem : node ∈ s.unvisited :=
        (hi.unv node (hi.vis node (by rw [hv]; simp))).1 hnum
      rw [nbrSum_erase nbrs s.unvisited node hmem, List.length_erase_of_mem hmem]
      have hpos : 0 < s.unvisited.length := List.length_pos_of_mem hmem
      simp
      omega


/-- the machine halts before the fuel runs out -/
theorem run_halts {order : List Nat} {nbrs : Nat → List Nat} (hnd : order.Nodup)
    (hclosed : ∀ n, ∀ m ∈ nbrs n, m ∈ order) :
    ∀ (fuel : Nat) (s : St), Inv order s → WF nbrs s → potential nbrs s < fuel →
      (run true nbrs fuel s).2 = true
  | 0, _, _, _, h => by omega
  | f + 1, s, hi, hw, h => by
    unfold run
    cases hs : step true nbrs s with
    | none => rfl
    | some s' =>
      have hp := potential_step true hi hw hs
      exact run_halts hnd hclosed f s' (inv_step hnd hclosed hi hs) (wf_step true hi hw hs) (by omega)

theorem potential_init (nbrs : Nat → List Nat) (order : List Nat) :
    potential nbrs (init order) < fuelFor order nbrs := by
  unfold potential init fuelFor nbrSum
  simp only [vWeight]
  split <;> omega

/-- **C20_halts** — for every graph and every iteration order the generator is exhausted within
`fuelFor` steps (`sccs` returns `true` as its second component). -/
theorem C20_halts (order : List Nat) (nbrs : Nat → List Nat) (hnd : order.Nodup)
    (hclosed : ∀ n, ∀ m ∈ nbrs n, m ∈ order) : (sccs true order nbrs (fuelFor order nbrs)).2 = true :=
  run_halts hnd hclosed _ _ (inv_init order) (wf_init nbrs order) (potential_init nbrs order)

end Ztr.Digraph
