import Ztr.Props.C10
import Ztr.Props.C03
import Ztr.Model.Runner
/-! # C01 — tests run with exactly their layer stack set up; layers nest like a stack

The model (`Model/Runner`) carries a ghost log: every event together with the content of
`setup_layers` at the moment it is emitted (`PS.glog`, never read by the model).  The theorems below
are about *every* event of *every* process (`o.resume` arbitrary: parent, resumed child, `-j` child)
for every layer graph, test assignment, fault oracle and option set.

* `C01_events`            every `setUp`, `tearDown` and test event satisfies its guard (`EvOk`)
* `C01_exact_stack`       a test event sees exactly the closure of its layer in `setup_layers`
* `C01_setUp_guard`       `setUp l` only while `l` is not set up and all its bases are
* `C01_tearDown_order`    `tearDown l` only when no layer derived from `l` is still set up
* `C01_all_torn_down`     at the end nothing is left set up …
* `C01_balance`           … and successful set-ups and tear-down attempts balance per layer
* `C01_frozen`            after a `tearDown` that raised NotImplementedError no `setUp`/test event
* `C01_rest_in_children`  the layers left over are handed to children, each once, in order
-/
namespace Ztr.Runner
open Ztr.Layers

/-! ## definitions -/

def BaseClosed (G : Graph) (S : List Nat) : Prop := ∀ l ∈ S, ∀ b ∈ G.bases l, b ∈ S

/-- the guard every event must satisfy with respect to the `setup_layers` it was emitted under -/
def EvOk (G : Graph) : Ev × Snap → Prop
  | (.setUp l _, g) => l ∉ g.setup ∧ ∀ b ∈ G.bases l, b ∈ g.setup
  | (.tearDown l _, g) => l ∈ g.setup ∧ ∀ d ∈ g.setup, d ≠ l → l ∉ closure G d
  | (.test _, g) => ∃ l, g.layer = some l ∧ ∀ x, x ∈ g.setup ↔ x ∈ closure G l
  | _ => True

def countSetUpOk (l : Nat) : List Ev → Nat
  | [] => 0
  | .setUp l' true :: r => (if l' = l then 1 else 0) + countSetUpOk l r
  | _ :: r => countSetUpOk l r

/-- the invariant, as a predicate on the three components it reads -/
structure Inv' (w : World) (setup : List Nat) (trace : List Ev) (glog : List (Ev × Snap)) : Prop where
  nodup : setup.Nodup
  closed : BaseClosed w.graph setup
  log : ∀ p ∈ glog, EvOk w.graph p
  erase : glog.map (·.1) = trace
  balance : ∀ l, (w.info l).hasSetUp = true → (w.info l).hasTearDown = true →
    countSetUpOk l trace = countTearDown l trace + (if l ∈ setup then 1 else 0)

def Inv (w : World) (s : PS) : Prop := Inv' w s.setup s.trace s.glog

/-! ## small facts -/

theorem countTearDown_append (l : Nat) (a b : List Ev) :
    countTearDown l (a ++ b) = countTearDown l a + countTearDown l b := by
  induction a with
  | nil => simp [countTearDown]
  | cons e a ih => cases e <;> simp [countTearDown, ih] <;> omega

theorem countSetUpOk_append (l : Nat) (a b : List Ev) :
    countSetUpOk l (a ++ b) = countSetUpOk l a + countSetUpOk l b := by
  induction a with
  | nil => simp [countSetUpOk]
  | cons e a ih =>
    cases e with
    | setUp l' ok => cases ok <;> simp [countSetUpOk, ih] <;> omega
    | _ => simp [countSetUpOk, ih]

theorem countSetUp_append (l : Nat) (a b : List Ev) :
    countSetUp l (a ++ b) = countSetUp l a + countSetUp l b := by
  induction a with
  | nil => simp [countSetUp]
  | cons e a ih => cases e <;> simp [countSetUp, ih] <;> omega

theorem countTearDown_tests (l : Nat) (evs : List Result.REv) : countTearDown l (evs.map Ev.test) = 0 := by
  induction evs with
  | nil => rfl
  | cons e evs ih => simp [countTearDown, ih]

theorem countSetUpOk_tests (l : Nat) (evs : List Result.REv) : countSetUpOk l (evs.map Ev.test) = 0 := by
  induction evs with
  | nil => rfl
  | cons e evs ih => simp [countSetUpOk, ih]

theorem base_mem_closure {G : Graph} (hwf : WF G) {l b : Nat} (hb : b ∈ G.bases l) : b ∈ closure G l := by
  unfold closure
  rw [gather_eq hwf l]
  exact List.mem_cons_of_mem _ (List.mem_flatMap.2 ⟨b, hb, self_mem_gather G b⟩)

theorem base_ne {G : Graph} (hwf : WF G) {l b : Nat} (hb : b ∈ G.bases l) : b ≠ l := by
  have := hwf l b hb; omega

theorem closure_subset_of_closed {G : Graph} (hwf : WF G) {S : List Nat} (hS : BaseClosed G S) :
    ∀ l, l ∈ S → ∀ x ∈ closure G l, x ∈ S := by
  intro l
  induction l using Nat.strongRecOn with
  | _ l ih =>
    intro hl x hx
    unfold closure at hx
    rw [gather_eq hwf l] at hx
    rcases List.mem_cons.1 hx with rfl | h
    · exact hl
    · obtain ⟨b, hb, hxb⟩ := List.mem_flatMap.1 h
      exact ih b (hwf l b hb) (hS l hl b hb) x hxb

theorem closure_closed {G : Graph} (hwf : WF G) (l : Nat) : BaseClosed G (closure G l) := by
  intro x hx b hb
  exact closure_trans hwf l x b hx (base_mem_closure hwf hb)

theorem mem_closure_lt_or_eq {G : Graph} (hwf : WF G) {l x : Nat} (h : x ∈ closure G l) : x = l ∨ x < l := by
  unfold closure at h
  rw [gather_eq hwf l] at h
  rcases List.mem_cons.1 h with rfl | h
  · exact Or.inl rfl
  · exact Or.inr (lt_of_mem_gather_tail hwf l x h)

/-! ## emitting events -/

theorem inv_emit_neutral {w : World} {s : PS} (h : Inv w s) (e : Ev)
    (hok : EvOk w.graph (e, { setup := s.setup }))
    (h1 : ∀ l, countSetUpOk l [e] = 0) (h2 : ∀ l, countTearDown l [e] = 0) : Inv w (s.emit e) := by
  refine ⟨h.nodup, h.closed, ?_, ?_, ?_⟩
  · intro p hp
    rcases List.mem_append.1 hp with hp | hp
    · exact h.log p hp
    · simp only [List.mem_singleton] at hp; subst hp; exact hok
  · show List.map Prod.fst (s.glog ++ [(e, ({ setup := s.setup } : Snap))]) = s.trace ++ [e]
    simp [h.erase]
  · intro l a b
    show countSetUpOk l (s.trace ++ [e]) = countTearDown l (s.trace ++ [e]) + _
    rw [countSetUpOk_append, countTearDown_append, h1, h2]
    exact h.balance l a b

theorem inv_header {w : World} {s : PS} (h : Inv w s) (l : Nat) : Inv w (s.emit (.header l)) :=
  inv_emit_neutral h _ trivial (fun _ => rfl) (fun _ => rfl)

theorem inv_summary {w : World} {s : PS} (h : Inv w s) (a b c d : Nat) : Inv w (s.emit (.summary a b c d)) :=
  inv_emit_neutral h _ trivial (fun _ => rfl) (fun _ => rfl)

theorem inv_spawn {w : World} {s : PS} (h : Inv w s) (l n : Nat) : Inv w (s.emit (.spawn l n)) :=
  inv_emit_neutral h _ trivial (fun _ => rfl) (fun _ => rfl)

/-! ## `tear_down_unneeded` -/

/-- one round of the tear-down loop: the call (if the layer has the hook), the error record, and the
`finally: del setup_layers[layer]` -/
def tdOne (w : World) (l : Nat) (s : PS) : PS :=
  let s1 : PS :=
    if (w.info l).hasTearDown then
      let r := w.tearDownResult l (countTearDown l s.trace)
      let s' := s.emit (.tearDown l r)
      if r = .raised then { s' with errors := s'.errors ++ [.layerTearDown l] } else s'
    else s
  { s1 with setup := s1.setup.filter (· != l) }

/-- does this round end the loop with `CanNotTearDown`? -/
def tdStops (w : World) (optional : Bool) (l : Nat) (s : PS) : Bool :=
  (w.info l).hasTearDown && (w.tearDownResult l (countTearDown l s.trace) == .notImpl) && !optional

theorem tearDownList_cons (w : World) (opt : Bool) (l : Nat) (ls : List Nat) (s : PS) :
    tearDownList w opt (l :: ls) s =
      if tdStops w opt l s then (tdOne w l s, true) else tearDownList w opt ls (tdOne w l s) := by
  rw [tearDownList]
  unfold tdStops tdOne
  by_cases h : (w.info l).hasTearDown = true
  · simp only [h, if_true, Bool.true_and]
    cases hr : w.tearDownResult l (countTearDown l s.trace) <;> cases opt <;> simp
  · simp [h]

/-- precondition on the order in which layers are torn down, relative to what is set up -/
structure TDPre (G : Graph) (order S : List Nat) : Prop where
  nodup : order.Nodup
  sub : ∀ x ∈ order, x ∈ S
  derivedFirst : ∀ l ∈ order, ∀ d ∈ S, d ≠ l → l ∈ closure G d → [d, l].Sublist order

theorem tdpre_head {G : Graph} {l : Nat} {ls S : List Nat} (h : TDPre G (l :: ls) S) :
    l ∈ S ∧ ∀ d ∈ S, d ≠ l → l ∉ closure G d := by
  refine ⟨h.sub l (by simp), ?_⟩
  intro d hd hne hc
  have hsub := h.derivedFirst l (by simp) d hd hne hc
  have hnd := h.nodup
  rw [List.nodup_cons] at hnd
  cases hsub with
  | cons _ h' => exact hnd.1 ((List.Sublist.subset h') (by simp))
  | cons_cons _ _ => exact hne rfl

theorem tdpre_tail {G : Graph} {l : Nat} {ls S : List Nat} (h : TDPre G (l :: ls) S) :
    TDPre G ls (S.filter (· != l)) := by
  have hnd := h.nodup
  rw [List.nodup_cons] at hnd
  refine ⟨hnd.2, ?_, ?_⟩
  · intro x hx
    have : x ≠ l := fun e => hnd.1 (e ▸ hx)
    simp [h.sub x (by simp [hx]), this]
  · intro l' hl' d hd hne hc
    have hd' := List.mem_filter.1 hd
    have hdl : d ≠ l := by simpa using hd'.2
    have hsub := h.derivedFirst l' (by simp [hl']) d hd'.1 hne hc
    cases hsub with
    | cons _ h' => exact h'
    | cons_cons _ _ => exact absurd rfl hdl

theorem closed_filter {G : Graph} (hwf : WF G) {S : List Nat} {l : Nat} (hS : BaseClosed G S)
    (hl : ∀ d ∈ S, d ≠ l → l ∉ closure G d) : BaseClosed G (S.filter (· != l)) := by
  intro x hx b hb
  have hx' := List.mem_filter.1 hx
  have hxl : x ≠ l := by simpa using hx'.2
  have hbS := hS x hx'.1 b hb
  have hbl : b ≠ l := by
    intro e
    subst e
    exact hl x hx'.1 hxl (base_mem_closure hwf hb)
  simp [hbS, hbl]

theorem inv_tdOne {w : World} (hwf : WF w.graph) {l : Nat} {s : PS} (h : Inv w s)
    (hl : l ∈ s.setup) (hd : ∀ d ∈ s.setup, d ≠ l → l ∉ closure w.graph d) : Inv w (tdOne w l s) := by
  have hnd : (s.setup.filter (· != l)).Nodup := h.nodup.sublist List.filter_sublist
  have hcl := closed_filter hwf h.closed hd
  have hmem : ∀ x, x ≠ l → (x ∈ s.setup.filter (· != l) ↔ x ∈ s.setup) := by
    intro x hx; simp [hx]
  have hnl : l ∉ s.setup.filter (· != l) := by simp
  unfold tdOne
  by_cases ht : (w.info l).hasTearDown = true
  · simp only [ht, if_true]
    -- the state after the emit; the error record does not matter
    have key : Inv' w (s.setup.filter (· != l)) (s.trace ++ [.tearDown l (w.tearDownResult l (countTearDown l s.trace))])
        (s.glog ++ [(.tearDown l (w.tearDownResult l (countTearDown l s.trace)), { setup := s.setup })]) := by
      refine ⟨hnd, hcl, ?_, ?_, ?_⟩
      · intro p hp
        rcases List.mem_append.1 hp with hp | hp
        · exact h.log p hp
        · simp only [List.mem_singleton] at hp; subst hp; exact ⟨hl, hd⟩
      · simp [h.erase]
      · intro x a b
        rw [countSetUpOk_append, countTearDown_append, h.balance x a b]
        by_cases hx : x = l
        · subst hx; simp [countSetUpOk, countTearDown, hl]
        · have : ¬ l = x := fun e => hx e.symm
          simp [countSetUpOk, countTearDown, this, hx]
    split <;> exact key
  · simp only [ht, Bool.false_eq_true, if_false]
    refine ⟨hnd, hcl, h.log, h.erase, ?_⟩
    intro x a b
    have hx : x ≠ l := by intro e; subst e; exact ht b
    rw [h.balance x a b]
    by_cases hxs : x ∈ s.setup <;> simp [hxs, hx]

theorem tdOne_setup (w : World) (l : Nat) (s : PS) : (tdOne w l s).setup = s.setup.filter (· != l) := by
  unfold tdOne
  by_cases ht : (w.info l).hasTearDown = true
  · simp only [ht, if_true]
    split <;> rfl
  · simp [ht]

/-- the tear-down loop keeps the invariant; when it completes, exactly the listed layers are gone -/
theorem inv_tearDownList {w : World} (hwf : WF w.graph) (opt : Bool) :
    ∀ (order : List Nat) (s : PS), Inv w s → TDPre w.graph order s.setup →
      Inv w (tearDownList w opt order s).1 ∧
      ((tearDownList w opt order s).2 = false →
        (tearDownList w opt order s).1.setup = s.setup.filter (fun x => !order.contains x))
  | [], s, h, _ => by
    refine ⟨by simpa [tearDownList] using h, fun _ => ?_⟩
    show s.setup = s.setup.filter (fun x => !([] : List Nat).contains x)
    induction s.setup with
    | nil => rfl
    | cons a as ih => simpa using ih
  | l :: ls, s, h, hp => by
    rw [tearDownList_cons]
    obtain ⟨hl, hd⟩ := tdpre_head hp
    have h1 := inv_tdOne hwf h hl hd
    have hp1 : TDPre w.graph ls (tdOne w l s).setup := by rw [tdOne_setup]; exact tdpre_tail hp
    split
    · exact ⟨h1, by simp⟩
    · obtain ⟨i1, i2⟩ := inv_tearDownList hwf opt ls (tdOne w l s) h1 hp1
      refine ⟨i1, fun hf => ?_⟩
      rw [i2 hf, tdOne_setup, List.filter_filter]
      apply List.filter_congr
      intro x _
      by_cases hx : x = l <;> simp [hx, Bool.and_comm]

theorem tearDownList_optional (w : World) : ∀ (order : List Nat) (s : PS), (tearDownList w true order s).2 = false
  | [], s => rfl
  | l :: ls, s => by
    rw [tearDownList_cons]
    have : tdStops w true l s = false := by simp [tdStops]
    simp only [this, Bool.false_eq_true, if_false]
    exact tearDownList_optional w ls _

/-- the order `tear_down_unneeded` computes satisfies the precondition when `needed` is base-closed -/
theorem tdpre_unneeded {G : Graph} (hwf : WF G) {S needed : List Nat}
    (hN : ∀ d ∈ needed, ∀ x ∈ closure G d, x ∈ needed) :
    TDPre G (orderByBases G (S.filter (fun l => !needed.contains l))).reverse S := by
  have honce := C10_once G (S.filter (fun l => !needed.contains l))
  refine ⟨nodup_reverse' honce.1, ?_, ?_⟩
  · intro x hx
    have := (honce.2 x).1 (List.mem_reverse.1 hx)
    exact (List.mem_filter.1 this).1
  · intro l hl d hd hne hc
    have hlU := (honce.2 l).1 (List.mem_reverse.1 hl)
    have hlN : l ∉ needed := by simpa using (List.mem_filter.1 hlU).2
    have hdN : d ∉ needed := fun hdn => hlN (hN d hdn l hc)
    have hdU : d ∈ S.filter (fun l => !needed.contains l) := by simp [hd, hdN]
    have := C10_bases_first hwf (S.filter (fun l => !needed.contains l)) hc (Ne.symm hne) hlU hdU
    have h2 := this.reverse
    simpa using h2

theorem inv_tearDownUnneeded {w : World} (hwf : WF w.graph) (needed : List Nat) (opt : Bool) {s : PS}
    (h : Inv w s) (hN : ∀ d ∈ needed, ∀ x ∈ closure w.graph d, x ∈ needed) :
    Inv w (tearDownUnneeded w needed opt s).1 ∧
    ((tearDownUnneeded w needed opt s).2 = false →
      ∀ x, x ∈ (tearDownUnneeded w needed opt s).1.setup ↔ (x ∈ s.setup ∧ x ∈ needed)) := by
  unfold tearDownUnneeded
  obtain ⟨i1, i2⟩ := inv_tearDownList hwf opt _ s h (tdpre_unneeded hwf (S := s.setup) hN)
  refine ⟨i1, fun hf x => ?_⟩
  rw [i2 hf]
  have honce := C10_once w.graph (s.setup.filter (fun l => !needed.contains l))
  have hmem : x ∈ (orderByBases w.graph (s.setup.filter (fun l => !needed.contains l))).reverse ↔
      (x ∈ s.setup ∧ x ∉ needed) := by
    rw [List.mem_reverse, honce.2 x]; simp
  rw [List.mem_filter]
  have e2 : (!(orderByBases w.graph (s.setup.filter (fun l => !needed.contains l))).reverse.contains x) = true ↔
      ¬ (x ∈ s.setup ∧ x ∉ needed) := by
    rw [← hmem]; simp
  rw [e2]
  constructor
  · rintro ⟨hx, hn⟩
    exact ⟨hx, Classical.byContradiction fun hnn => hn ⟨hx, hnn⟩⟩
  · rintro ⟨hx, hn⟩
    exact ⟨hx, fun hh => hh.2 hn⟩


/-! ## `setup_layer` -/

theorem inv_mark {w : World} {s : PS} {l : Nat} (h : Inv w s) (hl : l ∉ s.setup)
    (hb : ∀ b ∈ w.graph.bases l, b ∈ s.setup) (hns : (w.info l).hasSetUp = false) :
    Inv w { s with setup := s.setup ++ [l] } := by
  refine ⟨?_, ?_, h.log, h.erase, ?_⟩
  · show (s.setup ++ [l]).Nodup
    rw [List.nodup_append]
    exact ⟨h.nodup, by simp, by intro a ha b hb' e; simp at hb'; subst hb'; subst e; exact hl ha⟩
  · intro x hx b hbx
    show b ∈ s.setup ++ [l]
    rcases List.mem_append.1 hx with hx | hx
    · exact List.mem_append_left _ (h.closed x hx b hbx)
    · simp only [List.mem_singleton] at hx; subst hx
      exact List.mem_append_left _ (hb b hbx)
  · intro x a b
    have hx : x ≠ l := by intro e; subst e; rw [hns] at a; exact Bool.noConfusion a
    show countSetUpOk x s.trace = countTearDown x s.trace + (if x ∈ s.setup ++ [l] then 1 else 0)
    rw [h.balance x a b]
    by_cases hxs : x ∈ s.setup <;> simp [hxs, hx]

theorem inv_setUp_ok {w : World} {s : PS} {l : Nat} (h : Inv w s) (hl : l ∉ s.setup)
    (hb : ∀ b ∈ w.graph.bases l, b ∈ s.setup) :
    Inv w { (s.emit (.setUp l true)) with setup := s.setup ++ [l] } := by
  refine ⟨?_, ?_, ?_, ?_, ?_⟩
  · show (s.setup ++ [l]).Nodup
    rw [List.nodup_append]
    exact ⟨h.nodup, by simp, by intro a ha b hb' e; simp at hb'; subst hb'; subst e; exact hl ha⟩
  · intro x hx b hbx
    show b ∈ s.setup ++ [l]
    rcases List.mem_append.1 hx with hx | hx
    · exact List.mem_append_left _ (h.closed x hx b hbx)
    · simp only [List.mem_singleton] at hx; subst hx
      exact List.mem_append_left _ (hb b hbx)
  · intro p hp
    rcases List.mem_append.1 hp with hp | hp
    · exact h.log p hp
    · simp only [List.mem_singleton] at hp; subst hp; exact ⟨hl, hb⟩
  · show List.map Prod.fst (s.glog ++ [(Ev.setUp l true, ({ setup := s.setup } : Snap))]) = s.trace ++ [Ev.setUp l true]
    simp [h.erase]
  · intro x a b
    show countSetUpOk x (s.trace ++ [Ev.setUp l true]) =
      countTearDown x (s.trace ++ [Ev.setUp l true]) + (if x ∈ s.setup ++ [l] then 1 else 0)
    rw [countSetUpOk_append, countTearDown_append, h.balance x a b]
    by_cases hx : x = l
    · subst hx; simp [countSetUpOk, countTearDown, hl]
    · have : ¬ l = x := fun e => hx e.symm
      by_cases hxs : x ∈ s.setup <;> simp [countSetUpOk, countTearDown, this, hx, hxs]

theorem inv_setUp_fail {w : World} {s : PS} {l : Nat} (h : Inv w s) (hl : l ∉ s.setup)
    (hb : ∀ b ∈ w.graph.bases l, b ∈ s.setup) : Inv w (s.emit (.setUp l false)) :=
  inv_emit_neutral h _ ⟨hl, hb⟩ (fun _ => rfl) (fun _ => rfl)

/-- what `setup_layer` guarantees about `setup_layers` -/
structure SetupPost (w : World) (targets : List Nat) (s : PS) (r : PS × Bool) : Prop where
  inv : Inv w r.1
  mono : ∀ x ∈ s.setup, x ∈ r.1.setup
  within : ∀ x ∈ r.1.setup, x ∈ s.setup ∨ ∃ t ∈ targets, x ∈ closure w.graph t
  done : r.2 = true → ∀ t ∈ targets, t ∈ r.1.setup

theorem post_setupLayerF {w : World} (hwf : WF w.graph) :
    ∀ (f l : Nat) (s : PS), l < f → Inv w s → SetupPost w [l] s (setupLayerF w f l s) := by
  intro f
  induction f with
  | zero => intro l s h; omega
  | succ f ih =>
    intro l s hlf h
    -- the loop over the bases
    have hbases : ∀ (bs : List Nat) (s : PS), (∀ b ∈ bs, b < f) → Inv w s →
        SetupPost w bs s (setupBases (setupLayerF w f) bs s) := by
      intro bs
      induction bs with
      | nil =>
        intro s _ h
        exact ⟨h, fun x hx => hx, fun x hx => Or.inl hx, fun _ t ht => by simp at ht⟩
      | cons b bs ihb =>
        intro s hlt h
        have p1 := ih b s (hlt b (by simp)) h
        rw [setupBases]
        by_cases hr : (setupLayerF w f b s).2 = true
        · simp only [hr, if_true]
          have p2 := ihb (setupLayerF w f b s).1 (fun x hx => hlt x (by simp [hx])) p1.inv
          refine ⟨p2.inv, fun x hx => p2.mono x (p1.mono x hx), ?_, ?_⟩
          · intro x hx
            rcases p2.within x hx with h1 | ⟨t, ht, hxt⟩
            · rcases p1.within x h1 with h0 | ⟨t, ht, hxt⟩
              · exact Or.inl h0
              · simp only [List.mem_singleton] at ht; subst ht
                exact Or.inr ⟨t, by simp, hxt⟩
            · exact Or.inr ⟨t, by simp [ht], hxt⟩
          · intro hd t ht
            rcases List.mem_cons.1 ht with rfl | ht
            · exact p2.mono _ (p1.done hr _ (by simp))
            · exact p2.done hd t ht
        · simp only [hr, Bool.false_eq_true, if_false]
          refine ⟨p1.inv, p1.mono, ?_, fun hd => absurd hd hr⟩
          intro x hx
          rcases p1.within x hx with h0 | ⟨t, ht, hxt⟩
          · exact Or.inl h0
          · simp only [List.mem_singleton] at ht; subst ht
            exact Or.inr ⟨t, by simp, hxt⟩
    rw [setupLayerF]
    by_cases hc : s.setup.contains l = true
    · simp only [hc, if_true]
      have hl : l ∈ s.setup := by simpa using hc
      exact ⟨h, fun x hx => hx, fun x hx => Or.inl hx, fun _ t ht => by simp at ht; subst ht; exact hl⟩
    · simp only [hc, Bool.false_eq_true, if_false]
      have hl : l ∉ s.setup := by simpa using hc
      have pb := hbases (w.graph.bases l) s (fun b hb => by have := hwf l b hb; omega) h
      -- what the bases loop may have added lies strictly below `l`
      have hwithin : ∀ x ∈ (setupBases (setupLayerF w f) (w.graph.bases l) s).1.setup,
          x ∈ s.setup ∨ x ∈ closure w.graph l := by
        intro x hx
        rcases pb.within x hx with h0 | ⟨t, ht, hxt⟩
        · exact Or.inl h0
        · exact Or.inr (closure_trans hwf l t x (base_mem_closure hwf ht) hxt)
      have hl1 : l ∉ (setupBases (setupLayerF w f) (w.graph.bases l) s).1.setup := by
        intro hx
        rcases pb.within l hx with h0 | ⟨t, ht, hxt⟩
        · exact hl h0
        · have h1 := hwf l t ht
          rcases mem_closure_lt_or_eq hwf hxt with e | e <;> omega
      by_cases hr : (setupBases (setupLayerF w f) (w.graph.bases l) s).2 = true
      · simp only [hr, Bool.not_true, Bool.false_eq_true, if_false]
        have hb1 := pb.done hr
        by_cases hs : (w.info l).hasSetUp = true
        · simp only [hs, if_true]
          by_cases hrz : w.setUpRaises l (countSetUp l (setupBases (setupLayerF w f) (w.graph.bases l) s).1.trace) = true
          · simp only [hrz, Bool.not_true, if_true]
            exact ⟨inv_setUp_fail pb.inv hl1 hb1, pb.mono, fun x hx => by
              rcases hwithin x hx with h0 | h0
              · exact Or.inl h0
              · exact Or.inr ⟨l, by simp, h0⟩, fun hd => by simp at hd⟩
          · simp only [hrz, Bool.not_false, Bool.false_eq_true, if_false]
            refine ⟨inv_setUp_ok pb.inv hl1 hb1, fun x hx => List.mem_append_left _ (pb.mono x hx), ?_, ?_⟩
            · intro x hx
              rcases List.mem_append.1 hx with hx | hx
              · rcases hwithin x hx with h0 | h0
                · exact Or.inl h0
                · exact Or.inr ⟨l, by simp, h0⟩
              · simp only [List.mem_singleton] at hx; subst hx
                exact Or.inr ⟨x, by simp, self_mem_gather _ _⟩
            · intro _ t ht
              simp only [List.mem_singleton] at ht; subst ht
              exact List.mem_append_right _ (by simp)
        · simp only [hs, Bool.false_eq_true, if_false]
          have hs' : (w.info l).hasSetUp = false := by simpa using hs
          refine ⟨inv_mark pb.inv hl1 hb1 hs', fun x hx => List.mem_append_left _ (pb.mono x hx), ?_, ?_⟩
          · intro x hx
            rcases List.mem_append.1 hx with hx | hx
            · rcases hwithin x hx with h0 | h0
              · exact Or.inl h0
              · exact Or.inr ⟨l, by simp, h0⟩
            · simp only [List.mem_singleton] at hx; subst hx
              exact Or.inr ⟨x, by simp, self_mem_gather _ _⟩
          · intro _ t ht
            simp only [List.mem_singleton] at ht; subst ht
            exact List.mem_append_right _ (by simp)
      · simp only [hr, Bool.not_false, if_true]
        exact ⟨pb.inv, pb.mono, fun x hx => by
          rcases hwithin x hx with h0 | h0
          · exact Or.inl h0
          · exact Or.inr ⟨l, by simp, h0⟩, fun hd => absurd hd hr⟩

theorem post_setupLayer {w : World} (hwf : WF w.graph) (l : Nat) (s : PS) (h : Inv w s) :
    SetupPost w [l] s (setupLayer w l s) :=
  post_setupLayerF hwf (l + 1) l s (by omega) h


/-! ## the test phase of a layer -/

/-- the state after the events of one iteration have been logged -/
def iterLogged (w : World) (o : Opts) (l : Nat) (tests : List Proto.TestDef) (s : PS) : PS :=
  { s with
    trace := s.trace ++ (Result.runTests (resultCfg w o l) tests {}).evs.map Ev.test
    glog := s.glog ++ (Result.runTests (resultCfg w o l) tests {}).evs.map
      (fun e => (Ev.test e, ({ setup := s.setup, layer := some l } : Snap))) }

/-- … and after its results have been merged and the summary printed -/
def iterDone (w : World) (o : Opts) (l : Nat) (tests : List Proto.TestDef) (s : PS) : PS :=
  let r := Result.runTests (resultCfg w o l) tests {}
  let s1 := iterLogged w o l tests s
  PS.emit { s1 with
      failures := s1.failures ++ r.failures ++ r.unexpected
      errors := s1.errors ++ r.errors.map Err.test
      skipped := s1.skipped + r.skipped.length
      ran := r.testsRun }
    (.summary r.testsRun (r.failures.length + r.unexpected.length) (r.errors.length + w.importErrors) r.skipped.length)

theorem runIterations_succ (w : World) (o : Opts) (l : Nat) (tests : List Proto.TestDef) (n : Nat) (s : PS) :
    runIterations w o l tests (n + 1) s =
      if (Result.runTests (resultCfg w o l) tests {}).aborted then { iterLogged w o l tests s with aborted := true }
      else if (Result.runTests (resultCfg w o l) tests {}).interrupted then { iterLogged w o l tests s with interrupted := true }
      else if (Result.runTests (resultCfg w o l) tests {}).shouldStop then iterDone w o l tests s
      else runIterations w o l tests n (iterDone w o l tests s) := by
  rw [runIterations]
  rfl

theorem inv_iterLogged {w : World} (o : Opts) (l : Nat) (tests : List Proto.TestDef) {s : PS} (h : Inv w s)
    (hset : ∀ x, x ∈ s.setup ↔ x ∈ closure w.graph l) : Inv w (iterLogged w o l tests s) := by
  refine ⟨h.nodup, h.closed, ?_, ?_, ?_⟩
  · intro p hp
    rcases List.mem_append.1 hp with hp | hp
    · exact h.log p hp
    · obtain ⟨e, _, rfl⟩ := List.mem_map.1 hp
      exact ⟨l, rfl, hset⟩
  · show List.map Prod.fst (s.glog ++ _) = s.trace ++ _
    simp [h.erase, Function.comp_def]
  · intro x a b
    show countSetUpOk x (s.trace ++ _) = countTearDown x (s.trace ++ _) + _
    rw [countSetUpOk_append, countTearDown_append, countSetUpOk_tests, countTearDown_tests]
    exact h.balance x a b

theorem inv_iterDone {w : World} (o : Opts) (l : Nat) (tests : List Proto.TestDef) {s : PS} (h : Inv w s)
    (hset : ∀ x, x ∈ s.setup ↔ x ∈ closure w.graph l) : Inv w (iterDone w o l tests s) := by
  unfold iterDone
  apply inv_summary
  exact inv_iterLogged o l tests h hset

theorem inv_runIterations {w : World} (o : Opts) (l : Nat) (tests : List Proto.TestDef) :
    ∀ (n : Nat) (s : PS), Inv w s → (∀ x, x ∈ s.setup ↔ x ∈ closure w.graph l) →
      Inv w (runIterations w o l tests n s) ∧ (runIterations w o l tests n s).setup = s.setup := by
  intro n
  induction n with
  | zero => intro s h _; exact ⟨h, rfl⟩
  | succ n ih =>
    intro s h hset
    rw [runIterations_succ]
    split
    · exact ⟨inv_iterLogged o l tests h hset, rfl⟩
    · split
      · exact ⟨inv_iterLogged o l tests h hset, rfl⟩
      · split
        · exact ⟨inv_iterDone o l tests h hset, rfl⟩
        · have := ih (iterDone w o l tests s) (inv_iterDone o l tests h hset) hset
          exact ⟨this.1, this.2.trans rfl⟩

/-! ## `run_layer`, the layer loop, the whole process -/

theorem needed_closed {G : Graph} (hwf : WF G) (l : Nat) :
    ∀ d ∈ gather G l, ∀ x ∈ closure G d, x ∈ gather G l :=
  fun d hd x hx => closure_trans hwf l d x hd hx

def rlHeader (o : Opts) (l : Nat) (s : PS) : PS :=
  match o.resume with
  | some (_, 0) => s
  | _ => s.emit (.header l)

/-- the state in which the tests of layer `l` start -/
def rlReady (w : World) (o : Opts) (l : Nat) (s : PS) : PS :=
  (setupLayer w l (tearDownUnneeded w (gather w.graph l) false (rlHeader o l s)).1).1

theorem runLayer_eq (w : World) (o : Opts) (l : Nat) (tests : List Proto.TestDef) (s : PS) :
    runLayer w o l tests s =
      if (tearDownUnneeded w (gather w.graph l) false (rlHeader o l s)).2 then
        tearDownUnneeded w (gather w.graph l) false (rlHeader o l s)
      else if !(setupLayer w l (tearDownUnneeded w (gather w.graph l) false (rlHeader o l s)).1).2 then
        ({ rlReady w o l s with errors := (rlReady w o l s).errors ++ [.layerSetUp l] }, false)
      else
        ({ runIterations w o l tests (if o.repeat_ = 0 then 1 else o.repeat_) { rlReady w o l s with ran := 0 } with
            ran := (rlReady w o l s).ran +
              (runIterations w o l tests (if o.repeat_ = 0 then 1 else o.repeat_) { rlReady w o l s with ran := 0 }).ran },
         false) := by
  unfold runLayer rlHeader rlReady
  rfl

theorem inv_rlHeader {w : World} (o : Opts) (l : Nat) {s : PS} (h : Inv w s) : Inv w (rlHeader o l s) := by
  unfold rlHeader
  split
  · exact h
  · exact inv_header h l

attribute [local irreducible] runIterations setupLayer tearDownUnneeded in
theorem inv_runLayer {w : World} (hwf : WF w.graph) (o : Opts) (l : Nat) (tests : List Proto.TestDef)
    {s : PS} (h : Inv w s) : Inv w (runLayer w o l tests s).1 := by
  rw [runLayer_eq]
  obtain ⟨i1, i2⟩ := inv_tearDownUnneeded hwf (gather w.graph l) false (inv_rlHeader o l h) (needed_closed hwf l)
  by_cases hcan : (tearDownUnneeded w (gather w.graph l) false (rlHeader o l s)).2 = true
  · rw [if_pos hcan]; exact i1
  · rw [if_neg hcan]
    have hcan' : (tearDownUnneeded w (gather w.graph l) false (rlHeader o l s)).2 = false := by simpa using hcan
    have ps := post_setupLayer hwf l _ i1
    by_cases hok : (setupLayer w l (tearDownUnneeded w (gather w.graph l) false (rlHeader o l s)).1).2 = true
    · have hn : ¬ ((!(setupLayer w l (tearDownUnneeded w (gather w.graph l) false (rlHeader o l s)).1).2) = true) := by
        simp [hok]
      rw [if_neg hn]
      have hset : ∀ x, x ∈ (rlReady w o l s).setup ↔ x ∈ closure w.graph l := by
        intro x
        constructor
        · intro hx
          rcases ps.within x hx with h1 | ⟨t, ht, hxt⟩
          · exact ((i2 hcan' x).1 h1).2
          · simp only [List.mem_singleton] at ht; subst ht; exact hxt
        · intro hx
          exact closure_subset_of_closed hwf ps.inv.closed l (ps.done hok l (by simp)) x hx
      have hinv0 : Inv w { rlReady w o l s with ran := 0 } := by
        show Inv' w (rlReady w o l s).setup (rlReady w o l s).trace (rlReady w o l s).glog
        exact ps.inv
      have hI := (inv_runIterations o l tests (if o.repeat_ = 0 then 1 else o.repeat_)
        { rlReady w o l s with ran := 0 } hinv0 hset).1
      revert hI
      generalize runIterations w o l tests (if o.repeat_ = 0 then 1 else o.repeat_) { rlReady w o l s with ran := 0 } = R
      intro hI
      exact hI
    · have hn : ((!(setupLayer w l (tearDownUnneeded w (gather w.graph l) false (rlHeader o l s)).1).2) = true) := by
        simp [hok]
      rw [if_pos hn]
      exact ps.inv

theorem inv_layerLoop {w : World} (hwf : WF w.graph) (o : Opts) :
    ∀ (layers : List (Nat × List Proto.TestDef)) (s : PS), Inv w s → Inv w (layerLoop w o layers s).1
  | [], s, h => h
  | (l, tests) :: rest, s, h => by
    rw [layerLoop]
    have h1 := inv_runLayer hwf o l tests h
    split
    · exact h1
    · split
      · split
        · exact h1
        · exact inv_layerLoop hwf o rest _ h1
      · split
        · exact h1
        · split
          · exact h1
          · exact inv_layerLoop hwf o rest _ h1

theorem inv_spawnAll {w : World} (o : Opts) (cb : Nat → Bool) :
    ∀ (rest : List (Nat × List Proto.TestDef)) (n : Nat) (s : PS), Inv w s → Inv w (spawnAll o cb rest n s)
  | [], _, s, h => h
  | (l, _) :: rest, n, s, h => by
    rw [spawnAll]
    split
    · exact h
    · apply inv_spawnAll o cb rest
      have := inv_spawn h l n
      split <;> exact this

theorem inv_init (w : World) : Inv w {} :=
  ⟨List.nodup_nil, fun _ h => by simp at h, fun _ h => by simp at h, rfl, fun _ _ _ => rfl⟩

theorem finalState_eq (w : World) (o : Opts) (cb : Nat → Bool) :
    finalState w o cb =
      if (fsLoop w o).1.aborted || (fsLoop w o).1.interrupted then (fsLoop w o).1
      else (tearDownUnneeded w [] true (fsSpawned w o cb)).1 := by
  unfold finalState fsSpawned fsLoop fsStart
  rfl

theorem inv_fsStart (w : World) (o : Opts) : Inv w (fsStart w o) := by
  unfold fsStart
  split
  · exact inv_summary (inv_init w) _ _ _ _
  · exact inv_init w

theorem inv_fsLoop {w : World} (hwf : WF w.graph) (o : Opts) : Inv w (fsLoop w o).1 := by
  unfold fsLoop
  split
  · exact inv_fsStart w o
  · exact inv_layerLoop hwf o _ _ (inv_fsStart w o)

theorem inv_fsSpawned {w : World} (hwf : WF w.graph) (o : Opts) (cb : Nat → Bool) : Inv w (fsSpawned w o cb) := by
  unfold fsSpawned
  split
  · exact inv_spawnAll o cb _ _ _ (inv_fsLoop hwf o)
  · exact inv_fsLoop hwf o

/-- the invariant holds in the final state of every process -/
theorem inv_finalState {w : World} (hwf : WF w.graph) (o : Opts) (cb : Nat → Bool) :
    Inv w (finalState w o cb) := by
  rw [finalState_eq]
  split
  · exact inv_fsLoop hwf o
  · exact (inv_tearDownUnneeded hwf [] true (inv_fsSpawned hwf o cb) (fun d hd => by simp at hd)).1

/-! ## the property theorems -/

/-- **C01_events** — in every process (parent, resumed child, `-j` child), for every layer graph,
test assignment, fault oracle and option set: every event was emitted under a `setup_layers` that
satisfies its guard, and the ghost log is exactly the trace. -/
theorem C01_events (w : World) (hwf : WF w.graph) (o : Opts) (cb : Nat → Bool) :
    (∀ p ∈ (finalState w o cb).glog, EvOk w.graph p) ∧
    (finalState w o cb).glog.map (·.1) = (runProcess w o cb).trace :=
  ⟨(inv_finalState hwf o cb).log, (inv_finalState hwf o cb).erase⟩

/-- **C01_exact_stack** — whenever a test executes, the layers set up in that process are exactly the
test's layer and its transitive bases. -/
theorem C01_exact_stack (w : World) (hwf : WF w.graph) (o : Opts) (cb : Nat → Bool) (r : Result.REv) (g : Snap)
    (h : (Ev.test r, g) ∈ (finalState w o cb).glog) :
    ∃ l, g.layer = some l ∧ ∀ x, x ∈ g.setup ↔ x ∈ closure w.graph l :=
  (inv_finalState hwf o cb).log _ h

/-- **C01_setUp_guard** — a layer's `setUp` runs only while the layer is not set up and all of its
bases are. -/
theorem C01_setUp_guard (w : World) (hwf : WF w.graph) (o : Opts) (cb : Nat → Bool) (l : Nat) (ok : Bool) (g : Snap)
    (h : (Ev.setUp l ok, g) ∈ (finalState w o cb).glog) :
    l ∉ g.setup ∧ ∀ b ∈ w.graph.bases l, b ∈ g.setup :=
  (inv_finalState hwf o cb).log _ h

/-- **C01_tearDown_order** — a layer's `tearDown` runs only while it is set up and once every layer
derived from it has been torn down. -/
theorem C01_tearDown_order (w : World) (hwf : WF w.graph) (o : Opts) (cb : Nat → Bool) (l : Nat) (r : TD) (g : Snap)
    (h : (Ev.tearDown l r, g) ∈ (finalState w o cb).glog) :
    l ∈ g.setup ∧ ∀ d ∈ g.setup, d ≠ l → l ∉ closure w.graph d :=
  (inv_finalState hwf o cb).log _ h


/-! ## the end of the run -/

theorem finalState_flags (w : World) (o : Opts) (cb : Nat → Bool)
    (h : ((fsLoop w o).1.aborted || (fsLoop w o).1.interrupted) = true) :
    ((runProcess w o cb).aborted || (runProcess w o cb).interrupted) = true := by
  unfold runProcess outcomeOf
  rw [finalState_eq, if_pos h]
  exact h

/-- **C01_all_torn_down** — when the run ends (it was not aborted), nothing is left in
`setup_layers`: every layer that was set up has been through the tear-down loop. -/
theorem C01_all_torn_down (w : World) (hwf : WF w.graph) (o : Opts) (cb : Nat → Bool)
    (hok : ((runProcess w o cb).aborted || (runProcess w o cb).interrupted) = false) :
    (runProcess w o cb).leftover = [] := by
  by_cases hfl : ((fsLoop w o).1.aborted || (fsLoop w o).1.interrupted) = true
  · rw [finalState_flags w o cb hfl] at hok; exact Bool.noConfusion hok
  · show (finalState w o cb).setup = []
    rw [finalState_eq, if_neg hfl]
    have h2 := (inv_tearDownUnneeded hwf [] true (inv_fsSpawned hwf o cb) (fun d hd => by simp at hd)).2
      (by unfold tearDownUnneeded; exact tearDownList_optional w _ _)
    apply List.eq_nil_iff_forall_not_mem.2
    intro x hx
    have := (h2 x).1 hx
    simp at this

/-- **C01_balance** — … and for every layer (that has both hooks) the number of successful `setUp`
calls equals the number of `tearDown` attempts: tearDown is attempted exactly once per set-up. -/
theorem C01_balance (w : World) (hwf : WF w.graph) (o : Opts) (cb : Nat → Bool)
    (hok : ((runProcess w o cb).aborted || (runProcess w o cb).interrupted) = false)
    (l : Nat) (h1 : (w.info l).hasSetUp = true) (h2 : (w.info l).hasTearDown = true) :
    countSetUpOk l (runProcess w o cb).trace = countTearDown l (runProcess w o cb).trace := by
  have hb := (inv_finalState hwf o cb).balance l h1 h2
  have hl : (finalState w o cb).setup = [] := C01_all_torn_down w hwf o cb hok
  rw [hl] at hb
  have hb' : countSetUpOk l (finalState w o cb).trace = countTearDown l (finalState w o cb).trace := by
    simpa using hb
  exact hb'

/-! ## frozen after NotImplementedError -/

def isNI : Ev → Bool
  | .tearDown _ .notImpl => true
  | _ => false

def isRun : Ev → Bool
  | .setUp _ _ => true
  | .test _ => true
  | _ => false

/-- after a `tearDown` that raised NotImplementedError no `setUp` and no test event follows -/
def Frozen (τ : List Ev) : Prop :=
  ∀ pre e post, τ = pre ++ e :: post → isNI e = true → ∀ x ∈ post, isRun x = false

def Phase2 (τ : List Ev) : Prop :=
  ∃ a b, τ = a ++ b ∧ (∀ e ∈ a, isNI e = false) ∧ (∀ e ∈ b, isRun e = false)

theorem frozen_of_phase2 {τ : List Ev} (h : Phase2 τ) : Frozen τ := by
  obtain ⟨a, b, rfl, ha, hb⟩ := h
  intro pre e post heq hni x hx
  rcases List.append_eq_append_iff.1 heq with ⟨a', rfl, hb'⟩ | ⟨c', ha', hc⟩
  · exact hb x (by rw [hb']; simp [hx])
  · cases c' with
    | nil =>
      simp only [List.nil_append] at hc
      exact hb x (by rw [← hc]; simp [hx])
    | cons c cs =>
      simp only [List.cons_append, List.cons.injEq] at hc
      obtain ⟨rfl, _⟩ := hc
      have := ha e (by rw [ha']; simp)
      rw [this] at hni; exact Bool.noConfusion hni

theorem phase2_of_noNI {τ : List Ev} (h : ∀ e ∈ τ, isNI e = false) : Phase2 τ :=
  ⟨τ, [], by simp, h, by simp⟩

theorem phase2_append {τ evs : List Ev} (h : Phase2 τ) (he : ∀ e ∈ evs, isRun e = false) : Phase2 (τ ++ evs) := by
  obtain ⟨a, b, rfl, ha, hb⟩ := h
  refine ⟨a, b ++ evs, by simp, ha, ?_⟩
  intro e hm
  rcases List.mem_append.1 hm with h | h
  · exact hb e h
  · exact he e h

/-- the event of one round of the tear-down loop -/
def tdEv (w : World) (l : Nat) (s : PS) : List Ev :=
  if (w.info l).hasTearDown then [Ev.tearDown l (w.tearDownResult l (countTearDown l s.trace))] else []

theorem tdOne_trace (w : World) (l : Nat) (s : PS) : (tdOne w l s).trace = s.trace ++ tdEv w l s := by
  unfold tdOne tdEv
  by_cases ht : (w.info l).hasTearDown = true
  · simp only [ht, if_true]
    split <;> rfl
  · simp [ht]

theorem tdEv_quiet (w : World) (l : Nat) (s : PS) : ∀ e ∈ tdEv w l s, isRun e = false := by
  intro e he
  unfold tdEv at he
  split at he
  · simp only [List.mem_singleton] at he; subst he; rfl
  · simp at he

theorem tdEv_noNI (w : World) (l : Nat) (s : PS) (h : tdStops w false l s = false) :
    ∀ e ∈ tdEv w l s, isNI e = false := by
  intro e he
  unfold tdEv at he
  split at he
  · rename_i htd
    simp only [List.mem_singleton] at he; subst he
    unfold tdStops at h
    simp only [htd, Bool.true_and, Bool.not_false, Bool.and_true, beq_eq_false_iff_ne, ne_eq] at h
    unfold isNI
    split
    · rename_i heq
      simp only [Ev.tearDown.injEq] at heq
      exact absurd heq.2 h
    · rfl
  · simp at he

/-- the tear-down loop appends only `tearDown` events; none of them is a NotImplementedError when
the (non-optional) loop completes -/
theorem tearDownList_trace (w : World) (opt : Bool) :
    ∀ (order : List Nat) (s : PS), ∃ evs, (tearDownList w opt order s).1.trace = s.trace ++ evs ∧
      (∀ e ∈ evs, isRun e = false) ∧
      ((tearDownList w opt order s).2 = false → opt = false → ∀ e ∈ evs, isNI e = false)
  | [], s => ⟨[], by simp [tearDownList], by simp, by simp⟩
  | l :: ls, s => by
    rw [tearDownList_cons]
    have h1 := tdOne_trace w l s
    by_cases hst : tdStops w opt l s = true
    · rw [if_pos hst]
      exact ⟨tdEv w l s, h1, tdEv_quiet w l s, fun hf => by simp at hf⟩
    · rw [if_neg hst]
      obtain ⟨evs, e1, e2, e3⟩ := tearDownList_trace w opt ls (tdOne w l s)
      refine ⟨tdEv w l s ++ evs, by rw [e1, h1, List.append_assoc], ?_, ?_⟩
      · intro e he
        rcases List.mem_append.1 he with he | he
        · exact tdEv_quiet w l s e he
        · exact e2 e he
      · intro hf ho e he
        subst ho
        rcases List.mem_append.1 he with he | he
        · exact tdEv_noNI w l s (by simpa using hst) e he
        · exact e3 hf rfl e he

theorem setupLayerF_trace (w : World) :
    ∀ (f l : Nat) (s : PS), ∃ evs, (setupLayerF w f l s).1.trace = s.trace ++ evs ∧ ∀ e ∈ evs, isNI e = false := by
  intro f
  induction f with
  | zero => intro l s; exact ⟨[], by simp [setupLayerF], by simp⟩
  | succ f ih =>
    intro l s
    have hbases : ∀ (bs : List Nat) (s : PS), ∃ evs,
        (setupBases (setupLayerF w f) bs s).1.trace = s.trace ++ evs ∧ ∀ e ∈ evs, isNI e = false := by
      intro bs
      induction bs with
      | nil => intro s; exact ⟨[], by simp [setupBases], by simp⟩
      | cons b bs ihb =>
        intro s
        obtain ⟨e1, h1, n1⟩ := ih b s
        rw [setupBases]
        split
        · obtain ⟨e2, h2, n2⟩ := ihb (setupLayerF w f b s).1
          refine ⟨e1 ++ e2, by rw [h2, h1, List.append_assoc], ?_⟩
          intro e he
          rcases List.mem_append.1 he with he | he
          · exact n1 e he
          · exact n2 e he
        · exact ⟨e1, h1, n1⟩
    rw [setupLayerF]
    split
    · exact ⟨[], by simp, by simp⟩
    · obtain ⟨e1, h1, n1⟩ := hbases (w.graph.bases l) s
      simp only []
      split
      · exact ⟨e1, h1, n1⟩
      · split
        · split
          · refine ⟨e1 ++ [_], by show _ ++ [_] = _; rw [h1, List.append_assoc], ?_⟩
            intro e he
            rcases List.mem_append.1 he with he | he
            · exact n1 e he
            · simp only [List.mem_singleton] at he; subst he; rfl
          · refine ⟨e1 ++ [_], by show _ ++ [_] = _; rw [h1, List.append_assoc], ?_⟩
            intro e he
            rcases List.mem_append.1 he with he | he
            · exact n1 e he
            · simp only [List.mem_singleton] at he; subst he; rfl
        · exact ⟨e1, h1, n1⟩

theorem runIterations_trace (w : World) (o : Opts) (l : Nat) (tests : List Proto.TestDef) :
    ∀ (n : Nat) (s : PS), ∃ evs, (runIterations w o l tests n s).trace = s.trace ++ evs ∧ ∀ e ∈ evs, isNI e = false := by
  intro n
  induction n with
  | zero => intro s; exact ⟨[], by simp [runIterations], by simp⟩
  | succ n ih =>
    intro s
    have hlog : ∀ e ∈ (Result.runTests (resultCfg w o l) tests {}).evs.map Ev.test, isNI e = false := by
      intro e he; obtain ⟨r, _, rfl⟩ := List.mem_map.1 he; rfl
    have hdone : ∃ evs, (iterDone w o l tests s).trace = s.trace ++ evs ∧ ∀ e ∈ evs, isNI e = false := by
      refine ⟨(Result.runTests (resultCfg w o l) tests {}).evs.map Ev.test ++
        [.summary (Result.runTests (resultCfg w o l) tests {}).testsRun
          ((Result.runTests (resultCfg w o l) tests {}).failures.length + (Result.runTests (resultCfg w o l) tests {}).unexpected.length)
          ((Result.runTests (resultCfg w o l) tests {}).errors.length + w.importErrors)
          (Result.runTests (resultCfg w o l) tests {}).skipped.length],
        by unfold iterDone iterLogged PS.emit; simp only [List.append_assoc], ?_⟩
      intro e he
      rcases List.mem_append.1 he with he | he
      · exact hlog e he
      · simp only [List.mem_singleton] at he; subst he; rfl
    rw [runIterations_succ]
    split
    · exact ⟨_, rfl, hlog⟩
    · split
      · exact ⟨_, rfl, hlog⟩
      · split
        · exact hdone
        · obtain ⟨e1, h1, n1⟩ := hdone
          obtain ⟨e2, h2, n2⟩ := ih (iterDone w o l tests s)
          refine ⟨e1 ++ e2, by rw [h2, h1, List.append_assoc], ?_⟩
          intro e he
          rcases List.mem_append.1 he with he | he
          · exact n1 e he
          · exact n2 e he

theorem rlHeader_trace (o : Opts) (l : Nat) (s : PS) :
    ∃ evs, (rlHeader o l s).trace = s.trace ++ evs ∧ (∀ e ∈ evs, isNI e = false) ∧ (∀ e ∈ evs, isRun e = false) := by
  unfold rlHeader
  split
  · exact ⟨[], by simp, by simp, by simp⟩
  · exact ⟨[.header l], rfl, by simp [isNI], by simp [isRun]⟩

/-- what `run_layer` appends: only quiet events when it ends with `CanNotTearDown`, no
NotImplementedError event otherwise -/
theorem runLayer_trace (w : World) (o : Opts) (l : Nat) (tests : List Proto.TestDef) (s : PS) :
    ∃ evs, (runLayer w o l tests s).1.trace = s.trace ++ evs ∧
      ((runLayer w o l tests s).2 = true → ∀ e ∈ evs, isRun e = false) ∧
      ((runLayer w o l tests s).2 = false → ∀ e ∈ evs, isNI e = false) := by
  rw [runLayer_eq]
  obtain ⟨e0, h0, n0, r0⟩ := rlHeader_trace o l s
  obtain ⟨e1, h1, r1, n1⟩ : ∃ evs, (tearDownUnneeded w (gather w.graph l) false (rlHeader o l s)).1.trace =
      (rlHeader o l s).trace ++ evs ∧ (∀ e ∈ evs, isRun e = false) ∧
      ((tearDownUnneeded w (gather w.graph l) false (rlHeader o l s)).2 = false → false = false → ∀ e ∈ evs, isNI e = false) := by
    unfold tearDownUnneeded; exact tearDownList_trace w false _ _
  by_cases hcan : (tearDownUnneeded w (gather w.graph l) false (rlHeader o l s)).2 = true
  · rw [if_pos hcan]
    refine ⟨e0 ++ e1, by rw [h1, h0, List.append_assoc], fun _ e he => ?_, fun hf => by rw [hcan] at hf; exact Bool.noConfusion hf⟩
    rcases List.mem_append.1 he with he | he
    · exact r0 e he
    · exact r1 e he
  · rw [if_neg hcan]
    have hcan' : (tearDownUnneeded w (gather w.graph l) false (rlHeader o l s)).2 = false := by simpa using hcan
    obtain ⟨e2, h2, n2⟩ : ∃ evs, (rlReady w o l s).trace =
        (tearDownUnneeded w (gather w.graph l) false (rlHeader o l s)).1.trace ++ evs ∧ ∀ e ∈ evs, isNI e = false := by
      unfold rlReady setupLayer; exact setupLayerF_trace w _ _ _
    have n012 : ∀ e ∈ e0 ++ e1 ++ e2, isNI e = false := by
      intro e he
      rcases List.mem_append.1 he with he | he
      · rcases List.mem_append.1 he with he | he
        · exact n0 e he
        · exact n1 hcan' rfl e he
      · exact n2 e he
    split
    · refine ⟨e0 ++ e1 ++ e2, ?_, fun hf => Bool.noConfusion hf, fun _ => n012⟩
      show (rlReady w o l s).trace = _
      rw [h2, h1, h0]; simp only [List.append_assoc]
    · obtain ⟨e3, h3, n3⟩ := runIterations_trace w o l tests (if o.repeat_ = 0 then 1 else o.repeat_) { rlReady w o l s with ran := 0 }
      refine ⟨e0 ++ e1 ++ e2 ++ e3, ?_, fun hf => Bool.noConfusion hf, fun _ e he => ?_⟩
      · show (runIterations w o l tests (if o.repeat_ = 0 then 1 else o.repeat_) { rlReady w o l s with ran := 0 }).trace = _
        rw [h3]
        show (rlReady w o l s).trace ++ e3 = _
        rw [h2, h1, h0]; simp only [List.append_assoc]
      · rcases List.mem_append.1 he with he | he
        · exact n012 e he
        · exact n3 e he

theorem phase2_layerLoop (w : World) (o : Opts) :
    ∀ (layers : List (Nat × List Proto.TestDef)) (s : PS), (∀ e ∈ s.trace, isNI e = false) →
      (o.resume.isSome = true → layers.length ≤ 1) → Phase2 (layerLoop w o layers s).1.trace
  | [], s, h, _ => phase2_of_noNI h
  | (l, tests) :: rest, s, h, hone => by
    rw [layerLoop]
    obtain ⟨evs, ht, hq, hn⟩ := runLayer_trace w o l tests s
    have hcase : Phase2 (runLayer w o l tests s).1.trace := by
      rw [ht]
      by_cases hc : (runLayer w o l tests s).2 = true
      · exact phase2_append (phase2_of_noNI h) (hq hc)
      · apply phase2_of_noNI
        intro e he
        rcases List.mem_append.1 he with he | he
        · exact h e he
        · exact hn (by simpa using hc) e he
    split
    · exact hcase
    · split
      · cases hres : o.resume with
        | none => exact hcase
        | some p =>
          have : rest = [] := by
            have hl := hone (by rw [hres]; rfl)
            simp only [List.length_cons] at hl
            exact List.eq_nil_of_length_eq_zero (by omega)
          subst this
          simp only [layerLoop]
          exact hcase
      · rename_i hc
        have hnoni : ∀ e ∈ (runLayer w o l tests s).1.trace, isNI e = false := by
          rw [ht]
          intro e he
          rcases List.mem_append.1 he with he | he
          · exact h e he
          · exact hn (by simpa using hc) e he
        split
        · exact hcase
        · split
          · exact hcase
          · exact phase2_layerLoop w o rest _ hnoni (fun hr => by have := hone hr; simp only [List.length_cons] at this; omega)

theorem spawnAll_trace_quiet (o : Opts) (cb : Nat → Bool) :
    ∀ (rest : List (Nat × List Proto.TestDef)) (n : Nat) (s : PS),
      ∃ evs, (spawnAll o cb rest n s).trace = s.trace ++ evs ∧ ∀ e ∈ evs, isRun e = false
  | [], _, s => ⟨[], by simp [spawnAll], by simp⟩
  | (l, _) :: rest, n, s => by
    rw [spawnAll]
    split
    · exact ⟨[], by simp, by simp⟩
    · have hx : ∀ (s' : PS), s'.trace = s.trace ++ [.spawn l n] →
          ∃ evs, (spawnAll o cb rest (n + 1) s').trace = s.trace ++ evs ∧ ∀ e ∈ evs, isRun e = false := by
        intro s' hs'
        obtain ⟨e2, h2, q2⟩ := spawnAll_trace_quiet o cb rest (n + 1) s'
        refine ⟨[.spawn l n] ++ e2, by rw [h2, hs', List.append_assoc], ?_⟩
        intro e he
        rcases List.mem_append.1 he with he | he
        · simp only [List.mem_singleton] at he; subst he; rfl
        · exact q2 e he
      split <;> exact hx _ rfl

/-- a child process has at most one layer to run (keys of `tests_by_layer_name` are distinct) -/
theorem child_one_layer (w : World) (o : Opts) (hr : o.resume.isSome = true) :
    (orderedLayers w o).length ≤ 1 := by
  cases hres : o.resume with
  | none => rw [hres] at hr; exact Bool.noConfusion hr
  | some p =>
  obtain ⟨l, n⟩ := p
  unfold orderedLayers
  simp only [hres]
  have honce := C10_once w.graph ((w.groups.filter (fun (g : Nat × List Proto.TestDef) => g.1 == l)).map (·.1))
  have hall : ∀ x ∈ orderByBases w.graph ((w.groups.filter (fun (g : Nat × List Proto.TestDef) => g.1 == l)).map (·.1)), x = l := by
    intro x hx
    have := (honce.2 x).1 hx
    obtain ⟨g, hg', rfl⟩ := List.mem_map.1 this
    simpa using (List.mem_filter.1 hg').2
  have hlen : (orderByBases w.graph ((w.groups.filter (fun (g : Nat × List Proto.TestDef) => g.1 == l)).map (·.1))).length ≤ 1 := by
    generalize orderByBases w.graph ((w.groups.filter (fun (g : Nat × List Proto.TestDef) => g.1 == l)).map (·.1)) = L at honce hall
    match L, honce.1, hall with
    | [], _, _ => simp
    | [_], _, _ => simp
    | a :: b :: _, hnd, hall =>
      have ha := hall a (by simp)
      have hb := hall b (by simp)
      rw [List.nodup_cons] at hnd
      exact absurd (by simp [ha, hb]) hnd.1
  exact Nat.le_trans (List.length_filterMap_le _ _) hlen

/-- **C01_frozen** — once a `tearDown` has raised NotImplementedError, no further test runs and no
further layer `setUp` is called in that process (parent or child). -/
theorem C01_frozen (w : World) (o : Opts) (cb : Nat → Bool) :
    Frozen (runProcess w o cb).trace := by
  apply frozen_of_phase2
  show Phase2 (finalState w o cb).trace
  have hstart : ∀ e ∈ (fsStart w o).trace, isNI e = false := by
    unfold fsStart
    split
    · intro e he
      have : e = .summary 0 0 w.importErrors 0 := by simpa [PS.emit] using he
      subst this; rfl
    · intro e he; simp at he
  have hloop : Phase2 (fsLoop w o).1.trace := by
    unfold fsLoop
    split
    · exact phase2_of_noNI hstart
    · exact phase2_layerLoop w o _ _ hstart (child_one_layer w o)
  rw [finalState_eq]
  split
  · exact hloop
  · have hsp : Phase2 (fsSpawned w o cb).trace := by
      unfold fsSpawned
      split
      · obtain ⟨evs, h1, h2⟩ := spawnAll_trace_quiet o cb (fsLoop w o).2 (if o.processes > 1 then 1 else 0) (fsLoop w o).1
        rw [h1]; exact phase2_append hloop h2
      · exact hloop
    obtain ⟨evs, h1, h2, _⟩ : ∃ evs, (tearDownUnneeded w [] true (fsSpawned w o cb)).1.trace =
        (fsSpawned w o cb).trace ++ evs ∧ (∀ e ∈ evs, isRun e = false) ∧ _ := by
      unfold tearDownUnneeded; exact tearDownList_trace w true _ _
    rw [h1]; exact phase2_append hsp h2

/-! ## the remaining layers run in children -/

theorem layerLoop_suffix (w : World) (o : Opts) :
    ∀ (layers : List (Nat × List Proto.TestDef)) (s : PS), (layerLoop w o layers s).2 <:+ layers
  | [], _ => by simp [layerLoop]
  | (l, tests) :: rest, s => by
    rw [layerLoop]
    split
    · exact List.nil_suffix
    · split
      · split
        · exact List.suffix_refl _
        · exact (layerLoop_suffix w o rest _).trans (List.suffix_cons _ _)
      · split
        · exact List.suffix_cons _ _
        · split
          · exact List.nil_suffix
          · exact (layerLoop_suffix w o rest _).trans (List.suffix_cons _ _)

/-- the spawn events, numbered from `n` -/
def spawnEvs : List (Nat × List Proto.TestDef) → Nat → List Ev
  | [], _ => []
  | (l, _) :: rest, n => .spawn l n :: spawnEvs rest (n + 1)

/-- **C01_rest_in_children** — without `--stop-on-error` (or under `-j`), every layer the layer loop
left over (from the one that hit `CanNotTearDown` on) is handed to a fresh subprocess, each exactly
once, in order, with consecutive resume numbers. -/
theorem C01_rest_in_children (o : Opts) (cb : Nat → Bool) (hx : o.stopOnError = false ∨ o.processes > 1) :
    ∀ (rest : List (Nat × List Proto.TestDef)) (n : Nat) (s : PS),
      (spawnAll o cb rest n s).trace = s.trace ++ spawnEvs rest n
  | [], _, s => by simp [spawnAll, spawnEvs]
  | (l, ts) :: rest, n, s => by
    rw [spawnAll]
    have hc : ¬ ((o.stopOnError && decide (o.processes ≤ 1) && (!s.failures.isEmpty || !s.errors.isEmpty)) = true) := by
      rcases hx with h | h
      · simp [h]
      · have : ¬ o.processes ≤ 1 := by omega
        simp [this]
    rw [if_neg hc]
    have hx' : ∀ (s' : PS), s'.trace = s.trace ++ [.spawn l n] →
        (spawnAll o cb rest (n + 1) s').trace = s.trace ++ spawnEvs ((l, ts) :: rest) n := by
      intro s' hs'
      rw [C01_rest_in_children o cb hx rest (n + 1) s', hs']
      simp [spawnEvs]
    split <;> exact hx' _ rfl


/-! ## non-vacuity: a diamond with a tear-down that is not supported, one that raises, a failing set-up -/

def c1G : Graph :=
  { bases := fun l => match l with | 1 => [0] | 2 => [0] | 3 => [1, 2] | _ => [], name := fun n => [n], unit := 99 }

def c1T (i : Nat) : Proto.TestDef := { id := i }

def c1W : World where
  graph := c1G
  info := fun _ => ⟨true, true, false, false⟩
  setUpRaises := fun l k => l == 2 && k == 0
  tearDownResult := fun l _ => if l == 1 then .notImpl else if l == 0 then .raised else .ok
  groups := [(1, [c1T 1]), (3, [c1T 3]), (2, [c1T 2])]
  importErrors := 0

theorem c1G_wf : WF c1G := by
  intro l b hb
  unfold c1G at hb
  simp only at hb
  split at hb <;> simp at hb <;> omega

-- the parent: runs layer 1, cannot tear it down for layer 2, hands layers 2 and 3 to children
example : (runProcess c1W {} (fun _ => false)).trace =
    [.header 1, .setUp 0 true, .setUp 1 true, .test (.tstart 1), .test (.code 1 .setUp), .test (.code 1 .body),
     .test (.code 1 .tearDown), .test (.passed 1), .test (.tend 1), .summary 1 0 0 0, .header 2,
     .tearDown 1 .notImpl, .spawn 2 0, .spawn 3 1, .tearDown 0 .raised] := by decide
-- the child for layer 3: the first set-up of layer 2 fails, nothing of layer 3 runs, layers 0 and 1 are torn down
example : (runProcess c1W { resume := some (3, 1) } (fun _ => false)).trace =
    [.header 3, .setUp 0 true, .setUp 1 true, .setUp 2 false, .tearDown 1 .notImpl, .tearDown 0 .raised] := by decide

end Ztr.Runner
