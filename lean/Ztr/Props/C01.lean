import Ztr.Props.C10
import Ztr.Props.C03
import Ztr.Model.Runner
/-! # C01 — tests run with exactly their layer stack set up; layers nest like a stack

The model (`Model/Runner`) carries a ghost log: every event together with the content of
`setup_layers` at the moment it is emitted (`PS.glog`, never read by the model).  The theorems below
are about *every* event of *every* process (`o.resume` arbitrary: parent, resumed child, `-j` child)
for every layer graph, test assignment, fault oracle and option set.

* `C01_events`            every `setUp`, `tearDown` and test event satisfies its guard (`EvOk`)
* `C01_exact_stack`       a test event sees exactly the closure of its layer in `setup_layers`
* `C01_setUp_guard`       `setUp l` only while `l` is not set up and all its bases are
* `C01_tearDown_order`    `tearDown l` only when no layer derived from `l` is still set up
* `C01_all_torn_down`     at the end nothing is left set up …
* `C01_balance`           … and successful set-ups and tear-down attempts balance per layer
* `C01_frozen`            after a `tearDown` that raised NotImplementedError no `setUp`/test event
* `C01_rest_in_children`  the layers left over are handed to children, each once, in order
-/
namespace Ztr.Runner
open Ztr.Layers

/-! ## definitions -/

def BaseClosed (G : Graph) (S : List Nat) : Prop := ∀ l ∈ S, ∀ b ∈ G.bases l, b ∈ S

/-- the guard every event must satisfy with respect to the `setup_layers` it was emitted under -/
def EvOk (G : Graph) : Ev × Snap → Prop
  | (.setUp l _, g) => l ∉ g.setup ∧ ∀ b ∈ G.bases l, b ∈ g.setup
  | (.tearDown l _, g) => l ∈ g.setup ∧ ∀ d ∈ g.setup, d ≠ l → l ∉ closure G d
  | (.test _, g) => ∃ l, g.layer = some l ∧ ∀ x, x ∈ g.setup ↔ x ∈ closure G l
  | _ => True

def countSetUpOk (l : Nat) : List Ev → Nat
  | [] => 0
  | .setUp l' true :: r => (if l' = l then 1 else 0) + countSetUpOk l r
  | _ :: r => countSetUpOk l r

/-- the invariant, as a predicate on the three components it reads -/
structure Inv' (w : World) (setup : List Nat) (trace : List Ev) (glog : List (Ev × Snap)) : Prop where
  nodup : setup.Nodup
  closed : BaseClosed w.graph setup
  log : ∀ p ∈ glog, EvOk w.graph p
  erase : glog.map (·.1) = trace
  balance : ∀ l, (w.info l).hasSetUp = true → (w.info l).hasTearDown = true →
    countSetUpOk l trace = countTearDown l trace + (if l ∈ setup then 1 else 0)

def Inv (w : World) (s : PS) : Prop := Inv' w s.setup s.trace s.glog

/-! ## small facts -/

theorem countTearDown_append (l : Nat) (a b : List Ev) :
    countTearDown l (a ++ b) = countTearDown l a + countTearDown l b := by
  induction a with
  | nil => simp [countTearDown]
  | cons e a ih => cases e <;> simp [countTearDown, ih] <;> omega

theorem countSetUpOk_append (l : Nat) (a b : List Ev) :
    countSetUpOk l (a ++ b) = countSetUpOk l a + countSetUpOk l b := by
  induction a with
  | nil => simp [countSetUpOk]
  | cons e a ih =>
    cases e with
    | setUp l' ok => cases ok <;> simp [countSetUpOk, ih] <;> omega
    | _ => simp [countSetUpOk, ih]

theorem countSetUp_append (l : Nat) (a b : List Ev) :
    countSetUp l (a ++ b) = countSetUp l a + countSetUp l b := by
  induction a with
  | nil => simp [countSetUp]
  | cons e a ih => cases e <;> simp [countSetUp, ih] <;> omega

theorem countTearDown_tests (l : Nat) (evs : List Result.REv) : countTearDown l (evs.map Ev.test) = 0 := by
  induction evs with
  | nil => rfl
  | cons e evs ih => simp [countTearDown, ih]

theorem countSetUpOk_tests (l : Nat) (evs : List Result.REv) : countSetUpOk l (evs.map Ev.test) = 0 := by
  induction evs with
  | nil => rfl
  | cons e evs ih => simp [countSetUpOk, ih]

theorem base_mem_closure {G : Graph} (hwf : WF G) {l b : Nat} (hb : b ∈ G.bases l) : b ∈ closure G l := by
  unfold closure
  rw [gather_eq hwf l]
  exact List.mem_cons_of_mem _ (List.mem_flatMap.2 ⟨b, hb, self_mem_gather G b⟩)

theorem base_ne {G : Graph} (hwf : WF G) {l b : Nat} (hb : b ∈ G.bases l) : b ≠ l := by
  have := hwf l b hb; omega

theorem closure_subset_of_closed {G : Graph} (hwf : WF G) {S : List Nat} (hS : BaseClosed G S) :
    ∀ l, l ∈ S → ∀ x ∈ closure G l, x ∈ S := by
  intro l
  induction l using Nat.strongRecOn with
  | _ l ih =>
    intro hl x hx
    unfold closure at hx
    rw [gather_eq hwf l] at hx
    rcases List.mem_cons.1 hx with rfl | h
    · exact hl
    · obtain ⟨b, hb, hxb⟩ := List.mem_flatMap.1 h
      exact ih b (hwf l b hb) (hS l hl b hb) x hxb

theorem closure_closed {G : Graph} (hwf : WF G) (l : Nat) : BaseClosed G (closure G l) := by
  intro x hx b hb
  exact closure_trans hwf l x b hx (base_mem_closure hwf hb)

theorem mem_closure_lt_or_eq {G : Graph} (hwf : WF G) {l x : Nat} (h : x ∈ closure G l) : x = l ∨ x < l := by
  unfold closure at h
  rw [gather_eq hwf l] at h
  rcases List.mem_cons.1 h with rfl | h
  · exact Or.inl rfl
  · exact Or.inr (lt_of_mem_gather_tail hwf l x h)

/-! ## emitting events -/

theorem inv_emit_neutral {w : World} {s : PS} (h : Inv w s) (e : Ev)
    (hok : EvOk w.graph (e, { setup := s.setup }))
    (h1 : ∀ l, countSetUpOk l [e] = 0) (h2 : ∀ l, countTearDown l [e] = 0) : Inv w (s.emit e) := by
  refine ⟨h.nodup, h.closed, ?_, ?_, ?_⟩
  · intro p hp
    rcases List.mem_append.1 hp with hp | hp
    · exact h.log p hp
    · simp only [List.mem_singleton] at hp; subst hp; exact hok
  · show List.map Prod.fst (s.glog ++ [(e, ({ setup := s.setup } : Snap))]) = s.trace ++ [e]
    simp [h.erase]
  · intro l a b
    show countSetUpOk l (s.trace ++ [e]) = countTearDown l (s.trace ++ [e]) + _
    rw [countSetUpOk_append, countTearDown_append, h1, h2]
    exact h.balance l a b

theorem inv_header {w : World} {s : PS} (h : Inv w s) (l : Nat) : Inv w (s.emit (.header l)) :=
  inv_emit_neutral h _ trivial (fun _ => rfl) (fun _ => rfl)

theorem inv_summary {w : World} {s : PS} (h : Inv w s) (a b c d : Nat) : Inv w (s.emit (.summary a b c d)) :=
  inv_emit_neutral h _ trivial (fun _ => rfl) (fun _ => rfl)

theorem inv_spawn {w : World} {s : PS} (h : Inv w s) (l n : Nat) : Inv w (s.emit (.spawn l n)) :=
  inv_emit_neutral h _ trivial (fun _ => rfl) (fun _ => rfl)

/-! ## `tear_down_unneeded` -/

/-- one round of the tear-down loop: the call (if the layer has the hook), the error record, and the
`finally: del setup_layers[layer]` -/
def tdOne (w : World) (l : Nat) (s : PS) : PS :=
  let s1 : PS :=
    if (w.info l).hasTearDown then
      let r := w.tearDownResult l (countTearDown l s.trace)
      let s' := s.emit (.tearDown l r)
      if r = .raised then { s' with errors := s'.errors ++ [.layerTearDown l] } else s'
    else s
  { s1 with setup := s1.setup.filter (· != l) }

/-- does this round end the loop with `CanNotTearDown`? -/
def tdStops (w : World) (optional : Bool) (l : Nat) (s : PS) : Bool :=
  (w.info l).hasTearDown && (w.tearDownResult l (countTearDown l s.trace) == .notImpl) && !optional

theorem tearDownList_cons (w : World) (opt : Bool) (l : Nat) (ls : List Nat) (s : PS) :
    tearDownList w opt (l :: ls) s =
      if tdStops w opt l s then (tdOne w l s, true) else tearDownList w opt ls (tdOne w l s) := by
  rw [tearDownList]
  unfold tdStops tdOne
  by_cases h : (w.info l).hasTearDown = true
  · simp only [h, if_true, Bool.true_and]
    cases hr : w.tearDownResult l (countTearDown l s.trace) <;> cases opt <;> simp
  · simp [h]

/-- precondition on the order in which layers are torn down, relative to what is set up -/
structure TDPre (G : Graph) (order S : List Nat) : Prop where
  nodup : order.Nodup
  sub : ∀ x ∈ order, x ∈ S
  derivedFirst : ∀ l ∈ order, ∀ d ∈ S, d ≠ l → l ∈ closure G d → [d, l].Sublist order

theorem tdpre_head {G : Graph} {l : Nat} {ls S : List Nat} (h : TDPre G (l :: ls) S) :
    l ∈ S ∧ ∀ d ∈ S, d ≠ l → l ∉ closure G d := by
  refine ⟨h.sub l (by simp), ?_⟩
  intro d hd hne hc
  have hsub := h.derivedFirst l (by simp) d hd hne hc
  have hnd := h.nodup
  rw [List.nodup_cons] at hnd
  cases hsub with
  | cons _ h' => exact hnd.1 ((List.Sublist.subset h') (by simp))
  | cons_cons _ _ => exact hne rfl

theorem tdpre_tail {G : Graph} {l : Nat} {ls S : List Nat} (h : TDPre G (l :: ls) S) :
    TDPre G ls (S.filter (· != l)) := by
  have hnd := h.nodup
  rw [List.nodup_cons] at hnd
  refine ⟨hnd.2, ?_, ?_⟩
  · intro x hx
    have : x ≠ l := fun e => hnd.1 (e ▸ hx)
    simp [h.sub x (by simp [hx]), this]
  · intro l' hl' d hd hne hc
    have hd' := List.mem_filter.1 hd
    have hdl : d ≠ l := by simpa using hd'.2
    have hsub := h.derivedFirst l' (by simp [hl']) d hd'.1 hne hc
    cases hsub with
    | cons _ h' => exact h'
    | cons_cons _ _ => exact absurd rfl hdl

theorem closed_filter {G : Graph} (hwf : WF G) {S : List Nat} {l : Nat} (hS : BaseClosed G S)
    (hl : ∀ d ∈ S, d ≠ l → l ∉ closure G d) : BaseClosed G (S.filter (· != l)) := by
  intro x hx b hb
  have hx' := List.mem_filter.1 hx
  have hxl : x ≠ l := by simpa using hx'.2
  have hbS := hS x hx'.1 b hb
  have hbl : b ≠ l := by
    intro e
    subst e
    exact hl x hx'.1 hxl (base_mem_closure hwf hb)
  simp [hbS, hbl]

theorem inv_tdOne {w : World} (hwf : WF w.graph) {l : Nat} {s : PS} (h : Inv w s)
    (hl : l ∈ s.setup) (hd : ∀ d ∈ s.setup, d ≠ l → l ∉ closure w.graph d) : Inv w (tdOne w l s) := by
  have hnd : (s.setup.filter (· != l)).Nodup := h.nodup.sublist List.filter_sublist
  have hcl := closed_filter hwf h.closed hd
  have hmem : ∀ x, x ≠ l → (x ∈ s.setup.filter (· != l) ↔ x ∈ s.setup) := by
    intro x hx; simp [hx]
  have hnl : l ∉ s.setup.filter (· != l) := by simp
  unfold tdOne
  by_cases ht : (w.info l).hasTearDown = true
  · simp only [ht, if_true]
    -- the state after the emit; the error record does not matter
    have key : Inv' w (s.setup.filter (· != l)) (s.trace ++ [.tearDown l (w.tearDownResult l (countTearDown l s.trace))])
        (s.glog ++ [(.tearDown l (w.tearDownResult l (countTearDown l s.trace)), { setup := s.setup })]) := by
      refine ⟨hnd, hcl, ?_, ?_, ?_⟩
      · intro p hp
        rcases List.mem_append.1 hp with hp | hp
        · exact h.log p hp
        · simp only [List.mem_singleton] at hp; subst hp; exact ⟨hl, hd⟩
      · simp [h.erase]
      · intro x a b
        rw [countSetUpOk_append, countTearDown_append, h.balance x a b]
        by_cases hx : x = l
        · subst hx; simp [countSetUpOk, countTearDown, hl]
        · have : ¬ l = x := fun e => hx e.symm
          simp [countSetUpOk, countTearDown, this, hx]
    split <;> exact key
  · simp only [ht, Bool.false_eq_true, if_false]
    refine ⟨hnd, hcl, h.log, h.erase, ?_⟩
    intro x a b
    have hx : x ≠ l := by intro e; subst e; exact ht b
    rw [h.balance x a b]
    by_cases hxs : x ∈ s.setup <;> simp [hxs, hx]

theorem tdOne_setup (w : World) (l : Nat) (s : PS) : (tdOne w l s).setup = s.setup.filter (· != l) := by
  unfold tdOne
  by_cases ht : (w.info l).hasTearDown = true
  · simp only [ht, if_true]
    split <;> rfl
  · simp [ht]

/-- the tear-down loop keeps the invariant; when it completes, exactly the listed layers are gone -/
theorem inv_tearDownList {w : World} (hwf : WF w.graph) (opt : Bool) :
    ∀ (order : List Nat) (s : PS), Inv w s → TDPre w.graph order s.setup →
      Inv w (tearDownList w opt order s).1 ∧
      ((tearDownList w opt order s).2 = false →
        (tearDownList w opt order s).1.setup = s.setup.filter (fun x => !order.contains x))
  | [], s, h, _ => by
    refine ⟨by simpa [tearDownList] using h, fun _ => ?_⟩
    show s.setup = s.setup.filter (fun x => !([] : List Nat).contains x)
    induction s.setup with
    | nil => rfl
    | cons a as ih => simpa using ih
  | l :: ls, s, h, hp => by
    rw [tearDownList_cons]
    obtain ⟨hl, hd⟩ := tdpre_head hp
    have h1 := inv_tdOne hwf h hl hd
    have hp1 : TDPre w.graph ls (tdOne w l s).setup := by rw [tdOne_setup]; exact tdpre_tail hp
    split
    · exact ⟨h1, by simp⟩
    · obtain ⟨i1, i2⟩ := inv_tearDownList hwf opt ls (tdOne w l s) h1 hp1
      refine ⟨i1, fun hf => ?_⟩
      rw [i2 hf, tdOne_setup, List.filter_filter]
      apply List.filter_congr
      intro x _
      by_cases hx : x = l <;> simp [hx, Bool.and_comm]

theorem tearDownList_optional (w : World) : ∀ (order : List Nat) (s : PS), (tearDownList w true order s).2 = false
  | [], s => rfl
  | l :: ls, s => by
    rw [tearDownList_cons]
    have : tdStops w true l s = false := by simp [tdStops]
    simp only [this, Bool.false_eq_true, if_false]
    exact tearDownList_optional w ls _

/-- the order `tear_down_unneeded` computes satisfies the precondition when `needed` is base-closed -/
theorem tdpre_unneeded {G : Graph} (hwf : WF G) {S needed : List Nat}
    (hN : ∀ d ∈ needed, ∀ x ∈ closure G d, x ∈ needed) :
    TDPre G (orderByBases G (S.filter (fun l => !needed.contains l))).reverse S := by
  have honce := C10_once G (S.filter (fun l => !needed.contains l))
  refine ⟨nodup_reverse' honce.1, ?_, ?_⟩
  · intro x hx
    have := (honce.2 x).1 (List.mem_reverse.1 hx)
    exact (List.mem_filter.1 this).1
  · intro l hl d hd hne hc
    have hlU := (honce.2 l).1 (List.mem_reverse.1 hl)
    have hlN : l ∉ needed := by simpa using (List.mem_filter.1 hlU).2
    have hdN : d ∉ needed := fun hdn => hlN (hN d hdn l hc)
    have hdU : d ∈ S.filter (fun l => !needed.contains l) := by simp [hd, hdN]
    have := C10_bases_first hwf (S.filter (fun l => !needed.contains l)) hc (Ne.symm hne) hlU hdU
    have h2 := this.reverse
    simpa using h2

theorem inv_tearDownUnneeded {w : World} (hwf : WF w.graph) (needed : List Nat) (opt : Bool) {s : PS}
    (h : Inv w s) (hN : ∀ d ∈ needed, ∀ x ∈ closure w.graph d, x ∈ needed) :
    Inv w (tearDownUnneeded w needed opt s).1 ∧
    ((tearDownUnneeded w needed opt s).2 = false →
      ∀ x, x ∈ (tearDownUnneeded w needed opt s).1.setup ↔ (x ∈ s.setup ∧ x ∈ needed)) := by
  unfold tearDownUnneeded
  obtain ⟨i1, i2⟩ := inv_tearDownList hwf opt _ s h (tdpre_unneeded hwf (S := s.setup) hN)
  refine ⟨i1, fun hf x => ?_⟩
  rw [i2 hf]
  have honce := C10_once w.graph (s.setup.filter (fun l => !needed.contains l))
  have hmem : x ∈ (orderByBases w.graph (s.setup.filter (fun l => !needed.contains l))).reverse ↔
      (x ∈ s.setup ∧ x ∉ needed) := by
    rw [List.mem_reverse, honce.2 x]; simp
  rw [List.mem_filter]
  have e2 : (!(orderByBases w.graph (s.setup.filter (fun l => !needed.contains l))).reverse.contains x) = true ↔
      ¬ (x ∈ s.setup ∧ x ∉ needed) := by
    rw [← hmem]; simp
  rw [e2]
  constructor
  · rintro ⟨hx, hn⟩
    exact ⟨hx, Classical.byContradiction fun hnn => hn ⟨hx, hnn⟩⟩
  · rintro ⟨hx, hn⟩
    exact ⟨hx, fun hh => hh.2 hn⟩


/-! ## `setup_layer` -/

theorem inv_mark {w : World} {s : PS} {l : Nat} (h : Inv w s) (hl : l ∉ s.setup)
    (hb : ∀ b ∈ w.graph.bases l, b ∈ s.setup) (hns : (w.info l).hasSetUp = false) :
    Inv w { s with setup := s.setup ++ [l] } := by
  refine ⟨?_, ?_, h.log, h.erase, ?_⟩
  · show (s.setup ++ [l]).Nodup
    rw [List.nodup_append]
    exact ⟨h.nodup, by simp, by intro a ha b hb' e; simp at hb'; subst hb'; subst e; exact hl ha⟩
  · intro x hx b hbx
    show b ∈ s.setup ++ [l]
    rcases List.mem_append.1 hx with hx | hx
    · exact List.mem_append_left _ (h.closed x hx b hbx)
    · simp only [List.mem_singleton] at hx; subst hx
      exact List.mem_append_left _ (hb b hbx)
  · intro x a b
    have hx : x ≠ l := by intro e; subst e; rw [hns] at a; exact Bool.noConfusion a
    show countSetUpOk x s.trace = countTearDown x s.trace + (if x ∈ s.setup ++ [l] then 1 else 0)
    rw [h.balance x a b]
    by_cases hxs : x ∈ s.setup <;> simp [hxs, hx]

theorem inv_setUp_ok {w : World} {s : PS} {l : Nat} (h : Inv w s) (hl : l ∉ s.setup)
    (hb : ∀ b ∈ w.graph.bases l, b ∈ s.setup) :
    Inv w { (s.emit (.setUp l true)) with setup := s.setup ++ [l] } := by
  refine ⟨?_, ?_, ?_, ?_, ?_⟩
  · show (s.setup ++ [l]).Nodup
    rw [List.nodup_append]
    exact ⟨h.nodup, by simp, by intro a ha b hb' e; simp at hb'; subst hb'; subst e; exact hl ha⟩
  · intro x hx b hbx
    show b ∈ s.setup ++ [l]
    rcases List.mem_append.1 hx with hx | hx
    · exact List.mem_append_left _ (h.closed x hx b hbx)
    · simp only [List.mem_singleton] at hx; subst hx
      exact List.mem_append_left _ (hb b hbx)
  · intro p hp
    rcases List.mem_append.1 hp with hp | hp
    · exact h.log p hp
    · simp only [List.mem_singleton] at hp; subst hp; exact ⟨hl, hb⟩
  · show List.map Prod.fst (s.glog ++ [(Ev.setUp l true, ({ setup := s.setup } : Snap))]) = s.trace ++ [Ev.setUp l true]
    simp [h.erase]
  · intro x a b
    show countSetUpOk x (s.trace ++ [Ev.setUp l true]) =
      countTearDown x (s.trace ++ [Ev.setUp l true]) + (if x ∈ s.setup ++ [l] then 1 else 0)
    rw [countSetUpOk_append, countTearDown_append, h.balance x a b]
    by_cases hx : x = l
    · subst hx; simp [countSetUpOk, countTearDown, hl]
    · have : ¬ l = x := fun e => hx e.symm
      by_cases hxs : x ∈ s.setup <;> simp [countSetUpOk, countTearDown, this, hx, hxs]

theorem inv_setUp_fail {w : World} {s : PS} {l : Nat} (h : Inv w s) (hl : l ∉ s.setup)
    (hb : ∀ b ∈ w.graph.bases l, b ∈ s.setup) : Inv w (s.emit (.setUp l false)) :=
  inv_emit_neutral h _ ⟨hl, hb⟩ (fun _ => rfl) (fun _ => rfl)

/-- what `setup_layer` guarantees about `setup_layers` -/
structure SetupPost (w : World) (targets : List Nat) (s : PS) (r : PS × Bool) : Prop where
  inv : Inv w r.1
  mono : ∀ x ∈ s.setup, x ∈ r.1.setup
  within : ∀ x ∈ r.1.setup, x ∈ s.setup ∨ ∃ t ∈ targets, x ∈ closure w.graph t
  done : r.2 = true → ∀ t ∈ targets, t ∈ r.1.setup

theorem post_setupBases {w : World} (f : Nat → PS → PS × Bool)
    (hf : ∀ b s, Inv w s → SetupPost w [b] s (f b s) ∨ True)
    : True := trivial

theorem post_setupLayerF {w : World} (hwf : WF w.graph) :
    ∀ (f l : Nat) (s : PS), l < f → Inv w s → SetupPost w [l] s (setupLayerF w f l s) := by
  intro f
  induction f with
  | zero => intro l s h; omega
  | succ f ih =>
    intro l s hlf h
    -- the loop over the bases
    have hbases : ∀ (bs : List Nat) (s : PS), (∀ b ∈ bs, b < f) → Inv w s →
        SetupPost w bs s (setupBases (setupLayerF w f) bs s) := by
      intro bs
      induction bs with
      | nil =>
        intro s _ h
        exact ⟨h, fun x hx => hx, fun x hx => Or.inl hx, fun _ t ht => by simp at ht⟩
      | cons b bs ihb =>
        intro s hlt h
        have p1 := ih b s (hlt b (by simp)) h
        rw [setupBases]
        by_cases hr : (setupLayerF w f b s).2 = true
        · simp only [hr, if_true]
          have p2 := ihb (setupLayerF w f b s).1 (fun x hx => hlt x (by simp [hx])) p1.inv
          refine ⟨p2.inv, fun x hx => p2.mono x (p1.mono x hx), ?_, ?_⟩
          · intro x hx
            rcases p2.within x hx with h1 | ⟨t, ht, hxt⟩
            · rcases p1.within x h1 with h0 | ⟨t, ht, hxt⟩
              · exact Or.inl h0
              · simp only [List.mem_singleton] at ht; subst ht
                exact Or.inr ⟨t, by simp, hxt⟩
            · exact Or.inr ⟨t, by simp [ht], hxt⟩
          · intro hd t ht
            rcases List.mem_cons.1 ht with rfl | ht
            · exact p2.mono _ (p1.done hr _ (by simp))
            · exact p2.done hd t ht
        · simp only [hr, Bool.false_eq_true, if_false]
          refine ⟨p1.inv, p1.mono, ?_, fun hd => absurd hd hr⟩
          intro x hx
          rcases p1.within x hx with h0 | ⟨t, ht, hxt⟩
          · exact Or.inl h0
          · simp only [List.mem_singleton] at ht; subst ht
            exact Or.inr ⟨t, by simp, hxt⟩
    rw [setupLayerF]
    by_cases hc : s.setup.contains l = true
    · simp only [hc, if_true]
      have hl : l ∈ s.setup := by simpa using hc
      exact ⟨h, fun x hx => hx, fun x hx => Or.inl hx, fun _ t ht => by simp at ht; subst ht; exact hl⟩
    · simp only [hc, Bool.false_eq_true, if_false]
      have hl : l ∉ s.setup := by simpa using hc
      have pb := hbases (w.graph.bases l) s (fun b hb => by have := hwf l b hb; omega) h
      -- what the bases loop may have added lies strictly below `l`
      have hwithin : ∀ x ∈ (setupBases (setupLayerF w f) (w.graph.bases l) s).1.setup,
          x ∈ s.setup ∨ x ∈ closure w.graph l := by
        intro x hx
        rcases pb.within x hx with h0 | ⟨t, ht, hxt⟩
        · exact Or.inl h0
        · exact Or.inr (closure_trans hwf l t x (base_mem_closure hwf ht) hxt)
      have hl1 : l ∉ (setupBases (setupLayerF w f) (w.graph.bases l) s).1.setup := by
        intro hx
        rcases pb.within l hx with h0 | ⟨t, ht, hxt⟩
        · exact hl h0
        · have h1 := hwf l t ht
          rcases mem_closure_lt_or_eq hwf hxt with e | e <;> omega
      by_cases hr : (setupBases (setupLayerF w f) (w.graph.bases l) s).2 = true
      · simp only [hr, Bool.not_true, Bool.false_eq_true, if_false]
        have hb1 := pb.done hr
        by_cases hs : (w.info l).hasSetUp = true
        · simp only [hs, if_true]
          by_cases hrz : w.setUpRaises l (countSetUp l (setupBases (setupLayerF w f) (w.graph.bases l) s).1.trace) = true
          · simp only [hrz, Bool.not_true, if_true]
            exact ⟨inv_setUp_fail pb.inv hl1 hb1, pb.mono, fun x hx => by
              rcases hwithin x hx with h0 | h0
              · exact Or.inl h0
              · exact Or.inr ⟨l, by simp, h0⟩, fun hd => by simp at hd⟩
          · simp only [hrz, Bool.not_false, Bool.false_eq_true, if_false]
            refine ⟨inv_setUp_ok pb.inv hl1 hb1, fun x hx => List.mem_append_left _ (pb.mono x hx), ?_, ?_⟩
            · intro x hx
              rcases List.mem_append.1 hx with hx | hx
              · rcases hwithin x hx with h0 | h0
                · exact Or.inl h0
                · exact Or.inr ⟨l, by simp, h0⟩
              · simp only [List.mem_singleton] at hx; subst hx
                exact Or.inr ⟨x, by simp, self_mem_gather _ _⟩
            · intro _ t ht
              simp only [List.mem_singleton] at ht; subst ht
              exact List.mem_append_right _ (by simp)
        · simp only [hs, Bool.false_eq_true, if_false]
          have hs' : (w.info l).hasSetUp = false := by simpa using hs
          refine ⟨inv_mark pb.inv hl1 hb1 hs', fun x hx => List.mem_append_left _ (pb.mono x hx), ?_, ?_⟩
          · intro x hx
            rcases List.mem_append.1 hx with hx | hx
            · rcases hwithin x hx with h0 | h0
              · exact Or.inl h0
              · exact Or.inr ⟨l, by simp, h0⟩
            · simp only [List.mem_singleton] at hx; subst hx
              exact Or.inr ⟨x, by simp, self_mem_gather _ _⟩
          · intro _ t ht
            simp only [List.mem_singleton] at ht; subst ht
            exact List.mem_append_right _ (by simp)
      · simp only [hr, Bool.not_false, if_true]
        exact ⟨pb.inv, pb.mono, fun x hx => by
          rcases hwithin x hx with h0 | h0
          · exact Or.inl h0
          · exact Or.inr ⟨l, by simp, h0⟩, fun hd => absurd hd hr⟩

theorem post_setupLayer {w : World} (hwf : WF w.graph) (l : Nat) (s : PS) (h : Inv w s) :
    SetupPost w [l] s (setupLayer w l s) :=
  post_setupLayerF hwf (l + 1) l s (by omega) h

end Ztr.Runner
