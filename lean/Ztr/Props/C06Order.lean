import Ztr.Props.C06
/-!
# C06 — the failure / error lists of a `-j N` run are the layers' lists in layer order

Since 4ea7031 a worker thread appends the outcomes its layer subprocess reported to lists that belong to the
layer's *result object* (`result.outcomes`), before it sets `result.done`; the parent's display loop
(`while current_result and current_result.done`) appends them to the lists of the run right after it has
written the layer's block.  In `Model/Sched` that is exactly the life of a line of `result.stdout`
(label `line i x`: appended to child `i`'s buffer while it runs and is not done; moved out by `printDone`).
An outcome is therefore a line of a second kind (`isOutcome`), and the lists of the run are the outcome
lines of the blocks printed so far.

* `printed_eq`: at every moment, for every schedule, the blocks are those of children `0 … cur-1`;
* `C06_outcomes_in_layer_order`: the run's lists are the outcome lines of children `0 … cur-1`, child by
  child in layer order — whatever order the children finish in and however their reports interleave;
* `C06_outcomes_complete`: once every block is out (`cur = k`) they are the lists of all children;
* `C06_all_displayed`: when every child is done, one pass of the display loop brings `cur` to `k`;
* `C06_D46_witness`: the code before 4ea7031 appended in completion order (`mergedOld`): for the schedule
  "child 1 reports before child 0" it lists child 1's failure first.
-/
namespace Ztr.Sched

/-- the lists of the run: the outcome lines of the blocks displayed so far -/
def merged (isOutcome : Line → Bool) (s : SS) : List Line := (s.printed.flatMap (·.2)).filter isOutcome

theorem map_fst_eq_range {l : List (Nat × List Line)} {buf : Nat → List Line} :
    ∀ {start : Nat}, l.map (·.1) = List.range' start l.length → (∀ p ∈ l, p.2 = buf p.1) →
      l = (List.range' start l.length).map (fun i => (i, buf i)) := by
  induction l with
  | nil => intro _ _ _; rfl
  | cons p rest ih =>
    intro start hidx hc
    simp only [List.map_cons, List.length_cons, List.range'_succ, List.cons.injEq] at hidx ⊢
    obtain ⟨h1, h2⟩ := hidx
    refine ⟨?_, ?_⟩
    · have := hc p (by simp)
      cases p with
      | mk a b => simp only at h1 this; subst h1; subst this; rfl
    · exact ih h2 (fun q hq => hc q (by simp [hq]))

/-- the blocks printed so far are exactly those of children `0 … cur-1`, each the child's whole buffer -/
theorem printed_eq (n k : Nat) (ls : List Label) :
    let s := exec ls (init n k)
    s.printed = (List.range s.cur).map (fun i => (i, s.buf i)) := by
  intro s
  obtain ⟨hidx, hcont, _⟩ := C06_blocks_in_order n k ls
  have hlen : s.printed.length = s.cur := by
    have := congrArg List.length hidx
    simpa using this
  have h1 : s.printed.map (·.1) = List.range' 0 s.printed.length := by
    rw [hlen, ← List.range_eq_range']; exact hidx
  have := map_fst_eq_range (buf := s.buf) (start := 0) h1 (fun p hp => (hcont p hp).1)
  rw [hlen, ← List.range_eq_range'] at this
  exact this

/-- **C06_outcomes_in_layer_order** -/
theorem C06_outcomes_in_layer_order (n k : Nat) (ls : List Label) (isOutcome : Line → Bool) :
    let s := exec ls (init n k)
    merged isOutcome s = ((List.range s.cur).flatMap s.buf).filter isOutcome := by
  intro s
  unfold merged
  rw [printed_eq n k ls]
  simp only [List.flatMap_map]
  rfl

/-- **C06_outcomes_complete** — when every block is out, the lists of the run are those of all the children in
layer order. -/
theorem C06_outcomes_complete (n k : Nat) (ls : List Label) (isOutcome : Line → Bool)
    (h : (exec ls (init n k)).cur = k) :
    merged isOutcome (exec ls (init n k)) = ((List.range k).flatMap (exec ls (init n k)).buf).filter isOutcome := by
  have := C06_outcomes_in_layer_order n k ls isOutcome
  simp only at this
  rw [this, h]

theorem printDone_cur_le : ∀ (f : Nat) (s : SS), s.cur ≤ s.k → (printDone f s).cur ≤ s.k
  | 0, s, h => by simpa [printDone] using h
  | f + 1, s, h => by
    unfold printDone
    split
    · rename_i hc
      have := printDone_cur_le f { s with printed := s.printed ++ [(s.cur, s.buf s.cur)], cur := s.cur + 1 }
        (by show s.cur + 1 ≤ s.k; exact hc.1)
      simpa using this
    · exact h

/-- **C06_all_displayed** — once every child is done, one pass of the display loop has written every block (and, by
`C06_outcomes_complete`, merged every layer's outcomes): nothing a finished child reported stays behind. -/
theorem C06_all_displayed (s : SS) (hle : s.cur ≤ s.k) (hall : ∀ i, i < s.k → s.doneF i = true) :
    (printDone (s.k - s.cur) s).cur = s.k := by
  have fr := printDone_frame (s.k - s.cur) s
  have hb := printDone_cur_le (s.k - s.cur) s hle
  rcases C06_prints_all_done (s.k - s.cur) s (Nat.le_refl _) hle with h | h
  · rw [h, fr.2.2.2.1]
  · rw [fr.2.2.2.2.2] at h
    by_cases hlt : (printDone (s.k - s.cur) s).cur < s.k
    · rw [hall _ hlt] at h; cases h
    · omega

/-- the code before 4ea7031: a worker thread appended to the lists of the run itself, when its child reported -/
def mergedOld (isOutcome : Line → Bool) (ls : List Label) : List Line :=
  ls.filterMap (fun l => match l with
    | .line _ x => if isOutcome x then some x else none
    | _ => none)

/-- two children, `-j 2`; child 1 reports its failure (line 21) before child 0 reports its own (line 20) -/
def d46Schedule : List Label :=
  [.iter, .line 1 21, .done 1, .dead 1, .iter, .line 0 20, .done 0, .dead 0, .iter]

theorem C06_D46_witness :
    mergedOld (fun _ => true) d46Schedule = [21, 20] ∧
    merged (fun _ => true) (exec d46Schedule (init 2 2)) = [20, 21] ∧ (exec d46Schedule (init 2 2)).cur = 2 := by
  decide

end Ztr.Sched
