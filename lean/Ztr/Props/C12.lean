import Ztr.Props.C16
/-! # C12 — reported counts equal what actually happened (TestResult level + summary) -/
namespace Ztr.Result
open Ztr.Proto

/-- what one unittest call contributes to (failures, errors, skipped) -/
def tallyOp : Op → Nat × Nat × Nat
  | .addFailure | .addUnexpectedSuccess | .addSubTest (some .fail) => (1, 0, 0)
  | .addError | .addSubTest (some _) => (0, 1, 0)
  | .addSkip | .addSubSkip => (0, 0, 1)
  | _ => (0, 0, 0)

/-- the counters the runner prints: failures incl. unexpected successes, errors, skipped -/
def tallyState (s : RS) : Nat × Nat × Nat :=
  (s.failures.length + s.unexpected.length, s.errors.length, s.skipped.length)

/-- what the observable events say -/
def tallyEvs : List REv → Nat × Nat × Nat
  | [] => (0, 0, 0)
  | .report _ b _ :: r =>
    let x := tallyEvs r
    (match b with
     | .failure | .subFailure | .unexpectedSuccess => (x.1 + 1, x.2.1, x.2.2)
     | .error | .subError => (x.1, x.2.1 + 1, x.2.2))
  | .skipped _ :: r => let x := tallyEvs r; (x.1, x.2.1, x.2.2 + 1)
  | _ :: r => tallyEvs r

def add3 (a b : Nat × Nat × Nat) : Nat × Nat × Nat := (a.1 + b.1, a.2.1 + b.2.1, a.2.2 + b.2.2)

theorem tallyEvs_append (a b : List REv) : tallyEvs (a ++ b) = add3 (tallyEvs a) (tallyEvs b) := by
  induction a with
  | nil => simp [tallyEvs, add3]
  | cons e r ih =>
    cases e with
    | report t k toks => cases k <;> simp [tallyEvs, ih, add3] <;> omega
    | skipped t => simp [tallyEvs, ih, add3]; omega
    | _ => simp [tallyEvs, ih]

theorem tallyEvs_noise (l : List REv)
    (h : ∀ e ∈ l, (∀ t b k, e ≠ .report t b k) ∧ (∀ t, e ≠ .skipped t)) : tallyEvs l = (0, 0, 0) := by
  induction l with
  | nil => rfl
  | cons e r ih =>
    have he := h e (by simp)
    have ih' := ih (fun x hx => h x (by simp [hx]))
    cases e with
    | report t k toks => exact absurd rfl (he.1 t k toks)
    | skipped t => exact absurd rfl (he.2 t)
    | _ => simpa [tallyEvs] using ih'

/-- **C12_step** — inside a test every unittest call advances the runner's counters and the
observable events by exactly the same, call-determined amount: nothing is counted that did not
happen and nothing that happened is dropped. -/
theorem C12_step (c : Cfg) (t : TestDef) (s : RS) (op : Op) (hr : Running s) (hop : Mid op ∨ Final op) :
    tallyState (step c t s op) = add3 (tallyState s) (tallyOp op) ∧
    tallyEvs (step c t s op).evs = add3 (tallyEvs s.evs) (tallyOp op) := by
  unfold step
  simp only [hr.aborted, Bool.false_eq_true, if_false]
  cases op with
  | startTest => simp [Mid, Final] at hop
  | stopTest => simp [Mid, Final] at hop
  | raiseInterrupt => simp [Mid, Final] at hop
  | code ph ws =>
    refine ⟨by simp [tallyState, writeToks, RS.emit, tallyOp, add3], ?_⟩
    cases hc : s.captured
    · simp only [writeToks, RS.emit, hc, Bool.false_eq_true, if_false, tallyEvs_append]
      rw [tallyEvs_noise (ws.map _) (by
        intro e he; obtain ⟨w, _, rfl⟩ := List.mem_map.1 he
        exact ⟨(by intro _ _ _ h; cases h), (by intro _ h; cases h)⟩)]
      simp [tallyEvs, add3, tallyOp]
    · simp [writeToks, RS.emit, hc, tallyEvs_append, tallyEvs, add3, tallyOp]
  | addSuccess =>
    simp [tallyState, restoreStreams, hr.hasStartTime, RS.emit, tallyOp, add3, tallyEvs_append, tallyEvs]
  | addExpectedFailure =>
    simp [tallyState, restoreStreams, hr.hasStartTime, RS.emit, tallyOp, add3, tallyEvs_append, tallyEvs]
  | addSkip =>
    simp [tallyState, hr.hasTestState, noteSkip, RS.emit, tallyOp, add3, tallyEvs_append, tallyEvs]
  | addSubSkip =>
    simp [tallyState, hr.hasTestState, noteSkip, RS.emit, tallyOp, add3, tallyEvs_append, tallyEvs]
  | addSubTest e =>
    cases e with
    | none => simp [tallyOp, add3]
    | some e =>
      cases e <;>
        simp [tallyState, hr.hasStartTime, bad, stopIf, record, restoreStreams, RS.emit, tallyOp, add3,
          tallyEvs_append, tallyEvs] <;> omega
  | addError =>
    simp [tallyState, hr.hasStartTime, bad, stopIf, record, restoreStreams, RS.emit, tallyOp, add3,
      tallyEvs_append, tallyEvs]
  | addFailure =>
    simp [tallyState, hr.hasStartTime, bad, stopIf, record, restoreStreams, RS.emit, tallyOp, add3,
      tallyEvs_append, tallyEvs]
    omega
  | addUnexpectedSuccess =>
    simp [tallyState, hr.hasStartTime, bad, stopIf, record, restoreStreams, RS.emit, tallyOp, add3,
      tallyEvs_append, tallyEvs]
    omega

end Ztr.Result

namespace Ztr.Runner
open Ztr.Result

/-- **C12_summary** — the numbers of a layer's summary event are the `TestResult`'s own counters
(failures incl. unexpected successes; errors plus the import errors, as the code prints it). -/
theorem C12_summary (w : World) (o : Opts) (l : Nat) (tests : List Proto.TestDef) (n : Nat) (s : PS)
    (hok : (runTests (resultCfg w o l) tests {}).aborted = false)
    (hint : (runTests (resultCfg w o l) tests {}).interrupted = false) :
    let r := runTests (resultCfg w o l) tests {}
    Ev.summary r.testsRun (r.failures.length + r.unexpected.length) (r.errors.length + w.importErrors)
      r.skipped.length ∈ (runIterations w o l tests (n + 1) s).trace := by
  intro r
  have hmono : ∀ (k : Nat) (s' : PS) (e : Ev), e ∈ s'.trace → e ∈ (runIterations w o l tests k s').trace := by
    intro k
    induction k with
    | zero => intro s' e he; exact he
    | succ k ih =>
      intro s' e he
      rw [runIterations]
      simp only []
      split
      · simp [he]
      · split
        · simp [he]
        · split
          · simp [PS.emit, he]
          · apply ih; simp [PS.emit, he]
  rw [runIterations]
  simp only [hok, hint, Bool.false_eq_true, if_false]
  split
  · simp [PS.emit, r]
  · apply hmono; simp [PS.emit, r]

end Ztr.Runner
