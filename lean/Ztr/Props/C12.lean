import Ztr.Props.C16
/-! # C12 — reported counts equal what actually happened (TestResult level + summary) -/
namespace Ztr.Result
open Ztr.Proto

/-- what one unittest call contributes to (failures, errors, skipped) -/
def tallyOp : Op → Nat × Nat × Nat
  | .addFailure | .addUnexpectedSuccess | .addSubTest (some .fail) => (1, 0, 0)
  | .addError | .addSubTest (some _) => (0, 1, 0)
  | .addSkip | .addSubSkip => (0, 0, 1)
  | _ => (0, 0, 0)

/-- the counters the runner prints: failures incl. unexpected successes, errors, skipped -/
def tallyState (s : RS) : Nat × Nat × Nat :=
  (s.failures.length + s.unexpected.length, s.errors.length, s.skipped.length)

/-- what the observable events say -/
def tallyEvs : List REv → Nat × Nat × Nat
  | [] => (0, 0, 0)
  | .report _ b _ :: r =>
    let x := tallyEvs r
    (match b with
     | .failure | .subFailure | .unexpectedSuccess => (x.1 + 1, x.2.1, x.2.2)
     | .error | .subError => (x.1, x.2.1 + 1, x.2.2))
  | .skipped _ :: r => let x := tallyEvs r; (x.1, x.2.1, x.2.2 + 1)
  | _ :: r => tallyEvs r

def add3 (a b : Nat × Nat × Nat) : Nat × Nat × Nat := (a.1 + b.1, a.2.1 + b.2.1, a.2.2 + b.2.2)

theorem tallyEvs_append (a b : List REv) : tallyEvs (a ++ b) = add3 (tallyEvs a) (tallyEvs b) := by
  induction a with
  | nil => simp [tallyEvs, add3]
  | cons e r ih =>
    cases e with
    | report t k toks => cases k <;> simp [tallyEvs, ih, add3] <;> omega
    | skipped t => simp [tallyEvs, ih, add3]; omega
    | _ => simp [tallyEvs, ih]

theorem tallyEvs_noise (l : List REv)
    (h : ∀ e ∈ l, (∀ t b k, e ≠ .report t b k) ∧ (∀ t, e ≠ .skipped t)) : tallyEvs l = (0, 0, 0) := by
  induction l with
  | nil => rfl
  | cons e r ih =>
    have he := h e (by simp)
    have ih' := ih (fun x hx => h x (by simp [hx]))
    cases e with
    | report t k toks => exact absurd rfl (he.1 t k toks)
    | skipped t => exact absurd rfl (he.2 t)
    | _ => simpa [tallyEvs] using ih'

/-- **C12_step** — inside a test every unittest call advances the runner's counters and the
observable events by exactly the same, call-determined amount: nothing is counted that did not
happen and nothing that happened is dropped. -/
theorem C12_step (c : Cfg) (t : TestDef) (s : RS) (op : Op) (hr : Running s) (hop : Mid op ∨ Final op) :
    tallyState (step c t s op) = add3 (tallyState s) (tallyOp op) ∧
    tallyEvs (step c t s op).evs = add3 (tallyEvs s.evs) (tallyOp op) := by
  unfold step
  simp only [hr.aborted, Bool.false_eq_true, if_false]
  cases op with
  | startTest => simp [Mid, Final] at hop
  | stopTest => simp [Mid, Final] at hop
  | raiseInterrupt => simp [Mid, Final] at hop
  | code ph ws =>
    refine ⟨by simp [tallyState, writeToks, RS.emit, tallyOp, add3], ?_⟩
    cases hc : s.captured
    · simp only [writeToks, RS.emit, hc, Bool.false_eq_true, if_false, tallyEvs_append]
      rw [tallyEvs_noise (ws.map _) (by
        intro e he; obtain ⟨w, _, rfl⟩ := List.mem_map.1 he
        exact ⟨(by intro _ _ _ h; cases h), (by intro _ h; cases h)⟩)]
      simp [tallyEvs, add3, tallyOp]
    · simp [writeToks, RS.emit, hc, tallyEvs_append, tallyEvs, add3, tallyOp]
  | addSuccess =>
    simp [tallyState, restoreStreams, hr.hasStartTime, RS.emit, tallyOp, add3, tallyEvs_append, tallyEvs]
  | addExpectedFailure =>
    simp [tallyState, restoreStreams, hr.hasStartTime, RS.emit, tallyOp, add3, tallyEvs_append, tallyEvs]
  | addSkip =>
    simp [tallyState, hr.hasTestState, noteSkip, RS.emit, tallyOp, add3, tallyEvs_append, tallyEvs]
  | addSubSkip =>
    simp [tallyState, hr.hasTestState, noteSkip, RS.emit, tallyOp, add3, tallyEvs_append, tallyEvs]
  | addSubTest e =>
    cases e with
    | none => simp [tallyOp, add3]
    | some e =>
      cases e <;>
        simp [tallyState, hr.hasStartTime, bad, stopIf, record, restoreStreams, RS.emit, tallyOp, add3,
          tallyEvs_append, tallyEvs] <;> omega
  | addError =>
    simp [tallyState, hr.hasStartTime, bad, stopIf, record, restoreStreams, RS.emit, tallyOp, add3,
      tallyEvs_append, tallyEvs]
  | addFailure =>
    simp [tallyState, hr.hasStartTime, bad, stopIf, record, restoreStreams, RS.emit, tallyOp, add3,
      tallyEvs_append, tallyEvs]
    omega
  | addUnexpectedSuccess =>
    simp [tallyState, hr.hasStartTime, bad, stopIf, record, restoreStreams, RS.emit, tallyOp, add3,
      tallyEvs_append, tallyEvs]
    omega

/-! ### lift to whole tests and test sequences -/

/-- the runner's counters agree with what the observable events say -/
def Agree (s : RS) : Prop := tallyState s = tallyEvs s.evs

theorem tallyEvs_hooks (evs : List REv) (hooks : List REv) (h : ∀ e ∈ hooks, isHook e = true) :
    tallyEvs (evs ++ hooks) = tallyEvs evs := by
  rw [tallyEvs_append, tallyEvs_noise hooks (by
    intro e he
    have := h e he
    constructor
    · intro t b k hk; subst hk; simp [isHook] at this
    · intro t hk; subst hk; simp [isHook] at this)]
  simp [add3]

theorem agree_emit (s : RS) (e : REv) (h : Agree s)
    (hn : (∀ t b k, e ≠ .report t b k) ∧ (∀ t, e ≠ .skipped t)) : Agree (s.emit e) := by
  unfold Agree at *
  show tallyState s = tallyEvs (s.evs ++ [e])
  rw [tallyEvs_append, tallyEvs_noise [e] (by intro x hx; simp at hx; subst hx; exact hn), h]
  simp [add3]

theorem agree_startTest (c : Cfg) (t : TestDef) (s : RS) (h : Agree s) : Agree (startTest c t s) := by
  unfold Agree at *
  have e1 : tallyState (startTest c t s) = tallyState s := by
    simp [startTest, setUpStreams, callHooksUp, tallyState]
  have e2 : (startTest c t s).evs = s.evs ++ c.hooksUp.map (fun l => REv.hookSetUp l (!s.captured)) := by
    simp [startTest, setUpStreams, callHooksUp]
  rw [e1, e2, tallyEvs_hooks _ _ (by intro e he; obtain ⟨l, _, rfl⟩ := List.mem_map.1 he; rfl)]
  exact h

theorem agree_skipFallback (c : Cfg) (t : TestDef) (s : RS) (h : Agree s) : Agree (skipFallback c t s) := by
  unfold Agree at *
  have e1 : tallyState (skipFallback c t s) = tallyState s := by
    simp [skipFallback, callHooksUp, tallyState]
  have e2 : (skipFallback c t s).evs = s.evs ++ c.hooksUp.map (fun l => REv.hookSetUp l (!s.captured)) := by
    simp [skipFallback, callHooksUp]
  rw [e1, e2, tallyEvs_hooks _ _ (by intro e he; obtain ⟨l, _, rfl⟩ := List.mem_map.1 he; rfl)]
  exact h

theorem agree_noteSkip (t : Nat) (s : RS) (h : Agree s) : Agree (noteSkip t s) := by
  unfold Agree at *
  have e1 : tallyState (noteSkip t s) = add3 (tallyState s) (0, 0, 1) := by
    simp [noteSkip, RS.emit, tallyState, add3]
  have e2 : (noteSkip t s).evs = s.evs ++ [.skipped t] := rfl
  rw [e1, e2, tallyEvs_append, h]
  simp [tallyEvs, add3]

theorem agree_stopTest (c : Cfg) (s : RS) (h : Agree s) : Agree (stopTest c s) := by
  unfold Agree at *
  have e1 : tallyState (stopTest c s) = tallyState s := by
    simp [stopTest, callHooksDown, restoreStreams, tallyState]
  have e2 : (stopTest c s).evs = s.evs ++ c.hooksDown.map (fun l => REv.hookTearDown l (!(restoreStreams c s).1.captured)) := by
    simp [stopTest, callHooksDown, restoreStreams]
  rw [e1, e2, tallyEvs_hooks _ _ (by intro e he; obtain ⟨l, _, rfl⟩ := List.mem_map.1 he; rfl)]
  exact h

theorem agree_foldl (c : Cfg) (t : TestDef) : ∀ (ops : List Op) (s : RS), Running s →
    (∀ op ∈ ops, Mid op ∨ Final op) → Agree s → Agree (ops.foldl (step c t) s)
  | [], _, _, _, h => h
  | op :: ops, s, hr, hops, h => by
    simp only [List.foldl_cons]
    have hop := hops op (by simp)
    obtain ⟨h1, h2⟩ := C12_step c t s op hr hop
    have ha : Agree (step c t s op) := by
      unfold Agree at *
      rw [h1, h2, h]
    exact agree_foldl c t ops _ (hr.of_ext (ext_step_mid c t s op hr hop)) (fun o ho => hops o (by simp [ho])) ha

/-- one whole test keeps the counters and the events in agreement -/
theorem agree_runTest (c : Cfg) (t : TestDef) (s : RS) (hb : Between s) (h : Agree s) : Agree (runTest c s t) := by
  unfold runTest
  have hb0 : Between (s.emit (.tstart t.id)) := ⟨hb.aborted, hb.hasTestState, hb.captured⟩
  have h0 : Agree (s.emit (.tstart t.id)) :=
    agree_emit s _ h ⟨(by intro _ _ _ hh; cases hh), (by intro _ hh; cases hh)⟩
  apply agree_emit _ _ _ ⟨(by intro _ _ _ hh; cases hh), (by intro _ hh; cases hh)⟩
  cases hd : t.decoSkip
  · obtain ⟨ops, tail, hrun, hops, htail⟩ := run_shape' t hd
    rw [hrun, List.foldl_cons, List.foldl_append, List.foldl_cons]
    have e1 : step c t (s.emit (.tstart t.id)) .startTest = startTest c t (s.emit (.tstart t.id)) := by
      simp [step, hb0.aborted]
    rw [e1]
    obtain ⟨hr1, _, _, _⟩ := startTest_spec c t _ hb0
    have h1 := agree_startTest c t _ h0
    have h2 := agree_foldl c t ops _ hr1 hops h1
    have hr2 := hr1.of_ext (ext_foldl_mid c t ops _ hr1 hops)
    have e2 : step c t (ops.foldl (step c t) (startTest c t (s.emit (.tstart t.id)))) .stopTest
        = stopTest c (ops.foldl (step c t) (startTest c t (s.emit (.tstart t.id)))) := by
      simp [step, hr2.aborted]
    rw [e2]
    have h3 := agree_stopTest c _ h2
    rcases htail with rfl | rfl
    · exact h3
    · simp only [List.foldl_cons, List.foldl_nil]
      have : Agree (step c t (stopTest c (ops.foldl (step c t) (startTest c t (s.emit (.tstart t.id))))) .raiseInterrupt) := by
        unfold step
        split
        · exact h3
        · exact h3
      exact this
  · rw [run_decoSkip t hd]
    simp only [List.foldl_cons, List.foldl_nil]
    have e1 : step c t (s.emit (.tstart t.id)) .addSkip = noteSkip t.id (skipFallback c t (s.emit (.tstart t.id))) := by
      simp [step, hb0.aborted, hb0.hasTestState]
    rw [e1]
    obtain ⟨hr1, _, _, _⟩ := skipFallback_spec c t _ hb0
    have hr2 := hr1.of_ext (ext_noteSkip t.id (skipFallback c t (s.emit (.tstart t.id))))
    have e2 : step c t (noteSkip t.id (skipFallback c t (s.emit (.tstart t.id)))) .stopTest
        = stopTest c (noteSkip t.id (skipFallback c t (s.emit (.tstart t.id)))) := by
      simp [step, hr2.aborted]
    rw [e2]
    exact agree_stopTest c _ (agree_noteSkip _ _ (agree_skipFallback c t _ h0))

theorem agree_runTests (c : Cfg) : ∀ (ts : List TestDef) (s : RS), Between s → Agree s → Agree (runTests c ts s)
  | [], _, _, h => h
  | t :: ts, s, hb, h => by
    unfold runTests
    split
    · exact h
    · obtain ⟨_, _, _, hb'⟩ := runTest_bracket c t s hb
      exact agree_runTests c ts _ hb' (agree_runTest c t s hb h)

/-- **C12_counts** — for every sequence of tests with every outcome script (several events from one
test, failing sub-tests, unexpected successes, skips of every kind), with and without `--buffer` and
`-x`: when the test loop of a layer ends, the `TestResult`'s failure, error and skip counters equal
the numbers of failure reports, error reports and skips that actually happened. -/
theorem C12_counts (c : Cfg) (ts : List TestDef) :
    tallyState (runTests c ts {}) = tallyEvs (runTests c ts {}).evs :=
  agree_runTests c ts {} between_init rfl

/-! ### tests run -/

/-- the tests the loop actually starts (all of them unless `-x` fired or an interrupt propagates) -/
def startedTests (c : Cfg) : List TestDef → RS → List TestDef
  | [], _ => []
  | t :: ts, s => if s.shouldStop || s.aborted || s.interrupted then [] else t :: startedTests c ts (runTest c s t)

theorem step_testsRun_mid (c : Cfg) (t : TestDef) (s : RS) (op : Op) (hr : Running s) (hop : Mid op ∨ Final op) :
    (step c t s op).testsRun = s.testsRun := by
  unfold step
  simp only [hr.aborted, Bool.false_eq_true, if_false]
  cases op with
  | startTest => simp [Mid, Final] at hop
  | stopTest => simp [Mid, Final] at hop
  | raiseInterrupt => simp [Mid, Final] at hop
  | addSubTest e =>
    cases e <;> simp [bad, stopIf, record, restoreStreams, RS.emit, hr.hasStartTime]
  | _ =>
    simp [writeToks, bad, stopIf, record, restoreStreams, noteSkip, RS.emit, hr.hasStartTime, hr.hasTestState]

theorem foldl_testsRun (c : Cfg) (t : TestDef) : ∀ (ops : List Op) (s : RS), Running s →
    (∀ op ∈ ops, Mid op ∨ Final op) → (ops.foldl (step c t) s).testsRun = s.testsRun
  | [], _, _, _ => rfl
  | op :: ops, s, hr, hops => by
    simp only [List.foldl_cons]
    have hop := hops op (by simp)
    rw [foldl_testsRun c t ops _ (hr.of_ext (ext_step_mid c t s op hr hop)) (fun o ho => hops o (by simp [ho])),
      step_testsRun_mid c t s op hr hop]

/-- one test adds exactly its `countTestCases()` to `testsRun`, whatever its outcome -/
theorem runTest_testsRun (c : Cfg) (t : TestDef) (s : RS) (hb : Between s) :
    (runTest c s t).testsRun = s.testsRun + t.count := by
  unfold runTest
  have hb0 : Between (s.emit (.tstart t.id)) := ⟨hb.aborted, hb.hasTestState, hb.captured⟩
  show (List.foldl (step c t) (s.emit (.tstart t.id)) (run t)).testsRun = s.testsRun + t.count
  cases hd : t.decoSkip
  · obtain ⟨ops, tail, hrun, hops, htail⟩ := run_shape' t hd
    rw [hrun, List.foldl_cons, List.foldl_append, List.foldl_cons]
    have e1 : step c t (s.emit (.tstart t.id)) .startTest = startTest c t (s.emit (.tstart t.id)) := by
      simp [step, hb0.aborted]
    rw [e1]
    obtain ⟨hr1, _, _, _⟩ := startTest_spec c t _ hb0
    have hr2 := hr1.of_ext (ext_foldl_mid c t ops _ hr1 hops)
    have e2 : step c t (ops.foldl (step c t) (startTest c t (s.emit (.tstart t.id)))) .stopTest
        = stopTest c (ops.foldl (step c t) (startTest c t (s.emit (.tstart t.id)))) := by
      simp [step, hr2.aborted]
    rw [e2]
    have k1 : (startTest c t (s.emit (.tstart t.id))).testsRun = s.testsRun + t.count := by
      simp [startTest, setUpStreams, callHooksUp, RS.emit]
    have k2 := foldl_testsRun c t ops _ hr1 hops
    have k3 : ∀ x : RS, (stopTest c x).testsRun = x.testsRun := by
      intro x; simp [stopTest, callHooksDown, restoreStreams]
    rcases htail with rfl | rfl
    · simp only [List.foldl_nil]; rw [k3, k2, k1]
    · simp only [List.foldl_cons, List.foldl_nil]
      have : ∀ x : RS, (step c t x .raiseInterrupt).testsRun = x.testsRun := by
        intro x; unfold step; split <;> rfl
      rw [this, k3, k2, k1]
  · rw [run_decoSkip t hd]
    simp only [List.foldl_cons, List.foldl_nil]
    have e1 : step c t (s.emit (.tstart t.id)) .addSkip = noteSkip t.id (skipFallback c t (s.emit (.tstart t.id))) := by
      simp [step, hb0.aborted, hb0.hasTestState]
    rw [e1]
    obtain ⟨hr1, _, _, _⟩ := skipFallback_spec c t _ hb0
    have hr2 := hr1.of_ext (ext_noteSkip t.id (skipFallback c t (s.emit (.tstart t.id))))
    have e2 : step c t (noteSkip t.id (skipFallback c t (s.emit (.tstart t.id)))) .stopTest
        = stopTest c (noteSkip t.id (skipFallback c t (s.emit (.tstart t.id)))) := by
      simp [step, hr2.aborted]
    rw [e2]
    simp [stopTest, callHooksDown, restoreStreams, noteSkip, skipFallback, callHooksUp, RS.emit]

/-- **C12_tests_run** — `testsRun` is the sum of `countTestCases()` over exactly the tests that
were started (decorator-skipped ones included, as unittest reports them), no more, no less. -/
theorem C12_tests_run (c : Cfg) : ∀ (ts : List TestDef) (s : RS), Between s →
    (runTests c ts s).testsRun = s.testsRun + ((startedTests c ts s).map (·.count)).sum
  | [], s, _ => by simp [runTests, startedTests]
  | t :: ts, s, hb => by
    unfold runTests startedTests
    split
    · simp
    · obtain ⟨_, _, _, hb'⟩ := runTest_bracket c t s hb
      rw [C12_tests_run c ts _ hb', runTest_testsRun c t s hb]
      simp [Nat.add_assoc]

end Ztr.Result

namespace Ztr.Runner
open Ztr.Result

/-- **C12_summary** — the numbers of a layer's summary event are the `TestResult`'s own counters
(failures incl. unexpected successes; errors plus the import errors, as the code prints it). -/
theorem C12_summary (w : World) (o : Opts) (l : Nat) (tests : List Proto.TestDef) (n : Nat) (s : PS)
    (hok : (runTests (resultCfg w o l) tests {}).aborted = false)
    (hint : (runTests (resultCfg w o l) tests {}).interrupted = false) :
    let r := runTests (resultCfg w o l) tests {}
    Ev.summary r.testsRun (r.failures.length + r.unexpected.length) (r.errors.length + w.importErrors)
      r.skipped.length ∈ (runIterations w o l tests (n + 1) s).trace := by
  intro r
  have hmono : ∀ (k : Nat) (s' : PS) (e : Ev), e ∈ s'.trace → e ∈ (runIterations w o l tests k s').trace := by
    intro k
    induction k with
    | zero => intro s' e he; exact he
    | succ k ih =>
      intro s' e he
      rw [runIterations]
      simp only []
      split
      · simp [he]
      · split
        · simp [he]
        · split
          · simp [PS.emit, he]
          · apply ih; simp [PS.emit, he]
  rw [runIterations]
  simp only [hok, hint, Bool.false_eq_true, if_false]
  split
  · simp [PS.emit, r]
  · apply hmono; simp [PS.emit, r]

/-- **C12_summary_truth** — the failure / error / skip numbers printed in a layer's summary equal the
numbers of failure reports, error reports (plus the import errors, as the code prints them) and skips
among the events of that iteration: for every world, outcome assignment and option set. -/
theorem C12_summary_truth (w : World) (o : Opts) (l : Nat) (tests : List Proto.TestDef) (n : Nat) (s : PS)
    (hint : (runTests (resultCfg w o l) tests {}).interrupted = false) :
    let r := runTests (resultCfg w o l) tests {}
    Ev.summary r.testsRun (tallyEvs r.evs).1 ((tallyEvs r.evs).2.1 + w.importErrors) (tallyEvs r.evs).2.2
      ∈ (runIterations w o l tests (n + 1) s).trace ∧
    r.testsRun = ((startedTests (resultCfg w o l) tests {}).map (·.count)).sum := by
  intro r
  have hc := C12_counts (resultCfg w o l) tests
  have hok : r.aborted = false :=
    (runTests_between (resultCfg w o l) tests {} between_init (by intro e he; simp at he)).1.aborted
  have hs := C12_summary w o l tests n s hok hint
  have e1 : (tallyEvs r.evs).1 = r.failures.length + r.unexpected.length := by
    show (tallyEvs (runTests (resultCfg w o l) tests {}).evs).1 = _
    rw [← hc]; rfl
  have e2 : (tallyEvs r.evs).2.1 = r.errors.length := by
    show (tallyEvs (runTests (resultCfg w o l) tests {}).evs).2.1 = _
    rw [← hc]; rfl
  have e3 : (tallyEvs r.evs).2.2 = r.skipped.length := by
    show (tallyEvs (runTests (resultCfg w o l) tests {}).evs).2.2 = _
    rw [← hc]; rfl
  refine ⟨by rw [e1, e2, e3]; exact hs, ?_⟩
  have := C12_tests_run (resultCfg w o l) tests {} between_init
  simpa using this

end Ztr.Runner
