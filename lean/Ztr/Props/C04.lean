import Ztr.Props.C01
import Ztr.Props.C05
import Ztr.Props.C12
/-! # C04 — exceptions raised by tests and layers are contained, never abort the run

In the model an operation the Python code could not perform (an `AttributeError` on state that a
call sequence left missing, the run dying in the middle) sets `aborted`.  `Proto` generates the call
sequences for *every* test script: any exception kind in any phase (setUp, sub-tests, body, tearDown,
clean-ups), any number of result events per test; layer `setUp`/`tearDown` outcomes come from an
arbitrary oracle.

* `C04_no_abort`            no process ever aborts, for every world, option set and oracle
* `C04_summary_each_iteration`  every iteration of a layer whose stack could be set up ends in a
                            summary event (unless a KeyboardInterrupt is propagating)
* `C04_layer_failure_recorded`  a `setUp` that raises is recorded against the layer, the loop goes on
* `C04_all_torn_down`       = `C01_all_torn_down` (the remaining layers are still torn down)
-/
namespace Ztr.Runner
open Ztr.Layers Ztr.Result

/-! ## the `TestResult` never aborts -/

theorem runTests_not_aborted (c : Cfg) (tests : List Proto.TestDef) : (runTests c tests {}).aborted = false :=
  (runTests_between c tests {} between_init (by intro e he; simp at he)).1.aborted

/-! ## nothing else sets `aborted` -/

theorem tdOne_aborted (w : World) (l : Nat) (s : PS) : (tdOne w l s).aborted = s.aborted := by
  unfold tdOne
  by_cases ht : (w.info l).hasTearDown = true
  · simp only [ht, if_true]
    split <;> rfl
  · simp [ht]

theorem tearDownList_aborted (w : World) (opt : Bool) :
    ∀ (order : List Nat) (s : PS), (tearDownList w opt order s).1.aborted = s.aborted
  | [], s => by simp [tearDownList]
  | l :: ls, s => by
    rw [tearDownList_cons]
    split
    · exact tdOne_aborted w l s
    · rw [tearDownList_aborted w opt ls, tdOne_aborted]

theorem setupLayerF_aborted (w : World) :
    ∀ (f l : Nat) (s : PS), (setupLayerF w f l s).1.aborted = s.aborted := by
  intro f
  induction f with
  | zero => intro l s; simp [setupLayerF]
  | succ f ih =>
    intro l s
    have hb : ∀ (bs : List Nat) (s : PS), (setupBases (setupLayerF w f) bs s).1.aborted = s.aborted := by
      intro bs
      induction bs with
      | nil => intro s; simp [setupBases]
      | cons b bs ihb =>
        intro s
        rw [setupBases]
        split
        · rw [ihb, ih]
        · exact ih b s
    rw [setupLayerF]
    split
    · rfl
    · simp only []
      split
      · exact hb _ s
      · split
        · split
          · exact hb _ s
          · exact hb _ s
        · exact hb _ s

theorem runIterations_aborted (w : World) (o : Opts) (l : Nat) (tests : List Proto.TestDef) :
    ∀ (n : Nat) (s : PS), s.aborted = false → (runIterations w o l tests n s).aborted = false := by
  intro n
  induction n with
  | zero => intro s h; exact h
  | succ n ih =>
    intro s h
    rw [runIterations_succ]
    have hna := runTests_not_aborted (resultCfg w o l) tests
    simp only [hna, Bool.false_eq_true, if_false]
    split
    · exact h
    · split
      · exact h
      · exact ih _ h

attribute [local irreducible] runIterations setupLayer tearDownUnneeded in
theorem runLayer_aborted (w : World) (o : Opts) (l : Nat) (tests : List Proto.TestDef) (s : PS)
    (h : s.aborted = false) : (runLayer w o l tests s).1.aborted = false := by
  rw [runLayer_eq]
  have h0 : (rlHeader o l s).aborted = false := by
    unfold rlHeader; split <;> exact h
  have h1 : (tearDownUnneeded w (gather w.graph l) false (rlHeader o l s)).1.aborted = false := by
    have : (tearDownUnneeded w (gather w.graph l) false (rlHeader o l s)).1.aborted = (rlHeader o l s).aborted := by
      unfold tearDownUnneeded; exact tearDownList_aborted w false _ _
    rw [this]; exact h0
  have h2 : (rlReady w o l s).aborted = false := by
    have : (rlReady w o l s).aborted = (tearDownUnneeded w (gather w.graph l) false (rlHeader o l s)).1.aborted := by
      unfold rlReady setupLayer; exact setupLayerF_aborted w _ _ _
    rw [this]; exact h1
  split
  · exact h1
  · split
    · exact h2
    · exact runIterations_aborted w o l tests _ { rlReady w o l s with ran := 0 } h2

theorem layerLoop_aborted (w : World) (o : Opts) :
    ∀ (layers : List (Nat × List Proto.TestDef)) (s : PS), s.aborted = false → (layerLoop w o layers s).1.aborted = false
  | [], s, h => h
  | (l, tests) :: rest, s, h => by
    rw [layerLoop]
    have h1 := runLayer_aborted w o l tests s h
    split
    · exact h1
    · split
      · split
        · exact h1
        · exact layerLoop_aborted w o rest _ h1
      · split
        · exact h1
        · split
          · exact h1
          · exact layerLoop_aborted w o rest _ h1

theorem spawnAll_aborted (o : Opts) (cb : Nat → Bool) :
    ∀ (rest : List (Nat × List Proto.TestDef)) (n : Nat) (s : PS), (spawnAll o cb rest n s).aborted = s.aborted
  | [], _, s => by simp [spawnAll]
  | (l, _) :: rest, n, s => by
    rw [spawnAll]
    split
    · rfl
    · rw [spawnAll_aborted o cb rest]
      split <;> rfl

/-- **C04_no_abort** — for every world (layer graph, tests with arbitrary outcome scripts), every
oracle of layer `setUp`/`tearDown` outcomes, every option set (`--buffer`, `-x`, `--repeat`, `-j`) and
every process role (parent, resumed child): the process never reaches a state from which the Python
code could not continue — an exception raised by a test or a layer never aborts the run. -/
theorem C04_no_abort (w : World) (o : Opts) (cb : Nat → Bool) : (runProcess w o cb).aborted = false := by
  show (finalState w o cb).aborted = false
  have hstart : (fsStart w o).aborted = false := by unfold fsStart; split <;> rfl
  have hloop : (fsLoop w o).1.aborted = false := by
    unfold fsLoop
    split
    · exact hstart
    · exact layerLoop_aborted w o _ _ hstart
  rw [finalState_eq]
  split
  · exact hloop
  · have : (tearDownUnneeded w [] true (fsSpawned w o cb)).1.aborted = (fsSpawned w o cb).aborted := by
      unfold tearDownUnneeded; exact tearDownList_aborted w true _ _
    rw [this]
    unfold fsSpawned
    split
    · rw [spawnAll_aborted]; exact hloop
    · exact hloop

/-- **C04_summary_each_iteration** — an iteration of the test phase of a layer always ends in its
summary event unless a KeyboardInterrupt is propagating: whatever the tests raised. -/
theorem C04_summary_each_iteration (w : World) (o : Opts) (l : Nat) (tests : List Proto.TestDef) (n : Nat) (s : PS)
    (hint : (runTests (resultCfg w o l) tests {}).interrupted = false) :
    ∃ a b c d, Ev.summary a b c d ∈ (runIterations w o l tests (n + 1) s).trace :=
  ⟨_, _, _, _, C12_summary w o l tests n s (runTests_not_aborted _ _) hint⟩

/-- **C04_layer_failure_recorded** — a layer whose `setUp` (or that of a base) raises is recorded as
an error against the layer, no test of it runs, and `run_layer` returns normally (so the layer loop
continues with the next layer). -/
theorem C04_layer_failure_recorded (w : World) (o : Opts) (l : Nat) (tests : List Proto.TestDef) (s : PS)
    (hcan : (tearDownUnneeded w (gather w.graph l) false (rlHeader o l s)).2 = false)
    (hfail : (setupLayer w l (tearDownUnneeded w (gather w.graph l) false (rlHeader o l s)).1).2 = false) :
    (runLayer w o l tests s).2 = false ∧
    (runLayer w o l tests s).1.errors = (rlReady w o l s).errors ++ [.layerSetUp l] ∧
    (runLayer w o l tests s).1.trace = (rlReady w o l s).trace := by
  rw [runLayer_eq]
  simp [hcan, hfail]

/-- **C04_all_torn_down** — the remaining layers are still torn down (C01). -/
theorem C04_all_torn_down (w : World) (hwf : WF w.graph) (o : Opts) (cb : Nat → Bool)
    (hint : (runProcess w o cb).interrupted = false) : (runProcess w o cb).leftover = [] :=
  C01_all_torn_down w hwf o cb (by rw [C04_no_abort, hint]; rfl)

end Ztr.Runner
