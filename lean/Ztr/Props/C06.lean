import Ztr.Model.Sched
/-! # C06 — `-j N`: output ordered per layer, at most N alive, up to N at once (scheduler part)

The equality of tests/outcomes/verdict with the sequential run is C03/C02 (each child runs the same
pipeline on the same arguments and keeps exactly its layer); here: the parent's scheduling. -/
namespace Ztr.Sched

/-! ### frame facts -/

theorem startSome_frame (f : Nat) (s : SS) :
    (startSome f s).n = s.n ∧ (startSome f s).k = s.k ∧ (startSome f s).printed = s.printed ∧
    (startSome f s).cur = s.cur ∧ (startSome f s).buf = s.buf ∧ (startSome f s).doneF = s.doneF ∧
    (startSome f s).maxRunning = s.maxRunning := by
  induction f generalizing s with
  | zero => exact ⟨rfl, rfl, rfl, rfl, rfl, rfl, rfl⟩
  | succ f ih =>
    unfold startSome
    split
    · exact ⟨rfl, rfl, rfl, rfl, rfl, rfl, rfl⟩
    · split
      · exact ih _
      · exact ⟨rfl, rfl, rfl, rfl, rfl, rfl, rfl⟩

theorem printDone_frame (f : Nat) (s : SS) :
    (printDone f s).running = s.running ∧ (printDone f s).n = s.n ∧ (printDone f s).maxRunning = s.maxRunning ∧
    (printDone f s).k = s.k ∧ (printDone f s).buf = s.buf ∧ (printDone f s).doneF = s.doneF := by
  induction f generalizing s with
  | zero => exact ⟨rfl, rfl, rfl, rfl, rfl, rfl⟩
  | succ f ih =>
    unfold printDone
    split
    · exact ih _
    · exact ⟨rfl, rfl, rfl, rfl, rfl, rfl⟩

theorem startSome_le (f : Nat) (s : SS) (h : s.running.length ≤ s.n) : (startSome f s).running.length ≤ s.n := by
  induction f generalizing s with
  | zero => exact h
  | succ f ih =>
    unfold startSome
    split
    · exact h
    · rename_i i rest _
      split
      · rename_i hlt
        have := ih { s with ready := rest, running := s.running ++ [i] } (by simp; omega)
        simpa using this
      · exact h

theorem step_n_k (s : SS) (l : Label) : (step s l).n = s.n ∧ (step s l).k = s.k := by
  cases l with
  | iter =>
    simp only [step, iterStep]
    have a := printDone_frame ((reap (note (startSome s.ready.length s))).k - (reap (note (startSome s.ready.length s))).cur)
      (reap (note (startSome s.ready.length s)))
    have b := startSome_frame s.ready.length s
    exact ⟨a.2.1.trans b.1, a.2.2.2.1.trans b.2.1⟩
  | line i ln => simp only [step]; split <;> exact ⟨rfl, rfl⟩
  | dots i => simp only [step]; split <;> exact ⟨rfl, rfl⟩
  | done i => simp only [step]; split <;> exact ⟨rfl, rfl⟩
  | dead i => simp only [step]; split <;> exact ⟨rfl, rfl⟩

theorem exec_n_k : ∀ (ls : List Label) (s : SS), (exec ls s).n = s.n ∧ (exec ls s).k = s.k
  | [], _ => ⟨rfl, rfl⟩
  | l :: ls, s => by
    have a := exec_n_k ls (step s l)
    have b := step_n_k s l
    exact ⟨a.1.trans b.1, a.2.trans b.2⟩

/-! ### at most N -/

/-- the bound holds in every reachable state -/
def Bounded (s : SS) : Prop := s.running.length ≤ s.n ∧ s.maxRunning ≤ s.n

theorem bounded_step (s : SS) (l : Label) (h : Bounded s) : Bounded (step s l) := by
  obtain ⟨h1, h2⟩ := h
  cases l with
  | iter =>
    simp only [step, iterStep]
    have hs := startSome_le s.ready.length s h1
    have fr := startSome_frame s.ready.length s
    have pf := printDone_frame ((reap (note (startSome s.ready.length s))).k - (reap (note (startSome s.ready.length s))).cur)
      (reap (note (startSome s.ready.length s)))
    refine ⟨?_, ?_⟩
    · rw [pf.1, pf.2.1]
      show (List.filter _ (startSome s.ready.length s).running).length ≤ (startSome s.ready.length s).n
      rw [fr.1]
      exact Nat.le_trans (List.length_filter_le _ _) hs
    · rw [pf.2.2.1, pf.2.1]
      show max (startSome s.ready.length s).maxRunning (startSome s.ready.length s).running.length
        ≤ (startSome s.ready.length s).n
      rw [fr.1, fr.2.2.2.2.2.2]
      exact Nat.max_le.2 ⟨h2, hs⟩
  | line i ln => simp only [step]; split <;> exact ⟨h1, h2⟩
  | dots i => simp only [step]; split <;> exact ⟨h1, h2⟩
  | done i => simp only [step]; split <;> exact ⟨h1, h2⟩
  | dead i => simp only [step]; split <;> exact ⟨h1, h2⟩

theorem bounded_exec : ∀ (ls : List Label) (s : SS), Bounded s → Bounded (exec ls s)
  | [], _, h => h
  | l :: ls, s, h => bounded_exec ls (step s l) (bounded_step s l h)

/-- **C06_at_most_N** — for every schedule (every completion order, every interleaving of output
lines), every number of layers and every N: never more than N entries in `running_threads`
(not even transiently: `maxRunning`); a child is alive only while its thread is in that list, so
never more than N children are alive. -/
theorem C06_at_most_N (n k : Nat) (ls : List Label) :
    (exec ls (init n k)).running.length ≤ n ∧ (exec ls (init n k)).maxRunning ≤ n := by
  have h := bounded_exec ls (init n k) ⟨by simp [init], by simp [init]⟩
  have hn : (exec ls (init n k)).n = n := (exec_n_k ls (init n k)).1
  unfold Bounded at h
  rw [hn] at h
  exact h

/-- **C06_progress** — the start loop fills up to N slots: after it, `running` has
`min N (running + ready)` entries (up to N layers do make progress at the same time). -/
theorem C06_progress : ∀ (f : Nat) (s : SS), s.ready.length = f → s.running.length ≤ s.n →
    (startSome f s).running.length = min s.n (s.running.length + s.ready.length)
  | 0, s, hf, h => by
    simp only [startSome]
    omega
  | f + 1, s, hf, h => by
    unfold startSome
    cases hr : s.ready with
    | nil => rw [hr] at hf; simp at hf
    | cons i rest =>
      have hlen : rest.length = f := by rw [hr] at hf; simpa using hf
      simp only []
      split
      · rename_i hlt
        have := C06_progress f { s with ready := rest, running := s.running ++ [i] } hlen (by simp; omega)
        simp only [List.length_append, List.length_cons, List.length_nil] at this ⊢
        rw [this]; omega
      · simp only [List.length_cons]; omega

/-! ### blocks in order -/

/-- what has been printed is exactly the blocks of children `0 … cur-1`, in that order, each the
complete buffer of a child that is done -/
structure Ordered (s : SS) : Prop where
  idx : s.printed.map (·.1) = List.range s.cur
  content : ∀ p ∈ s.printed, p.2 = s.buf p.1 ∧ s.doneF p.1 = true
  le : s.cur ≤ s.k

theorem ordered_printDone (f : Nat) (s : SS) (h : Ordered s) : Ordered (printDone f s) := by
  induction f generalizing s with
  | zero => exact h
  | succ f ih =>
    unfold printDone
    split
    · rename_i hc
      apply ih
      refine ⟨?_, ?_, ?_⟩
      · simp only [List.map_append, List.map_cons, List.map_nil, h.idx, List.range_succ]
      · intro p hp
        simp only [List.mem_append, List.mem_singleton] at hp
        rcases hp with hp | rfl
        · exact h.content p hp
        · exact ⟨rfl, hc.2⟩
      · show s.cur + 1 ≤ s.k
        exact hc.1
    · exact h

theorem ordered_step (s : SS) (l : Label) (h : Ordered s) : Ordered (step s l) := by
  cases l with
  | iter =>
    simp only [step, iterStep]
    apply ordered_printDone
    have fr := startSome_frame s.ready.length s
    refine ⟨?_, ?_, ?_⟩
    · show (startSome s.ready.length s).printed.map (·.1) = List.range (startSome s.ready.length s).cur
      rw [fr.2.2.1, fr.2.2.2.1]; exact h.idx
    · show ∀ p ∈ (startSome s.ready.length s).printed,
        p.2 = (startSome s.ready.length s).buf p.1 ∧ (startSome s.ready.length s).doneF p.1 = true
      rw [fr.2.2.1, fr.2.2.2.2.1, fr.2.2.2.2.2.1]; exact h.content
    · show (startSome s.ready.length s).cur ≤ (startSome s.ready.length s).k
      rw [fr.2.2.2.1, fr.2.1]; exact h.le
  | line i ln =>
    simp only [step]
    split
    · rename_i hc
      simp only [Bool.and_eq_true, Bool.not_eq_true'] at hc
      refine ⟨h.idx, ?_, h.le⟩
      intro p hp
      obtain ⟨c1, c2⟩ := h.content p hp
      have hne : p.1 ≠ i := by intro e; rw [e] at c2; rw [c2] at hc; exact absurd hc.2 (by simp)
      show p.2 = (if p.1 = i then s.buf i ++ [ln] else s.buf p.1) ∧ s.doneF p.1 = true
      simp only [hne, if_false]
      exact ⟨c1, c2⟩
    · exact h
  | dots i => simp only [step]; split <;> exact ⟨h.idx, h.content, h.le⟩
  | done i =>
    simp only [step]
    split
    · refine ⟨h.idx, ?_, h.le⟩
      intro p hp
      obtain ⟨c1, c2⟩ := h.content p hp
      refine ⟨c1, ?_⟩
      show (if p.1 = i then true else s.doneF p.1) = true
      split
      · rfl
      · exact c2
    · exact h
  | dead i => simp only [step]; split <;> exact ⟨h.idx, h.content, h.le⟩

theorem ordered_exec : ∀ (ls : List Label) (s : SS), Ordered s → Ordered (exec ls s)
  | [], _, h => h
  | l :: ls, s, h => ordered_exec ls (step s l) (ordered_step s l h)

/-- **C06_blocks_in_order** — whatever order the children finish in and however their output lines
interleave, what the parent has printed at any moment is the complete output of children
`0, 1, …, cur-1`, one contiguous block each, in the sequential layer order; a finished child whose
predecessors are still running is held back. -/
theorem C06_blocks_in_order (n k : Nat) (ls : List Label) :
    let s := exec ls (init n k)
    s.printed.map (·.1) = List.range s.cur ∧ (∀ p ∈ s.printed, p.2 = s.buf p.1 ∧ s.doneF p.1 = true) ∧ s.cur ≤ k := by
  have h := ordered_exec ls (init n k) ⟨by simp [init], by simp [init], by simp [init]⟩
  have hk : (exec ls (init n k)).k = k := (exec_n_k ls (init n k)).2
  have hle := h.le
  rw [hk] at hle
  exact ⟨h.idx, h.content, hle⟩

/-- **C06_prints_all_done** — one pass of the loop prints every leading done child: afterwards
`current_result` is the first child that is not done, or none is left. -/
theorem C06_prints_all_done : ∀ (f : Nat) (s : SS), s.k - s.cur ≤ f → s.cur ≤ s.k →
    (printDone f s).cur = (printDone f s).k ∨ (printDone f s).doneF (printDone f s).cur = false
  | 0, s, hf, hle => Or.inl (by simp only [printDone]; omega)
  | f + 1, s, hf, hle => by
    unfold printDone
    split
    · rename_i hc
      exact C06_prints_all_done f _ (by show s.k - (s.cur + 1) ≤ f; omega) (by show s.cur + 1 ≤ s.k; exact hc.1)
    · rename_i hc
      by_cases h : s.cur < s.k
      · right
        have : ¬ s.doneF s.cur = true := fun hd => hc ⟨h, hd⟩
        simpa using this
      · left; omega

-- non-vacuity: 3 children, N = 2, finishing in the order 2, 0, 1 with interleaved lines
example : (exec [.iter, .line 1 11, .line 0 10, .done 1, .dead 1, .iter, .iter, .line 2 12, .done 2, .dead 2, .iter,
    .done 0, .dead 0, .iter] (init 2 3)).printed = [(0, [10]), (1, [11]), (2, [12])] := by decide

end Ztr.Sched
