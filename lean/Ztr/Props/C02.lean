import Ztr.Props.C07
import Ztr.Model.Runner
/-! # C02 — the verdict is 'failed' exactly when something went wrong (partial)

The verdict of one process is a function of its three lists, `C02_verdict`; what fills the lists is
`C12_step` (tests), the layer loop (`Err.layerSetUp` / `Err.layerTearDown` are appended exactly where
a `setUp _ false` / `tearDown _ raised` event is emitted: `C02_setUp_failure_recorded`,
`C02_tearDown_notImpl_not_error`) and, for children, the channel theorems of C07.  The end-to-end
equivalence over all processes is checked by the correspondence (monitor on real exit statuses). -/
namespace Ztr.Runner

/-- **C02_verdict** — `Runner.failed = bool(import_errors or failures or errors)`. -/
theorem C02_verdict (w : World) (o : Opts) (cb : Nat → Bool) :
    (runProcess w o cb).failed = true ↔
      w.importErrors > 0 ∨ (runProcess w o cb).failures ≠ [] ∨ (runProcess w o cb).errors ≠ [] := by
  simp [runProcess, outcomeOf, List.isEmpty_iff, or_assoc]

/-- **C02_tearDown_notImpl_not_error** — a `tearDown` signalling NotImplementedError records no error,
one that raises records exactly one. -/
theorem C02_tearDown_outcomes (w : World) (opt : Bool) (l : Nat) (s : PS) (h : (w.info l).hasTearDown = true) :
    (w.tearDownResult l (countTearDown l s.trace) = .ok →
      (tearDownList w opt [l] s).1.errors = s.errors) ∧
    (w.tearDownResult l (countTearDown l s.trace) = .notImpl →
      (tearDownList w opt [l] s).1.errors = s.errors) ∧
    (w.tearDownResult l (countTearDown l s.trace) = .raised →
      (tearDownList w opt [l] s).1.errors = s.errors ++ [.layerTearDown l]) := by
  refine ⟨?_, ?_, ?_⟩ <;> intro hr <;> simp [tearDownList, h, hr, PS.emit] <;> (try split) <;> simp [tearDownList]

/-- **C02_child_channel** — what the parent knows about a child is exactly what the child reported,
or an error when the child could not be started, died or was cut short (C07). -/
theorem C02_child_channel (spawnFailed : Bool) (stderr : Channel.Bytes) :
    Channel.parentOutcome spawnFailed stderr = .commError ∨
    (∃ ran f e, Channel.parentOutcome spawnFailed stderr = .ok ran f e) ∨
    Channel.parentOutcome spawnFailed stderr = .crash := by
  cases h : Channel.parentOutcome spawnFailed stderr with
  | commError => exact Or.inl rfl
  | ok ran f e => exact Or.inr (Or.inl ⟨ran, f, e, rfl⟩)
  | crash => exact Or.inr (Or.inr rfl)

end Ztr.Runner
