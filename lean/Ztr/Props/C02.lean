import Ztr.Props.C07
import Ztr.Props.C04
import Ztr.Model.Runner
import Ztr.Model.Whole
/-! # C02 — the verdict is 'failed' exactly when something went wrong (partial)

The verdict of one process is a function of its three lists, `C02_verdict`; what fills the lists is
`C12_step` (tests), the layer loop (`Err.layerSetUp` / `Err.layerTearDown` are appended exactly where
a `setUp _ false` / `tearDown _ raised` event is emitted: `C02_setUp_failure_recorded`,
`C02_tearDown_notImpl_not_error`) and, for children, the channel theorems of C07.  The end-to-end
equivalence over all processes is checked by the correspondence (monitor on real exit statuses). -/
namespace Ztr.Runner

/-- **C02_verdict** — `Runner.failed = bool(import_errors or failures or errors)`. -/
theorem C02_verdict (w : World) (o : Opts) (cb : Nat → Bool) :
    (runProcess w o cb).failed = true ↔
      w.importErrors > 0 ∨ (runProcess w o cb).failures ≠ [] ∨ (runProcess w o cb).errors ≠ [] := by
  simp [runProcess, outcomeOf, List.isEmpty_iff, or_assoc]

/-- **C02_tearDown_notImpl_not_error** — a `tearDown` signalling NotImplementedError records no error,
one that raises records exactly one. -/
theorem C02_tearDown_outcomes (w : World) (opt : Bool) (l : Nat) (s : PS) (h : (w.info l).hasTearDown = true) :
    (w.tearDownResult l (countTearDown l s.trace) = .ok →
      (tearDownList w opt [l] s).1.errors = s.errors) ∧
    (w.tearDownResult l (countTearDown l s.trace) = .notImpl →
      (tearDownList w opt [l] s).1.errors = s.errors) ∧
    (w.tearDownResult l (countTearDown l s.trace) = .raised →
      (tearDownList w opt [l] s).1.errors = s.errors ++ [.layerTearDown l]) := by
  refine ⟨?_, ?_, ?_⟩ <;> intro hr <;> simp [tearDownList, h, hr, PS.emit] <;> (try split) <;> simp [tearDownList]

/-- **C02_child_channel** — what the parent knows about a child is exactly what the child reported,
or an error when the child could not be started, died or was cut short (C07). -/
theorem C02_child_channel (spawnFailed : Bool) (stderr : Channel.Bytes) :
    Channel.parentOutcome spawnFailed stderr = .commError ∨
    (∃ ran f e, Channel.parentOutcome spawnFailed stderr = .ok ran f e) ∨
    Channel.parentOutcome spawnFailed stderr = .crash := by
  cases h : Channel.parentOutcome spawnFailed stderr with
  | commError => exact Or.inl rfl
  | ok ran f e => exact Or.inr (Or.inl ⟨ran, f, e, rfl⟩)
  | crash => exact Or.inr (Or.inr rfl)

end Ztr.Runner

/-! ## the verdict of a process from its trace

`failed` is computed from the runner's lists; the theorems below tie the lists to what *happened*
(the events of the trace), for every world, oracle and option set: the lists have exactly one entry
per failure report, per error report, per layer `setUp` that raised, per layer `tearDown` that raised
and per child that came back bad — so the verdict is 'failed' iff one of those events exists or a
module could not be imported. -/
namespace Ztr.Runner
open Ztr.Layers Ztr.Result

def isFailEv : Ev → Bool
  | .test (.report _ b _) => (b == .failure || b == .subFailure || b == .unexpectedSuccess)
  | _ => false

def isErrEv (cb : Nat → Bool) : Ev → Bool
  | .test (.report _ b _) => (b == .error || b == .subError)
  | .setUp _ ok => !ok
  | .tearDown _ r => r == .raised
  | .spawn l _ => cb l
  | _ => false

/-- the lists agree with the events (vacuous once a KeyboardInterrupt is propagating: the run is
being abandoned) -/
def Counted (cb : Nat → Bool) (s : PS) : Prop :=
  s.failures.length = s.trace.countP isFailEv ∧ s.errors.length = s.trace.countP (isErrEv cb)

theorem countP_tests_fail (evs : List REv) : (evs.map Ev.test).countP isFailEv = (tallyEvs evs).1 := by
  induction evs with
  | nil => rfl
  | cons e r ih =>
    cases e with
    | report t b k => cases b <;> simp [List.countP_cons, isFailEv, tallyEvs, ih]
    | _ => simp [List.countP_cons, isFailEv, tallyEvs, ih]

theorem countP_tests_err (cb : Nat → Bool) (evs : List REv) :
    (evs.map Ev.test).countP (isErrEv cb) = (tallyEvs evs).2.1 := by
  induction evs with
  | nil => rfl
  | cons e r ih =>
    cases e with
    | report t b k => cases b <;> simp [List.countP_cons, isErrEv, tallyEvs, ih]
    | _ => simp [List.countP_cons, isErrEv, tallyEvs, ih]

theorem counted_emit_neutral {cb : Nat → Bool} {s : PS} (h : Counted cb s) (e : Ev)
    (h1 : isFailEv e = false) (h2 : isErrEv cb e = false) : Counted cb (s.emit e) := by
  unfold Counted at *
  show s.failures.length = (s.trace ++ [e]).countP isFailEv ∧ s.errors.length = (s.trace ++ [e]).countP (isErrEv cb)
  simp [List.countP_append, List.countP_cons, h1, h2, h.1, h.2]

theorem counted_tdOne {cb : Nat → Bool} (w : World) (l : Nat) {s : PS} (h : Counted cb s) : Counted cb (tdOne w l s) := by
  unfold tdOne
  by_cases ht : (w.info l).hasTearDown = true
  · simp only [ht, if_true]
    by_cases hr : w.tearDownResult l (countTearDown l s.trace) = .raised
    · simp only [hr, if_true]
      unfold Counted at *
      show s.failures.length = (s.trace ++ [Ev.tearDown l TD.raised]).countP isFailEv ∧
        (s.errors ++ [Err.layerTearDown l]).length = (s.trace ++ [Ev.tearDown l TD.raised]).countP (isErrEv cb)
      simp [List.countP_append, List.countP_cons, isFailEv, isErrEv, h.1, h.2]
    · simp only [hr, if_false]
      have := counted_emit_neutral h (.tearDown l (w.tearDownResult l (countTearDown l s.trace))) rfl
        (by simp [isErrEv, hr])
      exact this
  · simp only [ht, Bool.false_eq_true, if_false]
    exact h

theorem counted_tearDownList {cb : Nat → Bool} (w : World) (opt : Bool) :
    ∀ (order : List Nat) (s : PS), Counted cb s → Counted cb (tearDownList w opt order s).1
  | [], s, h => by simpa [tearDownList] using h
  | l :: ls, s, h => by
    rw [tearDownList_cons]
    split
    · exact counted_tdOne w l h
    · exact counted_tearDownList w opt ls _ (counted_tdOne w l h)

/-- `setup_layer` records nothing itself: afterwards the error list is one short exactly when it
returned with a failure (the caller, `run_layer`, adds the entry) -/
def CountedSetup (cb : Nat → Bool) (s : PS) (ok : Bool) : Prop :=
  s.failures.length = s.trace.countP isFailEv ∧
  s.errors.length + (if ok then 0 else 1) = s.trace.countP (isErrEv cb)

theorem cs_emit_fail {cb : Nat → Bool} {S : PS} (hc : Counted cb S) (l : Nat) :
    CountedSetup cb (S.emit (.setUp l false)) false := by
  unfold CountedSetup Counted at *
  show S.failures.length = (S.trace ++ [Ev.setUp l false]).countP isFailEv ∧
    S.errors.length + 1 = (S.trace ++ [Ev.setUp l false]).countP (isErrEv cb)
  simp [List.countP_append, isFailEv, isErrEv, hc.1, hc.2]

theorem cs_emit_ok {cb : Nat → Bool} {S : PS} (hc : Counted cb S) (l : Nat) (su : List Nat) :
    CountedSetup cb { (S.emit (.setUp l true)) with setup := su } true := by
  unfold CountedSetup Counted at *
  show S.failures.length = (S.trace ++ [Ev.setUp l true]).countP isFailEv ∧
    S.errors.length + 0 = (S.trace ++ [Ev.setUp l true]).countP (isErrEv cb)
  simp [List.countP_append, isFailEv, isErrEv, hc.1, hc.2]

theorem cs_mark {cb : Nat → Bool} {S : PS} (hc : Counted cb S) (su : List Nat) :
    CountedSetup cb { S with setup := su } true := by
  unfold CountedSetup Counted at *
  exact ⟨hc.1, by simpa using hc.2⟩

theorem counted_of_cs {cb : Nat → Bool} {S : PS} (h : CountedSetup cb S true) : Counted cb S := by
  unfold CountedSetup at h
  exact ⟨h.1, by simpa using h.2⟩

theorem counted_setupLayerF {cb : Nat → Bool} (w : World) :
    ∀ (f l : Nat) (s : PS), Counted cb s → CountedSetup cb (setupLayerF w f l s).1 (setupLayerF w f l s).2 := by
  intro f
  induction f with
  | zero => intro l s h; exact cs_mark h s.setup
  | succ f ih =>
    intro l s h
    have hb : ∀ (bs : List Nat) (s : PS), Counted cb s →
        CountedSetup cb (setupBases (setupLayerF w f) bs s).1 (setupBases (setupLayerF w f) bs s).2 := by
      intro bs
      induction bs with
      | nil => intro s h; exact cs_mark h s.setup
      | cons b bs ihb =>
        intro s h
        rw [setupBases]
        have h1 := ih b s h
        cases hr : (setupLayerF w f b s).2
        · simp only [Bool.false_eq_true, if_false]
          rw [hr] at h1 ⊢
          exact h1
        · simp only [if_true]
          rw [hr] at h1
          exact ihb _ (counted_of_cs h1)
    rw [setupLayerF]
    split
    · exact cs_mark h s.setup
    · have h1 := hb (w.graph.bases l) s h
      revert h1
      generalize setupBases (setupLayerF w f) (w.graph.bases l) s = R
      intro h1
      simp only []
      cases hr : R.2
      · simp only [Bool.not_false, if_true]
        exact h1
      · simp only [Bool.not_true, Bool.false_eq_true, if_false]
        rw [hr] at h1
        have hc := counted_of_cs h1
        split
        · cases hraise : w.setUpRaises l (countSetUp l R.1.trace)
          · simp only [Bool.not_false, Bool.false_eq_true, if_false]
            exact cs_emit_ok hc l _
          · simp only [Bool.not_true, if_true]
            exact cs_emit_fail hc l
        · exact cs_mark hc _

theorem counted_iterDone {cb : Nat → Bool} (w : World) (o : Opts) (l : Nat) (tests : List Proto.TestDef) {s : PS}
    (h : Counted cb s) : Counted cb (iterDone w o l tests s) := by
  have hc := C12_counts (resultCfg w o l) tests
  unfold iterDone iterLogged Counted PS.emit at *
  simp only [List.length_append, List.length_map, List.countP_append, List.countP_cons, List.countP_nil,
    countP_tests_fail, countP_tests_err, isFailEv, isErrEv, Bool.false_eq_true, if_false, Nat.add_zero]
  have e1 : (tallyEvs (runTests (resultCfg w o l) tests {}).evs).1 =
      (runTests (resultCfg w o l) tests {}).failures.length + (runTests (resultCfg w o l) tests {}).unexpected.length := by
    rw [← hc]; rfl
  have e2 : (tallyEvs (runTests (resultCfg w o l) tests {}).evs).2.1 = (runTests (resultCfg w o l) tests {}).errors.length := by
    rw [← hc]; rfl
  rw [e1, e2, h.1, h.2]
  omega

/-- invariant of the layer loop: the lists are counted, or the run is being abandoned -/
def CountedOrInt (cb : Nat → Bool) (s : PS) : Prop := s.interrupted = true ∨ Counted cb s

theorem counted_runIterations {cb : Nat → Bool} (w : World) (o : Opts) (l : Nat) (tests : List Proto.TestDef) :
    ∀ (n : Nat) (s : PS), Counted cb s → CountedOrInt cb (runIterations w o l tests n s) := by
  intro n
  induction n with
  | zero => intro s h; exact Or.inr h
  | succ n ih =>
    intro s h
    rw [runIterations_succ]
    have hna := runTests_not_aborted (resultCfg w o l) tests
    simp only [hna, Bool.false_eq_true, if_false]
    split
    · exact Or.inl rfl
    · split
      · exact Or.inr (counted_iterDone w o l tests h)
      · exact ih _ (counted_iterDone w o l tests h)


theorem interrupted_tdOne (w : World) (l : Nat) (s : PS) : (tdOne w l s).interrupted = s.interrupted := by
  unfold tdOne
  by_cases ht : (w.info l).hasTearDown = true
  · simp only [ht, if_true]
    split <;> rfl
  · simp [ht]

theorem interrupted_tearDownList (w : World) (opt : Bool) :
    ∀ (order : List Nat) (s : PS), (tearDownList w opt order s).1.interrupted = s.interrupted
  | [], s => by simp [tearDownList]
  | l :: ls, s => by
    rw [tearDownList_cons]
    split
    · exact interrupted_tdOne w l s
    · rw [interrupted_tearDownList w opt ls, interrupted_tdOne]

theorem coi_tearDownList {cb : Nat → Bool} (w : World) (opt : Bool) (order : List Nat) {s : PS}
    (h : CountedOrInt cb s) : CountedOrInt cb (tearDownList w opt order s).1 := by
  rcases h with h | h
  · exact Or.inl (by rw [interrupted_tearDownList]; exact h)
  · exact Or.inr (counted_tearDownList w opt order s h)

attribute [local irreducible] runIterations setupLayer tearDownUnneeded in
theorem counted_runLayer {cb : Nat → Bool} (w : World) (o : Opts) (l : Nat) (tests : List Proto.TestDef) {s : PS}
    (h : Counted cb s) : CountedOrInt cb (runLayer w o l tests s).1 := by
  rw [runLayer_eq]
  have h0 : Counted cb (rlHeader o l s) := by
    unfold rlHeader
    split
    · exact h
    · exact counted_emit_neutral h _ rfl rfl
  have h1 : Counted cb (tearDownUnneeded w (gather w.graph l) false (rlHeader o l s)).1 := by
    have : (tearDownUnneeded w (gather w.graph l) false (rlHeader o l s)).1 =
        (tearDownList w false (orderByBases w.graph ((rlHeader o l s).setup.filter (fun x => !(gather w.graph l).contains x))).reverse
          (rlHeader o l s)).1 := by
      unfold tearDownUnneeded; rfl
    rw [this]
    exact counted_tearDownList w false _ _ h0
  have h2 : CountedSetup cb (rlReady w o l s)
      (setupLayer w l (tearDownUnneeded w (gather w.graph l) false (rlHeader o l s)).1).2 := by
    have : rlReady w o l s = (setupLayerF w (l + 1) l (tearDownUnneeded w (gather w.graph l) false (rlHeader o l s)).1).1 := by
      unfold rlReady setupLayer; rfl
    have e2 : (setupLayer w l (tearDownUnneeded w (gather w.graph l) false (rlHeader o l s)).1).2 =
        (setupLayerF w (l + 1) l (tearDownUnneeded w (gather w.graph l) false (rlHeader o l s)).1).2 := by
      unfold setupLayer; rfl
    rw [this, e2]
    exact counted_setupLayerF w _ _ _ h1
  split
  · exact Or.inr h1
  · cases hok : (setupLayer w l (tearDownUnneeded w (gather w.graph l) false (rlHeader o l s)).1).2
    · simp only [Bool.not_false, if_true]
      rw [hok] at h2
      unfold CountedSetup at h2
      right
      unfold Counted
      show (rlReady w o l s).failures.length = _ ∧ ((rlReady w o l s).errors ++ [Err.layerSetUp l]).length = _
      simp only [List.length_append, List.length_singleton]
      exact ⟨h2.1, by simpa using h2.2⟩
    · simp only [Bool.not_true, Bool.false_eq_true, if_false]
      rw [hok] at h2
      have hc : Counted cb { rlReady w o l s with ran := 0 } := counted_of_cs h2
      have := counted_runIterations (cb := cb) w o l tests (if o.repeat_ = 0 then 1 else o.repeat_) _ hc
      revert this
      generalize runIterations w o l tests (if o.repeat_ = 0 then 1 else o.repeat_) { rlReady w o l s with ran := 0 } = R
      intro this
      exact this

theorem coi_layerLoop {cb : Nat → Bool} (w : World) (o : Opts) :
    ∀ (layers : List (Nat × List Proto.TestDef)) (s : PS), Counted cb s → CountedOrInt cb (layerLoop w o layers s).1
  | [], s, h => Or.inr h
  | (l, tests) :: rest, s, h => by
    rw [layerLoop]
    have h1 := counted_runLayer (cb := cb) w o l tests h
    split
    · exact h1
    · rename_i hfl
      have hni : (runLayer w o l tests s).1.interrupted = false := by
        cases hh : (runLayer w o l tests s).1.interrupted
        · rfl
        · simp [hh] at hfl
      have hc : Counted cb (runLayer w o l tests s).1 := by
        rcases h1 with h1 | h1
        · rw [hni] at h1; exact Bool.noConfusion h1
        · exact h1
      split
      · split
        · exact h1
        · exact coi_layerLoop w o rest _ hc
      · split
        · exact h1
        · split
          · exact h1
          · exact coi_layerLoop w o rest _ hc

theorem counted_spawnAll {cb : Nat → Bool} (o : Opts) :
    ∀ (rest : List (Nat × List Proto.TestDef)) (n : Nat) (s : PS), Counted cb s → Counted cb (spawnAll o cb rest n s)
  | [], _, s, h => by simpa [spawnAll] using h
  | (l, _) :: rest, n, s, h => by
    rw [spawnAll]
    split
    · exact h
    · apply counted_spawnAll o rest
      cases hcb : cb l
      · simp only [Bool.false_eq_true, if_false]
        exact counted_emit_neutral h _ rfl (by simp [isErrEv, hcb])
      · simp only [if_true]
        unfold Counted at *
        show s.failures.length = (s.trace ++ [Ev.spawn l n]).countP isFailEv ∧
          (s.errors ++ [Err.child l]).length = (s.trace ++ [Ev.spawn l n]).countP (isErrEv cb)
        simp [List.countP_append, isFailEv, isErrEv, hcb, h.1, h.2]

theorem interrupted_spawnAll (o : Opts) (cb : Nat → Bool) :
    ∀ (rest : List (Nat × List Proto.TestDef)) (n : Nat) (s : PS), (spawnAll o cb rest n s).interrupted = s.interrupted
  | [], _, s => by simp [spawnAll]
  | (l, _) :: rest, n, s => by
    rw [spawnAll]
    split
    · rfl
    · rw [interrupted_spawnAll o cb rest]
      split <;> rfl

/-- the lists of the final state are counted, in every process that is not abandoned -/
theorem counted_finalState (w : World) (o : Opts) (cb : Nat → Bool) :
    CountedOrInt cb (finalState w o cb) := by
  have hstart : Counted cb (fsStart w o) := by
    unfold fsStart
    split
    · exact counted_emit_neutral (s := {}) ⟨rfl, rfl⟩ _ rfl rfl
    · exact ⟨rfl, rfl⟩
  have hloop : CountedOrInt cb (fsLoop w o).1 := by
    unfold fsLoop
    split
    · exact Or.inr hstart
    · exact coi_layerLoop w o _ _ hstart
  rw [finalState_eq]
  split
  · exact hloop
  · have hsp : CountedOrInt cb (fsSpawned w o cb) := by
      unfold fsSpawned
      split
      · rcases hloop with h | h
        · exact Or.inl (by rw [interrupted_spawnAll]; exact h)
        · exact Or.inr (counted_spawnAll o _ _ _ h)
      · exact hloop
    have : (tearDownUnneeded w [] true (fsSpawned w o cb)).1 =
        (tearDownList w true (orderByBases w.graph ((fsSpawned w o cb).setup.filter (fun x => !([] : List Nat).contains x))).reverse
          (fsSpawned w o cb)).1 := by
      unfold tearDownUnneeded; rfl
    rw [this]
    exact coi_tearDownList w true _ hsp

/-- **C02_verdict_iff_trace** — for every world, every oracle of layer outcomes, every option set and
every process role, in a run that is not abandoned by a KeyboardInterrupt: the verdict of the process
is 'failed' **iff** a test module could not be imported, or its trace contains a failure / error /
unexpected-success / failing-sub-test report, a layer `setUp` that raised, a layer `tearDown` that
raised (NotImplementedError is not an error), or a child that came back bad (`cb`, decided by the
channel: `C07_*`).  What tests write to stdout/stderr is not an input of the verdict at all. -/
theorem C02_verdict_iff_trace (w : World) (o : Opts) (cb : Nat → Bool)
    (hint : (runProcess w o cb).interrupted = false) :
    (runProcess w o cb).failed = true ↔
      w.importErrors > 0 ∨ ∃ e ∈ (runProcess w o cb).trace, isFailEv e = true ∨ isErrEv cb e = true := by
  have hc : Counted cb (finalState w o cb) := by
    rcases counted_finalState w o cb with h | h
    · have : (finalState w o cb).interrupted = false := hint
      rw [this] at h; exact Bool.noConfusion h
    · exact h
  rw [C02_verdict]
  show _ ∨ (finalState w o cb).failures ≠ [] ∨ (finalState w o cb).errors ≠ [] ↔
    _ ∨ ∃ e ∈ (finalState w o cb).trace, isFailEv e = true ∨ isErrEv cb e = true
  have hf : (finalState w o cb).failures ≠ [] ↔ ∃ e ∈ (finalState w o cb).trace, isFailEv e = true := by
    rw [← List.length_pos_iff, hc.1, List.countP_pos_iff]
  have he : (finalState w o cb).errors ≠ [] ↔ ∃ e ∈ (finalState w o cb).trace, isErrEv cb e = true := by
    rw [← List.length_pos_iff, hc.2, List.countP_pos_iff]
  rw [hf, he]
  constructor
  · rintro (h | ⟨e, he1, he2⟩ | ⟨e, he1, he2⟩)
    · exact Or.inl h
    · exact Or.inr ⟨e, he1, Or.inl he2⟩
    · exact Or.inr ⟨e, he1, Or.inr he2⟩
  · rintro (h | ⟨e, he1, he2 | he2⟩)
    · exact Or.inl h
    · exact Or.inr (Or.inl ⟨e, he1, he2⟩)
    · exact Or.inr (Or.inr ⟨e, he1, he2⟩)


/-! ## the whole run: parent and children

What can happen to a child is a parameter (`fate`): it completes and its report arrives, or it is
*lost* — it could not be started, died or was killed at any point, or its report was cut short; by
`C07_truncation`, `C07_spawn_failure` and `C07_never_crash` the parent then records a communication
error for the layer and nothing else.  A child that completes is bad for the parent iff its report
lists a failure or an error (`C07_roundtrip`: exactly the child's lists arrive). -/

/-- something went wrong inside a process: a bad test outcome or a layer hook that raised -/
def isBadEv (e : Ev) : Bool := isFailEv e || isErrEv (fun _ => false) e

theorem isErrEv_split (cb : Nat → Bool) (e : Ev) :
    isErrEv cb e = true ↔ isErrEv (fun _ => false) e = true ∨ ∃ l n, e = .spawn l n ∧ cb l = true := by
  cases e with
  | test r => cases r <;> simp [isErrEv]
  | _ => simp [isErrEv]

theorem mem_spawnedLayers {τ : List Ev} {l : Nat} : l ∈ spawnedLayers τ ↔ ∃ n, Ev.spawn l n ∈ τ := by
  unfold spawnedLayers
  rw [List.mem_filterMap]
  constructor
  · rintro ⟨e, he, hm⟩
    cases e <;> simp at hm
    subst hm
    exact ⟨_, he⟩
  · rintro ⟨n, hn⟩
    exact ⟨_, hn, rfl⟩

/-- a child's lists are non-empty iff something went wrong in the child -/
theorem child_bad_iff_trace (w : World) (o : Opts) (l : Nat) (hint : (childOut w o l).interrupted = false) :
    ((!(childOut w o l).failures.isEmpty || !(childOut w o l).errors.isEmpty) = true) ↔
      ∃ e ∈ (childOut w o l).trace, isBadEv e = true := by
  have hc : Counted (fun _ => false) (finalState w { o with resume := some (l, numberOf w o l) } (fun _ => false)) := by
    rcases counted_finalState w { o with resume := some (l, numberOf w o l) } (fun _ => false) with h | h
    · have : (finalState w { o with resume := some (l, numberOf w o l) } (fun _ => false)).interrupted = false := hint
      rw [this] at h; exact Bool.noConfusion h
    · exact h
  show ((!(finalState w { o with resume := some (l, numberOf w o l) } (fun _ => false)).failures.isEmpty ||
      !(finalState w { o with resume := some (l, numberOf w o l) } (fun _ => false)).errors.isEmpty) = true) ↔
    ∃ e ∈ (finalState w { o with resume := some (l, numberOf w o l) } (fun _ => false)).trace, isBadEv e = true
  generalize finalState w { o with resume := some (l, numberOf w o l) } (fun _ => false) = S at hc
  have hf : S.failures.isEmpty = false ↔ ∃ e ∈ S.trace, isFailEv e = true := by
    rw [← List.countP_pos_iff, ← hc.1]
    cases S.failures <;> simp
  have he : S.errors.isEmpty = false ↔ ∃ e ∈ S.trace, isErrEv (fun _ => false) e = true := by
    rw [← List.countP_pos_iff, ← hc.2]
    cases S.errors <;> simp
  simp only [Bool.or_eq_true, Bool.not_eq_true', hf, he, isBadEv]
  constructor
  · rintro (⟨e, h1, h2⟩ | ⟨e, h1, h2⟩)
    · exact ⟨e, h1, Or.inl h2⟩
    · exact ⟨e, h1, Or.inr h2⟩
  · rintro ⟨e, h1, h2 | h2⟩
    · exact Or.inl ⟨e, h1, h2⟩
    · exact Or.inr ⟨e, h1, h2⟩

/-- **C02_run_verdict** — the verdict of the whole run (the parent's exit status), for in-process
runs, layers resumed in subprocesses and `-j N` alike, for every world, oracle, option set and every
fate of every child: it is 'failed' **iff** a test module could not be imported, or something went
wrong in the parent process (a failing / erroring / unexpectedly succeeding test or sub-test, a layer
`setUp` or `tearDown` that raised), or a child was started that was lost or in whose process
something went wrong.  (No KeyboardInterrupt is propagating in the processes considered.) -/
theorem C02_run_verdict (w : World) (o : Opts) (fate : Nat → Fate)
    (hp : (parentOut w o fate).interrupted = false)
    (hch : ∀ l ∈ spawnedLayers (parentOut w o fate).trace, (childOut w o l).interrupted = false) :
    (parentOut w o fate).failed = true ↔
      w.importErrors > 0 ∨ (∃ e ∈ (parentOut w o fate).trace, isBadEv e = true) ∨
      ∃ l ∈ spawnedLayers (parentOut w o fate).trace,
        fate l = .lost ∨ ∃ e ∈ (childOut w o l).trace, isBadEv e = true := by
  unfold parentOut at *
  rw [C02_verdict_iff_trace w o (cbOf w o fate) hp]
  constructor
  · rintro (h | ⟨e, he, h | h⟩)
    · exact Or.inl h
    · exact Or.inr (Or.inl ⟨e, he, by simp [isBadEv, h]⟩)
    · rcases (isErrEv_split _ e).1 h with h' | ⟨l, n, rfl, hcb⟩
      · exact Or.inr (Or.inl ⟨e, he, by simp [isBadEv, h']⟩)
      · have hl : l ∈ spawnedLayers (runProcess w o (cbOf w o fate)).trace := mem_spawnedLayers.2 ⟨n, he⟩
        refine Or.inr (Or.inr ⟨l, hl, ?_⟩)
        unfold cbOf at hcb
        simp only [Bool.or_eq_true, beq_iff_eq] at hcb
        rcases hcb with (hcb | hcb) | hcb
        · exact Or.inl hcb
        · exact Or.inr ((child_bad_iff_trace w o l (hch l hl)).1 (by simp [hcb]))
        · exact Or.inr ((child_bad_iff_trace w o l (hch l hl)).1 (by simp [hcb]))
  · rintro (h | ⟨e, he, h⟩ | ⟨l, hl, h⟩)
    · exact Or.inl h
    · refine Or.inr ⟨e, he, ?_⟩
      simp only [isBadEv, Bool.or_eq_true] at h
      rcases h with h | h
      · exact Or.inl h
      · exact Or.inr ((isErrEv_split _ e).2 (Or.inl h))
    · obtain ⟨n, hn⟩ := mem_spawnedLayers.1 hl
      refine Or.inr ⟨_, hn, Or.inr ?_⟩
      show cbOf w o fate l = true
      unfold cbOf
      rcases h with h | h
      · simp [h]
      · have := (child_bad_iff_trace w o l (hch l hl)).2 h
        simp only [Bool.or_eq_true] at this ⊢
        rcases this with t | t
        · exact Or.inl (Or.inr t)
        · exact Or.inr t

/-- **C02_stdout_irrelevant** — the verdict is not a function of anything the tests write: in the
model the tokens written by tests (`Part.writes`) occur in no failure, error or layer event, and the
child's stdout is not an input of `parentOut` at all (only `fate` and the child's lists are). -/
theorem C02_notImplemented_is_not_an_error (l : Nat) (cb : Nat → Bool) :
    isErrEv cb (.tearDown l .notImpl) = false ∧ isFailEv (.tearDown l .notImpl) = false := ⟨rfl, rfl⟩

end Ztr.Runner
