import Ztr.Model.Shuffle
import Ztr.Lemmas.Sort
/-! # C11 — shuffle is a seed-determined permutation inside each layer -/
namespace Ztr.Shuffle

variable {α : Type}

theorem swapAt_perm (xs : Array α) (i j : Nat) : (swapAt xs i j).Perm xs := by
  unfold swapAt
  split
  · exact Array.swap_perm _ _
  · exact Array.Perm.refl _

theorem fyLoop_perm : ∀ (n : Nat) (js : List Nat) (xs : Array α), (fyLoop n js xs).1.Perm xs
  | 0, _, xs => Array.Perm.refl _
  | _ + 1, [], xs => Array.Perm.refl _
  | n + 1, j :: js, xs => by
    unfold fyLoop
    exact (fyLoop_perm n js _).trans (swapAt_perm xs (n + 1) j)

/-- **C11_perm** — for every index stream and every list the shuffled list is a permutation:
no test dropped, none duplicated. -/
theorem C11_perm (js : List Nat) (xs : List α) : (fisherYates js xs).1.Perm xs := by
  unfold fisherYates
  have := fyLoop_perm (xs.length - 1) js xs.toArray
  simpa using this.toList

/-- lists of length 0 and 1 are fixed points and consume nothing from the stream -/
theorem C11_small (js : List Nat) (xs : List α) (h : xs.length ≤ 1) : fisherYates js xs = (xs, js) := by
  unfold fisherYates
  have : xs.length - 1 = 0 := by omega
  simp [this, fyLoop]

theorem shuffleSorted_names : ∀ (L : List (Name × List α)) (js : List Nat),
    (shuffleSorted L js).map (·.1) = L.map (·.1)
  | [], _ => rfl
  | (n, ts) :: rest, js => by simp [shuffleSorted, shuffleSorted_names rest]

theorem lookup_shuffleSorted {n : Name} {ts : List α} :
    ∀ (L : List (Name × List α)) (js : List Nat), (L.map (·.1)).Nodup → (n, ts) ∈ L →
      ∃ ts', lookup n (shuffleSorted L js) = some ts' ∧ ts'.Perm ts
  | [], _, _, h => by simp at h
  | (m, us) :: rest, js, hnd, h => by
    simp only [List.map_cons, List.nodup_cons] at hnd
    unfold shuffleSorted
    simp only [lookup]
    rcases List.mem_cons.1 h with heq | hin
    · obtain ⟨rfl, rfl⟩ := Prod.mk.inj heq
      exact ⟨_, by simp, C11_perm js ts⟩
    · have hne : m ≠ n := by
        intro e
        subst e
        exact hnd.1 (List.mem_map.2 ⟨(m, ts), hin, rfl⟩)
      simp only [hne, if_false]
      exact lookup_shuffleSorted rest _ hnd.2 hin

theorem zip_self' {β : Type} : ∀ l : List β, l.zip l = l.map (fun x => (x, x))
  | [] => rfl
  | x :: xs => by simp [zip_self' xs]

/-- **C11_within_layer** — `shuffleAll` keeps every layer key at its place and replaces its test
list by a permutation of itself: tests never move across layers.  (`Nodup` of the keys: they are the
keys of a dict.) -/
theorem C11_within_layer (layers : List (Name × List α)) (js : List Nat)
    (hnd : (layers.map (·.1)).Nodup) :
    (shuffleAll layers js).length = layers.length ∧
    ∀ p ∈ (shuffleAll layers js).zip layers, p.1.1 = p.2.1 ∧ p.1.2.Perm p.2.2 := by
  unfold shuffleAll
  simp only []
  refine ⟨by simp, ?_⟩
  intro p hp
  have hperm := PySort.isort_perm (fun (a b : Name × List α) => decide (a.1 ≤ b.1)) layers
  have hnd' : ((PySort.isort (fun (a b : Name × List α) => decide (a.1 ≤ b.1)) layers).map (·.1)).Nodup :=
    (hperm.map (·.1)).nodup_iff.2 hnd
  rw [List.zip_map_left, zip_self', List.map_map] at hp
  obtain ⟨q, hq, rfl⟩ := List.mem_map.1 hp
  refine ⟨rfl, ?_⟩
  have hmem : (q.1, q.2) ∈ PySort.isort (fun (a b : Name × List α) => decide (a.1 ≤ b.1)) layers :=
    hperm.mem_iff.2 hq
  obtain ⟨ts', h1, h2⟩ := lookup_shuffleSorted _ js hnd' hmem
  simp [h1, h2]

/-! ### the order is the same in every mode -/

theorem shuffle_before_filter : idx "Shuffle" < idx "Filter" := by decide
theorem shuffle_before_subprocess : idx "Shuffle" < idx "SubProcess" := by decide
theorem shuffle_before_listing : idx "Shuffle" < idx "Listing" := by decide
theorem find_before_shuffle : idx "Find" < idx "Shuffle" := by decide

/-- **C11_same_in_every_mode** — with the feature order of `Runner.configure` (generated from the
source), every run that selects a subset `S` of the layers (`--layer`, `-u`, `-f`, a child that keeps
only its `--resume-layer`) sees, for each selected layer, exactly the order the unfiltered run and
`--list-tests` see: the stream is consumed over *all* discovered layers before any is dropped. -/
theorem C11_same_in_every_mode (S : Name → Bool) (js : List Nat) (layers : List (Name × List α)) :
    pipeline Facts.featureOrder S js layers = (shuffleAll layers js).filter (fun p => S p.1) := by
  simp [pipeline, Facts.featureOrder, applyFeature]

/-- with the opposite order a filtered run would consume the stream from its start for a different
first layer -/
theorem C11_order_matters :
    ∃ (S : Name → Bool) (js : List Nat) (layers : List (Name × List Nat)),
      pipeline ["Filter", "Shuffle"] S js layers ≠ pipeline ["Shuffle", "Filter"] S js layers :=
  ⟨fun n => n == [98], [0, 0, 1, 1], [([97], [1, 2, 3]), ([98], [4, 5, 6])], by decide⟩

/-- **C11_children_same_seed** — whatever the user passed and whatever the clocks say, a child
shuffles with the seed the parent used and reported. -/
theorem C11_children_same_seed (given : Option Int) (parentClock childClock : Int) :
    effectiveSeed (childGiven given parentClock) childClock = effectiveSeed given parentClock := by
  simp [effectiveSeed, childGiven]

/-- re-running with the reported seed reproduces the seed (hence the stream, hence the order) -/
theorem C11_rerun_reported (given : Option Int) (clock clock' : Int) :
    effectiveSeed (some (effectiveSeed given clock)) clock' = effectiveSeed given clock := by
  simp [effectiveSeed]

-- non-vacuity
example : (fisherYates [0, 1, 0] [10, 20, 30, 40]).1 = [30, 40, 20, 10] := by decide
example : shuffleAll [([98], [1, 2, 3]), ([97], [4, 5, 6])] [0, 0, 1, 1]
    = [([98], [1, 3, 2]), ([97], [5, 6, 4])] := by decide

end Ztr.Shuffle
