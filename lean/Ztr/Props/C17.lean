import Ztr.Model.Xml
import Ztr.Lemmas.Channel
/-! # C17 — XML reports are well-formed and agree with the run -/
namespace Ztr.Xml

/-! ### every character handed to the serializer is an XML `Char` -/

theorem sanitize_xmlChar (s : Str) : ∀ c ∈ sanitize s, xmlChar c = true := by
  intro c hc
  obtain ⟨x, _, rfl⟩ := List.mem_map.1 hc
  split
  · assumption
  · decide

/-! ### the grammar subset the serializer emits (XML 1.0 productions, declaratively) -/

def isNameStart (c : Nat) : Bool := (97 ≤ c && c ≤ 122) || (65 ≤ c && c ≤ 90) || c == 95
def isNameChar (c : Nat) : Bool := isNameStart c || c == 45 || (48 ≤ c && c ≤ 57)

/-- `Name` -/
def NameOk (n : String) : Prop := (match lit n with | [] => false | c :: r => isNameStart c && r.all isNameChar) = true

instance (n : String) : Decidable (NameOk n) := by unfold NameOk; infer_instance

/-- `Reference`: the predefined entities and character references that denote a `Char` -/
inductive Ref : Str → Prop
  | amp : Ref (lit "&amp;")
  | lt : Ref (lit "&lt;")
  | gt : Ref (lit "&gt;")
  | quot : Ref (lit "&quot;")
  | tab : Ref (lit "&#09;")
  | char (c : Nat) : xmlChar c = true → Ref (charRef c)

/-- `AttValue` between double quotes: `([^<&"] | Reference)*` -/
inductive AttVal : Str → Prop
  | nil : AttVal []
  | chr (c : Nat) (rest : Str) : xmlChar c = true → c ≠ 60 → c ≠ 38 → c ≠ 34 → AttVal rest → AttVal (c :: rest)
  | ref (r rest : Str) : Ref r → AttVal rest → AttVal (r ++ rest)

/-- `(S Attribute)*` with the attribute names collected (they must be distinct in a tag) -/
inductive Attrs : List String → Str → Prop
  | nil : Attrs [] []
  | cons (name : String) (names : List String) (v rest : Str) : NameOk name → AttVal v → Attrs names rest →
      Attrs (name :: names) ([32] ++ lit name ++ [61, 34] ++ v ++ [34] ++ rest)

mutual
/-- `element ::= EmptyElemTag | STag content ETag` -/
inductive Elem : Str → Prop
  | empty (tag : String) (names : List String) (as : Str) : NameOk tag → names.Nodup → Attrs names as →
      Elem ([60] ++ lit tag ++ as ++ lit " />")
  | full (tag : String) (names : List String) (as body : Str) : NameOk tag → names.Nodup → Attrs names as →
      Body body → Elem ([60] ++ lit tag ++ as ++ [62] ++ body ++ [60, 47] ++ lit tag ++ [62])
/-- `content ::= (CharData | Reference | element)*`; `CharData` here excludes `>` altogether, hence `]]>` -/
inductive Body : Str → Prop
  | nil : Body []
  | chr (c : Nat) (rest : Str) : xmlChar c = true → c ≠ 60 → c ≠ 38 → c ≠ 62 → Body rest → Body (c :: rest)
  | ref (r rest : Str) : Ref r → Body rest → Body (r ++ rest)
  | elem (e rest : Str) : Elem e → Body rest → Body (e ++ rest)
end

/-! ### escaping produces grammar-conforming text -/

theorem xmlChar_of_lt128_ge32 {c : Nat} (h : xmlChar c = true) : xmlChar c = true := h

theorem escAttr_ok : ∀ (v : Str), (∀ c ∈ v, xmlChar c = true) → AttVal (escAttr v)
  | [], _ => AttVal.nil
  | c :: r, h => by
    have hc := h c (by simp)
    have ih := escAttr_ok r (fun x hx => h x (by simp [hx]))
    show AttVal (escAttrChar c ++ escAttr r)
    unfold escAttrChar
    split
    · exact AttVal.ref _ _ Ref.amp ih
    · split
      · exact AttVal.ref _ _ Ref.lt ih
      · split
        · exact AttVal.ref _ _ Ref.gt ih
        · split
          · exact AttVal.ref _ _ Ref.quot ih
          · split
            · exact AttVal.ref _ _ (Ref.char 13 (by decide)) ih
            · split
              · exact AttVal.ref _ _ (Ref.char 10 (by decide)) ih
              · split
                · exact AttVal.ref _ _ Ref.tab ih
                · split
                  · rename_i h1 h2 h3 h4 _ _ _ _
                    exact AttVal.chr c _ hc (by simpa using h2) (by simpa using h1) (by simpa using h4) ih
                  · exact AttVal.ref _ _ (Ref.char c hc) ih

theorem escText_ok : ∀ (v rest : Str), (∀ c ∈ v, xmlChar c = true) → Body rest → Body (escText v ++ rest)
  | [], rest, _, hr => hr
  | c :: r, rest, h, hr => by
    have hc := h c (by simp)
    have ih := escText_ok r rest (fun x hx => h x (by simp [hx])) hr
    show Body ((escTextChar c ++ escText r) ++ rest)
    rw [List.append_assoc]
    unfold escTextChar
    split
    · exact Body.ref _ _ Ref.amp ih
    · split
      · exact Body.ref _ _ Ref.lt ih
      · split
        · exact Body.ref _ _ Ref.gt ih
        · split
          · rename_i h1 h2 h3 _
            exact Body.chr c _ hc (by simpa using h2) (by simpa using h1) (by simpa using h3) ih
          · exact Body.ref _ _ (Ref.char c hc) ih

theorem attr_ok (name : String) (names : List String) (v rest : Str) (hn : NameOk name)
    (hv : ∀ c ∈ v, xmlChar c = true) (hr : Attrs names rest) :
    Attrs (name :: names) (attr name v ++ rest) := by
  have := Attrs.cons name names (escAttr v) rest hn (escAttr_ok v hv) hr
  simpa [attr, List.append_assoc] using this

/-- white space of the indentation -/
theorem nl_body (k : Nat) (rest : Str) (hr : Body rest) : Body (nl k ++ rest) := by
  unfold nl
  have h2 : ∀ n, Body (List.replicate n 32 ++ rest) := by
    intro n
    induction n with
    | zero => simpa using hr
    | succ n ih =>
      rw [List.replicate_succ, List.cons_append]
      exact Body.chr 32 _ (by decide) (by decide) (by decide) (by decide) ih
  rw [List.append_assoc]
  exact Body.chr 10 _ (by decide) (by decide) (by decide) (by decide) (h2 _)

/-- all characters of a decimal number are XML chars -/
theorem renderNat_xmlChar (n : Nat) : ∀ c ∈ Channel.renderNat n, xmlChar c = true := by
  intro c hc
  have := Channel.renderNat_digits n c hc
  simp only [Channel.isDigit, Bool.and_eq_true, decide_eq_true_eq] at this
  simp only [xmlChar, Bool.or_eq_true, beq_iff_eq, Bool.and_eq_true, decide_eq_true_eq]
  omega

theorem problemElem_ok (tag : String) (c : Case) (ht : NameOk tag) : Elem (problemElem tag c) := by
  have hm := attr_ok "message" ["type"] (sanitize c.message) (attr "type" (sanitize c.etype)) (by decide)
    (sanitize_xmlChar _) (by
      have := attr_ok "type" [] (sanitize c.etype) [] (by decide) (sanitize_xmlChar _) Attrs.nil
      simpa using this)
  have hb : Body (escText (sanitize c.text)) := by
    have := escText_ok (sanitize c.text) [] (sanitize_xmlChar _) Body.nil
    simpa using this
  have := Elem.full tag ["message", "type"] _ _ ht (by decide) hm hb
  simpa [problemElem, List.append_assoc] using this

theorem caseElem_ok (c : Case) (htime : ∀ x ∈ c.time, xmlChar x = true) : Elem (caseElem c) := by
  have ha : Attrs ["classname", "name", "time"]
      (attr "classname" (sanitize c.className) ++ (attr "name" (sanitize c.name) ++ attr "time" c.time)) := by
    apply attr_ok _ _ _ _ (by decide) (sanitize_xmlChar _)
    apply attr_ok _ _ _ _ (by decide) (sanitize_xmlChar _)
    have := attr_ok "time" [] c.time [] (by decide) htime Attrs.nil
    simpa using this
  unfold caseElem
  cases c.kind with
  | success =>
    have := Elem.empty "testcase" _ _ (by decide) (by decide) ha
    simpa [List.append_assoc] using this
  | error =>
    have hb : Body (nl 2 ++ (problemElem "error" c ++ (nl 1 ++ []))) :=
      nl_body 2 _ (Body.elem _ _ (problemElem_ok "error" c (by decide)) (nl_body 1 _ Body.nil))
    have := Elem.full "testcase" _ _ _ (by decide) (by decide) ha hb
    simpa [List.append_assoc, lit] using this
  | failure =>
    have hb : Body (nl 2 ++ (problemElem "failure" c ++ (nl 1 ++ []))) :=
      nl_body 2 _ (Body.elem _ _ (problemElem_ok "failure" c (by decide)) (nl_body 1 _ Body.nil))
    have := Elem.full "testcase" _ _ _ (by decide) (by decide) ha hb
    simpa [List.append_assoc, lit] using this

theorem cases_body : ∀ (cs : List Case) (rest : Str), (∀ c ∈ cs, ∀ x ∈ c.time, xmlChar x = true) → Body rest →
    Body (cs.flatMap (fun c => nl 1 ++ caseElem c) ++ rest)
  | [], rest, _, hr => by simpa using hr
  | c :: cs, rest, h, hr => by
    have ih := cases_body cs rest (fun x hx => h x (by simp [hx])) hr
    rw [List.flatMap_cons, List.append_assoc, List.append_assoc]
    exact nl_body 1 _ (Body.elem _ _ (caseElem_ok c (h c (by simp))) ih)

/-- **C17_wellformed** — for every recorded history and every string in test names, exception
messages and tracebacks (the whole code-point range, incl. NUL, control characters, lone surrogates,
`<&>"'`, `]]>`), every report file is a well-formed element of the XML grammar, all its characters
and character references denoting XML `Char`s.  (`host`, the times and the time stamp come from the
platform; they are assumed to consist of XML characters.) -/
theorem C17_wellformed (s : Suite) (host time stamp : Str)
    (hh : ∀ c ∈ host, xmlChar c = true) (ht : ∀ c ∈ time, xmlChar c = true) (hs : ∀ c ∈ stamp, xmlChar c = true)
    (hct : ∀ c ∈ s.cases, ∀ x ∈ c.time, xmlChar x = true) :
    Elem (renderSuite s host time stamp) := by
  have ha : Attrs ["tests", "errors", "failures", "hostname", "name", "time", "timestamp"]
      (attr "tests" (Channel.renderNat s.cases.length) ++ (attr "errors" (Channel.renderNat (nErrors s)) ++
        (attr "failures" (Channel.renderNat (nFailures s)) ++ (attr "hostname" host ++
          (attr "name" (sanitize s.name) ++ (attr "time" time ++ attr "timestamp" stamp)))))) := by
    apply attr_ok _ _ _ _ (by decide) (renderNat_xmlChar _)
    apply attr_ok _ _ _ _ (by decide) (renderNat_xmlChar _)
    apply attr_ok _ _ _ _ (by decide) (renderNat_xmlChar _)
    apply attr_ok _ _ _ _ (by decide) hh
    apply attr_ok _ _ _ _ (by decide) (sanitize_xmlChar _)
    apply attr_ok _ _ _ _ (by decide) ht
    have := attr_ok "timestamp" [] stamp [] (by decide) hs Attrs.nil
    simpa using this
  have hempty : ∀ t : String, NameOk t → Elem (lit ("<" ++ t ++ " />")) := by
    intro t htn
    have := Elem.empty t [] [] htn (by decide) Attrs.nil
    simpa [lit, List.append_assoc] using this
  have hb : Body (nl 1 ++ (lit "<properties />" ++ (s.cases.flatMap (fun c => nl 1 ++ caseElem c) ++
      (nl 1 ++ (lit "<system-out />" ++ (nl 1 ++ (lit "<system-err />" ++ (nl 0 ++ [])))))))) := by
    apply nl_body
    apply Body.elem _ _ (hempty "properties" (by decide))
    apply cases_body _ _ hct
    apply nl_body
    apply Body.elem _ _ (hempty "system-out" (by decide))
    apply nl_body
    apply Body.elem _ _ (hempty "system-err" (by decide))
    exact nl_body 0 _ Body.nil
  have := Elem.full "testsuite" _ _ _ (by decide) (by decide) ha hb
  simpa [renderSuite, List.append_assoc, lit] using this

/-! ### the reports agree with the run -/

/-- the cases filed under suite `n` -/
def casesOf (ss : List Suite) (n : Str) : List Case :=
  match ss with
  | [] => []
  | s :: rest => if s.name = n then s.cases else casesOf rest n

theorem casesOf_record (ss : List Suite) (n m : Str) (c : Case) :
    casesOf (record ss n c) m = if m = n then casesOf ss m ++ [c] else casesOf ss m := by
  induction ss with
  | nil =>
    simp only [record, casesOf]
    by_cases h : m = n
    · simp [h]
    · have : ¬ n = m := fun e => h e.symm
      simp [h, this]
  | cons s rest ih =>
    simp only [record]
    by_cases hs : s.name = n
    · simp only [hs, if_true, casesOf]
      by_cases h : m = n
      · simp [h]
      · have : ¬ n = m := fun e => h e.symm
        simp [h, this, hs]
    · simp only [hs, if_false, casesOf]
      by_cases hsm : s.name = m
      · have : ¬ m = n := fun e => hs (hsm.trans e)
        simp [hsm, this]
      · simp [hsm, ih]

/-- **C17_each_once / C17_own_name** — after any history of result events, the cases filed under a
suite are exactly the events whose test belongs to that suite, once each, in order, each carrying the
class name and test name of its own test (for a failing subtest: the class and method of the test it
belongs to, followed by the subtest's description). -/
theorem C17_each_once (evs : List (TestObj × Case)) (n : Str) :
    casesOf (evs.foldl (fun ss p => record ss (parseNames p.1).1
        { p.2 with className := (parseNames p.1).2.2, name := (parseNames p.1).2.1 }) []) n
      = (evs.filter (fun p => (parseNames p.1).1 = n)).map
          (fun p => { p.2 with className := (parseNames p.1).2.2, name := (parseNames p.1).2.1 }) := by
  suffices h : ∀ (ss : List Suite), casesOf (evs.foldl (fun ss p => record ss (parseNames p.1).1
        { p.2 with className := (parseNames p.1).2.2, name := (parseNames p.1).2.1 }) ss) n
      = casesOf ss n ++ (evs.filter (fun p => (parseNames p.1).1 = n)).map
          (fun p => { p.2 with className := (parseNames p.1).2.2, name := (parseNames p.1).2.1 }) by
    simpa [casesOf] using h []
  induction evs with
  | nil => intro ss; simp
  | cons p ps ih =>
    intro ss
    simp only [List.foldl_cons]
    rw [ih, casesOf_record]
    by_cases h : n = (parseNames p.1).1
    · have : (parseNames p.1).1 = n := h.symm
      simp [h, List.filter_cons]
    · have : ¬ (parseNames p.1).1 = n := fun e => h e.symm
      simp [h, this, List.filter_cons]

def caseChildTag (c : Case) : Option String :=
  match c.kind with | .success => none | .error => some "error" | .failure => some "failure"
def caseChildren (c : Case) : Nat := match c.kind with | .success => 0 | _ => 1

/-- **C17_counts** — the suite attributes are the numbers of the elements written: `tests` = number of
`testcase` elements, `errors` / `failures` = number of cases rendered with an `error` / `failure`
child (each such case has exactly one). -/
theorem C17_counts (s : Suite) :
    (s.cases.map caseChildren).sum = nErrors s + nFailures s ∧
    nErrors s = (s.cases.filter (fun c => caseChildTag c = some "error")).length ∧
    nFailures s = (s.cases.filter (fun c => caseChildTag c = some "failure")).length := by
  refine ⟨?_, ?_, ?_⟩
  · unfold nErrors nFailures
    induction s.cases with
    | nil => rfl
    | cons c cs ih =>
      simp only [List.map_cons, List.sum_cons, List.filter_cons, ih]
      cases h : c.kind <;> simp [caseChildren, h] <;> omega
  · unfold nErrors
    congr 1
    apply List.filter_congr
    intro c _
    cases h : c.kind <;> simp [caseChildTag, h]
  · unfold nFailures
    congr 1
    apply List.filter_congr
    intro c _
    cases h : c.kind <;> simp [caseChildTag, h]

/-- the own-name clause, spelled out for a failing subtest -/
theorem C17_subtest_name (m c meth desc : Str) :
    parseNames (.sub m c meth desc) = (m ++ [46] ++ c, meth ++ [32] ++ desc, m ++ [46] ++ c) ∧
    (parseNames (.sub m c meth desc)).2.2 = (parseNames (.unit m c meth)).2.2 := ⟨rfl, rfl⟩

-- non-vacuity: a message with NUL, a lone surrogate, '<', ']]>' and an astral character
example : escText (sanitize [0, 55296, 60, 93, 93, 62, 128512]) =
    lit "&#65533;&#65533;&lt;]]&gt;&#128512;" := by decide

end Ztr.Xml
