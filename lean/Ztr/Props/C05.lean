import Ztr.Lemmas.Result
import Ztr.Props.C10
import Ztr.Model.Runner
/-! # C05 — per-test layer hooks bracket every test: bases first, mirrored, balanced -/
namespace Ztr.Result
open Ztr.Proto

theorem startTest_spec (c : Cfg) (t : TestDef) (s : RS) (hb : Between s) :
    Running (startTest c t s) ∧
    (startTest c t s).evs = s.evs ++ c.hooksUp.map (fun l => REv.hookSetUp l true) ∧
    (startTest c t s).interrupted = s.interrupted ∧ (startTest c t s).captured = c.buffer := by
  simp [startTest, callHooksUp, setUpStreams, hb.captured]
  exact ⟨hb.aborted, rfl, rfl⟩

theorem skipFallback_spec (c : Cfg) (t : TestDef) (s : RS) (hb : Between s) :
    Running (skipFallback c t s) ∧
    (skipFallback c t s).evs = s.evs ++ c.hooksUp.map (fun l => REv.hookSetUp l true) ∧
    (skipFallback c t s).captured = false ∧ (skipFallback c t s).interrupted = s.interrupted := by
  simp [skipFallback, callHooksUp, hb.captured]
  exact ⟨hb.aborted, rfl, rfl⟩

theorem stopTest_spec (c : Cfg) (s : RS) (hr : Running s) (hcap : c.buffer = false → s.captured = false) :
    Between (stopTest c s) ∧
    (stopTest c s).evs = s.evs ++ c.hooksDown.map (fun l => REv.hookTearDown l true) ∧
    (stopTest c s).interrupted = s.interrupted := by
  have hc := restore_captured c s hcap
  refine ⟨⟨?_, rfl, ?_⟩, ?_, rfl⟩
  · simp [stopTest, callHooksDown, restoreStreams, hr.aborted, hr.hasTestState]
  · simpa [stopTest, callHooksDown] using hc
  · simp only [stopTest, callHooksDown, restore_evs, hc, Bool.not_false]

/-- the capture buffers are only ever installed under `--buffer` -/
def CapOk (c : Cfg) (s : RS) : Prop := c.buffer = false → s.captured = false

theorem capOk_step (c : Cfg) (t : TestDef) (s : RS) (op : Op) (h : CapOk c s) (hr : Running s)
    (hop : Mid op ∨ Final op) : CapOk c (step c t s op) := by
  intro hb
  have hs := h hb
  unfold step
  simp only [hr.aborted, Bool.false_eq_true, if_false]
  cases op with
  | startTest => simp [Mid, Final] at hop
  | stopTest => simp [Mid, Final] at hop
  | raiseInterrupt => simp [Mid, Final] at hop
  | addSubTest e =>
    cases e <;> simp [bad, stopIf, record, restoreStreams, RS.emit, hb, hs, hr.hasStartTime]
  | _ =>
    simp [writeToks, bad, stopIf, record, restoreStreams, noteSkip, RS.emit, hb, hs, hr.hasStartTime,
      hr.hasTestState]

theorem capOk_foldl (c : Cfg) (t : TestDef) : ∀ (ops : List Op) (s : RS), CapOk c s → Running s →
    (∀ op ∈ ops, Mid op ∨ Final op) → CapOk c (ops.foldl (step c t) s)
  | [], _, h, _, _ => h
  | op :: ops, s, h, hr, hops => by
    simp only [List.foldl_cons]
    have e := ext_step_mid c t s op hr (hops op (by simp))
    exact capOk_foldl c t ops _ (capOk_step c t s op h hr (hops op (by simp))) (hr.of_ext e)
      (fun o ho => hops o (by simp [ho]))

/-- the hook events of a list of events -/
def hookEvs (l : List REv) : List REv := l.filter isHook

theorem hookEvs_of_noHooks (l : List REv) (h : ∀ e ∈ l, isHook e = false) : hookEvs l = [] := by
  unfold hookEvs
  induction l with
  | nil => rfl
  | cons x xs ih =>
    simp [h x (by simp), ih (fun e he => h e (by simp [he]))]

theorem between_interrupt (c : Cfg) (t : TestDef) (s : RS) (h : Between s) :
    Between (step c t s .raiseInterrupt) ∧ (step c t s .raiseInterrupt).evs = s.evs := by
  have e : step c t s .raiseInterrupt = { s with interrupted := true } := by
    simp [step, h.aborted]
  rw [e]
  exact ⟨⟨h.aborted, h.hasTestState, h.captured⟩, rfl⟩

theorem run_shape' (t : TestDef) (h : t.decoSkip = false) :
    ∃ ops tail, run t = .startTest :: (ops ++ .stopTest :: tail) ∧ (∀ op ∈ ops, Mid op ∨ Final op) ∧
      (tail = [] ∨ tail = [.raiseInterrupt]) := by
  obtain ⟨mid, fin, tail, hrun, hmid, hfin, htail⟩ := run_shape t h
  refine ⟨mid ++ fin, tail, hrun, ?_, htail⟩
  intro op hop
  rcases List.mem_append.1 hop with h | h
  · exact Or.inl (hmid op h)
  · rcases hfin with rfl | ⟨f, rfl, hf⟩
    · simp at h
    · simp at h; subst h; exact Or.inr hf

/-- **runTest_bracket** — one test, started between two tests: the events it adds are
`tstart`, the `testSetUp` hooks of its layer stack (bases first), events that are not hook calls,
the `testTearDown` hooks in reverse, `tend`; every hook sees the original std streams; the result is
again a between-tests state (not aborted, streams restored). -/
theorem runTest_bracket (c : Cfg) (t : TestDef) (s : RS) (hb : Between s) :
    ∃ mid, (runTest c s t).evs = s.evs ++ [.tstart t.id] ++ c.hooksUp.map (fun l => REv.hookSetUp l true) ++ mid
        ++ c.hooksDown.map (fun l => REv.hookTearDown l true) ++ [.tend t.id] ∧
      (∀ e ∈ mid, isHook e = false) ∧ Between (runTest c s t) := by
  unfold runTest
  have hb0 : Between (s.emit (.tstart t.id)) := ⟨hb.aborted, hb.hasTestState, hb.captured⟩
  cases hd : t.decoSkip
  · -- the ordinary protocol
    obtain ⟨ops, tail, hrun, hops, htail⟩ := run_shape' t hd
    rw [hrun, List.foldl_cons, List.foldl_append, List.foldl_cons]
    have e1 : step c t (s.emit (.tstart t.id)) .startTest = startTest c t (s.emit (.tstart t.id)) := by
      simp [step, hb0.aborted]
    rw [e1]
    obtain ⟨hr1, hev1, _, hcap1⟩ := startTest_spec c t _ hb0
    have hext := ext_foldl_mid c t ops _ hr1 hops
    have hr2 := hr1.of_ext hext
    have hcap2 := capOk_foldl c t ops _ (fun hbf => by rw [hcap1]; exact hbf) hr1 hops
    obtain ⟨new, hnew, hnoh⟩ := hext.evs
    have e2 : step c t (ops.foldl (step c t) (startTest c t (s.emit (.tstart t.id)))) .stopTest
        = stopTest c (ops.foldl (step c t) (startTest c t (s.emit (.tstart t.id)))) := by
      simp [step, hr2.aborted]
    rw [e2]
    obtain ⟨hb3, hev3, _⟩ := stopTest_spec c _ hr2 hcap2
    -- the tail: nothing or the interrupt marker
    have htl : Between (tail.foldl (step c t) (stopTest c (ops.foldl (step c t) (startTest c t (s.emit (.tstart t.id)))))) ∧
        (tail.foldl (step c t) (stopTest c (ops.foldl (step c t) (startTest c t (s.emit (.tstart t.id)))))).evs
          = (stopTest c (ops.foldl (step c t) (startTest c t (s.emit (.tstart t.id))))).evs := by
      rcases htail with rfl | rfl
      · exact ⟨hb3, rfl⟩
      · simp only [List.foldl_cons, List.foldl_nil]
        exact between_interrupt c t _ hb3
    obtain ⟨hb4, hev4⟩ := htl
    have hem : ∀ (x : RS) (e : REv), (x.emit e).evs = x.evs ++ [e] := fun _ _ => rfl
    refine ⟨new, ?_, hnoh, ⟨hb4.aborted, hb4.hasTestState, hb4.captured⟩⟩
    rw [hem, hev4, hev3, hnew, hev1, hem]
  · -- skipped by a decorator: `addSkip`, `stopTest`
    rw [run_decoSkip t hd]
    simp only [List.foldl_cons, List.foldl_nil]
    have e1 : step c t (s.emit (.tstart t.id)) .addSkip = noteSkip t.id (skipFallback c t (s.emit (.tstart t.id))) := by
      simp [step, hb0.aborted, hb0.hasTestState]
    rw [e1]
    obtain ⟨hr1, hev1, hcap1, _⟩ := skipFallback_spec c t _ hb0
    have hext := ext_noteSkip t.id (skipFallback c t (s.emit (.tstart t.id)))
    have hr2 := hr1.of_ext hext
    have hcap2 : c.buffer = false → (noteSkip t.id (skipFallback c t (s.emit (.tstart t.id)))).captured = false :=
      fun _ => hcap1
    have e2 : step c t (noteSkip t.id (skipFallback c t (s.emit (.tstart t.id)))) .stopTest
        = stopTest c (noteSkip t.id (skipFallback c t (s.emit (.tstart t.id)))) := by
      simp [step, hr2.aborted]
    rw [e2]
    obtain ⟨hb3, hev3, _⟩ := stopTest_spec c _ hr2 hcap2
    have hem : ∀ (x : RS) (e : REv), (x.emit e).evs = x.evs ++ [e] := fun _ _ => rfl
    have hns : (noteSkip t.id (skipFallback c t (s.emit (.tstart t.id)))).evs
        = (skipFallback c t (s.emit (.tstart t.id))).evs ++ [.skipped t.id] := rfl
    refine ⟨[.skipped t.id], ?_, by simp [isHook], ⟨hb3.aborted, hb3.hasTestState, hb3.captured⟩⟩
    rw [hem, hev3, hns, hev1, hem]

/-- every per-test hook call so far saw the original std streams -/
def HooksOrig (evs : List REv) : Prop :=
  ∀ e ∈ evs, (∀ l b, e = REv.hookSetUp l b → b = true) ∧ (∀ l b, e = REv.hookTearDown l b → b = true)

theorem runTest_hooksOrig (c : Cfg) (t : TestDef) (s : RS) (hb : Between s) (ho : HooksOrig s.evs) :
    HooksOrig (runTest c s t).evs := by
  obtain ⟨mid, hev, hmid, _⟩ := runTest_bracket c t s hb
  rw [hev]
  intro e he
  simp only [List.mem_append, List.mem_map, List.mem_cons, List.mem_nil_iff, or_false] at he
  rcases he with ((((he | he) | ⟨l, _, rfl⟩) | he) | ⟨l, _, rfl⟩) | he
  · exact ho e he
  · subst he; exact ⟨(by intro l b h; cases h), (by intro l b h; cases h)⟩
  · exact ⟨(by intro l b h; cases h; rfl), (by intro l b h; cases h)⟩
  · have := hmid e he
    constructor
    · intro l b h; subst h; simp [isHook] at this
    · intro l b h; subst h; simp [isHook] at this
  · exact ⟨(by intro l b h; cases h), (by intro l b h; cases h; rfl)⟩
  · subst he; exact ⟨(by intro l b h; cases h), (by intro l b h; cases h)⟩

/-- **C05_sequence / C04_no_abort (TestResult level) / C13_restored_between_tests** — for every
sequence of tests with every outcome script, `--buffer` on or off, stop-on-error or not: the
`TestResult` never gets into a state Python could not continue from, every test leaves the
between-tests state (std streams restored), and every per-test layer hook saw the original streams. -/
theorem runTests_between (c : Cfg) : ∀ (ts : List TestDef) (s : RS), Between s → HooksOrig s.evs →
    Between (runTests c ts s) ∧ HooksOrig (runTests c ts s).evs
  | [], s, hb, ho => ⟨hb, ho⟩
  | t :: ts, s, hb, ho => by
    unfold runTests
    split
    · exact ⟨hb, ho⟩
    · obtain ⟨_, _, _, hb'⟩ := runTest_bracket c t s hb
      exact runTests_between c ts _ hb' (runTest_hooksOrig c t s hb ho)

theorem between_init : Between ({} : RS) := ⟨rfl, rfl, rfl⟩

/-- **C05_bracket** (restated on the hook projection): a test adds exactly the `testSetUp` calls of
`hooksUp` in order, then — after all of its own code — the `testTearDown` calls of `hooksDown`. -/
theorem C05_bracket (c : Cfg) (t : TestDef) (s : RS) (hb : Between s) :
    hookEvs (runTest c s t).evs = hookEvs s.evs ++ c.hooksUp.map (fun l => REv.hookSetUp l true)
      ++ c.hooksDown.map (fun l => REv.hookTearDown l true) := by
  obtain ⟨mid, hev, hmid, _⟩ := runTest_bracket c t s hb
  rw [hev]
  unfold hookEvs
  simp only [List.filter_append]
  have h1 : List.filter isHook mid = [] := hookEvs_of_noHooks mid hmid
  have h2 : ∀ l : List Nat, (l.map (fun l => REv.hookSetUp l true)).filter isHook = l.map (fun l => REv.hookSetUp l true) := by
    intro l; induction l with
    | nil => rfl
    | cons x xs ih => simp [isHook, ih]
  have h3 : ∀ l : List Nat, (l.map (fun l => REv.hookTearDown l true)).filter isHook = l.map (fun l => REv.hookTearDown l true) := by
    intro l; induction l with
    | nil => rfl
    | cons x xs ih => simp [isHook, ih]
  simp [h1, h2, h3, isHook]

end Ztr.Result

namespace Ztr.Runner
open Ztr.Layers Ztr.Result

/-- **C05_bases_first** — the `testSetUp` order of a layer's `TestResult` puts base layers before
derived ones, for every well-founded layer graph. -/
theorem C05_bases_first (w : World) (o : Opts) (hwf : WF w.graph) (l : Nat) {x b : Nat}
    (hb : b ∈ closure w.graph x) (hne : b ≠ x)
    (hbu : b ∈ (resultCfg w o l).hooksUp) (hxu : x ∈ (resultCfg w o l).hooksUp) :
    [b, x].Sublist (resultCfg w o l).hooksUp := by
  unfold resultCfg at *
  simp only [List.mem_filter] at hbu hxu
  have hsub := C10_bases_first hwf (gather w.graph l) hb hne
    (((C10_once w.graph (gather w.graph l)).2 b).1 hbu.1) (((C10_once w.graph (gather w.graph l)).2 x).1 hxu.1)
  have := hsub.filter (fun y => (w.info y).hasTestSetUp)
  simpa [List.filter_cons, hbu.2, hxu.2] using this

/-- **C05_mirrored** — `testTearDown` runs over the same layer order reversed. -/
theorem C05_mirrored (w : World) (o : Opts) (l : Nat) :
    (resultCfg w o l).hooksDown
      = ((orderByBases w.graph (gather w.graph l)).filter (fun x => (w.info x).hasTestTearDown)).reverse := by
  simp [resultCfg, List.filter_reverse]

/-- **C05_outside_untouched** — only layers of the test's own stack are ever called. -/
theorem C05_outside_untouched (w : World) (o : Opts) (l x : Nat)
    (h : x ∈ (resultCfg w o l).hooksUp ∨ x ∈ (resultCfg w o l).hooksDown) : x ∈ closure w.graph l := by
  unfold resultCfg at h
  simp only [List.mem_filter, List.mem_reverse] at h
  rcases h with h | h
  · exact ((C10_once w.graph (gather w.graph l)).2 x).1 h.1
  · exact ((C10_once w.graph (gather w.graph l)).2 x).1 h.1

end Ztr.Runner

namespace Ztr.Result
open Ztr.Proto
-- non-vacuity: a decorator-skipped test and a test with two failing subtests under --buffer
example : hookEvs (runTests { buffer := true, stopOnError := false, hooksUp := [1, 2], hooksDown := [2, 1] }
    [{ id := 7, decoSkip := true }, { id := 8, subs := [{ exc := some .fail }, { exc := some .error }] }] {}).evs
    = [.hookSetUp 1 true, .hookSetUp 2 true, .hookTearDown 2 true, .hookTearDown 1 true,
       .hookSetUp 1 true, .hookSetUp 2 true, .hookTearDown 2 true, .hookTearDown 1 true] := by decide
end Ztr.Result
