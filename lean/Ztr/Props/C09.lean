import Ztr.Model.Suites
import Ztr.Props.C08
/-! # C09 — nearest layer/level declaration wins; level and unit switches -/
namespace Ztr.Suites

/-- the declarations met on the way from a leaf outwards (own declaration first) -/
abbrev Chain := List (Option Int × Option Nat)

mutual
def chains (outer : Chain) : Suite → List (Nat × Bool × Chain)
  | .leaf id lvl lyr => [(id, false, (lvl, lyr) :: outer)]
  | .startup id => [(id, true, outer)]
  | .node lvl lyr kids => chainsList ((lvl, lyr) :: outer) kids
def chainsList (outer : Chain) : List Suite → List (Nat × Bool × Chain)
  | [] => []
  | k :: ks => chains outer k ++ chainsList outer ks
end

/-- the first declaration found going outwards, else the default -/
def nearest {α : Type} (chain : List (Option α)) (d : α) : α := (chain.findSome? id).getD d

theorem nearest_cons {α : Type} (x : Option α) (chain : List (Option α)) (d : α) :
    nearest (x :: chain) d = x.getD (nearest chain d) := by
  cases x <;> simp [nearest, List.findSome?]

def resolve (d0 : Int) (y0 : Nat) (e : Nat × Bool × Chain) : Entry :=
  (e.1, nearest (e.2.2.map (·.1)) d0, if e.2.1 then none else some (nearest (e.2.2.map (·.2)) y0))

mutual
theorem flatten_chains (d0 : Int) (y0 : Nat) (outer : Chain) : ∀ s : Suite,
    flatten (nearest (outer.map (·.1)) d0) (nearest (outer.map (·.2)) y0) s
      = (chains outer s).map (resolve d0 y0)
  | .leaf id lvl lyr => by simp [flatten, chains, resolve, nearest_cons]
  | .startup id => by simp [flatten, chains, resolve]
  | .node lvl lyr kids => by
    have := flattenList_chains d0 y0 ((lvl, lyr) :: outer) kids
    simp only [List.map_cons, nearest_cons] at this
    simp [flatten, chains, this]
theorem flattenList_chains (d0 : Int) (y0 : Nat) (outer : Chain) : ∀ ks : List Suite,
    flattenList (nearest (outer.map (·.1)) d0) (nearest (outer.map (·.2)) y0) ks
      = (chainsList outer ks).map (resolve d0 y0)
  | [] => by simp [flattenList, chainsList]
  | k :: ks => by
    simp [flattenList, chainsList, flatten_chains d0 y0 outer k, flattenList_chains d0 y0 outer ks]
end

/-- **C09_nearest** — every leaf of a suite tree of any depth appears exactly once, in order, with
exactly one level and one layer: the declaration nearest to it (on the test, else the innermost
enclosing suite, outwards), defaulting to level 1 and the unit-test layer. -/
theorem C09_nearest (unit : Nat) (s : Suite) :
    flatten 1 unit s = (chains [] s).map (resolve 1 unit) := by
  have := flatten_chains 1 unit [] s
  simpa [nearest] using this

/-- **C09_eligible** — the level switch. -/
theorem C09_eligible (a l : Int) : eligible a none l = true ↔ a ≤ 0 ∨ l ≤ a := by
  simp [eligible]

theorem C09_only_level (a k l : Int) : eligible a (some k) l = true ↔ l = k := by
  simp [eligible]

/-- **C09_all** — after normalisation `--all` makes every level up to `sys.maxsize` eligible
(the bound is forced by the code: `at_level = sys.maxsize`; D14 is the excluded point). -/
theorem C09_all {P : Type} (unitPat : P) (o : Opts P) (h : o.all = true) (honly : o.onlyLevel = none)
    (l : Int) (hl : l ≤ maxsize) :
    eligible (normalize unitPat o).atLevel (normalize unitPat o).onlyLevel l = true := by
  have h1 : (normalize unitPat o).atLevel = maxsize := by simp [normalize, h]
  have h2 : (normalize unitPat o).onlyLevel = none := by simp [normalize, honly]
  rw [h1, h2, C09_eligible]; exact Or.inr hl

theorem C09_D14_witness : eligible maxsize none (maxsize + 1) = false := by decide

/-- **C09_unit_both** — `-u -f` is the same as neither. -/
theorem C09_unit_both {P : Type} (unitPat : P) (o : Opts P) :
    normalize unitPat { o with unit := true, nonUnit := true }
      = normalize unitPat { o with unit := false, nonUnit := false } := by
  simp [normalize]

section
variable {P N : Type} [DecidableEq N]

/-- **C09_non_unit** — `-f` drops the unit-test layer. -/
theorem C09_non_unit (m : P → N → Bool) (dot : N → Bool) (isUnit : N → Bool) (o : Opts P)
    (resume : Option N) (n : N) (hn : isUnit n = true) (hf : o.nonUnit = true) :
    layerKept m dot isUnit o resume n = false := by
  unfold layerKept
  simp only [hn, hf, if_true, Bool.not_true, Bool.false_eq_true, if_false]
  cases resume <;> simp

/-- **C09_unit** — with `-u` (alone) a layer is kept iff its name is matched by the unit-layer
pattern: exactly the unit-test layer, provided no other layer name matches that regex (D18). -/
theorem C09_unit (m : P → N → Bool) (dot : N → Bool) (isUnit : N → Bool) (unitPat : P) (o : Opts P)
    (hu : o.unit = true) (hf : o.nonUnit = false) (n : N) :
    layerKept m dot isUnit (normalize unitPat o) none n = m unitPat n := by
  have hl : (normalize unitPat o).layer = [(false, unitPat)] := by simp [normalize, hu, hf]
  have hnu : (normalize unitPat o).nonUnit = false := by simp [normalize, hf]
  unfold layerKept
  rw [hl]
  have hacc : Filter.accept m dot [(false, unitPat)] n = m unitPat n := by
    simp [Filter.accept, Filter.split]
  simp only [hnu, List.isEmpty_cons, Bool.false_eq_true, if_false, hacc, Bool.not_false, if_true]
  cases isUnit n <;> simp

/-- **C09_neither** — without `-u`, `-f` and `--layer` every layer is kept. -/
theorem C09_neither (m : P → N → Bool) (dot : N → Bool) (isUnit : N → Bool) (o : Opts P)
    (hf : o.nonUnit = false) (hl : o.layer = []) (n : N) :
    layerKept m dot isUnit o none n = true := by
  unfold layerKept
  simp [hf, hl]

/-- **C09_child** — a child process keeps only its `--resume-layer`. -/
theorem C09_child (m : P → N → Bool) (dot : N → Bool) (isUnit : N → Bool) (o : Opts P) (r n : N)
    (h : layerKept m dot isUnit o (some r) n = true) : n = r := by
  unfold layerKept at h
  simp at h
  exact h.2
end

-- non-vacuity: a three-level tree with declarations at every depth
example : flatten 1 0 (.node (some 2) none [.leaf 10 none none, .node none (some 5) [.leaf 11 (some 3) none,
    .leaf 12 none (some 7)], .startup 13])
    = [(10, 2, some 0), (11, 3, some 5), (12, 2, some 7), (13, 2, none)] := by decide

end Ztr.Suites
