import Ztr.Model.Discovery
import Ztr.Lemmas.Sort
/-! # C14 — discovery loads exactly the matching test modules, once, in sorted order -/
namespace Ztr.Discovery
open Ztr.Bytecode

/-! ### each file once -/

theorem dedup_spec : ∀ (seen l : List (List Name)),
    (dedup seen l).Nodup ∧ ∀ p, p ∈ dedup seen l ↔ p ∈ l ∧ p ∉ seen
  | _, [] => by simp [dedup]
  | seen, q :: qs => by
    unfold dedup
    by_cases h : seen.contains q = true
    · simp only [h, if_true]
      obtain ⟨h1, h2⟩ := dedup_spec seen qs
      refine ⟨h1, fun p => ?_⟩
      rw [h2]
      constructor
      · rintro ⟨a, b⟩; exact ⟨List.mem_cons_of_mem _ a, b⟩
      · rintro ⟨a, b⟩
        rcases List.mem_cons.1 a with rfl | a'
        · exact absurd (by simpa using h) b
        · exact ⟨a', b⟩
    · simp only [h, Bool.false_eq_true, if_false]
      obtain ⟨h1, h2⟩ := dedup_spec (q :: seen) qs
      have hq : q ∉ seen := by simpa using h
      refine ⟨List.nodup_cons.2 ⟨fun hm => ((h2 q).1 hm).2 (by simp), h1⟩, fun p => ?_⟩
      simp only [List.mem_cons, h2]
      constructor
      · rintro (rfl | ⟨a, b⟩)
        · exact ⟨Or.inl rfl, hq⟩
        · exact ⟨Or.inr a, fun hs => b (Or.inr hs)⟩
      · rintro ⟨rfl | a, b⟩
        · exact Or.inl rfl
        · by_cases e : p = q
          · exact Or.inl e
          · exact Or.inr ⟨a, by rintro (e' | hs); exact e e'; exact b hs⟩

/-- **C14_once** — however the search paths overlap, nest or repeat, no file is yielded twice, and
nothing a walk found is lost. -/
theorem C14_once (e : Env) (roots : List (List Name × Tree)) :
    (findTestFiles e roots).Nodup ∧
    ∀ p, p ∈ findTestFiles e roots ↔
      p ∈ roots.flatMap (fun r => (findIn e (r.1.getLast?.getD []) r.2).map (fun q => r.1 ++ q)) := by
  unfold findTestFiles
  obtain ⟨h1, h2⟩ := dedup_spec [] (roots.flatMap (fun r => (findIn e (r.1.getLast?.getD []) r.2).map (fun q => r.1 ++ q)))
  exact ⟨h1, fun p => by rw [h2]; simp⟩

/-! ### independence of the enumeration order -/

theorem nameLe_trans (a b c : Name) : nameLe a b = true → nameLe b c = true → nameLe a c = true := by
  simp only [nameLe, decide_eq_true_eq]; exact List.le_trans
theorem nameLe_total (a b : Name) : (nameLe a b || nameLe b a) = true := by
  simp only [nameLe, Bool.or_eq_true, decide_eq_true_eq]; exact List.le_total a b
theorem nameLe_antisymm (a b : Name) : nameLe a b = true → nameLe b a = true → a = b := by
  simp only [nameLe, decide_eq_true_eq]; exact List.le_antisymm

/-- **C14_enum_independent (files)** — the files a directory contributes do not depend on the order
in which the file system enumerates them. -/
theorem C14_enum_independent_files (e : Env) (base : Name) {files files' : List Name} (h : files.Perm files') :
    dirWinners e base files = dirWinners e base files' := by
  unfold dirWinners
  rw [PySort.isort_perm_eq nameLe_trans nameLe_total nameLe_antisymm h]

theorem findSubs_map (e : Env) : ∀ subs : List (Name × Tree),
    findSubs e subs = subs.map (fun p => (p.1, if enters e p.1 then (findIn e p.1 p.2).map (fun q => p.1 :: q) else []))
  | [] => by simp [findSubs]
  | (n, t) :: rest => by simp [findSubs, findSubs_map e rest]

/-- **C14_enum_independent (directories)** — nor on the order in which sub-directories are
enumerated (their names are distinct). -/
theorem C14_enum_independent_dirs (e : Env) (base : Name) (files : List Name) {subs subs' : List (Name × Tree)}
    (h : subs.Perm subs') (hnd : (subs.map (·.1)).Nodup) :
    findIn e base (.dir files subs) = findIn e base (.dir files subs') := by
  simp only [findIn]
  congr 2
  rw [findSubs_map, findSubs_map]
  have hp := h.map (fun (p : Name × Tree) => (p.1, if enters e p.1 then (findIn e p.1 p.2).map (fun q => p.1 :: q) else []))
  apply List.Perm.eq_of_pairwise (le := fun a b => resLe a b = true)
  · intro a b ha hb h1 h2
    have ha' := (PySort.mem_isort resLe _ a).1 ha
    have hb' := (PySort.mem_isort resLe _ b).1 hb
    have hname : a.1 = b.1 := by
      simp only [resLe, decide_eq_true_eq] at h1 h2; exact List.le_antisymm h1 h2
    obtain ⟨x, hx, rfl⟩ := List.mem_map.1 ha'
    obtain ⟨y, hy, rfl⟩ := List.mem_map.1 hb'
    have hy' : y ∈ subs := h.mem_iff.2 hy
    -- distinct names: x = y
    have : x = y := by
      simp only at hname
      have key : ∀ (l : List (Name × Tree)), (l.map (·.1)).Nodup → ∀ u ∈ l, ∀ v ∈ l, u.1 = v.1 → u = v := by
        intro l
        induction l with
        | nil => intro _ u hu; simp at hu
        | cons w ws ih =>
          intro hn u hu v hv huv
          simp only [List.map_cons, List.nodup_cons] at hn
          rcases List.mem_cons.1 hu with rfl | hu' <;> rcases List.mem_cons.1 hv with rfl | hv'
          · rfl
          · exact absurd (List.mem_map.2 ⟨v, hv', huv.symm⟩) hn.1
          · exact absurd (List.mem_map.2 ⟨u, hu', huv⟩) hn.1
          · exact ih hn.2 u hu' v hv' huv
      exact key subs hnd x hx y hy' hname
    rw [this]
  · exact PySort.isort_pairwise (fun a b c => by simp only [resLe, decide_eq_true_eq]; exact List.le_trans)
      (fun a b => by simp only [resLe, Bool.or_eq_true, decide_eq_true_eq]; exact List.le_total _ _) _
  · exact PySort.isort_pairwise (fun a b c => by simp only [resLe, decide_eq_true_eq]; exact List.le_trans)
      (fun a b => by simp only [resLe, Bool.or_eq_true, decide_eq_true_eq]; exact List.le_total _ _) _
  · exact ((PySort.isort_perm resLe _).trans hp).trans (PySort.isort_perm resLe _).symm

/-! ### exactly the matching files -/

/-- the property's first sentence as an inductive specification -/
inductive Found (e : Env) : Name → Tree → List Name → Prop
  | here {base files subs f} : f ∈ dirWinners e base files → Found e base (.dir files subs) [f]
  | inside {base files subs n t p} : (n, t) ∈ subs → enters e n = true → Found e n t p →
      Found e base (.dir files subs) (n :: p)

mutual
theorem findIn_sound (e : Env) : ∀ (base : Name) (t : Tree) (p : List Name), p ∈ findIn e base t → Found e base t p
  | base, .dir files subs, p, h => by
    simp only [findIn, List.mem_append, List.mem_map, List.mem_flatMap] at h
    rcases h with ⟨f, hf, rfl⟩ | ⟨r, hr, hp⟩
    · exact .here hf
    · have hr' := (PySort.mem_isort resLe _ r).1 hr
      obtain ⟨n, t, q, hm, he, hq, rfl⟩ := findSubs_sound e subs r hr' p hp
      exact .inside hm he hq
theorem findSubs_sound (e : Env) : ∀ (subs : List (Name × Tree)) (r : Name × List (List Name)), r ∈ findSubs e subs →
    ∀ p ∈ r.2, ∃ n t q, (n, t) ∈ subs ∧ enters e n = true ∧ Found e n t q ∧ p = n :: q
  | [], r, h => by simp [findSubs] at h
  | (n, t) :: rest, r, h => by
    simp only [findSubs, List.mem_cons] at h
    rcases h with rfl | h
    · intro p hp
      by_cases he : enters e n = true
      · simp only [he, if_true, List.mem_map] at hp
        obtain ⟨q, hq, rfl⟩ := hp
        exact ⟨n, t, q, by simp, he, findIn_sound e n t q hq, rfl⟩
      · simp [he] at hp
    · intro p hp
      obtain ⟨n', t', q, hm, he, hq, e'⟩ := findSubs_sound e rest r h p hp
      exact ⟨n', t', q, by simp [hm], he, hq, e'⟩
end

theorem findIn_complete (e : Env) : ∀ {base : Name} {t : Tree} {p : List Name}, Found e base t p → p ∈ findIn e base t := by
  intro base t p h
  induction h with
  | here hf =>
    simp only [findIn, List.mem_append, List.mem_map]
    exact Or.inl ⟨_, hf, rfl⟩
  | @inside base files subs n t p hm he _ ih =>
    simp only [findIn, List.mem_append, List.mem_flatMap]
    refine Or.inr ⟨(n, (findIn e n t).map (fun q => n :: q)), ?_, List.mem_map.2 ⟨p, ih, rfl⟩⟩
    rw [PySort.mem_isort, findSubs_map]
    exact List.mem_map.2 ⟨(n, t), hm, by simp [he]⟩

/-- **C14_exact** — a path is yielded for a walked directory **iff** it is one of the matching files
(`dirWinners`: matches the tests pattern, or lies in a package matching it and matches the test-file
pattern; `.py` preferred over `.pyc`) of a directory reached through sub-directories that are
identifiers, not ignored and not in `IGNORE_FOLDERS`. -/
theorem C14_exact (e : Env) (base : Name) (t : Tree) (p : List Name) : p ∈ findIn e base t ↔ Found e base t p :=
  ⟨findIn_sound e base t p, findIn_complete e⟩

/-- what `dirWinners` selects, spelled out -/
theorem C14_winner_spec (e : Env) (base : Name) (files : List Name) (f : Name) :
    f ∈ dirWinners e base files ↔
      f ∈ files ∧ ∃ k, candKey e base (PySort.isort nameLe files) f = some k ∧
        ∀ g ∈ files, candKey e base (PySort.isort nameLe files) g = some k → ¬ g < f := by
  unfold dirWinners
  simp only [List.mem_filter, PySort.mem_isort]
  constructor
  · rintro ⟨hf, h⟩
    cases hk : candKey e base (PySort.isort nameLe files) f with
    | none => simp [hk] at h
    | some k =>
      simp only [hk, Bool.not_eq_true', List.any_eq_false, Bool.and_eq_true, beq_iff_eq, decide_eq_true_eq,
        not_and] at h
      exact ⟨hf, k, rfl, fun g hg hgk => h g ((PySort.mem_isort _ _ _).2 hg) hgk⟩
  · rintro ⟨hf, k, hk, h⟩
    refine ⟨hf, ?_⟩
    simp only [hk, Bool.not_eq_true', List.any_eq_false, Bool.and_eq_true, beq_iff_eq, decide_eq_true_eq, not_and]
    intro g hg hgk
    exact h g ((PySort.mem_isort _ _ _).1 hg) hgk

/-! ### the import gate -/

/-- **C14_import_gate** — a module is imported only under a dotted name that (i) is one of the names
of a yielded file (a search path stripped, the package in front) and (ii) passes `--module`; a name
excluded by the filter is never imported. -/
theorem C14_import_gate (e : Env) (accept : List Name → Bool) (roots : List (List Name × Tree))
    (pkgs : List (List Name)) (m : List Name) (h : m ∈ importedModules e accept roots pkgs) :
    accept m = true ∧ ∃ p ∈ findTestFiles e roots, m ∈ moduleNames e roots pkgs p := by
  unfold importedModules at h
  obtain ⟨p, hp, hm⟩ := List.mem_filterMap.1 h
  exact ⟨List.find?_some hm, p, hp, List.mem_of_find?_eq_some hm⟩

/-- each yielded file is imported at most once (the loop over the search paths ends with the first
accepted name) -/
theorem C14_import_once (e : Env) (accept : List Name → Bool) (roots : List (List Name × Tree))
    (pkgs : List (List Name)) :
    (importedModules e accept roots pkgs).length ≤ (findTestFiles e roots).length := by
  unfold importedModules
  exact List.length_filterMap_le _ _

theorem moduleNamesWith_prefix (e : Env) (roots : List (List Name × Tree)) (pkgs : List (List Name))
    (pkg p m : List Name) (h : m ∈ moduleNamesWith e roots pkgs pkg p) : pkg.isPrefixOf m = true := by
  unfold moduleNamesWith at h
  simp only at h
  obtain ⟨r, _, hr⟩ := List.mem_filterMap.1 h
  split at hr
  · cases hr
  · rename_i f _
    cases hs : stripPyExt e f with
    | none => rw [hs] at hr; cases hr
    | some noext =>
      rw [hs] at hr
      simp only [Option.map_some, Option.some.injEq] at hr
      subst hr
      simp [List.append_assoc]

/-- **C14_module_name_has_package** — every name the `--module` patterns see is an imported dotted
name: it starts with the package of the search path the file was found under (C08 applies the
patterns to this name). -/
theorem C14_module_name_has_package (e : Env) (roots : List (List Name × Tree)) (pkgs : List (List Name))
    (p m : List Name) (h : m ∈ moduleNames e roots pkgs p) :
    (yieldPkg e roots pkgs p).isPrefixOf m = true :=
  moduleNamesWith_prefix e roots pkgs _ p m h

/-! ### `--package` -/

theorem testDirsAux_spec (pre : List ((List Name × Tree) × List Name)) :
    ∀ (ds seen : List (List Name)),
      (∀ r ∈ testDirsAux pre seen ds, r.1.1 ∈ ds ∧ r.1.1 ∉ seen) ∧ ((testDirsAux pre seen ds).map (·.1.1)).Nodup
  | [], seen => by simp [testDirsAux]
  | d :: ds, seen => by
    rw [testDirsAux]
    by_cases hs : seen.contains d = true
    · rw [if_pos hs]
      obtain ⟨h1, h2⟩ := testDirsAux_spec pre ds seen
      exact ⟨fun r hr => ⟨List.mem_cons_of_mem _ (h1 r hr).1, (h1 r hr).2⟩, h2⟩
    · rw [if_neg hs]
      have skip : (∀ r ∈ testDirsAux pre seen ds, r.1.1 ∈ d :: ds ∧ r.1.1 ∉ seen) ∧
          ((testDirsAux pre seen ds).map (·.1.1)).Nodup := by
        obtain ⟨h1, h2⟩ := testDirsAux_spec pre ds seen
        exact ⟨fun r hr => ⟨List.mem_cons_of_mem _ (h1 r hr).1, (h1 r hr).2⟩, h2⟩
      split
      · split
        · obtain ⟨h1, h2⟩ := testDirsAux_spec pre ds (d :: seen)
          refine ⟨?_, ?_⟩
          · intro r hr
            rcases List.mem_cons.1 hr with rfl | hr
            · exact ⟨by simp, by simpa using hs⟩
            · have := h1 r hr
              exact ⟨List.mem_cons_of_mem _ this.1, fun hh => this.2 (List.mem_cons_of_mem _ hh)⟩
          · simp only [List.map_cons, List.nodup_cons]
            refine ⟨?_, h2⟩
            intro hh
            obtain ⟨r, hr, e⟩ := List.mem_map.1 hh
            exact (h1 r hr).2 (by rw [e]; simp)
        · exact skip
      · exact skip

/-- **C14_package_once** — with `-s`, each package directory is walked at most once, however often it
is named, and only directories of the named packages are walked. -/
theorem C14_package_once (roots : List (List Name × Tree)) (pkgs : List (List Name)) (ds : List (List Name)) :
    ((testDirs roots pkgs (some ds)).map (·.1.1)).Nodup ∧ ∀ r ∈ testDirs roots pkgs (some ds), r.1.1 ∈ ds := by
  obtain ⟨h1, h2⟩ := testDirsAux_spec (prefixes roots pkgs) ds []
  exact ⟨h2, fun r hr => (h1 r hr).1⟩

theorem dedup_sub : ∀ (seen l : List (List Name)), ∀ p ∈ dedup seen l, p ∈ l
  | _, [], p, h => by simp [dedup] at h
  | seen, q :: qs, p, h => by
    rw [dedup] at h
    split at h
    · exact List.mem_cons_of_mem _ (dedup_sub seen qs p h)
    · rcases List.mem_cons.1 h with rfl | h
      · simp
      · exact List.mem_cons_of_mem _ (dedup_sub _ qs p h)

/-- **C14_package_restricts** — with `-s`, every file that is loaded lies inside a directory of one of
the named packages: modules outside `--package` are never imported. -/
theorem C14_package_restricts (e : Env) (roots : List (List Name × Tree)) (pkgs : List (List Name))
    (ds : List (List Name)) (p : List Name) (h : p ∈ findTestFilesS e roots pkgs (some ds)) :
    ∃ d ∈ ds, d.isPrefixOf p = true := by
  unfold findTestFilesS findTestFiles at h
  have h' := dedup_sub _ _ p h
  obtain ⟨r, hr, hp⟩ := List.mem_flatMap.1 h'
  obtain ⟨q, _, rfl⟩ := List.mem_map.1 hp
  obtain ⟨rr, hrr, rfl⟩ := List.mem_map.1 hr
  exact ⟨rr.1.1, (C14_package_once roots pkgs ds).2 rr hrr, by simp⟩

/-- without `-s` the walk starts at the search paths: all theorems above apply to `findTestFilesS` -/
theorem findTestFilesS_none (e : Env) (roots : List (List Name × Tree)) (pkgs : List (List Name))
    (hl : roots.length = pkgs.length) : findTestFilesS e roots pkgs none = findTestFiles e roots := by
  unfold findTestFilesS testDirs
  simp only
  rw [List.map_fst_zip (by omega)]

theorem importedModulesS_none (e : Env) (accept : List Name → Bool) (roots : List (List Name × Tree))
    (pkgs : List (List Name)) (hl : roots.length = pkgs.length) :
    importedModulesS e accept roots pkgs none = importedModules e accept roots pkgs := by
  unfold importedModulesS importedModules moduleNamesS moduleNames yieldPkgS
  rw [findTestFilesS_none e roots pkgs hl]
  unfold testDirs
  simp only
  rw [List.map_fst_zip (by omega), List.map_snd_zip (by omega)]

/-- with `-s` as well a module is imported only under a name that passes `--module`, at most once per file -/
theorem C14_import_gate_S (e : Env) (accept : List Name → Bool) (roots : List (List Name × Tree))
    (pkgs : List (List Name)) (pd : Option (List (List Name))) (m : List Name)
    (h : m ∈ importedModulesS e accept roots pkgs pd) :
    accept m = true ∧ ∃ p ∈ findTestFilesS e roots pkgs pd, m ∈ moduleNamesS e roots pkgs pd p := by
  unfold importedModulesS at h
  obtain ⟨p, hp, hm⟩ := List.mem_filterMap.1 h
  exact ⟨List.find?_some hm, p, hp, List.mem_of_find?_eq_some hm⟩

/-- the facts the walk relies on, from the source -/
theorem C14_ignore_folders : Facts.ignoreFolders = [".git", "__pycache__", "node_modules"] ∧
    Facts.defaultTestsPattern = "^tests$" ∧ Facts.defaultTestFilePattern = "^test" := by decide

end Ztr.Discovery
