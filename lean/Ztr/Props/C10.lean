import Ztr.Lemmas.Layers
/-! # C10 — layer run order: deterministic, unit tests first, bases first, once each -/
namespace Ztr.Layers

theorem orderByBases_eq (G : Graph) (ls : List Nat) :
    orderByBases G ls =
      ((dedupLast ((PySort.isort (leDesc G) ls).flatMap (gather G))).reverse).filter
        (fun l => decide (l ∈ PySort.isort (leDesc G) ls)) := by
  unfold orderByBases
  simp only [dedupFirst_reverse]

/-- **C10_once** — each requested layer occurs exactly once, nothing else occurs. -/
theorem C10_once (G : Graph) (ls : List Nat) :
    (orderByBases G ls).Nodup ∧ ∀ x, x ∈ orderByBases G ls ↔ x ∈ ls := by
  rw [orderByBases_eq]
  refine ⟨?_, ?_⟩
  · exact List.Nodup.sublist List.filter_sublist (nodup_reverse' (nodup_dedupLast _))
  · intro x
    simp only [List.mem_filter, List.mem_reverse, mem_dedupLast, List.mem_flatMap, decide_eq_true_eq,
      mem_sorted]
    constructor
    · exact fun h => h.2
    · exact fun h => ⟨⟨x, h, self_mem_gather G x⟩, h⟩

/-- **C10_bases_first** — a layer never comes before one of its own (transitive) base layers that
is also requested: `[b, l]` is a sublist of the (duplicate-free) result. -/
theorem C10_bases_first {G : Graph} (hwf : WF G) (ls : List Nat) {l b : Nat}
    (hb : b ∈ closure G l) (hne : b ≠ l) (hbl : b ∈ ls) (hl : l ∈ ls) :
    [b, l].Sublist (orderByBases G ls) := by
  rw [orderByBases_eq]
  have hF : Followed l b ((PySort.isort (leDesc G) ls).flatMap (gather G)) :=
    followed_flatMap (fun x _ => followed_gather hwf hb hne x)
  have hmem : l ∈ (PySort.isort (leDesc G) ls).flatMap (gather G) :=
    List.mem_flatMap.2 ⟨l, (mem_sorted G ls l).2 hl, self_mem_gather G l⟩
  have h1 := sublist_dedupLast_of_followed hne _ hF hmem
  have h2 : [b, l].Sublist (dedupLast ((PySort.isort (leDesc G) ls).flatMap (gather G))).reverse := by
    have := h1.reverse
    simpa using this
  have h3 := h2.filter (fun l => decide (l ∈ PySort.isort (leDesc G) ls))
  have eb : decide (b ∈ PySort.isort (leDesc G) ls) = true := by simpa [mem_sorted] using hbl
  have el : decide (l ∈ PySort.isort (leDesc G) ls) = true := by simpa [mem_sorted] using hl
  simpa only [List.filter_cons, eb, el, if_true, List.filter_nil] using h3

/-- **C10_perm_invariant** — the order is a function of the *set* of requested layers: any
permutation of the input (discovery order, option order, dict order, hash seed) gives the same list. -/
theorem C10_perm_invariant {G : Graph} (hg : Good G) {ls ls' : List Nat} (h : ls.Perm ls') :
    orderByBases G ls = orderByBases G ls' := by
  unfold orderByBases
  rw [sorted_perm_eq hg h]

theorem head?_of_all_eq {u : Nat} : ∀ (L R : List Nat), (∀ y ∈ L, y = u) → (L ++ u :: R).head? = some u
  | [], _, _ => rfl
  | x :: xs, _, h => by simp [h x (by simp)]

/-- **C10_unit_first** — if the unit-test layer is requested, it runs first. -/
theorem C10_unit_first {G : Graph} (hg : Good G) (ls : List Nat) (hu : G.unit ∈ ls) :
    (orderByBases G ls).head? = some G.unit := by
  have hs : G.unit ∈ PySort.isort (leDesc G) ls := (mem_sorted G ls _).2 hu
  obtain ⟨pre, post, hsplit⟩ := List.append_of_mem hs
  have hpw := sorted_pairwise G ls
  rw [hsplit] at hpw
  have hpost : ∀ y ∈ post, y = G.unit := by
    intro y hy
    have h1 : leDesc G G.unit y = true := by
      have := (List.pairwise_append.1 hpw).2.1
      exact (List.pairwise_cons.1 this).1 y hy
    simp only [leDesc, decide_eq_true_eq, sortKey_unit hg] at h1
    by_cases hyu : y = G.unit
    · exact hyu
    · obtain ⟨K, hK⟩ := sortKey_ne_unit G hyu
      rw [hK] at h1
      have : K ++ [G.name y] = [] := List.le_antisymm h1 (List.nil_le _)
      simp at this
  have hgu : gather G G.unit = [G.unit] := by
    rw [gather_eq hg.wf, hg.unitRoot]; rfl
  have hU : ∀ z ∈ post.flatMap (gather G), z = G.unit := by
    intro z hz
    obtain ⟨y, hy, hzy⟩ := List.mem_flatMap.1 hz
    rw [hpost y hy, hgu] at hzy
    simpa using hzy
  have hrev : ((PySort.isort (leDesc G) ls).flatMap (gather G)).reverse =
      (post.flatMap (gather G)).reverse ++ G.unit :: (pre.flatMap (gather G)).reverse := by
    rw [hsplit]
    simp [List.flatMap_append, List.flatMap_cons, hgu]
  have hhead : (((PySort.isort (leDesc G) ls).flatMap (gather G)).reverse).head? = some G.unit := by
    rw [hrev]
    exact head?_of_all_eq _ _ (fun y hy => hU y (List.mem_reverse.1 hy))
  unfold orderByBases
  simp only []
  cases hL : ((PySort.isort (leDesc G) ls).flatMap (gather G)).reverse with
  | nil => rw [hL] at hhead; simp at hhead
  | cons x xs =>
    rw [hL] at hhead
    simp only [List.head?_cons, Option.some.injEq] at hhead
    subst hhead
    have : decide (G.unit ∈ PySort.isort (leDesc G) ls) = true := by simpa using hs
    simp only [dedupFirst, dedupAux, List.not_mem_nil, if_false, List.filter_cons, this, if_true,
      List.head?_cons]

/-- The guard of `C10_perm_invariant` is needed: two distinct layers with the same dotted name are
ordered by input position. -/
theorem C10_same_name_witness :
    ∃ (G : Graph) (ls ls' : List Nat), ls.Perm ls' ∧ WF G ∧ orderByBases G ls ≠ orderByBases G ls' :=
  ⟨{ bases := fun _ => [], name := fun _ => [97], unit := 0 }, [1, 2], [2, 1],
    by decide, by intro l b hb; simp at hb, by decide⟩

-- non-vacuity: a diamond with a unit layer satisfies `Good`; all layer kinds occur in the result
def exG : Graph :=
  { bases := fun l => match l with | 2 => [1] | 3 => [1] | 4 => [2, 3] | _ => [],
    name := fun l => [l], unit := 0 }
example : Good exG where
  wf := by
    intro l b hb
    unfold exG at hb
    simp only at hb
    split at hb <;> simp at hb <;> omega
  nameInj := by intro a b h; simpa [exG] using h
  unitRoot := rfl
example : orderByBases exG [4, 0, 3] = [0, 3, 4] := by decide

end Ztr.Layers
