import Ztr.Props.C16
/-! # C13 — buffered output is attributed correctly; std streams are always restored -/
namespace Ztr.Result
open Ztr.Proto

/-- **C13_restored_between_tests** — whatever sequence of outcomes occurred, after every test (and so
between tests and after the run) the std streams are the original ones, and every per-test layer
hook ran with the original streams. -/
theorem C13_restored_between_tests (c : Cfg) (ts : List TestDef) :
    (runTests c ts {}).captured = false ∧ HooksOrig (runTests c ts {}).evs := by
  have h := runTests_between c ts {} between_init (by intro e he; simp at he)
  exact ⟨h.1.captured, h.2⟩

/-- **C13_never_replaced** — without `--buffer` no operation ever installs the capture buffers. -/
theorem C13_never_replaced (c : Cfg) (t : TestDef) (s : RS) (op : Op) (hb : c.buffer = false)
    (hs : s.captured = false) : (step c t s op).captured = false := by
  unfold step
  split
  · exact hs
  · cases op with
    | addSubTest e =>
      cases e <;> simp only [] <;> (try split) <;>
        simp [bad, stopIf, record, restoreStreams, RS.emit, hb, hs]
    | _ =>
      simp only [] <;> (try split) <;>
        simp [startTest, stopTest, setUpStreams, callHooksUp, callHooksDown, writeToks, bad, stopIf, record,
          restoreStreams, noteSkip, skipFallback, RS.emit, hb, hs]

theorem step_interrupt_evs (c : Cfg) (t : TestDef) (x : RS) : (step c t x .raiseInterrupt).evs = x.evs := by
  unfold step
  split <;> rfl

/-! ### attribution -/

/-- tokens that reached the output (raw, or inside a failure/error report), with the test they are
attributed to -/
def shown : List REv → List (Nat × Nat)
  | [] => []
  | .leak t tok :: r => (t, tok) :: shown r
  | .report t _ toks :: r => toks.map (fun k => (t, k)) ++ shown r
  | _ :: r => shown r

theorem shown_append (a b : List REv) : shown (a ++ b) = shown a ++ shown b := by
  induction a with
  | nil => rfl
  | cons e r ih => cases e <;> simp [shown, ih]

/-- inside a quiet test under `--buffer` the streams stay captured until the closing result -/
theorem quiet_step (c : Cfg) (t : TestDef) (s : RS) (op : Op) (hb : c.buffer = true) (hr : Running s)
    (hcap : s.captured = true) (hm : Mid op) (hq : ¬ IsBadOp op) :
    (step c t s op).captured = true ∧ shown (step c t s op).evs = shown s.evs := by
  unfold step
  simp only [hr.aborted, Bool.false_eq_true, if_false]
  cases op with
  | code ph ws =>
    refine ⟨by simp [writeToks, RS.emit, hcap], ?_⟩
    simp only [writeToks, RS.emit, hcap, if_true]
    rw [shown_append]; simp [shown]
  | addSkip =>
    simp only [hr.hasTestState, Bool.not_true, Bool.false_eq_true, if_false, noteSkip, RS.emit]
    exact ⟨hcap, by rw [shown_append]; simp [shown]⟩
  | addSubSkip =>
    simp only [hr.hasTestState, Bool.not_true, Bool.false_eq_true, if_false, noteSkip, RS.emit]
    exact ⟨hcap, by rw [shown_append]; simp [shown]⟩
  | addSubTest e =>
    cases e with
    | none => exact ⟨hcap, rfl⟩
    | some e => exact absurd (by simp [IsBadOp]) hq
  | addFailure => exact absurd (by simp [IsBadOp]) hq
  | addError => exact absurd (by simp [IsBadOp]) hq
  | _ => simp [Mid] at hm

theorem quiet_foldl (c : Cfg) (t : TestDef) (hb : c.buffer = true) : ∀ (ops : List Op) (s : RS),
    Running s → s.captured = true → (∀ op ∈ ops, Mid op) → (∀ op ∈ ops, ¬ IsBadOp op) →
    Running (ops.foldl (step c t) s) ∧ (ops.foldl (step c t) s).captured = true ∧
      shown (ops.foldl (step c t) s).evs = shown s.evs
  | [], s, hr, hc, _, _ => ⟨hr, hc, rfl⟩
  | op :: ops, s, hr, hc, hm, hq => by
    simp only [List.foldl_cons]
    have h1 := quiet_step c t s op hb hr hc (hm op (by simp)) (hq op (by simp))
    have hr' := hr.of_ext (ext_step_mid c t s op hr (Or.inl (hm op (by simp))))
    obtain ⟨a, b, d⟩ := quiet_foldl c t hb ops _ hr' h1.1 (fun o ho => hm o (by simp [ho]))
      (fun o ho => hq o (by simp [ho]))
    exact ⟨a, b, d.trans h1.2⟩

/-- the closing results of a quiet test and `stopTest` show nothing either -/
theorem quiet_final (c : Cfg) (t : TestDef) (s : RS) (op : Op) (hr : Running s)
    (hf : op = .addSuccess ∨ op = .addExpectedFailure ∨ op = .stopTest) :
    shown (step c t s op).evs = shown s.evs := by
  unfold step
  simp only [hr.aborted, Bool.false_eq_true, if_false]
  rcases hf with rfl | rfl | rfl
  · simp only [restoreStreams, hr.hasStartTime, if_true, RS.emit]
    rw [shown_append]; simp [shown]
  · simp only [restoreStreams, hr.hasStartTime, if_true, RS.emit]
    rw [shown_append]; simp [shown]
  · simp only [stopTest, callHooksDown, restoreStreams]
    rw [shown_append]
    have : ∀ l : List Nat, ∀ b, shown (l.map (fun x => REv.hookTearDown x b)) = [] := by
      intro l b; induction l with
      | nil => rfl
      | cons x xs ih => simp [shown, ih]
    simp [this]

/-- **C13_quiet_when_ok** — with `--buffer`, a test whose unittest call sequence records no failure
and no error (passing, skipped in any phase, expected failure) contributes nothing to the output:
whatever it writes, in whatever phase. -/
theorem C13_quiet_when_ok (c : Cfg) (t : TestDef) (s : RS) (hb : c.buffer = true) (hbt : Between s)
    (hq : ∀ op ∈ Proto.run t, ¬ IsBadOp op) : shown (runTest c s t).evs = shown s.evs := by
  unfold runTest
  have hb0 : Between (s.emit (.tstart t.id)) := ⟨hbt.aborted, hbt.hasTestState, hbt.captured⟩
  have hem : ∀ (x : RS) (e : REv), (x.emit e).evs = x.evs ++ [e] := fun _ _ => rfl
  have hsh0 : shown (s.emit (.tstart t.id)).evs = shown s.evs := by rw [hem, shown_append]; simp [shown]
  cases hd : t.decoSkip
  · obtain ⟨mid, fin, tail, hrun, hmid, hfin, htail⟩ := run_shape t hd
    rw [hrun] at hq ⊢
    rw [hem, shown_append]
    simp only [shown, List.append_nil]
    rw [List.foldl_cons, List.foldl_append, List.foldl_append, List.foldl_cons]
    have e1 : step c t (s.emit (.tstart t.id)) .startTest = startTest c t (s.emit (.tstart t.id)) := by
      simp [step, hb0.aborted]
    rw [e1]
    obtain ⟨hr1, hev1, _, hcap1⟩ := startTest_spec c t _ hb0
    have hsh1 : shown (startTest c t (s.emit (.tstart t.id))).evs = shown s.evs := by
      rw [hev1, shown_append, hsh0]
      have : ∀ l : List Nat, shown (l.map (fun x => REv.hookSetUp x true)) = [] := by
        intro l; induction l with
        | nil => rfl
        | cons x xs ih => simp [shown, ih]
      simp [this]
    have hqm : ∀ op ∈ mid, ¬ IsBadOp op := fun op ho => hq op (by simp [ho])
    obtain ⟨hr2, hcap2, hsh2⟩ := quiet_foldl c t hb mid _ hr1 (by rw [hcap1, hb]) hmid hqm
    -- the closing result
    have hfinq : ∀ s2 : RS, Running s2 → Running (fin.foldl (step c t) s2) ∧
        shown (fin.foldl (step c t) s2).evs = shown s2.evs := by
      intro s2 h2
      rcases hfin with rfl | ⟨f, rfl, hf⟩
      · exact ⟨h2, rfl⟩
      · simp only [List.foldl_cons, List.foldl_nil]
        have hext := ext_step_mid c t s2 f h2 (Or.inr hf)
        refine ⟨h2.of_ext hext, ?_⟩
        cases f with
        | addSuccess => exact quiet_final c t s2 _ h2 (Or.inl rfl)
        | addExpectedFailure => exact quiet_final c t s2 _ h2 (Or.inr (Or.inl rfl))
        | addUnexpectedSuccess => exact absurd (by simp [IsBadOp]) (hq .addUnexpectedSuccess (by simp))
        | _ => simp [Final] at hf
    obtain ⟨hr3, hsh3⟩ := hfinq _ hr2
    have hsh4 := quiet_final c t _ .stopTest hr3 (Or.inr (Or.inr rfl))
    have htl : shown (tail.foldl (step c t) (step c t (fin.foldl (step c t) (mid.foldl (step c t)
        (startTest c t (s.emit (.tstart t.id))))) .stopTest)).evs
        = shown (step c t (fin.foldl (step c t) (mid.foldl (step c t)
        (startTest c t (s.emit (.tstart t.id))))) .stopTest).evs := by
      rcases htail with rfl | rfl
      · rfl
      · simp only [List.foldl_cons, List.foldl_nil]
        exact congrArg shown (step_interrupt_evs c t _)
    rw [htl, hsh4, hsh3, hsh2, hsh1]
  · rw [run_decoSkip t hd]
    simp only [List.foldl_cons, List.foldl_nil]
    rw [hem, shown_append]
    simp only [shown, List.append_nil]
    have e1 : step c t (s.emit (.tstart t.id)) .addSkip = noteSkip t.id (skipFallback c t (s.emit (.tstart t.id))) := by
      simp [step, hb0.aborted, hb0.hasTestState]
    rw [e1]
    obtain ⟨hr1, hev1, _, _⟩ := skipFallback_spec c t _ hb0
    have hr2 := hr1.of_ext (ext_noteSkip t.id _)
    rw [quiet_final c t _ .stopTest hr2 (Or.inr (Or.inr rfl))]
    have hns : (noteSkip t.id (skipFallback c t (s.emit (.tstart t.id)))).evs
        = (skipFallback c t (s.emit (.tstart t.id))).evs ++ [.skipped t.id] := rfl
    rw [hns, shown_append, hev1, shown_append, hsh0]
    have : ∀ l : List Nat, shown (l.map (fun x => REv.hookSetUp x true)) = [] := by
      intro l; induction l with
      | nil => rfl
      | cons x xs ih => simp [shown, ih]
    simp [this, shown]

end Ztr.Result
