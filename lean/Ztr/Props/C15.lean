import Ztr.Model.Bytecode
/-! # C15 — stale-bytecode cleanup deletes only orphaned .pyc/.pyo files, and all of them -/
namespace Ztr.Bytecode

/-- the property, as an inductive specification: an orphan is a file lying directly in a walked
directory, named `….pyc`/`….pyo`, without the same-named `.py` beside it; a directory is walked if it
is reached through directories that are neither ignored nor `__pycache__`. -/
inductive Orphan (ignore : Name → Bool) : Tree → List Name → Prop
  | direct {files subs f} : f ∈ files → isStale files f = true → Orphan ignore (.dir files subs) [f]
  | inside {files subs n t p} : (n, t) ∈ subs → ignore n = false → n ≠ pycache →
      Orphan ignore t p → Orphan ignore (.dir files subs) (n :: p)

mutual
theorem stale_sound (ignore : Name → Bool) : ∀ (t : Tree) (p : List Name), p ∈ stale ignore t → Orphan ignore t p
  | .dir files subs, p, h => by
    simp only [stale, List.mem_append, List.mem_map, List.mem_filter] at h
    rcases h with ⟨f, ⟨hf, hs⟩, rfl⟩ | h
    · exact .direct hf hs
    · obtain ⟨n, t, q, hm, hi, hn, ho, rfl⟩ := staleSubs_sound ignore subs p h
      exact .inside hm hi hn ho
theorem staleSubs_sound (ignore : Name → Bool) : ∀ (subs : List (Name × Tree)) (p : List Name),
    p ∈ staleSubs ignore subs →
    ∃ n t q, (n, t) ∈ subs ∧ ignore n = false ∧ n ≠ pycache ∧ Orphan ignore t q ∧ p = n :: q
  | [], p, h => by simp [staleSubs] at h
  | (n, t) :: rest, p, h => by
    simp only [staleSubs, List.mem_append] at h
    rcases h with h | h
    · by_cases hc : (ignore n || n == pycache) = true
      · simp [hc] at h
      · simp only [hc, Bool.false_eq_true, if_false, List.mem_map] at h
        obtain ⟨q, hq, rfl⟩ := h
        simp only [Bool.or_eq_true, beq_iff_eq, not_or] at hc
        exact ⟨n, t, q, by simp, by simpa using hc.1, hc.2, stale_sound ignore t q hq, rfl⟩
    · obtain ⟨n', t', q, hm, hi, hn, ho, e⟩ := staleSubs_sound ignore rest p h
      exact ⟨n', t', q, by simp [hm], hi, hn, ho, e⟩
end

theorem staleSubs_complete_aux (ignore : Name → Bool) {n : Name} {t : Tree} {q : List Name}
    (hq : q ∈ stale ignore t) (hi : ignore n = false) (hn : n ≠ pycache) :
    ∀ (subs : List (Name × Tree)), (n, t) ∈ subs → (n :: q) ∈ staleSubs ignore subs
  | [], h => by simp at h
  | (n', t') :: rest, h => by
    simp only [staleSubs, List.mem_append]
    rcases List.mem_cons.1 h with e | h'
    · obtain ⟨rfl, rfl⟩ := Prod.mk.inj e
      left
      have : (ignore n || n == pycache) = false := by simp [hi, hn]
      simp only [this, Bool.false_eq_true, if_false, List.mem_map]
      exact ⟨q, hq, rfl⟩
    · exact Or.inr (staleSubs_complete_aux ignore hq hi hn rest h')

theorem stale_complete (ignore : Name → Bool) : ∀ {t : Tree} {p : List Name}, Orphan ignore t p → p ∈ stale ignore t := by
  intro t p h
  induction h with
  | direct hf hs =>
    simp only [stale, List.mem_append, List.mem_map, List.mem_filter]
    exact Or.inl ⟨_, ⟨hf, hs⟩, rfl⟩
  | inside hm hi hn _ ih =>
    simp only [stale, List.mem_append]
    exact Or.inr (staleSubs_complete_aux ignore ih hi hn _ hm)

/-- **C15_exact** — for every directory tree and every ignore set: a path is deleted **iff** it is an
orphan (C15_only_orphans ∧ C15_all_orphans). -/
theorem C15_exact (ignore : Name → Bool) (t : Tree) (p : List Name) : p ∈ stale ignore t ↔ Orphan ignore t p :=
  ⟨stale_sound ignore t p, stale_complete ignore⟩

/-- **C15_keep** — with `--keepbytecode` or `--usecompiled` nothing is deleted at all. -/
theorem C15_keep (k u : Bool) (ignore : Name → Bool) (roots : List (List Name × Tree)) (h : k = true ∨ u = true) :
    deletions k u ignore roots = [] := by
  rcases h with rfl | rfl <;> simp [deletions]

/-- **C15_roots** — with several (overlapping, repeated) search paths the deleted set is the union of
the orphans of each. -/
theorem C15_roots (ignore : Name → Bool) (roots : List (List Name × Tree)) (p : List Name) :
    p ∈ deletions false false ignore roots ↔ ∃ r ∈ roots, ∃ q, Orphan ignore r.2 q ∧ p = r.1 ++ q := by
  simp only [deletions, Bool.or_self, Bool.false_eq_true, if_false, List.mem_flatMap, List.mem_map]
  constructor
  · rintro ⟨r, hr, q, hq, rfl⟩; exact ⟨r, hr, q, (C15_exact ignore r.2 q).1 hq, rfl⟩
  · rintro ⟨r, hr, q, hq, rfl⟩; exact ⟨r, hr, q, (C15_exact ignore r.2 q).2 hq, rfl⟩

/-- the suffix table is the one of the source -/
theorem C15_suffixes : Facts.compiledSuffixes = [".pyc", ".pyo"] := by decide

-- look-alikes: `x.pyc.bak`, `pyc`, `X.PYC` stay; a file named exactly `.pyc` is an orphan of `.py`
example : stale (fun _ => false) (.dir [strName "x.pyc.bak", strName "pyc", strName "X.PYC", strName ".pyc",
    strName "a.py", strName "a.pyc", strName "b.pyo"] [(pycache, .dir [strName "c.pyc"] [])])
    = [[strName ".pyc"], [strName "b.pyo"]] := by decide

end Ztr.Bytecode
