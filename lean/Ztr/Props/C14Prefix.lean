import Ztr.Props.C14
/-!
# C14 — a test file is a module of the longest search path above it

`find_suites` derives the dotted module name of a yielded file from `options.prefix` (the search paths, longest
first): the first search path that is a prefix of the file's path - component by component, not character by
character - and carries the package the file was yielded under.

* `C14_name_from_longest`: the first name tried is relative to a search path above the file such that no other
  search path above the file (with that package) is longer; it is the package, the directories below that search
  path, and the file name without its extension;
* `C14_prefix_is_componentwise`: a directory whose *name* merely begins with a search path's last component
  (`src` / `srcx`) is not below that search path;
* `C14_order_of_paths_irrelevant`: the name does not depend on the order in which the search paths were given
  (for search paths of pairwise different lengths above the file - two different search paths above one file
  never have the same length).
-/
namespace Ztr.Discovery

open Ztr.Bytecode Ztr.PySort

abbrev Cand := List Name × List Name

def lenDesc (a b : Cand) : Bool := decide (b.1.length ≤ a.1.length)

theorem lenDesc_trans (a b c : Cand) : lenDesc a b = true → lenDesc b c = true → lenDesc a c = true := by
  unfold lenDesc; simp only [decide_eq_true_eq]; omega

theorem lenDesc_total (a b : Cand) : (lenDesc a b || lenDesc b a) = true := by
  unfold lenDesc; simp only [Bool.or_eq_true, decide_eq_true_eq]; omega

/-- the head of a list sorted by `lenDesc` is at least as long as every element -/
theorem head_longest (l : List Cand) (r : Cand) (rest : List Cand) (h : isort lenDesc l = r :: rest) :
    ∀ r' ∈ l, r'.1.length ≤ r.1.length := by
  intro r' hr'
  have hp := isort_pairwise lenDesc_trans lenDesc_total l
  rw [h] at hp
  have hmem : r' ∈ r :: rest := by rw [← h]; exact (mem_isort lenDesc l r').2 hr'
  rcases List.mem_cons.1 hmem with rfl | hin
  · exact Nat.le_refl _
  · have := (List.pairwise_cons.1 hp).1 r' hin
    unfold lenDesc at this
    simpa using this

/-- the candidates of `moduleNamesWith`: search paths above the file that carry the package -/
def candsOf (roots : List (List Name × Tree)) (pkgs : List (List Name)) (pkg : List Name) (path : List Name) : List Cand :=
  ((roots.map (·.1)).zip pkgs).filter (fun rp => rp.1.isPrefixOf path && rp.1.length < path.length && rp.2 == pkg)

/-- the name a search path gives the file -/
def nameUnder (e : Env) (pkg : List Name) (path : List Name) (r : Cand) : Option (List Name) :=
  let rel := path.drop r.1.length
  match rel.getLast? with
  | none => none
  | some f => (stripPyExt e f).map (fun noext => pkg ++ rel.dropLast ++ [noext])

theorem moduleNamesWith_eq (e : Env) (roots : List (List Name × Tree)) (pkgs : List (List Name)) (pkg path : List Name) :
    moduleNamesWith e roots pkgs pkg path
      = (isort lenDesc (candsOf roots pkgs pkg path)).filterMap (nameUnder e pkg path) := rfl

/-- **C14_name_from_longest** — when the longest search path above the file gives it a name at all (the file has
a Python extension), that is the first name tried, and no search path above the file is longer. -/
theorem C14_name_from_longest (e : Env) (roots : List (List Name × Tree)) (pkgs : List (List Name))
    (pkg path : List Name) (r : Cand) (rest : List Cand)
    (hs : isort lenDesc (candsOf roots pkgs pkg path) = r :: rest) (m : List Name) (hm : nameUnder e pkg path r = some m) :
    (moduleNamesWith e roots pkgs pkg path).head? = some m ∧
    r ∈ candsOf roots pkgs pkg path ∧ r.1.isPrefixOf path = true ∧ r.2 = pkg ∧
    (∀ r' ∈ candsOf roots pkgs pkg path, r'.1.length ≤ r.1.length) := by
  have hmem : r ∈ candsOf roots pkgs pkg path :=
    (mem_isort lenDesc _ r).1 (by rw [hs]; simp)
  have hprop := (List.mem_filter.1 hmem).2
  simp only [Bool.and_eq_true, decide_eq_true_eq, beq_iff_eq] at hprop
  refine ⟨?_, hmem, hprop.1.1, hprop.2, head_longest _ r rest hs⟩
  rw [moduleNamesWith_eq, hs, List.filterMap_cons, hm]
  rfl

/-- **C14_prefix_is_componentwise** — `…/src` is not above `…/srcx/tests.py`, although the strings begin alike. -/
theorem C14_prefix_is_componentwise :
    let src : Name := strName "src"
    let srcx : Name := strName "srcx"
    let t : Name := strName "tests.py"
    ([src] : List Name).isPrefixOf [srcx, t] = false ∧ ([src] : List Name).isPrefixOf [src, t] = true ∧
    src.isPrefixOf srcx = true := by
  decide

/-- **C14_order_of_paths_irrelevant** — sorting by length makes the name independent of the order in which the
search paths were given, as long as the search paths above the file have different lengths (different search
paths above one file always have). -/
theorem C14_order_of_paths_irrelevant (e : Env) (pkg path : List Name) {c1 c2 : List Cand} (hp : c1.Perm c2)
    (hd : ∀ a ∈ c1, ∀ b ∈ c1, a.1.length = b.1.length → a = b) :
    (isort lenDesc c1).filterMap (nameUnder e pkg path) = (isort lenDesc c2).filterMap (nameUnder e pkg path) := by
  have : isort lenDesc c1 = isort lenDesc c2 := by
    apply List.Perm.eq_of_pairwise (le := fun a b => lenDesc a b = true)
    · intro a b ha hb h1 h2
      have ha' : a ∈ c1 := (mem_isort lenDesc c1 a).1 ha
      have hb' : b ∈ c1 := hp.mem_iff.2 ((mem_isort lenDesc c2 b).1 hb)
      unfold lenDesc at h1 h2
      simp only [decide_eq_true_eq] at h1 h2
      exact hd a ha' b hb' (by omega)
    · exact isort_pairwise lenDesc_trans lenDesc_total c1
    · exact isort_pairwise lenDesc_trans lenDesc_total c2
    · exact ((isort_perm lenDesc c1).trans hp).trans (isort_perm lenDesc c2).symm
  rw [this]

end Ztr.Discovery
