import Ztr.Model.Threads
/-! # C19 — threads left behind by a test are reported precisely -/
namespace Ztr.Threads

/-- invariant of a history without identifier reuse *into the snapshot*:
threads born since the snapshot carry idents outside it, the others are in it -/
structure Inv (s : St) : Prop where
  old : ∀ th ∈ s.alive, s.born.contains th.uid = false → s.snapshot.contains th.ident = true
  new : ∀ th ∈ s.alive, s.born.contains th.uid = true → s.snapshot.contains th.ident = false

/-- the guard: a started thread never gets the ident of a thread of the current snapshot, and uids
are fresh -/
def StepOk (s : St) : HEv → Prop
  | .start th => s.snapshot.contains th.ident = false ∧ (∀ x ∈ s.alive, x.uid ≠ th.uid)
  | _ => True

theorem inv_step (s : St) (e : HEv) (hi : Inv s) (hok : StepOk s e) : Inv (step s e) := by
  cases e with
  | start th =>
    obtain ⟨h1, h2⟩ := hok
    constructor
    · intro x hx hb
      simp only [step, List.mem_append, List.mem_singleton] at hx
      simp only [step, List.contains_append, List.contains_cons, List.contains_nil, Bool.or_false,
        Bool.or_eq_false_iff] at hb
      rcases hx with hx | rfl
      · exact hi.old x hx hb.1
      · simp at hb
    · intro x hx hb
      simp only [step, List.mem_append, List.mem_singleton] at hx
      rcases hx with hx | rfl
      · simp only [step, List.contains_append, List.contains_cons, List.contains_nil, Bool.or_false,
          Bool.or_eq_true] at hb
        rcases hb with hb | hb
        · exact hi.new x hx hb
        · exact absurd (by simpa using hb) (h2 x hx)
      · exact h1
  | finish u =>
    constructor
    · intro x hx hb
      simp only [step, List.mem_filter] at hx
      exact hi.old x hx.1 hb
    · intro x hx hb
      simp only [step, List.mem_filter] at hx
      exact hi.new x hx.1 hb
  | rename u b =>
    constructor
    · intro x hx hb
      simp only [step, List.mem_map] at hx
      obtain ⟨y, hy, rfl⟩ := hx
      by_cases hu : (y.uid == u) = true
      · simp only [hu, if_true] at hb ⊢; exact hi.old y hy hb
      · simp only [hu] at hb ⊢; exact hi.old y hy hb
    · intro x hx hb
      simp only [step, List.mem_map] at hx
      obtain ⟨y, hy, rfl⟩ := hx
      by_cases hu : (y.uid == u) = true
      · simp only [hu, if_true] at hb ⊢; exact hi.new y hy hb
      · simp only [hu] at hb ⊢; exact hi.new y hy hb
  | testStart =>
    constructor
    · intro x hx _
      simp only [step, List.contains_eq_mem, List.mem_map, decide_eq_true_eq]
      exact ⟨x, hx, rfl⟩
    · intro x hx hb
      simp [step] at hb
  | testStop => exact ⟨hi.old, hi.new⟩

/-- a history all of whose steps satisfy the guard -/
def HistOk : St → List HEv → Prop
  | _, [] => True
  | s, e :: r => StepOk s e ∧ HistOk (step s e) r

theorem inv_init : Inv ({} : St) := ⟨by intro th h; simp at h, by intro th h; simp at h⟩

theorem report_eq_spec_step (s : St) (hi : Inv s) :
    (s.alive.filter (fun th => !s.snapshot.contains th.ident && !th.ignored)).map (·.uid)
      = (s.alive.filter (fun th => s.born.contains th.uid && !th.ignored)).map (·.uid) := by
  congr 1
  apply List.filter_congr
  intro th hth
  cases hb : s.born.contains th.uid
  · have := hi.old th hth hb
    simp only [List.contains_eq_mem, decide_eq_true_eq] at this
    simp [this]
  · have := hi.new th hth hb
    simp only [List.contains_eq_mem, decide_eq_false_iff_not] at this
    simp [this]

/-- **C19_exact** — for every history of thread starts/ends and tests in which no thread started
during a test receives the identifier of a thread of that test's snapshot: after each test the runner
reports exactly the threads started during that test (through any API), still running when it ends,
and not ignored — never a thread that existed before, never one that has finished, never an ignored
one. -/
theorem C19_exact : ∀ (h : List HEv) (s : St), Inv s → HistOk s h → s.reports = s.spec →
    (h.foldl step s).reports = (h.foldl step s).spec
  | [], _, _, _, he => he
  | e :: r, s, hi, hok, he => by
    simp only [List.foldl_cons]
    refine C19_exact r (step s e) (inv_step s e hi hok.1) hok.2 ?_
    cases e with
    | testStop => simp only [step, he, report_eq_spec_step s hi]
    | _ => simpa [step] using he

theorem C19_exact_run (h : List HEv) (hok : HistOk {} h) : (run h).reports = (run h).spec :=
  C19_exact h {} inv_init hok rfl

/-- **C19_only_once** — a thread that is still running at the next `startTest` is in that snapshot and
is therefore never reported for the later test. -/
theorem C19_only_once (s : St) (th : Th) (h : th ∈ s.alive) :
    th.uid ∉ ((step (step s .testStart) .testStop).reports.getLast?.getD []) := by
  simp only [step, List.getLast?_append, List.getLast?_singleton, Option.some_or, Option.getD_some,
    List.mem_map, List.mem_filter, not_exists, not_and]
  intro x hx
  have hc : (s.alive.map (·.ident)).contains x.ident = true := by
    simp only [List.contains_eq_mem, List.mem_map, decide_eq_true_eq]; exact ⟨x, hx.1, rfl⟩
  have := hx.2
  rw [hc] at this
  simp at this

/-- D12 (known finding): without the guard a leaked thread is missed — thread 1 (ident 5) is alive at
the snapshot and ends inside the test; thread 2 is started inside the test, gets the same ident 5 and is
left behind: nothing is reported although the property demands thread 2. -/
theorem C19_reuse_witness :
    let h := [HEv.start ⟨1, 5, false⟩, .testStart, .finish 1, .start ⟨2, 5, false⟩, .testStop]
    (run h).reports = [[]] ∧ (run h).spec = [[2]] := by decide

-- non-vacuity: a history with an old thread, a finished one, an ignored one and a leaked one
example : (run [.start ⟨1, 10, false⟩, .testStart, .start ⟨2, 11, false⟩, .start ⟨3, 12, true⟩,
    .start ⟨4, 13, false⟩, .finish 2, .testStop, .testStart, .testStop]).reports = [[4], []] := by decide

end Ztr.Threads
