import Ztr.Model.Streams
/-
C13 / C18 / C04 at the level of stream objects (Model/Streams): whatever test code does to the standard
streams - write, close the stream it finds, put a saved stream back, in any order and any number of
times, between any runner operations -

* no runner operation raises (`C13S_never_raises`): the capture code cannot abort the run;
* a `_restoreStdStreams()` that finds the capture in force, or finds a stream of its own as
  `sys.stdout`/`sys.stderr`, leaves both standard streams the original objects (`C13S_restore_clean`);
  in a history in which the test only ever puts back streams it found (`tameOps`), the streams are the
  originals after every restore, i.e. between tests and after the run (`C13S_between_tests`);
* after it the result holds only open, empty capture streams (`C13S_drained`), and what it hands to the
  failure report is exactly what the open capture streams held (`C13S_returns_content`);
* without `--buffer` the runner never touches the streams (`C13S_no_buffer`).

The defects of the two earlier versions of the code are witnessed on concrete histories
(`C13S_D35_witness`, `C13S_D35b_witness`, `C13S_D35c_witness`).
-/
namespace Ztr.Streams

/-- the invariant of the result's capture state -/
structure Inv (s : St) : Prop where
  flagBufs : s.flag = true → s.bufOut.isSome = true ∧ s.bufErr.isSome = true
  genOut : ∀ b, s.bufOut = some b → b.gen < s.nextGen
  genErr : ∀ b, s.bufErr = some b → b.gen < s.nextGen
  distinct : ∀ b c, s.bufOut = some b → s.bufErr = some c → b.gen ≠ c.gen
  quiet : s.raised = false

theorem inv_init : Inv {} := by
  constructor <;> simp

theorem writeBuf_some (r : Ref) (tok : Nat) (o : Option Buf) (b : Buf) (h : writeBuf r tok o = some b) :
    ∃ b0, o = some b0 ∧ b.gen = b0.gen := by
  cases o with
  | none => simp [writeBuf] at h
  | some b0 =>
    refine ⟨b0, rfl, ?_⟩
    simp only [writeBuf] at h
    split at h <;> simp at h <;> subst h <;> rfl

theorem writeBuf_isSome (r : Ref) (tok : Nat) (o : Option Buf) : (writeBuf r tok o).isSome = o.isSome := by
  cases o with
  | none => rfl
  | some b => simp only [writeBuf]; split <;> rfl

theorem closeBuf_some (r : Ref) (o : Option Buf) (b : Buf) (h : closeBuf r o = some b) :
    ∃ b0, o = some b0 ∧ b.gen = b0.gen := by
  cases o with
  | none => simp [closeBuf] at h
  | some b0 =>
    refine ⟨b0, rfl, ?_⟩
    simp only [closeBuf] at h
    split at h <;> simp at h <;> subst h <;> rfl

theorem closeBuf_isSome (r : Ref) (o : Option Buf) : (closeBuf r o).isSome = o.isSome := by
  cases o with
  | none => rfl
  | some b => simp only [closeBuf]; split <;> rfl

theorem take_some (o : Option Buf) (b : Buf) (h : (take o).1 = some b) :
    ∃ b0, o = some b0 ∧ b.gen = b0.gen ∧ b.closed = false ∧ b.content = [] := by
  cases o with
  | none => simp [take] at h
  | some b0 =>
    refine ⟨b0, rfl, ?_⟩
    simp only [take] at h
    split at h
    · simp at h
    · rename_i hc
      simp at h
      subst h
      simp at hc
      simp [hc]

theorem inv_setUp (buffer : Bool) (s : St) (h : Inv s) : Inv (setUp buffer s) := by
  unfold setUp
  cases buffer with
  | false => simpa using h
  | true =>
    simp only [Bool.not_true, Bool.false_eq_true, ↓reduceIte]
    have hq := h.quiet
    cases ho : s.bufOut with
    | none =>
      cases he : s.bufErr with
      | none =>
        refine ⟨?_, ?_, ?_, ?_, ?_⟩ <;> simp <;> first | omega | exact hq
      | some be =>
        have g := h.genErr be he
        refine ⟨?_, ?_, ?_, ?_, ?_⟩ <;> simp <;> first | omega | exact hq
    | some bo =>
      have go := h.genOut bo ho
      cases he : s.bufErr with
      | none =>
        refine ⟨?_, ?_, ?_, ?_, ?_⟩ <;> simp <;> first | omega | exact hq
      | some be =>
        have ge := h.genErr be he
        have d := h.distinct bo be ho he
        refine ⟨?_, ?_, ?_, ?_, ?_⟩ <;> simp <;> first | omega | exact hq | exact d

theorem inv_restore (buffer : Bool) (s : St) (h : Inv s) : Inv (restore buffer s).1 := by
  unfold restore
  split
  · constructor
    · simp
    · intro b hb
      obtain ⟨b0, h0, hg, _⟩ := take_some _ _ hb
      simpa [hg] using h.genOut b0 h0
    · intro b hb
      obtain ⟨b0, h0, hg, _⟩ := take_some _ _ hb
      simpa [hg] using h.genErr b0 h0
    · intro b c hb hc
      obtain ⟨b0, h0, hg, _⟩ := take_some _ _ hb
      obtain ⟨c0, h1, hg', _⟩ := take_some _ _ hc
      simpa [hg, hg'] using h.distinct b0 c0 h0 h1
    · exact h.quiet
  · exact h

theorem inv_skipReport (buffer : Bool) (s : St) (h : Inv s) : Inv (skipReport buffer s) := by
  unfold skipReport
  split
  · rename_i hc
    simp at hc
    obtain ⟨ho, he⟩ := h.flagBufs hc.2
    cases hbo : s.bufOut with
    | none => simp [hbo] at ho
    | some bo =>
      cases hbe : s.bufErr with
      | none => simp [hbe] at he
      | some be =>
        simp only
        constructor
        · intro _; simp
        · intro b hb; exact h.genOut b (by simpa [hbo] using hb)
        · intro b hb; exact h.genErr b (by simpa [hbe] using hb)
        · intro b c hb hc'; exact h.distinct b c (by simpa [hbo] using hb) (by simpa [hbe] using hc')
        · exact h.quiet
  · exact h

theorem inv_step (buffer : Bool) (s : St) (op : Op) (h : Inv s) : Inv (step buffer s op) := by
  cases op with
  | setUp => exact inv_setUp buffer s h
  | restore => exact inv_restore buffer s h
  | skipReport => exact inv_skipReport buffer s h
  | write w tok =>
    simp only [step]
    split
    · exact ⟨h.flagBufs, h.genOut, h.genErr, h.distinct, h.quiet⟩
    · exact h
    · rename_i r _ _
      constructor
      · intro hf
        simpa [writeBuf_isSome] using h.flagBufs hf
      · intro b hb
        obtain ⟨b0, h0, hg⟩ := writeBuf_some _ _ _ _ hb
        simpa [hg] using h.genOut b0 h0
      · intro b hb
        obtain ⟨b0, h0, hg⟩ := writeBuf_some _ _ _ _ hb
        simpa [hg] using h.genErr b0 h0
      · intro b c hb hc
        obtain ⟨b0, h0, hg⟩ := writeBuf_some _ _ _ _ hb
        obtain ⟨c0, h1, hg'⟩ := writeBuf_some _ _ _ _ hc
        simpa [hg, hg'] using h.distinct b0 c0 h0 h1
      · exact h.quiet
  | close w =>
    simp only [step]
    split
    · constructor
      · intro hf
        simpa [closeBuf_isSome] using h.flagBufs hf
      · intro b hb
        obtain ⟨b0, h0, hg⟩ := closeBuf_some _ _ _ hb
        simpa [hg] using h.genOut b0 h0
      · intro b hb
        obtain ⟨b0, h0, hg⟩ := closeBuf_some _ _ _ hb
        simpa [hg] using h.genErr b0 h0
      · intro b c hb hc
        obtain ⟨b0, h0, hg⟩ := closeBuf_some _ _ _ hb
        obtain ⟨c0, h1, hg'⟩ := closeBuf_some _ _ _ hc
        simpa [hg, hg'] using h.distinct b0 c0 h0 h1
      · exact h.quiet
    · exact h
  | install w r =>
    simp only [step]
    cases w <;> exact ⟨h.flagBufs, h.genOut, h.genErr, h.distinct, h.quiet⟩

theorem inv_run (buffer : Bool) (ops : List Op) (s : St) (h : Inv s) : Inv (run buffer ops s) := by
  induction ops generalizing s with
  | nil => exact h
  | cons op ops ih => exact ih _ (inv_step buffer s op h)

/-- **No runner operation raises**, whatever the test does to the streams, in any order, any number of times. -/
theorem C13S_never_raises (buffer : Bool) (ops : List Op) : (run buffer ops).raised = false :=
  (inv_run buffer ops {} inv_init).quiet

/-- each standard stream is the original or the capture stream the result holds for it -/
def Tame (s : St) : Prop :=
  (s.out = .orig ∨ isHeld s.out s.bufOut = true) ∧ (s.err = .orig ∨ isHeld s.err s.bufErr = true)

def Clean (s : St) : Prop := s.out = .orig ∧ s.err = .orig

instance (s : St) : Decidable (Clean s) := by unfold Clean; infer_instance

theorem not_acts (s : St) (h : restoreActs true s = false) :
    s.flag = false ∧ isHeld s.out s.bufOut = false ∧ isHeld s.err s.bufErr = false := by
  unfold restoreActs at h
  cases hf : s.flag <;> cases h1 : isHeld s.out s.bufOut <;> cases h2 : isHeld s.err s.bufErr <;> simp_all

/-- **A restore in a tame state leaves both standard streams the originals.** -/
theorem C13S_restore_clean (s : St) (h : Tame s) : Clean (restore true s).1 := by
  unfold restore
  cases hc : restoreActs true s with
  | true => exact ⟨rfl, rfl⟩
  | false =>
    have hn := not_acts s hc
    simp only [Bool.false_eq_true, ↓reduceIte]
    refine ⟨?_, ?_⟩
    · cases h.1 with
      | inl t => exact t
      | inr t => rw [hn.2.1] at t; exact absurd t (by decide)
    · cases h.2 with
      | inl t => exact t
      | inr t => rw [hn.2.2] at t; exact absurd t (by decide)

/-- ... and so does a restore that finds the capture in force, whatever the test installed meanwhile -/
theorem C13S_restore_clean_flag (s : St) (h : s.flag = true) : Clean (restore true s).1 := by
  unfold restore
  simp [restoreActs, h, Clean]

/-- the installs of a history are tame: the test only puts back the original stream or the capture stream the
result holds for that slot at that moment (what it found there) -/
def tameOps (buffer : Bool) : List Op → St → Bool
  | [], _ => true
  | .install w r :: ops, s =>
    (r == .orig || isHeld r (match w with | .out => s.bufOut | .err => s.bufErr)) &&
      tameOps buffer ops (step buffer s (.install w r))
  | op :: ops, s => tameOps buffer ops (step buffer s op)

theorem isHeld_writeBuf (r r' : Ref) (tok : Nat) (o : Option Buf) : isHeld r (writeBuf r' tok o) = isHeld r o := by
  cases o with
  | none => rfl
  | some b => simp only [writeBuf]; split <;> rfl

theorem isHeld_closeBuf (r r' : Ref) (o : Option Buf) : isHeld r (closeBuf r' o) = isHeld r o := by
  cases o with
  | none => rfl
  | some b => simp only [closeBuf]; split <;> rfl

theorem tame_step (buffer : Bool) (s : St) (op : Op) (h : Tame s)
    (hop : ∀ w r, op = .install w r → r = .orig ∨ isHeld r (match w with | .out => s.bufOut | .err => s.bufErr) = true) :
    Tame (step buffer s op) := by
  cases op with
  | setUp =>
    simp only [step, setUp]
    cases buffer with
    | false => simpa using h
    | true =>
      simp only [Bool.not_true, Bool.false_eq_true, ↓reduceIte]
      cases s.bufOut <;> cases s.bufErr <;> simp [Tame, isHeld]
  | restore =>
    simp only [step, restore]
    split
    · exact ⟨Or.inl rfl, Or.inl rfl⟩
    · exact h
  | skipReport =>
    simp only [step, skipReport]
    split
    · split
      · rename_i bo be ho he
        simp [Tame, isHeld, ho, he]
      · exact h
    · exact h
  | write w tok =>
    simp only [step]
    split
    · exact h
    · exact h
    · simpa [Tame, isHeld_writeBuf] using h
  | close w =>
    simp only [step]
    split
    · simpa [Tame, isHeld_closeBuf] using h
    · exact h
  | install w r =>
    have := hop w r rfl
    rcases h with ⟨h1, h2⟩
    cases w with
    | out =>
      simp only [step, St.setSys]
      exact ⟨by rcases this with t | t; exact Or.inl t; exact Or.inr t, h2⟩
    | err =>
      simp only [step, St.setSys]
      exact ⟨h1, by rcases this with t | t; exact Or.inl t; exact Or.inr t⟩

theorem tame_run (buffer : Bool) (ops : List Op) (s : St) (h : Tame s) (ht : tameOps buffer ops s = true) :
    Tame (run buffer ops s) := by
  induction ops generalizing s with
  | nil => exact h
  | cons op ops ih =>
    simp only [run, List.foldl_cons]
    cases op with
    | install w r =>
      simp only [tameOps, Bool.and_eq_true, Bool.or_eq_true, beq_iff_eq] at ht
      exact ih _ (tame_step buffer s _ h (by
        intro w' r' e
        cases e
        exact ht.1)) ht.2
    | setUp => exact ih _ (tame_step buffer s _ h (by intro _ _ e; cases e)) (by simpa [tameOps] using ht)
    | restore => exact ih _ (tame_step buffer s _ h (by intro _ _ e; cases e)) (by simpa [tameOps] using ht)
    | skipReport => exact ih _ (tame_step buffer s _ h (by intro _ _ e; cases e)) (by simpa [tameOps] using ht)
    | write w tok => exact ih _ (tame_step buffer s _ h (by intro _ _ e; cases e)) (by simpa [tameOps] using ht)
    | close w => exact ih _ (tame_step buffer s _ h (by intro _ _ e; cases e)) (by simpa [tameOps] using ht)

theorem tame_init : Tame {} := ⟨Or.inl rfl, Or.inl rfl⟩

/-- **Between tests and after the run the standard streams are the original objects**: a history in which the
test code only puts back streams it found, followed by the restore every test ends with (`stopTest`), leaves
`sys.stdout` and `sys.stderr` the originals - whatever was written, closed or put back, in whatever order. -/
theorem C13S_between_tests (ops : List Op) (ht : tameOps true ops {} = true) :
    Clean (run true (ops ++ [.restore])) := by
  have h := tame_run true ops {} tame_init ht
  simp only [run, List.foldl_append, List.foldl_cons, List.foldl_nil, step]
  exact C13S_restore_clean _ h

/-- a held capture stream is open and empty -/
def Fresh : Option Buf → Prop
  | none => True
  | some b => b.closed = false ∧ b.content = []

theorem take_fresh (o : Option Buf) : Fresh (take o).1 := by
  cases o with
  | none => trivial
  | some b =>
    simp only [take]
    split
    · trivial
    · rename_i hc
      simp at hc
      exact ⟨hc, rfl⟩

/-- **After a restore that acts, the result holds only open and empty capture streams** (a closed one is
dropped; `_setUpStdStreams` makes a new one for the next test). -/
theorem C13S_drained (s : St) (h : restoreActs true s = true) :
    Fresh (restore true s).1.bufOut ∧ Fresh (restore true s).1.bufErr := by
  unfold restore
  simp only [h, ↓reduceIte]
  exact ⟨take_fresh _, take_fresh _⟩

/-- what an open held capture stream holds -/
def contentOf : Option Buf → List Nat
  | some b => if b.closed then [] else b.content
  | none => []

/-- **What the restore hands to the report is what the open capture streams held.** -/
theorem C13S_returns_content (s : St) :
    (restore true s).2 = if restoreActs true s then some (contentOf s.bufOut, contentOf s.bufErr) else none := by
  unfold restore
  split
  · congr 1
    cases ho : s.bufOut <;> cases he : s.bufErr <;> simp [take, contentOf] <;> (try split) <;> (try split) <;> simp_all
  · rfl

/-- a written token goes to exactly one place: the open capture stream that is the standard stream written to,
the original stream (shown at once), or nowhere (a stream of the test's own, a closed or stale stream) -/
theorem C13S_write (buffer : Bool) (s : St) (w : Which) (tok : Nat) :
    let s' := step buffer s (.write w tok)
    (s.sys w = .orig → s'.shown = s.shown ++ [tok] ∧ s'.bufOut = s.bufOut ∧ s'.bufErr = s.bufErr) ∧
    (s.sys w ≠ .orig → s'.shown = s.shown) := by
  simp only [step]
  constructor
  · intro h
    simp [h]
  · intro h
    split
    · rename_i e; exact absurd e h
    · rfl
    · rfl

/-- **Without `--buffer` the runner's operations never touch the standard streams.** -/
theorem C13S_no_buffer (s : St) (op : Op) (h : ∀ w r, op ≠ .install w r) :
    (step false s op).out = s.out ∧ (step false s op).err = s.err := by
  cases op with
  | setUp => simp [step, setUp]
  | restore => simp [step, restore, restoreActs]
  | skipReport => simp [step, skipReport]
  | write w tok => simp only [step]; split <;> simp
  | close w => simp only [step]; split <;> simp
  | install w r => exact absurd rfl (h w r)

/-! Witnesses: the defects of the earlier versions, on concrete histories (the first of them is the input on
which the real code was observed to abort, D35). -/

def w35 : St := run true [.setUp, .close .out]
def w35b : St := run true [.setUp, .close .err, .restore, .install .out (.buf 0)]
def w35c : St := run true [.setUp, .close .out, .restore, .install .err (.buf 1)]

/-- D35: with the code before e2eb74d a test that closes the stream it finds as `sys.stdout` makes the next
`_restoreStdStreams` raise - and the capture streams stay installed. -/
theorem C13S_D35_witness :
    (restoreV0 true w35).raised = true ∧ (restoreV0 true w35).out ≠ .orig ∧ (restore true w35).1.raised = false ∧
      Clean (restore true w35).1 := by
  decide

/-- D35b: with e2eb74d alone, a test that closes `sys.stderr`, produces a first result event and then puts the
`sys.stdout` it saved back makes the second `_restoreStdStreams` dereference the dropped attribute. -/
theorem C13S_D35b_witness :
    (restoreV1 true w35b).raised = true ∧ (restore true w35b).1.raised = false ∧ Clean (restore true w35b).1 := by
  decide

/-- D35c: with e2eb74d alone, the mirror image (closes `sys.stdout`, puts the saved `sys.stderr` back) leaves
`sys.stderr` the capture stream after the test. -/
theorem C13S_D35c_witness :
    (restoreV1 true w35c).err = .buf 1 ∧ Clean (restore true w35c).1 := by
  decide

def wOps : List Op := [.setUp, .write .out 1, .close .err, .restore, .install .out (.buf 0), .write .out 2,
  .skipReport, .write .err 3]

/-- non-vacuity: a tame history with every kind of operation, ending in a tame state that is not clean before
the closing restore -/
example : tameOps true wOps {} = true ∧ ¬ Clean (run true wOps) ∧ Clean (run true (wOps ++ [.restore])) := by
  decide

end Ztr.Streams
