import Ztr.Model.Options
/-
C08, the glue in front of the predicate: the patterns `build_filtering_func` gets for `--test` and
`--module` are exactly the patterns given - the option values in command-line order, then the positional
filter - and the default `['.']` only when none was given (`C08O_test_given`, `C08O_module_given`); no
given test pattern is ever dropped, whatever the other arguments are (`C08O_test_kept`).  The code before
754845a dropped a positional test filter next to an empty positional module filter (`C08O_D37_witness`).
-/
namespace Ztr.Options

/-- the test patterns given on the command line: option values, then the positional filter -/
def givenTest {P : Type} (r : Raw P) : List P := r.test ++ r.legacyTest.toList

/-- the module patterns given: option values, then the positional filter unless it is the no-op '.' -/
def givenModule {P : Type} [DecidableEq P] (dot : P) (r : Raw P) : List P :=
  r.module ++ (r.legacyModule.toList.filter (fun m => m ≠ dot))

/-- **C08O_test_given** - the test filter gets exactly the given patterns; `['.']` iff none was given. -/
theorem C08O_test_given {P : Type} [DecidableEq P] (dot : P) (r : Raw P) (h : r.WF) :
    (filters dot r).2 = orDot dot (givenTest r) := by
  unfold filters givenTest
  cases hm : r.legacyModule with
  | none =>
    have : r.legacyTest = none := by
      cases ht : r.legacyTest with
      | none => rfl
      | some t => have := h (by simp [ht]); simp [hm] at this
    simp [this]
  | some m =>
    cases ht : r.legacyTest <;> simp

/-- **C08O_module_given** - likewise for the module filter (a positional '.' stands for "no filter"). -/
theorem C08O_module_given {P : Type} [DecidableEq P] (dot : P) (r : Raw P) :
    (filters dot r).1 = orDot dot (givenModule dot r) := by
  unfold filters givenModule
  cases hm : r.legacyModule with
  | none => simp
  | some m =>
    by_cases e : m = dot
    · simp [e]
    · simp [e]

/-- **C08O_test_kept** - no given test pattern is dropped. -/
theorem C08O_test_kept {P : Type} [DecidableEq P] (dot : P) (r : Raw P) (h : r.WF) (p : P)
    (hp : p ∈ givenTest r) : p ∈ (filters dot r).2 := by
  rw [C08O_test_given dot r h]
  unfold orDot
  split
  · rename_i he
    simp only [List.isEmpty_iff] at he
    rw [he] at hp
    exact absurd hp List.not_mem_nil
  · exact hp

/-- **C08O_D37_witness** - `'' foo` with the code before 754845a: the positional test filter `foo` vanishes
(every test is selected); the repaired code hands it on.  Patterns: 0 = '.', 1 = '', 2 = 'foo'. -/
theorem C08O_D37_witness :
    (filtersOld 0 1 ({ legacyModule := some 1, legacyTest := some 2 } : Raw Nat)).2 = [0] ∧
      (filters 0 ({ legacyModule := some 1, legacyTest := some 2 } : Raw Nat)) = ([1], [2]) := by
  decide

example : ({ legacyModule := some 1, legacyTest := some 2 } : Raw Nat).WF := by simp [Raw.WF]

end Ztr.Options
