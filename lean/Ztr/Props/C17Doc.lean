import Ztr.Props.C17
/-! # C17 — doctests are filed under the module/object they document -/
namespace Ztr.Xml

theorem splitDotsAux_nodot (p cur : Str) (h : ∀ c ∈ p, c ≠ 46) : splitDotsAux p cur = [cur.reverse ++ p] := by
  induction p generalizing cur with
  | nil => simp [splitDotsAux]
  | cons c r ih =>
    have hc : c ≠ 46 := h c (by simp)
    rw [splitDotsAux, if_neg hc, ih (c :: cur) (fun x hx => h x (by simp [hx]))]
    simp

theorem splitDotsAux_cons (p rest cur : Str) (h : ∀ c ∈ p, c ≠ 46) :
    splitDotsAux (p ++ 46 :: rest) cur = (cur.reverse ++ p) :: splitDotsAux rest [] := by
  induction p generalizing cur with
  | nil => simp [splitDotsAux]
  | cons c r ih =>
    have hc : c ≠ 46 := h c (by simp)
    rw [List.cons_append, splitDotsAux, if_neg hc, ih (c :: cur) (fun x hx => h x (by simp [hx]))]
    simp

/-- splitting a dotted name built from dot-free components gives the components back -/
theorem splitDots_joinDots : ∀ (ps : List Str), ps ≠ [] → (∀ p ∈ ps, ∀ c ∈ p, c ≠ 46) → splitDots (joinDots ps) = ps
  | [], h, _ => absurd rfl h
  | [p], _, h => by
    unfold splitDots joinDots
    rw [splitDotsAux_nodot p [] (h p (by simp))]; simp
  | p :: q :: rest, _, h => by
    have ih := splitDots_joinDots (q :: rest) (by simp) (fun x hx => h x (by simp [hx]))
    unfold splitDots at *
    show splitDotsAux (p ++ [46] ++ joinDots (q :: rest)) [] = _
    rw [List.append_assoc, List.singleton_append, splitDotsAux_cons p _ [] (h p (by simp)), ih]
    simp

/-- **C17_doctest_name** — a doctest named `pkg.mod.obj` (dot-free components) is filed in the suite and
class `pkg.mod` under the name `obj`: its own module and object, whatever else is recorded. -/
theorem C17_doctest_name (mods : List Str) (obj : Str) (hm : ∀ p ∈ mods, ∀ c ∈ p, c ≠ 46) (ho : ∀ c ∈ obj, c ≠ 46) :
    parseNames (.doctest (joinDots (mods ++ [obj]))) = (joinDots mods, obj, joinDots mods) := by
  have hs := splitDots_joinDots (mods ++ [obj]) (by simp) (by
    intro p hp
    rcases List.mem_append.1 hp with h | h
    · exact hm p h
    · simp at h; subst h; exact ho)
  simp only [parseNames, hs, List.dropLast_concat, List.getLast?_concat, Option.getD_some]

example : parseNames (.doctest (lit "wtests.T7.t7")) = (lit "wtests.T7", lit "t7", lit "wtests.T7") := by decide

end Ztr.Xml
