import Ztr.Model.Channel
/-! # C06 / C07 — which lines of a layer subprocess's stdout are dropped as keep-alive lines -/
namespace Ztr.Channel

theorem dropWhile_dots (k : Nat) (t : Bytes) (ht : t.head? ≠ some 46) :
    (List.replicate k 46 ++ t).dropWhile (· == 46) = t := by
  induction k with
  | zero =>
    cases t with
    | nil => rfl
    | cons a r =>
      have : a ≠ 46 := by intro e; exact ht (by simp [e])
      simp [List.dropWhile_cons, this]
  | succ k ih => simpa [List.replicate_succ, List.dropWhile_cons] using ih

theorem split_dots : ∀ (ln : Bytes), ∃ k, ln = List.replicate k 46 ++ ln.dropWhile (· == 46) ∧
    (ln.head? == some 46) = decide (0 < k)
  | [] => ⟨0, by simp, by simp⟩
  | a :: r => by
    by_cases ha : a = 46
    · obtain ⟨k, h1, _⟩ := split_dots r
      refine ⟨k + 1, ?_, by simp [ha]⟩
      subst ha
      simp only [List.dropWhile_cons, beq_self_eq_true, if_true, List.replicate_succ, List.cons_append, List.cons.injEq,
        true_and]
      exact h1
    · refine ⟨0, by simp [List.dropWhile_cons, ha], ?_⟩
      simp [ha]

/-- **C06_dots_exact** — a line is taken for a keep-alive line exactly when it consists of one or more dots
followed by `\r\n`, `\r` or `\n` and nothing else; every other line of the layer's output is kept. -/
theorem C06_dots_exact (ln : Bytes) :
    isDotsLine ln = true ↔ ∃ k, 0 < k ∧ (ln = List.replicate k 46 ++ [13, 10] ∨ ln = List.replicate k 46 ++ [13] ∨
      ln = List.replicate k 46 ++ [10]) := by
  constructor
  · intro h
    unfold isDotsLine at h
    simp only [Bool.and_eq_true, Bool.or_eq_true, beq_iff_eq] at h
    obtain ⟨hh, ht⟩ := h
    obtain ⟨k, h1, h2⟩ := split_dots ln
    have hk : 0 < k := by
      have : (ln.head? == some 46) = true := by simp [hh]
      rw [h2] at this; simpa using this
    refine ⟨k, hk, ?_⟩
    rcases ht with (e | e) | e <;> rw [e] at h1
    · exact Or.inl h1
    · exact Or.inr (Or.inl h1)
    · exact Or.inr (Or.inr h1)
  · have key : ∀ (k : Nat) (t : Bytes), 0 < k → t.head? ≠ some 46 → (t = [13, 10] ∨ t = [13] ∨ t = [10]) →
        isDotsLine (List.replicate k 46 ++ t) = true := by
      intro k t hk ht hterm
      unfold isDotsLine
      simp only [dropWhile_dots k t ht]
      cases k with
      | zero => omega
      | succ k =>
        rcases hterm with e | e | e <;> subst e <;> simp [List.replicate_succ]
    rintro ⟨k, hk, h | h | h⟩ <;> subst h
    · exact key k _ hk (by simp) (Or.inl rfl)
    · exact key k _ hk (by simp) (Or.inr (Or.inl rfl))
    · exact key k _ hk (by simp) (Or.inr (Or.inr rfl))

theorem C06_keeps_all_but_dots (bs : Bytes) (l : Bytes) :
    l ∈ keptLines bs ↔ l ∈ stdoutLines bs ∧ isDotsLine l = false := by
  unfold keptLines
  simp [List.mem_filter]

/-- lines that merely start with dots are output of the layer (D31) -/
example : isDotsLine [46, 46, 46, 13, 46, 10] = false ∧ isDotsLine [46, 46, 13, 10] = true ∧
    isDotsLine [46, 10] = true ∧ isDotsLine [10] = false ∧ isDotsLine [32, 46, 10] = false := by decide

end Ztr.Channel
