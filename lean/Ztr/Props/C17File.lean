import Ztr.Model.XmlFile
/-!
# C17 — report file names: one file per suite, inside the reports directory

* `C17F_no_separator`: a report file name contains no path separator: the file lies in the reports directory,
  whatever the suite (a doctest named through `__test__`) is called;
* `C17F_decode`, `C17F_injective`: two suites never share a file: no report overwrites another one
  ("every test that passed appears exactly once") - the code before 2d5a04c failed at `open()` for such names
  (D43), a scheme that only *replaced* separators would merge `a/b` and `a%2Fb` (`C17F_naive_collides`).
-/
namespace Ztr.XmlFile

theorem encChar_no_slash (c : Nat) : slash ∉ encChar c := by
  unfold encChar
  split
  · simp [slash]
  · split
    · simp [slash]
    · rename_i h1 h2
      simp only [List.mem_singleton]
      exact fun e => h2 e.symm

/-- **C17F_no_separator** -/
theorem C17F_no_separator (name : Str) : slash ∉ stem name := by
  unfold stem
  intro h
  rw [List.mem_flatMap] at h
  obtain ⟨c, _, hc⟩ := h
  exact encChar_no_slash c hc

theorem decode_cons_ne (c : Nat) (rest : Str) (h : c ≠ 37) : decode (c :: rest) = c :: decode rest := by
  rw [decode.eq_3]
  · intro r hc _; exact h hc
  · intro r hc _; exact h hc

theorem decode_encChar_append (c : Nat) (rest : Str) :
    decode (encChar c ++ rest) = c :: decode rest := by
  unfold encChar
  by_cases h1 : c = pct
  · subst h1; simp [decode, pct]
  · by_cases h2 : c = slash
    · subst h2; simp [decode, pct, slash]
    · simp only [h1, h2, if_false, List.singleton_append]
      exact decode_cons_ne c rest h1

/-- **C17F_decode** — the suite name can be read back from the file name -/
theorem C17F_decode (name : Str) : decode (stem name) = name := by
  induction name with
  | nil => simp [stem, decode]
  | cons c rest ih =>
    have : stem (c :: rest) = encChar c ++ stem rest := by simp [stem]
    rw [this, decode_encChar_append c (stem rest), ih]

/-- **C17F_injective** — different suites, different files -/
theorem C17F_injective (a b : Str) (h : stem a = stem b) : a = b := by
  have := congrArg decode h
  rwa [C17F_decode, C17F_decode] at this

/-- a scheme that writes the separator as `%2F` but leaves `%` alone merges two suites -/
theorem C17F_naive_collides :
    let naive : Str → Str := fun n => n.flatMap (fun c => if c = slash then [37, 50, 70] else [c])
    naive [97, 47, 98] = naive [97, 37, 50, 70, 98] ∧ stem [97, 47, 98] ≠ stem [97, 37, 50, 70, 98] := by
  decide

example : stem [97, 47, 98, 37] = [97, 37, 50, 70, 98, 37, 50, 53] := by decide

end Ztr.XmlFile
