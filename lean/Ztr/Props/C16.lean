import Ztr.Props.C05
/-! # C16 — `--stop-on-error` stops after the first failing test but still cleans up -/
namespace Ztr.Result
open Ztr.Proto

/-- the result calls that record a failure or an error -/
def IsBadOp : Op → Prop
  | .addFailure | .addError | .addUnexpectedSuccess | .addSubTest (some _) => True
  | _ => False

/-- **C16_stop_set** — under `--stop-on-error` every recorded failure/error sets `shouldStop`. -/
theorem C16_stop_set (c : Cfg) (t : TestDef) (s : RS) (op : Op) (hc : c.stopOnError = true)
    (hr : Running s) (hop : IsBadOp op) : (step c t s op).shouldStop = true := by
  unfold step
  simp only [hr.aborted, Bool.false_eq_true, if_false]
  cases op with
  | addSubTest e =>
    cases e with
    | none => simp [IsBadOp] at hop
    | some e => simp [bad, stopIf, hc, hr.hasStartTime]
  | addFailure => simp [bad, stopIf, hc, hr.hasStartTime]
  | addError => simp [bad, stopIf, hc, hr.hasStartTime]
  | addUnexpectedSuccess => simp [bad, stopIf, hc, hr.hasStartTime]
  | _ => simp [IsBadOp] at hop

/-- **C16_stop_mono** — nothing resets `shouldStop` within a `TestResult`. -/
theorem C16_stop_mono (c : Cfg) (t : TestDef) (s : RS) (op : Op) (h : s.shouldStop = true) :
    (step c t s op).shouldStop = true := by
  unfold step
  split
  · exact h
  · cases op with
    | addSubTest e =>
      cases e <;> simp only [] <;> (try split) <;>
        simp [bad, stopIf, record, restoreStreams, RS.emit, h]
    | _ =>
      simp only [] <;> (try split) <;>
        simp [startTest, stopTest, setUpStreams, callHooksUp, callHooksDown, writeToks, bad, stopIf, record,
          restoreStreams, noteSkip, skipFallback, RS.emit, h]

theorem stop_mono_foldl (c : Cfg) (t : TestDef) : ∀ (ops : List Op) (s : RS), s.shouldStop = true →
    (ops.foldl (step c t) s).shouldStop = true
  | [], _, h => h
  | op :: ops, s, h => stop_mono_foldl c t ops _ (C16_stop_mono c t s op h)

/-- **C16_no_test_after** — once `shouldStop` is set no further test of the list is started: the
loop returns the state unchanged (no `tstart` event, no hook, no code). -/
theorem C16_no_test_after (c : Cfg) (ts : List TestDef) (s : RS) (h : s.shouldStop = true) :
    runTests c ts s = s := by
  cases ts with
  | nil => rfl
  | cons t ts => simp [runTests, h]

/-- consequently the events of a test list end with the first test that set `shouldStop` -/
theorem C16_prefix (c : Cfg) (t : TestDef) (ts : List TestDef) (s : RS)
    (h0 : (s.shouldStop || s.aborted || s.interrupted) = false)
    (h : (runTest c s t).shouldStop = true) : runTests c (t :: ts) s = runTest c s t := by
  rw [runTests]
  simp only [h0, Bool.false_eq_true, if_false]
  exact C16_no_test_after c ts _ h

end Ztr.Result

namespace Ztr.Runner
open Ztr.Result

/-- **C16_no_layer_after** — in a sequential run under `--stop-on-error`, once a layer leaves a
failure or an error behind, no further layer is set up in this process and none is handed to
`resume_tests` either (the layer loop returns with nothing left to run). -/
theorem C16_no_layer_after (w : World) (o : Opts) (l : Nat) (tests : List Proto.TestDef)
    (rest : List (Nat × List Proto.TestDef)) (s : PS)
    (hx : o.stopOnError = true) (hj : o.processes ≤ 1)
    (hok : ((runLayer w o l tests s).1.aborted || (runLayer w o l tests s).1.interrupted) = false)
    (hcan : (runLayer w o l tests s).2 = false)
    (hbad : (!(runLayer w o l tests s).1.failures.isEmpty || !(runLayer w o l tests s).1.errors.isEmpty) = true) :
    layerLoop w o ((l, tests) :: rest) s = ((runLayer w o l tests s).1, []) := by
  rw [layerLoop]
  have hj' : ¬ (o.processes > 1) := by omega
  simp only [hok, Bool.false_eq_true, if_false, hcan, hj', hx, hbad, Bool.and_self, if_true]

/-- the children are not started either: `resume_tests` starts nothing once a failure is known -/
theorem C16_no_child_after (o : Opts) (childBad : Nat → Bool) (rest : List (Nat × List Proto.TestDef))
    (n : Nat) (s : PS) (hx : o.stopOnError = true) (hj : o.processes ≤ 1)
    (hbad : (!s.failures.isEmpty || !s.errors.isEmpty) = true) :
    spawnAll o childBad rest n s = s := by
  cases rest with
  | nil => rfl
  | cons p rest =>
    rw [spawnAll]
    have : decide (o.processes ≤ 1) = true := by simp [hj]
    simp [hx, this, hbad]

/-- **C16_iterations** — `--repeat`: an iteration that ended with `shouldStop` is the last one. -/
theorem C16_iterations (w : World) (o : Opts) (l : Nat) (tests : List Proto.TestDef) (n : Nat) (s : PS)
    (hstop : (runTests (resultCfg w o l) tests {}).shouldStop = true)
    (hok : (runTests (resultCfg w o l) tests {}).aborted = false)
    (hint : (runTests (resultCfg w o l) tests {}).interrupted = false) :
    runIterations w o l tests (n + 1) s = runIterations w o l tests 1 s := by
  simp [runIterations, hstop, hok, hint]

end Ztr.Runner
