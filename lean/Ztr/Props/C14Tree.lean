import Ztr.Props.C14
/-! # C14 — independence of the file system's enumeration order, as one statement over whole trees -/
namespace Ztr.Discovery
open Ztr.Bytecode

/-- two directory trees that differ only in the order in which entries are enumerated, at any depth -/
inductive TreeEq : Tree → Tree → Prop
  | refl (t : Tree) : TreeEq t t
  | files {files files' : List Name} {subs : List (Name × Tree)} :
      files.Perm files' → TreeEq (.dir files subs) (.dir files' subs)
  | subs {files : List Name} {subs subs' : List (Name × Tree)} :
      subs.Perm subs' → TreeEq (.dir files subs) (.dir files subs')
  | child {files : List Name} {pre post : List (Name × Tree)} {n : Name} {t t' : Tree} :
      TreeEq t t' → TreeEq (.dir files (pre ++ (n, t) :: post)) (.dir files (pre ++ (n, t') :: post))
  | trans {a b c : Tree} : TreeEq a b → TreeEq b c → TreeEq a c

/-- sub-directory names are distinct in every directory (a file system guarantees it) -/
inductive WellNamed : Tree → Prop
  | dir {files : List Name} {subs : List (Name × Tree)} :
      (subs.map (·.1)).Nodup → (∀ p ∈ subs, WellNamed p.2) → WellNamed (.dir files subs)

theorem WellNamed.nodup {files : List Name} {subs : List (Name × Tree)} (h : WellNamed (.dir files subs)) :
    (subs.map (·.1)).Nodup := by cases h; assumption

theorem WellNamed.sub {files : List Name} {subs : List (Name × Tree)} (h : WellNamed (.dir files subs)) :
    ∀ p ∈ subs, WellNamed p.2 := by cases h; assumption

theorem TreeEq.wellNamed {t t' : Tree} (h : TreeEq t t') : WellNamed t → WellNamed t' := by
  induction h with
  | refl _ => exact id
  | files _ => intro hw; exact WellNamed.dir hw.nodup hw.sub
  | subs hp =>
    intro hw
    exact WellNamed.dir ((hp.map (·.1)).nodup_iff.1 hw.nodup) (fun p hp' => hw.sub p (hp.mem_iff.2 hp'))
  | @child files pre post n t t' _ ih =>
    intro hw
    refine WellNamed.dir ?_ ?_
    · have := hw.nodup; simpa using this
    · intro p hp
      rcases List.mem_append.1 hp with h | h
      · exact hw.sub p (List.mem_append.2 (Or.inl h))
      · rcases List.mem_cons.1 h with rfl | h
        · exact ih (hw.sub (n, t) (by simp))
        · exact hw.sub p (List.mem_append.2 (Or.inr (List.mem_cons_of_mem _ h)))
  | trans _ _ ih1 ih2 => exact fun hw => ih2 (ih1 hw)

/-- **C14_enum_independent** — the files discovered under a directory, and their order, do not depend on
the order in which the file system enumerates files and sub-directories at any depth. -/
theorem C14_enum_independent (e : Env) {t t' : Tree} (h : TreeEq t t') :
    WellNamed t → ∀ base, findIn e base t = findIn e base t' := by
  induction h with
  | refl _ => intro _ _; rfl
  | files hp =>
    intro _ base
    simp only [findIn]
    rw [C14_enum_independent_files e base hp]
  | subs hp => intro hw base; exact C14_enum_independent_dirs e base _ hp hw.nodup
  | @child files pre post n t t' _ ih =>
    intro hw base
    simp only [findIn]
    congr 2
    rw [findSubs_map, findSubs_map]
    simp only [List.map_append, List.map_cons]
    rw [ih (hw.sub (n, t) (by simp)) n]
  | trans h1 _ ih1 ih2 => intro hw base; rw [ih1 hw base, ih2 (h1.wellNamed hw) base]

/-- the same search paths over trees that differ only in enumeration order -/
inductive RootsEq : List (List Name × Tree) → List (List Name × Tree) → Prop
  | nil : RootsEq [] []
  | cons {r r' : List Name × Tree} {rs rs' : List (List Name × Tree)} :
      (r.1 = r'.1 ∧ WellNamed r.2 ∧ TreeEq r.2 r'.2) → RootsEq rs rs' → RootsEq (r :: rs) (r' :: rs')

/-- the same for a whole discovery over several search paths -/
theorem C14_enum_independent_roots (e : Env) (roots roots' : List (List Name × Tree))
    (h : RootsEq roots roots') :
    findTestFiles e roots = findTestFiles e roots' := by
  unfold findTestFiles
  congr 1
  induction h with
  | nil => rfl
  | @cons r r' rs rs' hr _ ih =>
    obtain ⟨h1, h2, h3⟩ := hr
    simp only [List.flatMap_cons]
    rw [ih, C14_enum_independent e h3 h2, h1]

/-- a nested tree whose entries are enumerated in two different orders at two depths -/
example : TreeEq
    (.dir [strName "b.py", strName "a.py"] [(strName "y", .dir [] []), (strName "x", .dir [strName "t.py", strName "s.py"] [])])
    (.dir [strName "a.py", strName "b.py"] [(strName "x", .dir [strName "s.py", strName "t.py"] []), (strName "y", .dir [] [])]) := by
  refine TreeEq.trans (TreeEq.files (List.Perm.swap _ _ _)) (TreeEq.trans (TreeEq.subs (List.Perm.swap _ _ _)) ?_)
  exact TreeEq.child (pre := []) (TreeEq.files (List.Perm.swap _ _ _))

end Ztr.Discovery
