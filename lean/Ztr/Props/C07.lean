import Ztr.Lemmas.Channel
/-! # C07 — subprocess result channel: nothing lost, nothing partial trusted -/
namespace Ztr.Channel

/-- line-level round trip -/
theorem parseLines_roundtrip (pre post : List Bytes) (ran : Nat) (fails errs : List Bytes)
    (hpre : ∀ l ∈ pre, parseHeader l = none)
    (hf : ∀ n ∈ fails, Clean n) (he : ∀ n ∈ errs, Clean n) :
    parseLines (pre ++ headerLine ran fails.length errs.length :: (fails ++ errs) ++ post)
      = .ok (Int.ofNat ran) fails errs := by
  unfold parseLines
  have e : pre ++ headerLine ran fails.length errs.length :: (fails ++ errs) ++ post
      = pre ++ (headerLine ran fails.length errs.length :: (fails ++ errs ++ post)) := by simp
  rw [e, findHeader_skip pre _ hpre]
  simp only [findHeader, parseHeader_headerLine]
  have hx : ∀ n : Nat, (Int.ofNat n).toNat = n := fun _ => rfl
  have hlen : ¬ (fails ++ errs ++ post).length < (Int.ofNat fails.length).toNat + (Int.ofNat errs.length).toNat := by
    simp only [hx, List.length_append]; omega
  simp only [hlen, if_false]
  have t1 : (fails ++ errs ++ post).take (Int.ofNat fails.length).toNat = fails := by
    simp only [hx, List.append_assoc, List.take_left']
  have t2 : ((fails ++ errs ++ post).drop (Int.ofNat fails.length).toNat).take (Int.ofNat errs.length).toNat = errs := by
    simp only [hx, List.append_assoc, List.drop_left', List.take_left']
  rw [t1, t2, decodeNames_clean fails hf, decodeNames_clean errs he]

/-- **C07_roundtrip** — for every volume and content of newline-terminated stderr noise before the
report in which no line parses as three Python ints (`hpre`), every noise after it (any bytes,
terminated or not), any number of names of any spelling (clean = squashed by the child: no '\n',
no surrounding ASCII whitespace, valid UTF-8): the parent records exactly the child's number of
tests and exactly its failed and errored names. -/
theorem C07_roundtrip (pre post : List Bytes) (tail : Bytes) (ran : Nat) (fails errs : List Bytes)
    (hpre0 : ∀ l ∈ pre, 10 ∉ l) (hpost0 : ∀ l ∈ post, 10 ∉ l) (htail : 10 ∉ tail)
    (hpre : ∀ l ∈ pre, parseHeader l = none)
    (hf : ∀ n ∈ fails, Clean n) (he : ∀ n ∈ errs, Clean n) :
    parse (joinLines pre ++ encodeReport ran fails errs ++ joinLines post ++ tail)
      = .ok (Int.ofNat ran) fails errs := by
  unfold parse encodeReport
  have e : joinLines pre ++ joinLines (headerLine ran fails.length errs.length :: (fails ++ errs))
        ++ joinLines post ++ tail
      = joinLines (pre ++ headerLine ran fails.length errs.length :: (fails ++ errs) ++ post) ++ tail := by
    rw [joinLines_append, joinLines_append]
  rw [e, splitLines_joinLines _ tail ?_ htail]
  · have hfh : findHeader (pre ++ headerLine ran fails.length errs.length :: (fails ++ errs) ++ post) =
        some ((Int.ofNat ran, Int.ofNat fails.length, Int.ofNat errs.length), fails ++ errs ++ post) := by
      have e' : pre ++ headerLine ran fails.length errs.length :: (fails ++ errs) ++ post
          = pre ++ (headerLine ran fails.length errs.length :: (fails ++ errs ++ post)) := by simp
      rw [e', findHeader_skip pre _ hpre]
      simp only [findHeader, parseHeader_headerLine]
    simp only [hfh]
    exact parseLines_roundtrip pre post ran fails errs hpre hf he
  · intro l hl
    simp only [List.mem_append, List.mem_cons] at hl
    rcases hl with (hl | rfl | hl | hl) | hl
    · exact hpre0 l hl
    · intro h10
      unfold headerLine at h10
      simp only [List.mem_append, List.mem_singleton] at h10
      have nd : ∀ n, 10 ∉ renderNat n := fun n h => by
        have := renderNat_digits n 10 h; simp [isDigit] at this
      rcases h10 with (((h | h) | h) | h) | h
      · exact nd _ h
      · omega
      · exact nd _ h
      · omega
      · exact nd _ h
    · exact (hf l hl).1
    · exact (he l hl).1
    · exact hpost0 l hl

/-- **C07_noise_after** — the result does not depend on what follows the report. -/
theorem C07_noise_after (pre post post' : List Bytes) (tail tail' : Bytes) (ran : Nat) (fails errs : List Bytes)
    (hpre0 : ∀ l ∈ pre, 10 ∉ l) (hpost0 : ∀ l ∈ post, 10 ∉ l) (hpost0' : ∀ l ∈ post', 10 ∉ l)
    (htail : 10 ∉ tail) (htail' : 10 ∉ tail')
    (hpre : ∀ l ∈ pre, parseHeader l = none)
    (hf : ∀ n ∈ fails, Clean n) (he : ∀ n ∈ errs, Clean n) :
    parse (joinLines pre ++ encodeReport ran fails errs ++ joinLines post ++ tail)
      = parse (joinLines pre ++ encodeReport ran fails errs ++ joinLines post' ++ tail') := by
  rw [C07_roundtrip pre post tail ran fails errs hpre0 hpost0 htail hpre hf he,
    C07_roundtrip pre post' tail' ran fails errs hpre0 hpost0' htail' hpre hf he]

/-- **C07_truncation** — a report cut at *any* byte offset (every strict prefix `p`), after any
non-spoofing noise, is never used partially: the parent reports a communication error (and records an
error for the layer) or — only possible when the cut removed nothing but the final newline of a
report that lists no names — records exactly the child's complete data.  Never an exception
(`C07_never_crash`), never a name list from a cut report, never a wrong number. -/
theorem C07_truncation (pre : List Bytes) (ran : Nat) (fails errs : List Bytes) (p s : Bytes)
    (hpre0 : ∀ l ∈ pre, 10 ∉ l) (hpre : ∀ l ∈ pre, parseHeader l = none)
    (hf : ∀ n ∈ fails, 10 ∉ n) (he : ∀ n ∈ errs, 10 ∉ n)
    (hs : s ≠ []) (hp : p ++ s = encodeReport ran fails errs) :
    parse (joinLines pre ++ p) = .commError ∨
      (fails = [] ∧ errs = [] ∧ parse (joinLines pre ++ p) = .ok (Int.ofNat ran) [] []) := by
  unfold encodeReport at hp
  obtain ⟨k, r, hk, hpk, t, ht⟩ := strictPrefix_joinLines _ p s hs hp
  have hnames : ∀ l ∈ fails ++ errs, 10 ∉ l := by
    intro l hl
    rcases List.mem_append.1 hl with h | h
    · exact hf l h
    · exact he l h
  have hhdr : 10 ∉ headerLine ran fails.length errs.length := by
    intro h10
    unfold headerLine at h10
    simp only [List.mem_append, List.mem_singleton] at h10
    have nd : ∀ n, 10 ∉ renderNat n := fun n h => by
      have := renderNat_digits n 10 h; simp [isDigit] at this
    rcases h10 with (((h | h) | h) | h) | h
    · exact nd _ h
    · omega
    · exact nd _ h
    · omega
    · exact nd _ h
  have hall : ∀ l ∈ headerLine ran fails.length errs.length :: (fails ++ errs), 10 ∉ l := by
    intro l hl
    rcases List.mem_cons.1 hl with rfl | h
    · exact hhdr
    · exact hnames l h
  -- r is part of line k, hence newline-free
  have hr : 10 ∉ r := by
    intro h10
    have hmem : (headerLine ran fails.length errs.length :: (fails ++ errs))[k]?.getD [] ∈
        headerLine ran fails.length errs.length :: (fails ++ errs) := by
      rw [List.getElem?_eq_getElem hk]; simp
    have := hall _ hmem
    rw [← ht] at this
    exact this (List.mem_append_left _ h10)
  unfold parse
  rw [hpk]
  have e : joinLines pre ++ (joinLines ((headerLine ran fails.length errs.length :: (fails ++ errs)).take k) ++ r)
      = joinLines (pre ++ (headerLine ran fails.length errs.length :: (fails ++ errs)).take k) ++ r := by
    simp [joinLines_append]
  rw [e, splitLines_joinLines _ r ?_ hr]
  · simp only []
    cases k with
    | zero =>
      have hnone : findHeader (pre ++ List.take 0 (headerLine ran fails.length errs.length :: (fails ++ errs))) = none := by
        simpa using findHeader_none pre hpre
      simp only [hnone]
      have ht' : r ++ t = headerLine ran fails.length errs.length := by simpa using ht
      unfold parseTail
      split
      · rename_i x y z hph
        split
        · rename_i h0
          obtain ⟨hx, hnf, hne⟩ := parseHeader_prefix_zero ran fails.length errs.length r t ht' x y z hph h0
          subst hx
          exact Or.inr ⟨List.eq_nil_of_length_eq_zero hnf, List.eq_nil_of_length_eq_zero hne, rfl⟩
        · exact Or.inl rfl
      · exact Or.inl rfl
    | succ k =>
      left
      have hfh : findHeader (pre ++ List.take (k + 1) (headerLine ran fails.length errs.length :: (fails ++ errs))) =
          some ((Int.ofNat ran, Int.ofNat fails.length, Int.ofNat errs.length), (fails ++ errs).take k) := by
        rw [findHeader_skip pre _ hpre]
        simp only [List.take_succ_cons, findHeader, parseHeader_headerLine]
      simp only [hfh]
      unfold parseLines
      simp only [hfh]
      have hx : ∀ n : Nat, (Int.ofNat n).toNat = n := fun _ => rfl
      have hlt : ((fails ++ errs).take k).length < (Int.ofNat fails.length).toNat + (Int.ofNat errs.length).toNat := by
        simp only [List.length_cons, List.length_append] at hk
        simp only [List.length_take, List.length_append, hx]
        omega
      simp only [hlt, if_true]
  · intro l hl
    rcases List.mem_append.1 hl with h | h
    · exact hpre0 l h
    · exact hall l (List.mem_of_mem_take h)

/-- **C07_never_crash** — for *every* byte string on the child's stderr (and a failed spawn) the
reader thread ends normally: it records a report or a communication error, never dies with an
exception that would leave the layer unrecorded. -/
theorem C07_never_crash (spawnFailed : Bool) (stderr : Bytes) : parentOutcome spawnFailed stderr ≠ .crash := by
  have hlines : ∀ ls, parseLines ls ≠ .crash := by
    intro ls
    unfold parseLines
    split
    · intro h; cases h
    · simp only [decodeNames]
      split <;> (intro h; cases h)
  have htail : ∀ t, parseTail t ≠ .crash := by
    intro t
    unfold parseTail
    split
    · split <;> (intro h; cases h)
    · intro h; cases h
  unfold parentOutcome
  split
  · intro h; cases h
  · unfold parse
    split
    · exact hlines _
    · exact htail _

/-- **C07_spawn_failure** — a child that cannot be started yields an error for the layer, whatever
else is known. -/
theorem C07_spawn_failure (stderr : Bytes) : parentOutcome true stderr = .commError := rfl

/-- only noise (no line parses as a header): an error is recorded -/
theorem C07_no_report (pre : List Bytes) (tail : Bytes) (hpre0 : ∀ l ∈ pre, 10 ∉ l) (htail : 10 ∉ tail)
    (hpre : ∀ l ∈ pre, parseHeader l = none) (htl : parseHeader tail = none) :
    parse (joinLines pre ++ tail) = .commError := by
  unfold parse
  rw [splitLines_joinLines pre tail hpre0 htail]
  simp [findHeader_none pre hpre, parseTail, htl]

/-- D10 (known finding): the guard `hpre` of `C07_roundtrip` is needed — a noise line of three ints
before the report is taken as the header and the real failure is lost. -/
theorem C07_spoof_witness :
    parse (joinLines [[49, 32, 48, 32, 48]] ++ encodeReport 3 [[102]] []) = .ok 1 [] [] := by decide

-- non-vacuity: noise, a unicode name and a name with an interior space meet every hypothesis
example : parse (joinLines [[119, 97, 114, 110]] ++ encodeReport 3 [[97, 32, 98]] [[195, 169]] ++ [120])
    = .ok 3 [[97, 32, 98]] [[195, 169]] := by decide
example : Clean [97, 32, 98] ∧ Clean [195, 169] := by unfold Clean; decide

-- the unterminated header without names is accepted, one that announces names is not
example : parse [51, 32, 48, 32, 48] = .ok 3 [] [] := by decide
example : parse [51, 32, 49, 32, 48] = .commError := by decide
example : parse ([51, 32, 49, 32, 48, 10] ++ [102]) = .commError := by decide

end Ztr.Channel
