import Ztr.Props.C06Run
import Ztr.Props.C02
/-! # C12 — the numbers of the "Total:" line against what happened in all processes of the run -/
namespace Ztr.Runner
open Ztr.Layers Ztr.Proto Ztr.Result

def isChildErr : Err → Bool
  | .child _ => true
  | _ => false

/-- number of "subprocess for layer" markers among the errors -/
def markers (es : List Err) : Nat := es.countP isChildErr

theorem markers_append (a b : List Err) : markers (a ++ b) = markers a + markers b := by
  simp [markers, List.countP_append]

theorem ownErrors_length (es : List Err) : (ownErrors es).length + markers es = es.length := by
  induction es with
  | nil => rfl
  | cons e r ih =>
    cases e <;> simp [ownErrors, markers, isChildErr, List.filter_cons, List.countP_cons] at ih ⊢ <;> omega

/-- spawn events of children the parent finds bad -/
def spawnBad (cb : Nat → Bool) (τ : List Ev) : Nat :=
  τ.countP (fun e => match e with | .spawn l _ => cb l | _ => false)

theorem spawnBad_append (cb : Nat → Bool) (a b : List Ev) : spawnBad cb (a ++ b) = spawnBad cb a + spawnBad cb b := by
  simp [spawnBad, List.countP_append]

/-- the markers among the errors are exactly the spawn events of bad children -/
def MK (cb : Nat → Bool) (s : PS) : Prop := markers s.errors = spawnBad cb s.trace

theorem mk_emit {cb : Nat → Bool} {s : PS} (h : MK cb s) (e : Ev) (he : ∀ l n, e ≠ .spawn l n) : MK cb (s.emit e) := by
  unfold MK at *
  show markers s.errors = spawnBad cb (s.trace ++ [e])
  rw [spawnBad_append, h]
  cases e <;> simp [spawnBad] <;> exact absurd rfl (he _ _)

theorem mk_tdOne {cb : Nat → Bool} (w : World) (l : Nat) {s : PS} (h : MK cb s) : MK cb (tdOne w l s) := by
  unfold tdOne
  by_cases ht : (w.info l).hasTearDown = true
  · simp only [ht, if_true]
    have h1 := mk_emit h (.tearDown l (w.tearDownResult l (countTearDown l s.trace))) (by intro _ _ hh; cases hh)
    split
    · unfold MK at *
      show markers ((s.emit _).errors ++ [Err.layerTearDown l]) = _
      rw [markers_append]
      simpa [markers, isChildErr] using h1
    · exact h1
  · simp only [ht, Bool.false_eq_true, if_false]
    exact h

theorem mk_tearDownList {cb : Nat → Bool} (w : World) (opt : Bool) :
    ∀ (order : List Nat) (s : PS), MK cb s → MK cb (tearDownList w opt order s).1
  | [], s, h => by simpa [tearDownList] using h
  | l :: ls, s, h => by
    rw [tearDownList_cons]
    split
    · exact mk_tdOne w l h
    · exact mk_tearDownList w opt ls _ (mk_tdOne w l h)

theorem mk_setupLayerF {cb : Nat → Bool} (w : World) :
    ∀ (f l : Nat) (s : PS), MK cb s → MK cb (setupLayerF w f l s).1 := by
  intro f
  induction f with
  | zero => intro l s h; exact h
  | succ f ih =>
    intro l s h
    have hb : ∀ (bs : List Nat) (s : PS), MK cb s → MK cb (setupBases (setupLayerF w f) bs s).1 := by
      intro bs
      induction bs with
      | nil => intro s h; exact h
      | cons b bs ihb =>
        intro s h
        rw [setupBases]
        split
        · exact ihb _ (ih b s h)
        · exact ih b s h
    rw [setupLayerF]
    split
    · exact h
    · have h1 := hb (w.graph.bases l) s h
      revert h1
      generalize setupBases (setupLayerF w f) (w.graph.bases l) s = R
      intro h1
      simp only []
      split
      · exact h1
      · split
        · have h2 := mk_emit h1 (.setUp l (!w.setUpRaises l (countSetUp l R.1.trace))) (by intro _ _ hh; cases hh)
          split
          · exact h2
          · exact h2
        · exact h1

theorem mk_iterDone {cb : Nat → Bool} (w : World) (o : Opts) (l : Nat) (tests : List TestDef) {s : PS}
    (h : MK cb s) : MK cb (iterDone w o l tests s) := by
  have he := extends_iterDone w o l tests s
  unfold MK at *
  rw [he.errors, he.trace, markers_append, spawnBad_append, h]
  have h1 : markers (iterDelta w o l tests).errors = 0 := by
    simp only [iterDelta, markers]
    apply List.countP_eq_zero.2
    intro e he'
    obtain ⟨t, _, rfl⟩ := List.mem_map.1 he'
    simp [isChildErr]
  have h2 : spawnBad cb (iterDelta w o l tests).trace = 0 := by
    simp only [iterDelta, spawnBad]
    apply List.countP_eq_zero.2
    intro e he'
    rcases List.mem_append.1 he' with hh | hh
    · obtain ⟨t, _, rfl⟩ := List.mem_map.1 hh; simp
    · simp at hh; subst hh; simp
  rw [h1, h2]


theorem spawnBad_tests (cb : Nat → Bool) (evs : List REv) : spawnBad cb (evs.map Ev.test) = 0 := by
  simp only [spawnBad]
  apply List.countP_eq_zero.2
  intro e he
  obtain ⟨t, _, rfl⟩ := List.mem_map.1 he
  simp

theorem mk_iterLogged {cb : Nat → Bool} (w : World) (o : Opts) (l : Nat) (tests : List TestDef) {s : PS}
    (h : MK cb s) : MK cb (iterLogged w o l tests s) := by
  unfold MK iterLogged at *
  show markers s.errors = spawnBad cb (s.trace ++ _)
  rw [spawnBad_append, spawnBad_tests, h]; rfl

theorem mk_runIterations {cb : Nat → Bool} (w : World) (o : Opts) (l : Nat) (tests : List TestDef) :
    ∀ (n : Nat) (s : PS), MK cb s → MK cb (runIterations w o l tests n s)
  | 0, s, h => by simpa [runIterations] using h
  | n + 1, s, h => by
    rw [runIterations_succ]
    split
    · exact mk_iterLogged (cb := cb) w o l tests h
    · split
      · exact mk_iterLogged (cb := cb) w o l tests h
      · split
        · exact mk_iterDone w o l tests h
        · exact mk_runIterations w o l tests n _ (mk_iterDone w o l tests h)

theorem mk_runLayer {cb : Nat → Bool} (w : World) (o : Opts) (l : Nat) (tests : List TestDef) {s : PS}
    (h : MK cb s) : MK cb (runLayer w o l tests s).1 := by
  rw [runLayer_eq]
  have h0 : MK cb (rlHeader o l s) := by
    unfold rlHeader
    split
    · exact h
    · exact mk_emit h _ (by intro _ _ hh; cases hh)
  have h1 : MK cb (tearDownUnneeded w (gather w.graph l) false (rlHeader o l s)).1 := mk_tearDownList w false _ _ h0
  split
  · exact h1
  · have h2 : MK cb (rlReady w o l s) := mk_setupLayerF w _ l _ h1
    split
    · unfold MK at *
      show markers ((rlReady w o l s).errors ++ [Err.layerSetUp l]) = spawnBad cb (rlReady w o l s).trace
      rw [markers_append, h2]; simp [markers, isChildErr]
    · exact mk_runIterations (cb := cb) w o l tests _ _ h2

theorem mk_layerLoop {cb : Nat → Bool} (w : World) (o : Opts) :
    ∀ (layers : List (Nat × List TestDef)) (s : PS), MK cb s → MK cb (layerLoop w o layers s).1
  | [], s, h => by simpa [layerLoop] using h
  | (l, tests) :: rest, s, h => by
    rw [layerLoop_cons]
    have h1 := mk_runLayer (cb := cb) w o l tests h
    split
    · exact h1
    · split
      · split
        · exact h1
        · exact mk_layerLoop w o rest _ h1
      · split
        · exact h1
        · split
          · exact h1
          · exact mk_layerLoop w o rest _ h1

theorem mk_spawnAll {cb : Nat → Bool} (o : Opts) :
    ∀ (rest : List (Nat × List TestDef)) (n : Nat) (s : PS), MK cb s → MK cb (spawnAll o cb rest n s)
  | [], _, s, h => by simpa [spawnAll] using h
  | (l, _) :: rest, n, s, h => by
    rw [spawnAll]
    split
    · exact h
    · apply mk_spawnAll o rest
      unfold MK at *
      cases hcb : cb l
      · simp only [Bool.false_eq_true, if_false]
        show markers s.errors = spawnBad cb (s.trace ++ [Ev.spawn l n])
        rw [spawnBad_append, h]; simp [spawnBad, hcb]
      · simp only [if_true]
        show markers (s.errors ++ [Err.child l]) = spawnBad cb (s.trace ++ [Ev.spawn l n])
        rw [spawnBad_append, markers_append, h]; simp [spawnBad, markers, isChildErr, hcb]

/-- in every process, the "subprocess for layer" markers are exactly the spawn events of bad children -/
theorem mk_finalState (w : World) (o : Opts) (cb : Nat → Bool) : MK cb (finalState w o cb) := by
  have hstart : MK cb (fsStart w o) := by
    unfold fsStart
    split
    · exact mk_emit (s := {}) rfl _ (by intro _ _ hh; cases hh)
    · rfl
  have hloop : MK cb (fsLoop w o).1 := by
    unfold fsLoop
    split
    · exact hstart
    · exact mk_layerLoop w o _ _ hstart
  rw [finalState_eq]
  split
  · exact hloop
  · apply mk_tearDownList
    unfold fsSpawned
    split
    · exact mk_spawnAll o _ _ _ hloop
    · exact hloop


/-! ### the lists of a process against its own trace -/

/-- failures / errors that happened in a process, read off its trace (layer hooks that raised count as errors) -/
def badFail (τ : List Ev) : Nat := τ.countP isFailEv
def badErr (τ : List Ev) : Nat := τ.countP (isErrEv (fun _ => false))

theorem countP_isErrEv_split (cb : Nat → Bool) (τ : List Ev) :
    τ.countP (isErrEv cb) = badErr τ + spawnBad cb τ := by
  induction τ with
  | nil => rfl
  | cons e r ih =>
    unfold badErr spawnBad at *
    simp only [List.countP_cons, ih]
    cases e with
    | spawn l n => cases hcb : cb l <;> simp [isErrEv, hcb] <;> omega
    | test t => cases t <;> simp [isErrEv] <;> omega
    | setUp l ok => cases ok <;> simp [isErrEv] <;> omega
    | tearDown l t => cases t <;> simp [isErrEv] <;> omega
    | _ => simp [isErrEv] <;> omega

/-- **C12_process_counts** — in every process that is not abandoned by a KeyboardInterrupt, whatever it is
told about its children: the failure list has one entry per failure event of its trace, and its own
errors (without the "subprocess for layer" markers) one entry per error event — erroring tests, layer
`setUp`s and `tearDown`s that raised. -/
theorem C12_process_counts (w : World) (o : Opts) (cb : Nat → Bool)
    (hint : (finalState w o cb).interrupted = false) :
    (finalState w o cb).failures.length = badFail (finalState w o cb).trace ∧
    (ownErrors (finalState w o cb).errors).length = badErr (finalState w o cb).trace := by
  have hc : Counted cb (finalState w o cb) := by
    rcases counted_finalState w o cb with h | h
    · rw [hint] at h; exact Bool.noConfusion h
    · exact h
  have hm := mk_finalState w o cb
  have ho := ownErrors_length (finalState w o cb).errors
  refine ⟨hc.1, ?_⟩
  have := hc.2
  rw [countP_isErrEv_split] at this
  unfold MK at hm
  omega

theorem sum_map_congr {α : Type} {L : List α} {f g : α → Nat} (h : ∀ x ∈ L, f x = g x) :
    (L.map f).sum = (L.map g).sum := by
  induction L with
  | nil => rfl
  | cons a r ih =>
    simp only [List.map_cons, List.sum_cons]
    rw [h a (by simp), ih (fun x hx => h x (by simp [hx]))]

/-- **C12_totals_truth** — the failures and errors of the "Total:" line are what happened in the run: one
failure per failure event and one error per error event in the parent and in every subprocess whose
report arrived, one error per subprocess that did not deliver its report, plus the import errors. -/
theorem C12_totals_truth (w : World) (o : Opts) (fate : Nat → Fate)
    (hp : (parentOut w o fate).interrupted = false)
    (hch : ∀ l ∈ spawnedLayers (parentOut w o fate).trace, (childOut w o l).interrupted = false) :
    (wholeTotals w o fate).2.1 = badFail (parentOut w o fate).trace +
      (((spawnedLayers (parentOut w o fate).trace).filter (fun l => fate l == .completes)).map
        (fun l => badFail (childOut w o l).trace)).sum ∧
    (wholeTotals w o fate).2.2.1 = badErr (parentOut w o fate).trace +
      (((spawnedLayers (parentOut w o fate).trace).filter (fun l => fate l == .completes)).map
        (fun l => badErr (childOut w o l).trace)).sum +
      ((spawnedLayers (parentOut w o fate).trace).filter (fun l => fate l == .lost)).length + w.importErrors := by
  obtain ⟨p1, p2⟩ := C12_process_counts w o (cbOf w o fate) hp
  have hchild : ∀ l ∈ (spawnedLayers (parentOut w o fate).trace).filter (fun l => fate l == .completes),
      (childOut w o l).failures.length = badFail (childOut w o l).trace ∧
      (childOut w o l).errors.length = badErr (childOut w o l).trace := by
    intro l hl
    have hl' := (List.mem_filter.1 hl).1
    have hi := hch l hl'
    obtain ⟨c1, c2⟩ := C12_process_counts w { o with resume := some (l, numberOf w o l) } (fun _ => false) hi
    refine ⟨c1, ?_⟩
    -- a child spawns nothing: no markers among its errors
    have hm := mk_finalState w { o with resume := some (l, numberOf w o l) } (fun _ => false)
    have ho := ownErrors_length (finalState w { o with resume := some (l, numberOf w o l) } (fun _ => false)).errors
    have hz : spawnBad (fun _ => false) (finalState w { o with resume := some (l, numberOf w o l) } (fun _ => false)).trace = 0 := by
      simp only [spawnBad]
      apply List.countP_eq_zero.2
      intro e _
      cases e <;> simp
    unfold MK at hm
    show (finalState w { o with resume := some (l, numberOf w o l) } (fun _ => false)).errors.length = _
    have c2' : (ownErrors (finalState w { o with resume := some (l, numberOf w o l) } (fun _ => false)).errors).length =
        badErr (childOut w o l).trace := c2
    omega
  unfold wholeTotals
  simp only
  constructor
  · rw [sum_map_congr (fun l hl => (hchild l hl).1)]
    show (finalState w o (cbOf w o fate)).failures.length + _ = _
    rw [p1]; rfl
  · rw [sum_map_congr (fun l hl => (hchild l hl).2)]
    show (ownErrors (finalState w o (cbOf w o fate)).errors).length + _ + _ + _ = _
    rw [p2]; rfl


/-! ### the two known deviations of the "Total:" line, as witnesses in the model

The model computes the totals the way the code does; where the code's numbers differ from what happened
(D4, D5 in `known_findings.json`) the model shows it too. -/

def c12W : World where
  graph := c1G
  info := fun _ => ⟨true, true, false, false⟩
  setUpRaises := fun _ _ => false
  tearDownResult := fun l _ => if l == 1 then .notImpl else .ok
  groups := [(1, [{ id := 10 }, { id := 11, body := { exc := some .fail } }]), (2, [{ id := 20, decoSkip := true }, { id := 21 }])]
  importErrors := 0

/-- **D5** — with `--repeat 2` every test starts twice, the total counts each once -/
theorem C12_D5_witness :
    (tstartIdsEv (parentOut c12W { repeat_ := 2 } (fun _ => .completes)).trace).length = 4 ∧
    (tstartIdsEv (childOut c12W { repeat_ := 2 } 2).trace).length = 4 ∧
    (wholeTotals c12W { repeat_ := 2 } (fun _ => .completes)).1 = 4 := by decide

/-- **D4** — a test skipped in a layer subprocess is missing from the total's skipped count -/
theorem C12_D4_witness :
    (childOut c12W {} 2).skipped = 1 ∧ spawnedLayers (parentOut c12W {} (fun _ => .completes)).trace = [2] ∧
    (wholeTotals c12W {} (fun _ => .completes)).2.2.2 = 0 := by decide

/-- the totals theorem on a concrete run with a failure in the parent, a resumed child and a lost child -/
example : (wholeTotals c12W {} (fun _ => .completes)) = (4, 1, 0, 0) ∧
    (wholeTotals c12W {} (fun _ => .lost)) = (2, 1, 1, 0) ∧
    (parentOut c12W {} (fun _ => .lost)).interrupted = false := by decide

end Ztr.Runner
