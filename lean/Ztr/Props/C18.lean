import Ztr.Model.Bracket
/-! # C18 — interpreter-global state changed for a run is restored afterwards -/
namespace Ztr.Bracket

/-- the shape facts of `Runner.run`, extracted from the source on every run -/
theorem C18_reverse_order :
    Facts.setupForward = true ∧ Facts.lateForward = true ∧ Facts.teardownInFinally = true ∧
    Facts.earlyReversed = true ∧ Facts.globalReversed = true ∧ Facts.earlyBeforeGlobal = true := by decide

/-- **C18_restored** (canonical configuration) — with every state-changing feature active, in the
order of `Runner.configure`, for every initial state satisfying the guards, every option value, and
every test phase that only touches the warning filters (normal end, failing tests, stop-on-error,
exception from a per-test hook, KeyboardInterrupt: the `finally` makes the tear-downs unconditional):
the global state after the run is the state before it. -/
theorem C18_restored_all (tr p thr dbg fmt prt : Nat) (body : G → G) (hb : BodyOk body) (g : G)
    (hg : g.trace = 0 ∧ g.thrTrace = 0 ∧ g.setTrace = osettrace ∧ g.profile = 0) :
    run [.coverage tr, .profiling p, .threshold thr, .debug dbg, .other, .traceback fmt prt] body g = g := by
  obtain ⟨h1, h2, h3, h4⟩ := hg
  have hbw := hb
  unfold run
  simp only [setupAll, globalSetup, List.foldl_cons, List.foldl_nil, lateSetup, List.reverse_cons,
    List.reverse_nil, List.nil_append, List.cons_append, earlyTeardown, globalTeardown]
  rw [hb _]
  cases g
  simp_all

/-- every subset of the options, i.e. every sub-list of the canonical feature list -/
theorem C18_restored (cov prof thrOn dbgOn : Bool) (tr p thr dbg fmt prt : Nat) (body : G → G)
    (hb : BodyOk body) (g : G)
    (hg1 : cov = true → g.trace = 0 ∧ g.thrTrace = 0 ∧ g.setTrace = osettrace)
    (hg2 : prof = true → g.profile = 0) :
    run ((if cov then [Feat.coverage tr] else []) ++ (if prof then [.profiling p] else []) ++
         (if thrOn then [.threshold thr] else []) ++ (if dbgOn then [.debug dbg] else []) ++
         [.other, .traceback fmt prt]) body g = g := by
  cases cov <;> cases prof <;> cases thrOn <;> cases dbgOn <;>
    (unfold run
     simp only [setupAll, globalSetup, List.foldl_cons, List.foldl_nil, lateSetup, List.reverse_cons,
       List.reverse_nil, List.nil_append, List.cons_append, List.append_nil, earlyTeardown, globalTeardown,
       if_true, if_false, Bool.false_eq_true]
     rw [hb _]
     try (cases g <;> simp_all))

/-- D21 (known finding): the guard is needed — a trace function installed before an in-process
`--coverage` run is gone afterwards. -/
theorem C18_D21_witness :
    let g : G := ⟨1, 0, 3, 4, 77, 0, osettrace, 0, 9, 10, 11⟩
    (run [.coverage 5, .other, .traceback 6 7] id g).trace = 0 ∧ g.trace = 77 := by decide

-- non-vacuity: a state meeting the guards, all options on
example : run [.coverage 5, .profiling 6, .threshold 700, .debug 32, .other, .traceback 8 9] id
    ⟨1, 0, 3, 4, 0, 0, osettrace, 0, 9, 10, 11⟩ = ⟨1, 0, 3, 4, 0, 0, osettrace, 0, 9, 10, 11⟩ := by decide

end Ztr.Bracket
