import Ztr.Model.Handover
/-
C11 / C03 / C06 — the command line survives the trip to a layer subprocess (Model/Handover):

* `H_roundtrip`: whatever the layer's name, the defaults and the user's words are (any words, also ones
  that look like `--default` or `--resume-layer`), the child recovers exactly the layer name, the resume
  number, the defaults and — behind the seed option, if one was added — the user's words, in order;
  the one guard is that the first word behind the defaults is not `--default` itself
  (`H_default_first_witness` shows what happens otherwise; the parent's own option parser rejects such a
  command line, so a parent that got as far as spawning never composes it);
* `H_roundtrip_seed`: with a seed option in front the guard is discharged: no condition on the user's words
  at all — the reason the repair of D32 put the option in front (`H_seed_in_front`: it is the first word
  `get_options` sees, every user word follows it unchanged, so nothing the user wrote — a `--`, positional
  filters — can change what the seed option means, and a later `--shuffle-seed` of the user still follows it);
* `H_parent`: a command line whose first word is not `--resume-layer` is not taken for a child's;
* `H_cut_short`: a child command line cut inside the fixed part is an error, never a run with other options.
-/
namespace Ztr.Handover

variable {S : Type} [DecidableEq S]

theorem takeDefaults_pairs (t : Toks S) (defaults tail : List S) (h : tail.head? ≠ some t.dflt) :
    takeDefaults t (defaults.flatMap (fun d => [t.dflt, d]) ++ tail) = some (defaults, tail) := by
  induction defaults with
  | nil =>
    simp only [List.flatMap_nil, List.nil_append]
    match tail, h with
    | [], _ => rfl
    | [a], h =>
      have : a ≠ t.dflt := by intro e; exact h (by simp [e])
      simp [takeDefaults, this]
    | a :: d :: rest, h =>
      have : a ≠ t.dflt := by intro e; exact h (by simp [e])
      simp [takeDefaults, this]
  | cons d ds ih =>
    simp only [List.flatMap_cons, List.cons_append, List.nil_append]
    rw [takeDefaults]
    simp [ih]

/-- **H_roundtrip** -/
theorem H_roundtrip (t : Toks S) (ht : t.Good) (given : List S) (name : S) (num : Nat) (defaults : List S)
    (seedOpt : Option S) (user : List S) (h : (seedOpt.toList ++ user).head? ≠ some t.dflt) :
    configure t given (childTail t name num defaults seedOpt user)
      = some { resume := some (name, num), defaults := defaults, args := seedOpt.toList ++ user } := by
  unfold childTail configure
  simp only [if_true]
  rw [ht num]
  simp only
  rw [takeDefaults_pairs t defaults _ h]

/-- **H_roundtrip_seed** — with the seed option in front nothing is asked of the user's words. -/
theorem H_roundtrip_seed (t : Toks S) (ht : t.Good) (given : List S) (name : S) (num : Nat) (defaults : List S)
    (seed : S) (hs : seed ≠ t.dflt) (user : List S) :
    configure t given (childTail t name num defaults (some seed) user)
      = some { resume := some (name, num), defaults := defaults, args := seed :: user } := by
  have := H_roundtrip t ht given name num defaults (some seed) user (by simp [hs])
  simpa using this

/-- **H_seed_in_front** — what `get_options` sees in the child is the parent's user words with at most the one
seed option in front of them. -/
theorem H_seed_in_front (t : Toks S) (ht : t.Good) (given : List S) (name : S) (num : Nat) (defaults : List S)
    (seedOpt : Option S) (user : List S) (h : (seedOpt.toList ++ user).head? ≠ some t.dflt) :
    ∃ c, configure t given (childTail t name num defaults seedOpt user) = some c ∧
      c.args = seedOpt.toList ++ user ∧ c.args.drop seedOpt.toList.length = user ∧ c.defaults = defaults := by
  refine ⟨_, H_roundtrip t ht given name num defaults seedOpt user h, rfl, ?_, rfl⟩
  simp

/-- **H_parent** — not a child's command line: the words and the given defaults go to `get_options` as they are. -/
theorem H_parent (t : Toks S) (given user : List S) (h : user.head? ≠ some t.resume) :
    configure t given user = some { resume := none, defaults := given, args := user } := by
  match user, h with
  | [], _ => rfl
  | a :: rest, h =>
    have : a ≠ t.resume := by intro e; exact h (by simp [e])
    simp [configure, this]

/-- **H_cut_short** — a child's command line cut inside its fixed part never configures a run. -/
theorem H_cut_short (t : Toks S) (given : List S) (name : S) :
    configure t given [t.resume] = none ∧ configure t given [t.resume, name] = none := by
  simp [configure]

/-- the guard of `H_roundtrip` is needed: a first user word `--default` (no seed option) is eaten, with the
word behind it, as one more default -/
theorem H_default_first_witness :
    let t : Toks Nat := { resume := 0, dflt := 1, showNum := fun n => n + 10, parseNum := fun s => some (s - 10) }
    t.Good ∧ configure t [] (childTail t 5 2 [7] none [1, 8, 9])
      = some { resume := some (5, 2), defaults := [7, 8], args := [9] } := by
  refine ⟨fun n => by simp, by decide⟩

/-- non-vacuity: a layer *named* `--default`, a default that is `--resume-layer`, a seed option, user words -/
example :
    let t : Toks Nat := { resume := 0, dflt := 1, showNum := fun n => n + 10, parseNum := fun s => some (s - 10) }
    configure t [] (childTail t 1 3 [0, 1] (some 4) [1, 1, 0])
      = some { resume := some (1, 3), defaults := [0, 1], args := [4, 1, 1, 0] } := by decide

end Ztr.Handover
