import Ztr.Props.C01
import Ztr.Props.C12
import Ztr.Props.C04
/-! # C03 — exactly the selected tests run, once each (execution side)

`Props/C03` shows that the layer loop visits every registered layer once, with its registered test
list.  Here: what a visit executes, and where.

* `C03_tests_started`       the `tstart` events of a test loop are exactly the started tests, in order
* `C03_all_started`         without `-x` and without a propagating KeyboardInterrupt every test of the
                            list is started
* `C03_iterations_execute`  `--repeat n`: the layer's list is executed `n` times, in listing order
* `C03_test_events_own_layer`  every test event of a process was emitted while running the test's own
                            layer, and (parent) that layer is not among the layers handed to children
* `C03_child_only_own_layer`  a child emits test events for its `--resume-layer` only
-/
namespace Ztr.Result
open Ztr.Proto

/-- the ids of the tests entered, in order -/
def tstartIds : List REv → List Nat
  | [] => []
  | .tstart t :: r => t :: tstartIds r
  | _ :: r => tstartIds r

theorem tstartIds_append (a b : List REv) : tstartIds (a ++ b) = tstartIds a ++ tstartIds b := by
  induction a with
  | nil => rfl
  | cons e r ih => cases e <;> simp [tstartIds, ih]

theorem tstartIds_none (l : List REv) (h : ∀ e ∈ l, ∀ t, e ≠ .tstart t) : tstartIds l = [] := by
  induction l with
  | nil => rfl
  | cons e r ih =>
    have he := h e (by simp)
    have ih' := ih (fun x hx => h x (by simp [hx]))
    cases e with
    | tstart t => exact absurd rfl (he t)
    | _ => simpa [tstartIds] using ih'

/-- no call on the result object emits a `tstart` -/
theorem step_tstartIds (c : Cfg) (t : TestDef) (s : RS) (op : Op) :
    tstartIds (step c t s op).evs = tstartIds s.evs := by
  have hmapU : ∀ (b : Bool) (ls : List Nat), tstartIds (ls.map (fun l => REv.hookSetUp l b)) = [] := by
    intro b ls; apply tstartIds_none; intro e he t; obtain ⟨l, _, rfl⟩ := List.mem_map.1 he; intro h; cases h
  have hmapD : ∀ (b : Bool) (ls : List Nat), tstartIds (ls.map (fun l => REv.hookTearDown l b)) = [] := by
    intro b ls; apply tstartIds_none; intro e he t; obtain ⟨l, _, rfl⟩ := List.mem_map.1 he; intro h; cases h
  have hleak : ∀ (ws : List (Bool × Nat)), tstartIds (ws.map (fun w => REv.leak t.id w.2)) = [] := by
    intro ws; apply tstartIds_none; intro e he t'; obtain ⟨l, _, rfl⟩ := List.mem_map.1 he; intro h; cases h
  unfold step
  split
  · rfl
  · cases op with
    | addSubTest e =>
      cases e <;> cases hcap : s.captured <;> cases hst : s.hasStartTime <;> cases hts : s.hasTestState <;>
        simp [bad, stopIf, record, restoreStreams, RS.emit, tstartIds_append, tstartIds, hcap, hst, hts]
    | _ =>
      cases hcap : s.captured <;> cases hst : s.hasStartTime <;> cases hts : s.hasTestState <;>
        simp [startTest, stopTest, setUpStreams, callHooksUp, callHooksDown, restoreStreams, writeToks, RS.emit,
          noteSkip, skipFallback, bad, stopIf, record, tstartIds_append, tstartIds, hmapU, hmapD, hleak, hcap, hst, hts]

theorem foldl_tstartIds (c : Cfg) (t : TestDef) : ∀ (ops : List Op) (s : RS),
    tstartIds (ops.foldl (step c t) s).evs = tstartIds s.evs
  | [], _ => rfl
  | op :: ops, s => by
    simp only [List.foldl_cons]
    rw [foldl_tstartIds c t ops, step_tstartIds]

/-- one test is entered exactly once -/
theorem runTest_tstartIds (c : Cfg) (t : TestDef) (s : RS) :
    tstartIds (runTest c s t).evs = tstartIds s.evs ++ [t.id] := by
  unfold runTest
  show tstartIds ((List.foldl (step c t) (s.emit (.tstart t.id)) (run t)).evs ++ [REv.tend t.id]) = _
  rw [tstartIds_append, foldl_tstartIds]
  show tstartIds (s.evs ++ [REv.tstart t.id]) ++ tstartIds [REv.tend t.id] = _
  rw [tstartIds_append]
  simp [tstartIds]

/-- **C03_tests_started** — the tests entered by the loop are exactly `startedTests`, in order: no
test outside the list, none twice. -/
theorem C03_tests_started (c : Cfg) : ∀ (ts : List TestDef) (s : RS),
    tstartIds (runTests c ts s).evs = tstartIds s.evs ++ (startedTests c ts s).map (·.id)
  | [], s => by simp [runTests, startedTests]
  | t :: ts, s => by
    unfold runTests startedTests
    split
    · simp
    · rw [C03_tests_started c ts, runTest_tstartIds]
      simp

/-- the loop conditions stay false: without `--stop-on-error` nothing sets `shouldStop` -/
theorem step_shouldStop (c : Cfg) (t : TestDef) (s : RS) (op : Op) (hc : c.stopOnError = false)
    (h : s.shouldStop = false) : (step c t s op).shouldStop = false := by
  unfold step
  split
  · exact h
  · cases op with
    | addSubTest e =>
      cases e <;> cases hcap : s.captured <;> cases hst : s.hasStartTime <;> cases hts : s.hasTestState <;>
        simp [bad, stopIf, record, restoreStreams, RS.emit, h, hc, hcap, hst, hts]
    | _ =>
      cases hcap : s.captured <;> cases hst : s.hasStartTime <;> cases hts : s.hasTestState <;>
        simp [startTest, stopTest, setUpStreams, callHooksUp, callHooksDown, restoreStreams, writeToks, RS.emit,
          noteSkip, skipFallback, bad, stopIf, record, h, hc, hcap, hst, hts]

theorem foldl_shouldStop (c : Cfg) (t : TestDef) (hc : c.stopOnError = false) : ∀ (ops : List Op) (s : RS),
    s.shouldStop = false → (ops.foldl (step c t) s).shouldStop = false
  | [], _, h => h
  | op :: ops, s, h => by
    simp only [List.foldl_cons]
    exact foldl_shouldStop c t hc ops _ (step_shouldStop c t s op hc h)

/-- only the `raiseInterrupt` step sets `interrupted` -/
theorem step_interrupted (c : Cfg) (t : TestDef) (s : RS) (op : Op) (hop : op ≠ .raiseInterrupt)
    (h : s.interrupted = false) : (step c t s op).interrupted = false := by
  unfold step
  split
  · exact h
  · cases op with
    | raiseInterrupt => exact absurd rfl hop
    | addSubTest e =>
      cases e <;> cases hcap : s.captured <;> cases hst : s.hasStartTime <;> cases hts : s.hasTestState <;>
        simp [bad, stopIf, record, restoreStreams, RS.emit, h, hcap, hst, hts]
    | _ =>
      cases hcap : s.captured <;> cases hst : s.hasStartTime <;> cases hts : s.hasTestState <;>
        simp [startTest, stopTest, setUpStreams, callHooksUp, callHooksDown, restoreStreams, writeToks, RS.emit,
          noteSkip, skipFallback, bad, stopIf, record, h, hcap, hst, hts]

theorem foldl_interrupted (c : Cfg) (t : TestDef) : ∀ (ops : List Op) (s : RS), (∀ op ∈ ops, op ≠ .raiseInterrupt) →
    s.interrupted = false → (ops.foldl (step c t) s).interrupted = false
  | [], _, _, h => h
  | op :: ops, s, hops, h => by
    simp only [List.foldl_cons]
    exact foldl_interrupted c t ops _ (fun o ho => hops o (by simp [ho])) (step_interrupted c t s op (hops op (by simp)) h)

/-- a test through which no KeyboardInterrupt propagates (a decidable property of its script) -/
def Quiet (t : TestDef) : Prop := ∀ op ∈ run t, op ≠ .raiseInterrupt

theorem runTest_flags (c : Cfg) (t : TestDef) (s : RS) (hc : c.stopOnError = false) (hq : Quiet t)
    (h1 : s.shouldStop = false) (h2 : s.interrupted = false) :
    (runTest c s t).shouldStop = false ∧ (runTest c s t).interrupted = false := by
  unfold runTest
  exact ⟨foldl_shouldStop c t hc _ _ h1, foldl_interrupted c t _ _ hq h2⟩

/-- **C03_all_started** — without `--stop-on-error`, and if no KeyboardInterrupt propagates out of a
test, the loop starts every test of the list (whatever else the tests raise). -/
theorem C03_all_started (c : Cfg) (hc : c.stopOnError = false) : ∀ (ts : List TestDef) (s : RS),
    (∀ t ∈ ts, Quiet t) → Between s → s.shouldStop = false → s.interrupted = false →
    startedTests c ts s = ts
  | [], _, _, _, _, _ => rfl
  | t :: ts, s, hq, hb, h1, h2 => by
    unfold startedTests
    simp only [h1, hb.aborted, h2, Bool.or_self, Bool.false_eq_true, if_false]
    obtain ⟨f1, f2⟩ := runTest_flags c t s hc (hq t (by simp)) h1 h2
    obtain ⟨_, _, _, hb'⟩ := runTest_bracket c t s hb
    rw [C03_all_started c hc ts _ (fun x hx => hq x (by simp [hx])) hb' f1 f2]

end Ztr.Result

namespace Ztr.Runner
open Ztr.Layers Ztr.Result

/-- the ids of the tests entered in a process trace, in order -/
def tstartIdsEv (τ : List Ev) : List Nat :=
  tstartIds (τ.filterMap (fun e => match e with | .test r => some r | _ => none))

theorem tstartIdsEv_append (a b : List Ev) : tstartIdsEv (a ++ b) = tstartIdsEv a ++ tstartIdsEv b := by
  unfold tstartIdsEv
  rw [List.filterMap_append, tstartIds_append]

theorem tstartIdsEv_tests (evs : List REv) : tstartIdsEv (evs.map Ev.test) = tstartIds evs := by
  unfold tstartIdsEv
  congr 1
  induction evs with
  | nil => rfl
  | cons e r ih => simp [ih]

/-- **C03_iterations_execute** — `--repeat n` without `-x`, no KeyboardInterrupt: the test phase of a
layer enters exactly the layer's registered tests, in their listing order, `n` times over — nothing
else, nothing twice within an iteration. -/
theorem C03_iterations_execute (w : World) (o : Opts) (l : Nat) (tests : List Proto.TestDef)
    (hx : o.stopOnError = false) (hq : ∀ t ∈ tests, Quiet t) :
    ∀ (n : Nat) (s : PS), tstartIdsEv (runIterations w o l tests n s).trace =
      tstartIdsEv s.trace ++ (List.replicate n (tests.map (·.id))).flatten := by
  have hc : (resultCfg w o l).stopOnError = false := hx
  have hstarted : tstartIds (runTests (resultCfg w o l) tests {}).evs = tests.map (·.id) := by
    rw [C03_tests_started, C03_all_started _ hc tests {} hq between_init rfl rfl]
    rfl
  have hflags : (runTests (resultCfg w o l) tests {}).shouldStop = false ∧
      (runTests (resultCfg w o l) tests {}).interrupted = false := by
    have : ∀ (ts : List Proto.TestDef) (s : RS), (∀ t ∈ ts, Quiet t) → Between s → s.shouldStop = false →
        s.interrupted = false → (runTests (resultCfg w o l) ts s).shouldStop = false ∧
          (runTests (resultCfg w o l) ts s).interrupted = false := by
      intro ts
      induction ts with
      | nil => intro s _ _ h1 h2; exact ⟨h1, h2⟩
      | cons t ts ih =>
        intro s hq' hb h1 h2
        unfold runTests
        simp only [h1, hb.aborted, h2, Bool.or_self, Bool.false_eq_true, if_false]
        obtain ⟨f1, f2⟩ := runTest_flags _ t s hc (hq' t (by simp)) h1 h2
        obtain ⟨_, _, _, hb'⟩ := runTest_bracket (resultCfg w o l) t s hb
        exact ih _ (fun x hx' => hq' x (by simp [hx'])) hb' f1 f2
    exact this tests {} hq between_init rfl rfl
  intro n
  induction n with
  | zero => intro s; simp [runIterations]
  | succ n ih =>
    intro s
    rw [runIterations_succ]
    have hna := runTests_not_aborted (resultCfg w o l) tests
    simp only [hna, hflags.1, hflags.2, Bool.false_eq_true, if_false]
    rw [ih]
    have hd : tstartIdsEv (iterDone w o l tests s).trace = tstartIdsEv s.trace ++ tests.map (·.id) := by
      unfold iterDone iterLogged PS.emit
      simp only [tstartIdsEv_append, tstartIdsEv_tests, hstarted]
      simp [tstartIdsEv, tstartIds]
    rw [hd, List.replicate_succ, List.flatten_cons, List.append_assoc]


/-! ## where the tests of a layer run -/

/-- `new` entries of a ghost log contain no test event -/
def NoTests (new : List (Ev × Snap)) : Prop := ∀ p ∈ new, ∀ r, p.1 ≠ Ev.test r

/-- every test event among `new` was emitted while running layer `l` -/
def TestsOf (l : Nat) (new : List (Ev × Snap)) : Prop := ∀ p ∈ new, ∀ r, p.1 = Ev.test r → p.2.layer = some l

theorem noTests_nil : NoTests [] := by intro p hp; simp at hp

theorem noTests_append {a b : List (Ev × Snap)} (ha : NoTests a) (hb : NoTests b) : NoTests (a ++ b) := by
  intro p hp
  rcases List.mem_append.1 hp with h | h
  · exact ha p h
  · exact hb p h

theorem testsOf_of_noTests {l : Nat} {a : List (Ev × Snap)} (h : NoTests a) : TestsOf l a :=
  fun p hp r hr => absurd hr (h p hp r)

theorem testsOf_append {l : Nat} {a b : List (Ev × Snap)} (ha : TestsOf l a) (hb : TestsOf l b) : TestsOf l (a ++ b) := by
  intro p hp
  rcases List.mem_append.1 hp with h | h
  · exact ha p h
  · exact hb p h

theorem glog_emit (s : PS) (e : Ev) : (s.emit e).glog = s.glog ++ [(e, { setup := s.setup })] := rfl

theorem glog_tdOne (w : World) (l : Nat) (s : PS) : ∃ new, (tdOne w l s).glog = s.glog ++ new ∧ NoTests new := by
  unfold tdOne
  by_cases ht : (w.info l).hasTearDown = true
  · simp only [ht, if_true]
    refine ⟨[(Ev.tearDown l (w.tearDownResult l (countTearDown l s.trace)), { setup := s.setup })], ?_, ?_⟩
    · split <;> rfl
    · intro p hp r; simp at hp; subst hp; intro h; cases h
  · simp only [ht, Bool.false_eq_true, if_false]
    exact ⟨[], by simp, noTests_nil⟩

theorem glog_tearDownList (w : World) (opt : Bool) :
    ∀ (order : List Nat) (s : PS), ∃ new, (tearDownList w opt order s).1.glog = s.glog ++ new ∧ NoTests new
  | [], s => ⟨[], by simp [tearDownList], noTests_nil⟩
  | l :: ls, s => by
    rw [tearDownList_cons]
    obtain ⟨n1, h1, t1⟩ := glog_tdOne w l s
    split
    · exact ⟨n1, h1, t1⟩
    · obtain ⟨n2, h2, t2⟩ := glog_tearDownList w opt ls (tdOne w l s)
      exact ⟨n1 ++ n2, by rw [h2, h1, List.append_assoc], noTests_append t1 t2⟩

theorem glog_setupLayerF (w : World) :
    ∀ (f l : Nat) (s : PS), ∃ new, (setupLayerF w f l s).1.glog = s.glog ++ new ∧ NoTests new := by
  intro f
  induction f with
  | zero => intro l s; exact ⟨[], by simp [setupLayerF], noTests_nil⟩
  | succ f ih =>
    intro l s
    have hb : ∀ (bs : List Nat) (s : PS), ∃ new, (setupBases (setupLayerF w f) bs s).1.glog = s.glog ++ new ∧ NoTests new := by
      intro bs
      induction bs with
      | nil => intro s; exact ⟨[], by simp [setupBases], noTests_nil⟩
      | cons b bs ihb =>
        intro s
        obtain ⟨n1, h1, t1⟩ := ih b s
        rw [setupBases]
        split
        · obtain ⟨n2, h2, t2⟩ := ihb (setupLayerF w f b s).1
          exact ⟨n1 ++ n2, by rw [h2, h1, List.append_assoc], noTests_append t1 t2⟩
        · exact ⟨n1, h1, t1⟩
    rw [setupLayerF]
    split
    · exact ⟨[], by simp, noTests_nil⟩
    · obtain ⟨n1, h1, t1⟩ := hb (w.graph.bases l) s
      revert h1
      generalize setupBases (setupLayerF w f) (w.graph.bases l) s = R
      intro h1
      simp only []
      have hsu : ∀ b : Bool, NoTests [((Ev.setUp l b, ({ setup := R.1.setup } : Snap)))] := by
        intro b p hp r; simp at hp; subst hp; intro h; cases h
      split
      · exact ⟨n1, h1, t1⟩
      · split
        · split
          · exact ⟨n1 ++ [(Ev.setUp l (!w.setUpRaises l (countSetUp l R.1.trace)), ({ setup := R.1.setup } : Snap))],
              by rw [glog_emit, h1, List.append_assoc], noTests_append t1 (hsu _)⟩
          · refine ⟨n1 ++ [(Ev.setUp l (!w.setUpRaises l (countSetUp l R.1.trace)), ({ setup := R.1.setup } : Snap))],
              ?_, noTests_append t1 (hsu _)⟩
            show (R.1.emit _).glog = _
            rw [glog_emit, h1, List.append_assoc]
        · exact ⟨n1, h1, t1⟩

theorem glog_iterLogged (w : World) (o : Opts) (l : Nat) (tests : List Proto.TestDef) (s : PS) :
    ∃ new, (iterLogged w o l tests s).glog = s.glog ++ new ∧ TestsOf l new := by
  refine ⟨_, rfl, ?_⟩
  intro p hp r _
  obtain ⟨e, _, rfl⟩ := List.mem_map.1 hp
  rfl

theorem glog_iterDone (w : World) (o : Opts) (l : Nat) (tests : List Proto.TestDef) (s : PS) :
    ∃ new, (iterDone w o l tests s).glog = s.glog ++ new ∧ TestsOf l new := by
  obtain ⟨n1, h1, t1⟩ := glog_iterLogged w o l tests s
  have hsplit : ∃ e g, (∀ r, e ≠ Ev.test r) ∧ (iterDone w o l tests s).glog = (iterLogged w o l tests s).glog ++ [(e, g)] := by
    unfold iterDone
    refine ⟨Ev.summary (runTests (resultCfg w o l) tests {}).testsRun
      ((runTests (resultCfg w o l) tests {}).failures.length + (runTests (resultCfg w o l) tests {}).unexpected.length)
      ((runTests (resultCfg w o l) tests {}).errors.length + w.importErrors)
      (runTests (resultCfg w o l) tests {}).skipped.length, { setup := (iterLogged w o l tests s).setup }, ?_, rfl⟩
    intro r h; cases h
  obtain ⟨e, g, hne, hg⟩ := hsplit
  refine ⟨n1 ++ [(e, g)], by rw [hg, h1, List.append_assoc], testsOf_append t1 ?_⟩
  intro p hp r hr
  simp at hp
  subst hp
  exact absurd hr (hne r)

theorem glog_runIterations (w : World) (o : Opts) (l : Nat) (tests : List Proto.TestDef) :
    ∀ (n : Nat) (s : PS), ∃ new, (runIterations w o l tests n s).glog = s.glog ++ new ∧ TestsOf l new := by
  intro n
  induction n with
  | zero => intro s; exact ⟨[], by simp [runIterations], testsOf_of_noTests noTests_nil⟩
  | succ n ih =>
    intro s
    rw [runIterations_succ]
    split
    · exact glog_iterLogged w o l tests s
    · split
      · exact glog_iterLogged w o l tests s
      · split
        · exact glog_iterDone w o l tests s
        · obtain ⟨n1, h1, t1⟩ := glog_iterDone w o l tests s
          obtain ⟨n2, h2, t2⟩ := ih (iterDone w o l tests s)
          exact ⟨n1 ++ n2, by rw [h2, h1, List.append_assoc], testsOf_append t1 t2⟩

attribute [local irreducible] runIterations setupLayer tearDownUnneeded in
/-- what `run_layer` adds to the log: test events of layer `l` only, and none at all when it ends
with `CanNotTearDown` -/
theorem glog_runLayer (w : World) (o : Opts) (l : Nat) (tests : List Proto.TestDef) (s : PS) :
    ∃ new, (runLayer w o l tests s).1.glog = s.glog ++ new ∧ TestsOf l new ∧
      ((runLayer w o l tests s).2 = true → NoTests new) := by
  rw [runLayer_eq]
  obtain ⟨n0, h0, t0⟩ : ∃ new, (rlHeader o l s).glog = s.glog ++ new ∧ NoTests new := by
    unfold rlHeader
    split
    · exact ⟨[], by simp, noTests_nil⟩
    · exact ⟨[(Ev.header l, ({ setup := s.setup } : Snap))], glog_emit s _,
        by intro p hp r; simp at hp; subst hp; intro h; cases h⟩
  obtain ⟨n1, h1, t1⟩ : ∃ new, (tearDownUnneeded w (gather w.graph l) false (rlHeader o l s)).1.glog =
      (rlHeader o l s).glog ++ new ∧ NoTests new := by
    have : (tearDownUnneeded w (gather w.graph l) false (rlHeader o l s)).1 =
        (tearDownList w false (orderByBases w.graph ((rlHeader o l s).setup.filter (fun x => !(gather w.graph l).contains x))).reverse
          (rlHeader o l s)).1 := by
      unfold tearDownUnneeded; rfl
    rw [this]; exact glog_tearDownList w false _ _
  obtain ⟨n2, h2, t2⟩ : ∃ new, (rlReady w o l s).glog =
      (tearDownUnneeded w (gather w.graph l) false (rlHeader o l s)).1.glog ++ new ∧ NoTests new := by
    have : rlReady w o l s = (setupLayerF w (l + 1) l (tearDownUnneeded w (gather w.graph l) false (rlHeader o l s)).1).1 := by
      unfold rlReady setupLayer; rfl
    rw [this]; exact glog_setupLayerF w _ _ _
  split
  · exact ⟨n0 ++ n1, by rw [h1, h0, List.append_assoc], testsOf_of_noTests (noTests_append t0 t1),
      fun _ => noTests_append t0 t1⟩
  · split
    · refine ⟨n0 ++ n1 ++ n2, ?_, testsOf_of_noTests (noTests_append (noTests_append t0 t1) t2), fun h => by cases h⟩
      show (rlReady w o l s).glog = _
      rw [h2, h1, h0]; simp only [List.append_assoc]
    · obtain ⟨n3, h3, t3⟩ := glog_runIterations w o l tests (if o.repeat_ = 0 then 1 else o.repeat_) { rlReady w o l s with ran := 0 }
      refine ⟨n0 ++ n1 ++ n2 ++ n3, ?_, testsOf_append (testsOf_of_noTests (noTests_append (noTests_append t0 t1) t2)) t3,
        fun h => by cases h⟩
      show (runIterations w o l tests (if o.repeat_ = 0 then 1 else o.repeat_) { rlReady w o l s with ran := 0 }).glog = _
      rw [h3]
      show (rlReady w o l s).glog ++ n3 = _
      rw [h2, h1, h0]; simp only [List.append_assoc]

/-- every test event among `new` belongs to one of the layers `ls` -/
def TestsAmong (ls : List Nat) (new : List (Ev × Snap)) : Prop :=
  ∀ p ∈ new, ∀ r, p.1 = Ev.test r → ∃ l ∈ ls, p.2.layer = some l

/-- the layer loop of the parent: the layers are split into the ones it consumed and the ones it
leaves for `resume_tests`; every test event it adds belongs to a consumed layer -/
theorem glog_layerLoop (w : World) (o : Opts) (hr : o.resume = none) :
    ∀ (layers : List (Nat × List Proto.TestDef)) (s : PS),
      ∃ pre new, layers = pre ++ (layerLoop w o layers s).2 ∧ (layerLoop w o layers s).1.glog = s.glog ++ new ∧
        TestsAmong (pre.map (·.1)) new
  | [], s => ⟨[], [], by simp [layerLoop], by simp [layerLoop], by intro p hp; simp at hp⟩
  | (l, tests) :: rest, s => by
    rw [layerLoop]
    obtain ⟨n1, h1, t1, c1⟩ := glog_runLayer w o l tests s
    have own : TestsAmong [l] n1 := fun p hp r hr' => ⟨l, by simp, t1 p hp r hr'⟩
    have widen : ∀ {a b : List Nat} {new : List (Ev × Snap)}, TestsAmong a new → (∀ x ∈ a, x ∈ b) → TestsAmong b new :=
      fun h hs p hp r hr' => by obtain ⟨x, hx, hl⟩ := h p hp r hr'; exact ⟨x, hs x hx, hl⟩
    have rec_case : ∃ pre new, (l, tests) :: rest = pre ++ (layerLoop w o rest (runLayer w o l tests s).1).2 ∧
        (layerLoop w o rest (runLayer w o l tests s).1).1.glog = s.glog ++ new ∧ TestsAmong (pre.map (·.1)) new := by
      obtain ⟨pre, n2, e2, h2, t2⟩ := glog_layerLoop w o hr rest (runLayer w o l tests s).1
      refine ⟨(l, tests) :: pre, n1 ++ n2, by rw [List.cons_append, ← e2], by rw [h2, h1, List.append_assoc], ?_⟩
      intro p hp r hr'
      rcases List.mem_append.1 hp with h | h
      · exact ⟨l, by simp, t1 p h r hr'⟩
      · obtain ⟨x, hx, hl⟩ := t2 p h r hr'
        exact ⟨x, by simp [hx], hl⟩
    split
    · exact ⟨[(l, tests)] ++ rest, n1, by simp, h1, widen own (by intro x hx; simp at hx; simp [hx])⟩
    · split
      · rename_i hcan
        simp only [hr]
        refine ⟨[], n1, by simp, h1, ?_⟩
        intro p hp r hr'
        exact absurd hr' (c1 hcan p hp r)
      · split
        · exact ⟨[(l, tests)], n1, by simp, h1, own⟩
        · split
          · exact ⟨[(l, tests)] ++ rest, n1, by simp, h1, widen own (by intro x hx; simp at hx; simp [hx])⟩
          · exact rec_case

theorem glog_spawnAll (o : Opts) (cb : Nat → Bool) :
    ∀ (rest : List (Nat × List Proto.TestDef)) (n : Nat) (s : PS),
      ∃ new, (spawnAll o cb rest n s).glog = s.glog ++ new ∧ NoTests new
  | [], _, s => ⟨[], by simp [spawnAll], noTests_nil⟩
  | (l, _) :: rest, n, s => by
    rw [spawnAll]
    split
    · exact ⟨[], by simp, noTests_nil⟩
    · have hx : ∀ (s' : PS), s'.glog = s.glog ++ [(Ev.spawn l n, ({ setup := s.setup } : Snap))] →
          ∃ new, (spawnAll o cb rest (n + 1) s').glog = s.glog ++ new ∧ NoTests new := by
        intro s' hs'
        obtain ⟨n2, h2, t2⟩ := glog_spawnAll o cb rest (n + 1) s'
        refine ⟨[(Ev.spawn l n, ({ setup := s.setup } : Snap))] ++ n2, by rw [h2, hs', List.append_assoc],
          noTests_append ?_ t2⟩
        intro p hp r; simp at hp; subst hp; intro h; cases h
      split <;> exact hx _ rfl

/-- **C03_parent_tests_not_in_children** — in the parent (or sequential) process every test event
belongs to a layer that the layer loop consumed itself; the layers it hands to `resume_tests` (from
the one that hit `CanNotTearDown` on; all of them under `-j`) contribute no test event to the parent.
With `C03_layers_once` (no layer is registered twice) a test therefore never runs both in the parent
and in a child. -/
theorem C03_parent_tests_not_in_children (w : World) (o : Opts) (cb : Nat → Bool) (hr : o.resume = none) :
    ∃ pre, orderedLayers w o = pre ++ (fsLoop w o).2 ∧
      ∀ p ∈ (finalState w o cb).glog, ∀ r, p.1 = Ev.test r → ∃ l ∈ pre.map (·.1), p.2.layer = some l := by
  have hstart : ∀ p ∈ (fsStart w o).glog, ∀ r, p.1 ≠ Ev.test r := by
    unfold fsStart
    split
    · intro p hp r; simp [PS.emit] at hp; subst hp; intro h; cases h
    · intro p hp; simp at hp
  obtain ⟨pre, nl, epre, hl, tl⟩ : ∃ pre new, orderedLayers w o = pre ++ (fsLoop w o).2 ∧
      (fsLoop w o).1.glog = (fsStart w o).glog ++ new ∧ TestsAmong (pre.map (·.1)) new := by
    unfold fsLoop
    split
    · exact ⟨[], [], by simp, by simp, by intro p hp; simp at hp⟩
    · exact glog_layerLoop w o hr _ _
  refine ⟨pre, epre, ?_⟩
  have hloop : ∀ p ∈ (fsLoop w o).1.glog, ∀ r, p.1 = Ev.test r → ∃ l ∈ pre.map (·.1), p.2.layer = some l := by
    intro p hp r hr'
    rw [hl] at hp
    rcases List.mem_append.1 hp with h | h
    · exact absurd hr' (hstart p h r)
    · exact tl p h r hr'
  rw [finalState_eq]
  split
  · exact hloop
  · obtain ⟨ns, hs, ts⟩ : ∃ new, (fsSpawned w o cb).glog = (fsLoop w o).1.glog ++ new ∧ NoTests new := by
      unfold fsSpawned
      split
      · exact glog_spawnAll o cb _ _ _
      · exact ⟨[], by simp, noTests_nil⟩
    obtain ⟨nt, ht, tt⟩ : ∃ new, (tearDownUnneeded w [] true (fsSpawned w o cb)).1.glog =
        (fsSpawned w o cb).glog ++ new ∧ NoTests new := by
      have : (tearDownUnneeded w [] true (fsSpawned w o cb)).1 =
          (tearDownList w true (orderByBases w.graph ((fsSpawned w o cb).setup.filter (fun x => !([] : List Nat).contains x))).reverse
            (fsSpawned w o cb)).1 := by
        unfold tearDownUnneeded; rfl
      rw [this]; exact glog_tearDownList w true _ _
    intro p hp r hr'
    rw [ht, hs] at hp
    rcases List.mem_append.1 hp with h | h
    · rcases List.mem_append.1 h with h | h
      · exact hloop p h r hr'
      · exact absurd hr' (ts p h r)
    · exact absurd hr' (tt p h r)


/-- in any process, the layer loop adds test events of the layers it was given only -/
theorem glog_layerLoop_among (w : World) (o : Opts) :
    ∀ (layers : List (Nat × List Proto.TestDef)) (s : PS),
      ∃ new, (layerLoop w o layers s).1.glog = s.glog ++ new ∧ TestsAmong (layers.map (·.1)) new
  | [], s => ⟨[], by simp [layerLoop], by intro p hp; simp at hp⟩
  | (l, tests) :: rest, s => by
    rw [layerLoop]
    obtain ⟨n1, h1, t1, _⟩ := glog_runLayer w o l tests s
    have own : TestsAmong (((l, tests) :: rest).map (·.1)) n1 := fun p hp r hr' => ⟨l, by simp, t1 p hp r hr'⟩
    have rec_case : ∃ new, (layerLoop w o rest (runLayer w o l tests s).1).1.glog = s.glog ++ new ∧
        TestsAmong (((l, tests) :: rest).map (·.1)) new := by
      obtain ⟨n2, h2, t2⟩ := glog_layerLoop_among w o rest (runLayer w o l tests s).1
      refine ⟨n1 ++ n2, by rw [h2, h1, List.append_assoc], ?_⟩
      intro p hp r hr'
      rcases List.mem_append.1 hp with h | h
      · exact own p h r hr'
      · obtain ⟨x, hx, hl⟩ := t2 p h r hr'
        exact ⟨x, by simp only [List.map_cons, List.mem_cons]; exact Or.inr hx, hl⟩
    split
    · exact ⟨n1, h1, own⟩
    · split
      · split
        · exact ⟨n1, h1, own⟩
        · exact rec_case
      · split
        · exact ⟨n1, h1, own⟩
        · split
          · exact ⟨n1, h1, own⟩
          · exact rec_case

/-- **C03_child_only_own_layer** — a child process (`--resume-layer L`) emits test events for layer
`L` only: every test runs under its own layer, in the one process that was started for that layer. -/
theorem C03_child_only_own_layer (w : World) (o : Opts) (cb : Nat → Bool) (l n : Nat)
    (hr : o.resume = some (l, n)) :
    ∀ p ∈ (finalState w o cb).glog, ∀ r, p.1 = Ev.test r → p.2.layer = some l := by
  have hstart : ∀ p ∈ (fsStart w o).glog, ∀ r, p.1 ≠ Ev.test r := by
    unfold fsStart
    split
    · intro p hp r; simp [PS.emit] at hp; subst hp; intro h; cases h
    · intro p hp; simp at hp
  have hone := C03_child_one_layer w o l n hr
  have hloop : ∀ p ∈ (fsLoop w o).1.glog, ∀ r, p.1 = Ev.test r → p.2.layer = some l := by
    unfold fsLoop
    split
    · intro p hp r hr'; exact absurd hr' (hstart p hp r)
    · obtain ⟨new, hn, tn⟩ := glog_layerLoop_among w o (orderedLayers w o) (fsStart w o)
      intro p hp r hr'
      rw [hn] at hp
      rcases List.mem_append.1 hp with h | h
      · exact absurd hr' (hstart p h r)
      · obtain ⟨x, hx, hl⟩ := tn p h r hr'
        obtain ⟨g, hg, rfl⟩ := List.mem_map.1 hx
        rw [hl, (hone g hg).1]
  rw [finalState_eq]
  split
  · exact hloop
  · have hsp : (fsSpawned w o cb) = (fsLoop w o).1 := by
      unfold fsSpawned; simp [hr]
    obtain ⟨nt, ht, tt⟩ : ∃ new, (tearDownUnneeded w [] true (fsSpawned w o cb)).1.glog =
        (fsSpawned w o cb).glog ++ new ∧ NoTests new := by
      have : (tearDownUnneeded w [] true (fsSpawned w o cb)).1 =
          (tearDownList w true (orderByBases w.graph ((fsSpawned w o cb).setup.filter (fun x => !([] : List Nat).contains x))).reverse
            (fsSpawned w o cb)).1 := by
        unfold tearDownUnneeded; rfl
      rw [this]; exact glog_tearDownList w true _ _
    intro p hp r hr'
    rw [ht, hsp] at hp
    rcases List.mem_append.1 hp with h | h
    · exact hloop p h r hr'
    · exact absurd hr' (tt p h r)

end Ztr.Runner
