import Ztr.Props.C10
import Ztr.Props.C09
import Ztr.Model.Runner
/-! # C03 — exactly the selected tests run, once each, and every mode agrees (partial)

Proved here: the layer loop of a process visits every registered layer exactly once, each with
exactly its registered test list (the list `--list-tests` prints), in the `order_by_bases` order;
a child process visits only its `--resume-layer`.  Selection itself (which tests are registered
under which layer) is `C09_nearest` / `C08_spec`; that the test loop starts each listed test once per
iteration unless `--stop-on-error` fired is `C16_prefix` / `Result.runTests`.  The end-to-end
statement over all processes of a run is checked by the correspondence (monitor), not proved. -/
namespace Ztr.Runner
open Ztr.Layers

/-- keys of `tests_by_layer_name` are distinct (it is a dict) -/
def GroupsOk (w : World) : Prop := (w.groups.map (·.1)).Nodup

theorem find_group {gs : List (Nat × List Proto.TestDef)} {l : Nat} (h : l ∈ gs.map (·.1)) :
    ∃ g, gs.find? (fun (g : Nat × List Proto.TestDef) => g.1 == l) = some g ∧ g ∈ gs ∧ g.1 = l := by
  induction gs with
  | nil => simp at h
  | cons g gs ih =>
    by_cases hg : g.1 = l
    · exact ⟨g, by simp [List.find?, hg], by simp, hg⟩
    · have : l ∈ gs.map (·.1) := by
        simp only [List.map_cons, List.mem_cons] at h
        rcases h with h | h
        · exact absurd h.symm hg
        · exact h
      obtain ⟨g', h1, h2, h3⟩ := ih this
      refine ⟨g', ?_, by simp [h2], h3⟩
      have : (g.1 == l) = false := by simp [hg]
      simp [List.find?, this, h1]

/-- **C03_layers_once** — the parent (or sequential) process runs every registered layer exactly
once, no other layer, each with a registered group. -/
theorem C03_layers_once (w : World) (o : Opts) (hr : o.resume = none) :
    ((orderedLayers w o).map (·.1)).Nodup ∧
    (∀ l, l ∈ (orderedLayers w o).map (·.1) ↔ l ∈ w.groups.map (·.1)) ∧
    (∀ g ∈ orderedLayers w o, g ∈ w.groups) := by
  unfold orderedLayers
  simp only [hr]
  have honce := C10_once w.graph (w.groups.map (·.1))
  -- every layer of the order has a group, found by `find?`
  have key : ∀ (order : List Nat), (∀ l ∈ order, l ∈ w.groups.map (·.1)) →
      (order.filterMap (fun l => w.groups.find? (fun (g : Nat × List Proto.TestDef) => g.1 == l))).map (·.1) = order ∧
      ∀ g ∈ order.filterMap (fun l => w.groups.find? (fun (g : Nat × List Proto.TestDef) => g.1 == l)), g ∈ w.groups := by
    intro order
    induction order with
    | nil => intro _; simp
    | cons l ls ih =>
      intro h
      obtain ⟨g, h1, h2, h3⟩ := find_group (h l (by simp))
      obtain ⟨ih1, ih2⟩ := ih (fun x hx => h x (by simp [hx]))
      constructor
      · simp [List.filterMap_cons, h1, h3, ih1]
      · intro g' hg'
        simp only [List.filterMap_cons, h1, List.mem_cons] at hg'
        rcases hg' with rfl | hg'
        · exact h2
        · exact ih2 g' hg'
  obtain ⟨k1, k2⟩ := key (orderByBases w.graph (w.groups.map (·.1))) (fun l hl => (honce.2 l).1 hl)
  refine ⟨by rw [k1]; exact honce.1, fun l => by rw [k1]; exact honce.2 l, k2⟩

/-- **C03_child_one_layer** — a child process (`--resume-layer L`) runs no layer other than `L`. -/
theorem C03_child_one_layer (w : World) (o : Opts) (l n : Nat) (hr : o.resume = some (l, n)) :
    ∀ g ∈ orderedLayers w o, g.1 = l ∧ g ∈ w.groups := by
  unfold orderedLayers
  simp only [hr]
  intro g hg
  obtain ⟨x, _, hx⟩ := List.mem_filterMap.1 hg
  have hm := List.mem_of_find?_eq_some hx
  have := List.mem_filter.1 hm
  exact ⟨by simpa using this.2, this.1⟩

end Ztr.Runner
