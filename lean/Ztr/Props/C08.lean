import Ztr.Model.Filter
/-! # C08 — filter patterns select by any positive match and no negated match -/
namespace Ztr.Filter

variable {P N : Type}

theorem split_eq (ps : List (Bool × P)) : split ps = (pos ps, neg ps) := by
  suffices h : ∀ (a b : List P), ps.foldl
      (fun acc x => if x.1 then (acc.1, acc.2 ++ [x.2]) else (acc.1 ++ [x.2], acc.2)) (a, b)
      = (a ++ pos ps, b ++ neg ps) by
    simpa [split] using h [] []
  induction ps with
  | nil => intro a b; simp [pos, neg]
  | cons x xs ih =>
    intro a b
    rcases x with ⟨b', p⟩
    cases b' <;> simp [List.foldl, ih, pos, neg]

/-- **C08_spec** — the code's predicate, for every pattern list, matrix and name. -/
theorem C08_spec (m : P → N → Bool) (dot : N → Bool) (ps : List (Bool × P)) (n : N) :
    accept m dot ps n = true ↔
      ((∃ p ∈ pos ps, m p n = true) ∨ (pos ps = [] ∧ neg ps ≠ [] ∧ dot n = true))
        ∧ ¬ ∃ q ∈ neg ps, m q n = true := by
  unfold accept
  rw [split_eq]
  have hnegs : ((neg ps).any fun q => m q n) = false ↔ ¬ ∃ q ∈ neg ps, m q n = true := by
    simp [List.any_eq_false]
  by_cases h1 : pos ps = []
  · by_cases h2 : neg ps = []
    · simp [h1, h2]
    · simp [h1, h2]
  · have : ∀ l : List P, l ≠ [] → l.isEmpty = false := by intro l hl; cases l <;> simp_all
    simp [h1, this _ h1]

/-- The property's sentence verbatim, for names on which `.` matches (every name with a
non-newline character: every module, layer and unittest test id). -/
theorem C08_spec_guarded (m : P → N → Bool) (dot : N → Bool) (ps : List (Bool × P)) (n : N)
    (hdot : dot n = true) :
    accept m dot ps n = true ↔
      ((∃ p ∈ pos ps, m p n = true) ∨ (pos ps = [] ∧ neg ps ≠ []))
        ∧ ¬ ∃ q ∈ neg ps, m q n = true := by
  rw [C08_spec]; simp [hdot]

theorem pos_perm {ps ps' : List (Bool × P)} (h : ps.Perm ps') : (pos ps).Perm (pos ps') :=
  (h.filter _).map _
theorem neg_perm {ps ps' : List (Bool × P)} (h : ps.Perm ps') : (neg ps).Perm (neg ps') :=
  (h.filter _).map _

/-- **C08_perm** — the result does not depend on pattern order. -/
theorem C08_perm (m : P → N → Bool) (dot : N → Bool) {ps ps' : List (Bool × P)} (n : N)
    (h : ps.Perm ps') : accept m dot ps n = accept m dot ps' n := by
  have hp := pos_perm h
  have hn := neg_perm h
  rw [Bool.eq_iff_iff, C08_spec, C08_spec]
  have e1 : (∃ p ∈ pos ps, m p n = true) ↔ (∃ p ∈ pos ps', m p n = true) :=
    ⟨fun ⟨p, a, b⟩ => ⟨p, hp.mem_iff.1 a, b⟩, fun ⟨p, a, b⟩ => ⟨p, hp.mem_iff.2 a, b⟩⟩
  have e2 : (∃ p ∈ neg ps, m p n = true) ↔ (∃ p ∈ neg ps', m p n = true) :=
    ⟨fun ⟨p, a, b⟩ => ⟨p, hn.mem_iff.1 a, b⟩, fun ⟨p, a, b⟩ => ⟨p, hn.mem_iff.2 a, b⟩⟩
  have e3 : pos ps = [] ↔ pos ps' = [] := ⟨fun a => by simpa [a] using hp.symm, fun a => by simpa [a] using hp⟩
  have e4 : neg ps = [] ↔ neg ps' = [] := ⟨fun a => by simpa [a] using hn.symm, fun a => by simpa [a] using hn⟩
  have e5 : neg ps ≠ [] ↔ neg ps' ≠ [] := not_congr e4
  rw [e1, e2, e3, e5]

/-- **C08_dup** — repeating a pattern changes nothing (only membership matters). -/
theorem C08_dup (m : P → N → Bool) (dot : N → Bool) (ps : List (Bool × P)) (x : Bool × P) (n : N)
    (hx : x ∈ ps) : accept m dot (x :: ps) n = accept m dot ps n := by
  rw [Bool.eq_iff_iff, C08_spec, C08_spec]
  rcases x with ⟨b, p⟩
  cases b
  · have hp : p ∈ pos ps := by
      simp only [pos, List.mem_map, List.mem_filter]; exact ⟨(false, p), ⟨hx, rfl⟩, rfl⟩
    have hne : pos ps ≠ [] := List.ne_nil_of_mem hp
    simp only [pos, neg, List.filter_cons, Bool.not_false, if_true, List.map_cons,
      List.mem_cons, Bool.false_eq_true, if_false] at *
    constructor
    · rintro ⟨h1 | ⟨h1, _⟩, h2⟩
      · refine ⟨Or.inl ?_, h2⟩
        obtain ⟨q, rfl | hq, hm⟩ := h1
        · exact ⟨_, hp, hm⟩
        · exact ⟨q, hq, hm⟩
      · exact absurd h1 (by simp)
    · rintro ⟨h1 | ⟨h1, _⟩, h2⟩
      · obtain ⟨q, hq, hm⟩ := h1
        exact ⟨Or.inl ⟨q, Or.inr hq, hm⟩, h2⟩
      · exact absurd h1 hne
  · have hp : p ∈ neg ps := by
      simp only [neg, List.mem_map, List.mem_filter]; exact ⟨(true, p), ⟨hx, rfl⟩, rfl⟩
    have hne : neg ps ≠ [] := List.ne_nil_of_mem hp
    simp only [pos, neg, List.filter_cons, Bool.not_true, Bool.false_eq_true, if_false, if_true,
      List.map_cons, List.mem_cons] at *
    constructor
    · rintro ⟨h1, h2⟩
      refine ⟨?_, fun ⟨q, hq, hm⟩ => h2 ⟨q, Or.inr hq, hm⟩⟩
      rcases h1 with h1 | ⟨a, _, c⟩
      · exact Or.inl h1
      · exact Or.inr ⟨a, hne, c⟩
    · rintro ⟨h1, h2⟩
      refine ⟨?_, ?_⟩
      · rcases h1 with h1 | ⟨a, _, c⟩
        · exact Or.inl h1
        · exact Or.inr ⟨a, by simp, c⟩
      · rintro ⟨q, rfl | hq, hm⟩
        · exact h2 ⟨_, hp, hm⟩
        · exact h2 ⟨q, hq, hm⟩

/-- **C08_neg_never_selects** — adding a '!'-pattern to a non-empty pattern list never selects a
name that was not selected before.  (From the empty list — "nothing selected" — to one
'!'-pattern — "only '!'-patterns were given" — names do become selected: that is the statement's own
first sentence; the command line never produces the empty list, see `C08_cli_default` in the
correspondence.) -/
theorem C08_neg_never_selects (m : P → N → Bool) (dot : N → Bool) (ps : List (Bool × P)) (q : P)
    (n : N) (hne : ps ≠ []) (hdot : dot n = true)
    (h : accept m dot ((true, q) :: ps) n = true) : accept m dot ps n = true := by
  rw [C08_spec] at h ⊢
  simp only [pos, neg, List.filter_cons, Bool.not_true, Bool.false_eq_true, if_false, if_true,
    List.map_cons, List.mem_cons] at h ⊢
  obtain ⟨h1, h2⟩ := h
  refine ⟨?_, fun ⟨r, hr, hm⟩ => h2 ⟨r, Or.inr hr, hm⟩⟩
  rcases h1 with h1 | ⟨a, _, _⟩
  · exact Or.inl h1
  · refine Or.inr ⟨a, ?_, hdot⟩
    -- ps is non-empty and has no positive pattern, so it has a negated one
    intro hn
    cases ps with
    | nil => exact hne rfl
    | cons x xs =>
      rcases x with ⟨b, p⟩
      cases b <;> simp_all

/-- **C08_pos_monotone** — adding a positive pattern never deselects anything, provided a positive
pattern was already present. -/
theorem C08_pos_monotone (m : P → N → Bool) (dot : N → Bool) (ps : List (Bool × P)) (p : P) (n : N)
    (hpos : pos ps ≠ []) (h : accept m dot ps n = true) :
    accept m dot ((false, p) :: ps) n = true := by
  rw [C08_spec] at h ⊢
  simp only [pos, neg, List.filter_cons, Bool.not_false, if_true, Bool.false_eq_true, if_false,
    List.map_cons, List.mem_cons] at h ⊢ hpos
  obtain ⟨h1, h2⟩ := h
  refine ⟨?_, h2⟩
  rcases h1 with ⟨r, hr, hm⟩ | ⟨a, _, _⟩
  · exact Or.inl ⟨r, Or.inr hr, hm⟩
  · exact absurd a hpos

/-- The corner the "consequently" clause glosses over: with only '!'-patterns everything unmatched
is selected, and adding a positive pattern then deselects.  Code and the statement's first sentence
agree here, so this is not a finding. -/
theorem C08_pos_monotone_corner :
    ∃ (m : Nat → Nat → Bool) (dot : Nat → Bool) (ps : List (Bool × Nat)) (p n : Nat),
      accept m dot ps n = true ∧ accept m dot ((false, p) :: ps) n = false :=
  ⟨fun p n => p == n, fun _ => true, [(true, 0)], 2, 1, by decide, by decide⟩

/-- D13: the excluded point of `C08_spec_guarded`: only '!'-patterns, a name `.` does not match. -/
theorem C08_D13_witness :
    ∃ (m : Nat → Nat → Bool) (dot : Nat → Bool) (ps : List (Bool × Nat)) (n : Nat),
      pos ps = [] ∧ neg ps ≠ [] ∧ (¬ ∃ q ∈ neg ps, m q n = true) ∧ accept m dot ps n = false :=
  ⟨fun _ _ => false, fun _ => false, [(true, 0)], 0, by decide, by decide, by simp [neg], by decide⟩

-- non-vacuity: a list with positives, negatives and duplicates meets every hypothesis used above
example : accept (fun p n => p == n) (fun _ => true) [(false, 1), (true, 2), (false, 1)] 1 = true ∧
    pos [(false, 1), (true, 2), (false, 1)] ≠ ([] : List Nat) := by decide

end Ztr.Filter
