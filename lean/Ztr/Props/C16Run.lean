import Ztr.Props.C02
import Ztr.Props.C16
import Ztr.Props.C06Run
/-! # C16 — `--stop-on-error` at the level of the whole sequential run: nothing more is started, everything is
still cleaned up, the verdict is 'failed' -/
namespace Ztr.Runner
open Ztr.Layers Ztr.Result

theorem errors_grow_tdOne (w : World) (l : Nat) (s : PS) : ∃ new, (tdOne w l s).errors = s.errors ++ new := by
  unfold tdOne
  by_cases ht : (w.info l).hasTearDown = true
  · simp only [ht, if_true]
    split
    · exact ⟨[.layerTearDown l], rfl⟩
    · exact ⟨[], by simp [PS.emit]⟩
  · simp only [ht, Bool.false_eq_true, if_false]
    exact ⟨[], by simp⟩

theorem errors_grow_tearDownList (w : World) (opt : Bool) :
    ∀ (order : List Nat) (s : PS), ∃ new, (tearDownList w opt order s).1.errors = s.errors ++ new
  | [], s => ⟨[], by simp [tearDownList]⟩
  | l :: ls, s => by
    rw [tearDownList_cons]
    obtain ⟨n1, h1⟩ := errors_grow_tdOne w l s
    split
    · exact ⟨n1, h1⟩
    · obtain ⟨n2, h2⟩ := errors_grow_tearDownList w opt ls (tdOne w l s)
      exact ⟨n1 ++ n2, by rw [h2, h1, List.append_assoc]⟩

/-- **C16_stops_and_cleans_up** — sequential run (`processes ≤ 1`, not a subprocess) under `--stop-on-error`:
once the layer loop has left a failure or an error behind, no layer subprocess is started (the trace gains no
`spawn` event, only the final tear-downs), every layer that was set up is torn down, and the verdict is
'failed'. -/
theorem C16_stops_and_cleans_up (w : World) (hwf : WF w.graph) (o : Opts) (cb : Nat → Bool)
    (hx : o.stopOnError = true) (hj : o.processes ≤ 1)
    (hint : (runProcess w o cb).interrupted = false)
    (hbad : (!(fsLoop w o).1.failures.isEmpty || !(fsLoop w o).1.errors.isEmpty) = true) :
    fsSpawned w o cb = (fsLoop w o).1 ∧
    (runProcess w o cb).leftover = [] ∧
    (runProcess w o cb).failed = true := by
  have h1 : fsSpawned w o cb = (fsLoop w o).1 := by
    unfold fsSpawned
    split
    · exact C16_no_child_after o cb _ _ _ hx hj hbad
    · rfl
  refine ⟨h1, C04_all_torn_down w hwf o cb hint, ?_⟩
  rw [C02_verdict]
  -- the failure / error survives the final tear-downs
  have hfl : ((fsLoop w o).1.aborted || (fsLoop w o).1.interrupted) = false := by
    by_cases hh : ((fsLoop w o).1.aborted || (fsLoop w o).1.interrupted) = true
    · have := finalState_flags w o cb hh
      have hab : (runProcess w o cb).aborted = false := C04_no_abort w o cb
      rw [hab, hint] at this
      exact absurd this (by simp)
    · simpa using hh
  have hfin : finalState w o cb = (tearDownUnneeded w [] true (fsLoop w o).1).1 := by
    rw [finalState_eq, hfl, h1]; simp
  have hsame := sameRes_tearDownUnneeded w [] true (fsLoop w o).1
  obtain ⟨new, hgrow⟩ := errors_grow_tearDownList w true
    ((orderByBases w.graph ((fsLoop w o).1.setup.filter (fun l => !([] : List Nat).contains l))).reverse) (fsLoop w o).1
  right
  show (finalState w o cb).failures ≠ [] ∨ (finalState w o cb).errors ≠ []
  rw [hfin]
  rcases Bool.or_eq_true_iff.1 hbad with hf | he
  · left
    rw [hsame.failures]
    intro e; rw [e] at hf; simp at hf
  · right
    intro e
    have h2 : (tearDownUnneeded w [] true (fsLoop w o).1).1.errors = (fsLoop w o).1.errors ++ new := hgrow
    rw [h2] at e
    have : (fsLoop w o).1.errors = [] := (List.append_eq_nil_iff.1 e).1
    rw [this] at he; simp at he

end Ztr.Runner
