import Ztr.Props.C13
/-! # C13, attribution: what is shown under a test's name was written by that test, and a failing test's
output is shown completely -/
namespace Ztr.Result
open Ztr.Proto

/-- tokens an operation writes to the std streams -/
def writtenOp : Op → List Nat
  | .code _ ws => ws.map (·.2)
  | _ => []

def written (ops : List Op) : List Nat := ops.flatMap writtenOp

/-- shown pairs all carry test id `t` and a token of `W` -/
def From (t : Nat) (W : List Nat) (new : List (Nat × Nat)) : Prop := ∀ p ∈ new, p.1 = t ∧ p.2 ∈ W

theorem shown_hooksUp (l : List Nat) (b : Bool) : shown (l.map (fun x => REv.hookSetUp x b)) = [] := by
  induction l with
  | nil => rfl
  | cons x xs ih => simp [shown, ih]

theorem shown_hooksDown (l : List Nat) (b : Bool) : shown (l.map (fun x => REv.hookTearDown x b)) = [] := by
  induction l with
  | nil => rfl
  | cons x xs ih => simp [shown, ih]

theorem shown_leaks (t : Nat) (ws : List (Bool × Nat)) :
    shown (ws.map (fun w => REv.leak t w.2)) = ws.map (fun w => (t, w.2)) := by
  induction ws with
  | nil => rfl
  | cons x xs ih => simp [shown, ih]

theorem attr_bad (c : Cfg) (t : Nat) (b : Bad) (s : RS) (W : List Nat) (hbuf : ∀ k ∈ s.buf, k ∈ W) :
    (∀ k ∈ (bad c t b s).buf, k ∈ W) ∧
    ∃ new, shown (bad c t b s).evs = shown s.evs ++ new ∧ From t W new := by
  unfold bad
  simp only [stopIf, record, restoreStreams, RS.emit]
  constructor
  · intro k hk
    split at hk
    · simp at hk
    · exact hbuf k hk
  · refine ⟨(if (c.buffer && s.captured) = true then s.buf else []).map (fun k => (t, k)), ?_, ?_⟩
    · rw [shown_append]; simp [shown]
    · intro p hp
      obtain ⟨k, hk, rfl⟩ := List.mem_map.1 hp
      split at hk
      · exact ⟨rfl, hbuf k hk⟩
      · simp at hk

theorem shown_snoc_quiet (evs : List REv) (e : REv) (h : shown [e] = []) : shown (evs ++ [e]) = shown evs := by
  rw [shown_append, h]; simp

/-- one operation of test `t`: the buffers keep holding tokens of `W` only, and whatever becomes
visible is attributed to `t` and is a token of `W` -/
theorem attr_step (c : Cfg) (t : TestDef) (s : RS) (op : Op) (W : List Nat)
    (hbuf : ∀ k ∈ s.buf, k ∈ W) (hop : ∀ k ∈ writtenOp op, k ∈ W) :
    (∀ k ∈ (step c t s op).buf, k ∈ W) ∧
    ∃ new, shown (step c t s op).evs = shown s.evs ++ new ∧ From t.id W new := by
  -- a state whose buffers are the old ones or empty and which shows nothing new
  have quiet : ∀ x : RS, (x.buf = s.buf ∨ x.buf = []) → shown x.evs = shown s.evs →
      (∀ k ∈ x.buf, k ∈ W) ∧ ∃ new, shown x.evs = shown s.evs ++ new ∧ From t.id W new := by
    intro x h1 h2
    refine ⟨?_, [], by simp [h2], by intro p hp; simp at hp⟩
    rcases h1 with e | e <;> rw [e]
    · exact hbuf
    · simp
  have restore_buf : (restoreStreams c s).1.buf = s.buf ∨ (restoreStreams c s).1.buf = [] := by
    simp only [restoreStreams]; split <;> simp
  have hbad : ∀ b, (∀ k ∈ (bad c t.id b s).buf, k ∈ W) ∧
      ∃ new, shown (bad c t.id b s).evs = shown s.evs ++ new ∧ From t.id W new :=
    fun b => attr_bad c t.id b s W hbuf
  have habort : ∀ x : RS, x = { s with aborted := true } → (∀ k ∈ x.buf, k ∈ W) ∧
      ∃ new, shown x.evs = shown s.evs ++ new ∧ From t.id W new := by
    intro x hx; subst hx; exact quiet _ (Or.inl rfl) rfl
  unfold step
  by_cases hab : s.aborted = true
  · rw [if_pos hab]; exact quiet s (Or.inl rfl) rfl
  · rw [if_neg hab]
    cases op with
    | startTest =>
      refine quiet (startTest c t s) (Or.inl rfl) ?_
      simp only [startTest, setUpStreams, callHooksUp]
      rw [shown_append, shown_hooksUp]; simp
    | stopTest =>
      refine quiet (stopTest c s) restore_buf ?_
      simp only [stopTest, callHooksDown]
      rw [shown_append, shown_hooksDown]; simp [restoreStreams]
    | code ph ws =>
      have hws : ∀ k ∈ ws.map (·.2), k ∈ W := hop
      simp only []
      by_cases hc : s.captured = true
      · simp only [writeToks, RS.emit, hc, if_true]
        refine ⟨?_, [], ?_, by intro p hp; simp at hp⟩
        · intro k hk
          rcases List.mem_append.1 hk with h | h
          · exact hbuf k h
          · exact hws k h
        · rw [shown_snoc_quiet _ _ rfl]; simp
      · simp only [writeToks, RS.emit, hc, if_false, Bool.false_eq_true]
        refine ⟨hbuf, ws.map (fun w => (t.id, w.2)), ?_, ?_⟩
        · rw [shown_append, shown_snoc_quiet _ _ rfl, shown_leaks]
        · intro p hp
          obtain ⟨w, hw, rfl⟩ := List.mem_map.1 hp
          exact ⟨rfl, hws w.2 (List.mem_map.2 ⟨w, hw, rfl⟩)⟩
    | addSuccess =>
      simp only []
      by_cases h : (restoreStreams c s).1.hasStartTime = true
      · rw [if_pos h]
        exact quiet ((restoreStreams c s).1.emit (.passed t.id)) restore_buf
          (by simp only [RS.emit]; rw [shown_snoc_quiet _ _ rfl]; rfl)
      · rw [if_neg h]
        exact quiet { (restoreStreams c s).1 with aborted := true } restore_buf rfl
    | addExpectedFailure =>
      simp only []
      by_cases h : (restoreStreams c s).1.hasStartTime = true
      · rw [if_pos h]
        exact quiet ((restoreStreams c s).1.emit (.passed t.id)) restore_buf
          (by simp only [RS.emit]; rw [shown_snoc_quiet _ _ rfl]; rfl)
      · rw [if_neg h]
        exact quiet { (restoreStreams c s).1 with aborted := true } restore_buf rfl
    | addSkip =>
      simp only []
      by_cases h : (!s.hasTestState) = true
      · rw [if_pos h]
        refine quiet (noteSkip t.id (skipFallback c t s)) (Or.inl rfl) ?_
        simp only [noteSkip, skipFallback, callHooksUp, RS.emit]
        rw [shown_snoc_quiet _ _ rfl, shown_append, shown_hooksUp]; simp
      · rw [if_neg h]
        refine quiet (noteSkip t.id s) (Or.inl rfl) ?_
        simp only [noteSkip, RS.emit]
        rw [shown_snoc_quiet _ _ rfl]
    | addSubSkip =>
      simp only []
      by_cases h : (!s.hasTestState) = true
      · rw [if_pos h]
        refine quiet (noteSkip t.id (skipFallback c t s)) (Or.inl rfl) ?_
        simp only [noteSkip, skipFallback, callHooksUp, RS.emit]
        rw [shown_snoc_quiet _ _ rfl, shown_append, shown_hooksUp]; simp
      · rw [if_neg h]
        refine quiet (noteSkip t.id s) (Or.inl rfl) ?_
        simp only [noteSkip, RS.emit]
        rw [shown_snoc_quiet _ _ rfl]
    | addSubTest e =>
      cases e with
      | none => exact quiet s (Or.inl rfl) rfl
      | some e =>
        simp only []
        by_cases h : (!s.hasStartTime) = true
        · rw [if_pos h]; exact habort _ rfl
        · rw [if_neg h]; exact hbad _
    | addError =>
      simp only []
      by_cases h : (!s.hasStartTime) = true
      · rw [if_pos h]; exact habort _ rfl
      · rw [if_neg h]; exact hbad _
    | addFailure =>
      simp only []
      by_cases h : (!s.hasStartTime) = true
      · rw [if_pos h]; exact habort _ rfl
      · rw [if_neg h]; exact hbad _
    | addUnexpectedSuccess =>
      simp only []
      by_cases h : (!s.hasStartTime) = true
      · rw [if_pos h]; exact habort _ rfl
      · rw [if_neg h]; exact hbad _
    | raiseInterrupt => exact quiet { s with interrupted := true } (Or.inl rfl) rfl


theorem From.append {t : Nat} {W : List Nat} {a b : List (Nat × Nat)} (ha : From t W a) (hb : From t W b) :
    From t W (a ++ b) := by
  intro p hp
  rcases List.mem_append.1 hp with h | h
  · exact ha p h
  · exact hb p h

theorem written_cons (op : Op) (ops : List Op) : written (op :: ops) = writtenOp op ++ written ops := by
  simp [written]

theorem attr_foldl (c : Cfg) (t : TestDef) (W : List Nat) : ∀ (ops : List Op) (s : RS),
    (∀ k ∈ s.buf, k ∈ W) → (∀ k ∈ written ops, k ∈ W) →
    (∀ k ∈ (ops.foldl (step c t) s).buf, k ∈ W) ∧
    ∃ new, shown (ops.foldl (step c t) s).evs = shown s.evs ++ new ∧ From t.id W new
  | [], s, hb, _ => ⟨hb, [], by simp, by intro p hp; simp at hp⟩
  | op :: ops, s, hb, hw => by
    simp only [List.foldl_cons]
    rw [written_cons] at hw
    obtain ⟨hb1, n1, e1, f1⟩ := attr_step c t s op W hb (fun k hk => hw k (List.mem_append.2 (Or.inl hk)))
    obtain ⟨hb2, n2, e2, f2⟩ := attr_foldl c t W ops _ hb1 (fun k hk => hw k (List.mem_append.2 (Or.inr hk)))
    exact ⟨hb2, n1 ++ n2, by rw [e2, e1, List.append_assoc], f1.append f2⟩

/-- the buffers are empty whenever the original streams are installed -/
def BufInv (s : RS) : Prop := s.captured = false → s.buf = []

theorem bufinv_restore (c : Cfg) (s : RS) (h : BufInv s) : BufInv (restoreStreams c s).1 := by
  unfold BufInv restoreStreams at *
  intro hc
  simp only at hc ⊢
  by_cases hb : (c.buffer && s.captured) = true
  · rw [if_pos hb]
  · rw [if_neg hb]
    apply h
    cases h1 : c.buffer <;> cases h2 : s.captured <;> simp_all

theorem bufinv_bad (c : Cfg) (t : Nat) (b : Bad) (s : RS) (h : BufInv s) : BufInv (bad c t b s) := by
  have := bufinv_restore c s h
  unfold bad
  exact this

theorem bufinv_step (c : Cfg) (t : TestDef) (s : RS) (op : Op) (h : BufInv s) : BufInv (step c t s op) := by
  unfold step
  by_cases hab : s.aborted = true
  · rw [if_pos hab]; exact h
  · rw [if_neg hab]
    cases op with
    | startTest =>
      show BufInv (startTest c t s)
      unfold BufInv startTest setUpStreams callHooksUp
      intro hc
      simp only at hc ⊢
      apply h
      cases h1 : c.buffer <;> cases h2 : s.captured <;> simp_all
    | stopTest => exact bufinv_restore c s h
    | code ph ws =>
      show BufInv (writeToks t.id (s.emit (.code t.id ph)) ws)
      unfold BufInv writeToks RS.emit
      intro hc
      simp only at hc ⊢
      rw [if_neg (by simp [hc])]
      exact h hc
    | addSuccess =>
      simp only []
      have := bufinv_restore c s h
      split <;> exact this
    | addExpectedFailure =>
      simp only []
      have := bufinv_restore c s h
      split <;> exact this
    | addSkip => simp only []; split <;> exact h
    | addSubSkip => simp only []; split <;> exact h
    | addSubTest e =>
      cases e with
      | none => exact h
      | some e => simp only []; split; exact h; exact bufinv_bad _ _ _ _ h
    | addError => simp only []; split; exact h; exact bufinv_bad _ _ _ _ h
    | addFailure => simp only []; split; exact h; exact bufinv_bad _ _ _ _ h
    | addUnexpectedSuccess => simp only []; split; exact h; exact bufinv_bad _ _ _ _ h
    | raiseInterrupt => exact h

theorem bufinv_foldl (c : Cfg) (t : TestDef) : ∀ (ops : List Op) (s : RS), BufInv s →
    BufInv (ops.foldl (step c t) s)
  | [], _, h => h
  | op :: ops, s, h => bufinv_foldl c t ops _ (bufinv_step c t s op h)

theorem bufinv_runTest (c : Cfg) (t : TestDef) (s : RS) (h : BufInv s) : BufInv (runTest c s t) :=
  bufinv_foldl c t _ _ h

/-- **C13_attributed_test** — whatever a test makes visible (raw or inside a failure/error report) is
shown under that test's own name and was written by that test: nothing of an earlier test is left in
the buffers when it starts. -/
theorem C13_attributed_test (c : Cfg) (t : TestDef) (s : RS) (hbt : Between s) (hbi : BufInv s) :
    ∃ new, shown (runTest c s t).evs = shown s.evs ++ new ∧ From t.id (written (Proto.run t)) new := by
  unfold runTest
  have hbuf : ∀ k ∈ (s.emit (.tstart t.id)).buf, k ∈ written (Proto.run t) := by
    intro k hk
    have : s.buf = [] := hbi hbt.captured
    simp [RS.emit, this] at hk
  obtain ⟨_, new, e, f⟩ := attr_foldl c t (written (Proto.run t)) (Proto.run t) _ hbuf (fun _ hk => hk)
  refine ⟨new, ?_, f⟩
  show shown (((Proto.run t).foldl (step c t) (s.emit (.tstart t.id))).evs ++ [.tend t.id]) = _
  rw [shown_snoc_quiet _ _ rfl, e]
  show shown (s.evs ++ [.tstart t.id]) ++ new = _
  rw [shown_snoc_quiet _ _ rfl]

/-- **C13_attribution** — in a whole layer run, every token that reaches the output is shown under
the name of a test of the run that wrote it. -/
theorem C13_attribution (c : Cfg) : ∀ (ts : List TestDef) (s : RS), Between s → BufInv s →
    ∃ new, shown (runTests c ts s).evs = shown s.evs ++ new ∧
      ∀ p ∈ new, ∃ t ∈ ts, t.id = p.1 ∧ p.2 ∈ written (Proto.run t)
  | [], s, _, _ => ⟨[], by simp [runTests], by intro p hp; simp at hp⟩
  | t :: ts, s, hb, hi => by
    unfold runTests
    split
    · exact ⟨[], by simp, by intro p hp; simp at hp⟩
    · obtain ⟨n1, e1, f1⟩ := C13_attributed_test c t s hb hi
      obtain ⟨_, _, _, hb'⟩ := runTest_bracket c t s hb
      obtain ⟨n2, e2, f2⟩ := C13_attribution c ts _ hb' (bufinv_runTest c t s hi)
      refine ⟨n1 ++ n2, by rw [e2, e1, List.append_assoc], ?_⟩
      intro p hp
      rcases List.mem_append.1 hp with h | h
      · exact ⟨t, by simp, (f1 p h).1.symm, (f1 p h).2⟩
      · obtain ⟨t', ht', h1, h2⟩ := f2 p h
        exact ⟨t', by simp [ht'], h1, h2⟩


/-! ### a failing test's output is shown completely -/

/-- every token written so far is visible, or still in the installed capture buffers -/
def KP (c : Cfg) (t : Nat) (s : RS) (Wr : List Nat) : Prop :=
  (s.captured = true → c.buffer = true) ∧
  ∀ k ∈ Wr, (t, k) ∈ shown s.evs ∨ (s.captured = true ∧ k ∈ s.buf)

theorem kp_bad (c : Cfg) (t : Nat) (b : Bad) (s : RS) (Wr : List Nat) (h : KP c t s Wr) :
    (bad c t b s).captured = false ∧ ∀ k ∈ Wr, (t, k) ∈ shown (bad c t b s).evs := by
  obtain ⟨hK, hP⟩ := h
  have hev : shown (bad c t b s).evs
      = shown s.evs ++ (if (c.buffer && s.captured) = true then s.buf else []).map (fun k => (t, k)) := by
    simp only [bad, stopIf, record, restoreStreams, RS.emit]
    rw [shown_append]; simp [shown]
  constructor
  · simp only [bad, stopIf, record, restoreStreams, RS.emit]
    cases hc : s.captured
    · simp
    · simp [hK hc]
  · intro k hk
    rw [hev]
    rcases hP k hk with h1 | ⟨hc, hb⟩
    · exact List.mem_append.2 (Or.inl h1)
    · refine List.mem_append.2 (Or.inr ?_)
      rw [if_pos (by simp [hc, hK hc])]
      exact List.mem_map.2 ⟨k, hb, rfl⟩

theorem kp_of_shown (c : Cfg) (t : Nat) (s : RS) (Wr : List Nat) (hc : s.captured = false)
    (h : ∀ k ∈ Wr, (t, k) ∈ shown s.evs) : KP c t s Wr :=
  ⟨(by intro h'; rw [hc] at h'; cases h'), fun k hk => Or.inl (h k hk)⟩

theorem kp_step_mid (c : Cfg) (t : TestDef) (s : RS) (op : Op) (Wr : List Nat) (hr : Running s) (hm : Mid op)
    (h : KP c t.id s Wr) :
    KP c t.id (step c t s op) (Wr ++ writtenOp op) ∧ (IsBadOp op → (step c t s op).captured = false) ∧
      (s.captured = false → (step c t s op).captured = false) := by
  obtain ⟨hK, hP⟩ := h
  have same : ∀ x : RS, x.captured = s.captured → x.buf = s.buf → shown x.evs = shown s.evs →
      KP c t.id x (Wr ++ []) ∧ (s.captured = false → x.captured = false) := by
    intro x h1 h2 h3
    refine ⟨⟨by rw [h1]; exact hK, ?_⟩, by rw [h1]; exact id⟩
    intro k hk
    rw [List.append_nil] at hk
    rw [h1, h2, h3]; exact hP k hk
  have badcase : ∀ b, KP c t.id (bad c t.id b s) (Wr ++ []) ∧ (bad c t.id b s).captured = false := by
    intro b
    obtain ⟨h1, h2⟩ := kp_bad c t.id b s Wr ⟨hK, hP⟩
    exact ⟨kp_of_shown c t.id _ _ h1 (by rw [List.append_nil]; exact h2), h1⟩
  unfold step
  simp only [hr.aborted, Bool.false_eq_true, if_false]
  cases op with
  | code ph ws =>
    simp only [IsBadOp, false_implies, true_and, writtenOp]
    by_cases hc : s.captured = true
    · simp only [writeToks, RS.emit, hc, if_true]
      refine ⟨⟨fun _ => hK hc, ?_⟩, (by intro h'; cases h')⟩
      intro k hk
      rw [shown_snoc_quiet _ _ rfl]
      rcases List.mem_append.1 hk with h1 | h1
      · rcases hP k h1 with h2 | ⟨_, h2⟩
        · exact Or.inl h2
        · exact Or.inr ⟨rfl, List.mem_append.2 (Or.inl h2)⟩
      · exact Or.inr ⟨rfl, List.mem_append.2 (Or.inr h1)⟩
    · have hc' : s.captured = false := by simpa using hc
      simp only [writeToks, RS.emit, hc', if_false, Bool.false_eq_true]
      refine ⟨⟨(by intro h'; cases h'), ?_⟩, (by simp)⟩
      intro k hk
      left
      rw [shown_append, shown_snoc_quiet _ _ rfl, shown_leaks]
      rcases List.mem_append.1 hk with h1 | h1
      · rcases hP k h1 with h2 | ⟨h2, _⟩
        · exact List.mem_append.2 (Or.inl h2)
        · rw [hc'] at h2; cases h2
      · obtain ⟨w, hw, rfl⟩ := List.mem_map.1 h1
        exact List.mem_append.2 (Or.inr (List.mem_map.2 ⟨w, hw, rfl⟩))
  | addSkip =>
    simp only [hr.hasTestState, Bool.not_true, Bool.false_eq_true, if_false, IsBadOp, false_implies, true_and,
      writtenOp]
    exact same (noteSkip t.id s) rfl rfl (by simp only [noteSkip, RS.emit]; rw [shown_snoc_quiet _ _ rfl])
  | addSubSkip =>
    simp only [hr.hasTestState, Bool.not_true, Bool.false_eq_true, if_false, IsBadOp, false_implies, true_and,
      writtenOp]
    exact same (noteSkip t.id s) rfl rfl (by simp only [noteSkip, RS.emit]; rw [shown_snoc_quiet _ _ rfl])
  | addSubTest e =>
    cases e with
    | none =>
      simp only [IsBadOp, false_implies, true_and, writtenOp]
      exact same s rfl rfl rfl
    | some e =>
      simp only [hr.hasStartTime, Bool.not_true, Bool.false_eq_true, if_false, writtenOp]
      obtain ⟨h1, h2⟩ := badcase (if e = .fail then .subFailure else .subError)
      exact ⟨h1, fun _ => h2, fun _ => h2⟩
  | addFailure =>
    simp only [hr.hasStartTime, Bool.not_true, Bool.false_eq_true, if_false, writtenOp]
    obtain ⟨h1, h2⟩ := badcase .failure
    exact ⟨h1, fun _ => h2, fun _ => h2⟩
  | addError =>
    simp only [hr.hasStartTime, Bool.not_true, Bool.false_eq_true, if_false, writtenOp]
    obtain ⟨h1, h2⟩ := badcase .error
    exact ⟨h1, fun _ => h2, fun _ => h2⟩
  | _ => simp [Mid] at hm

theorem kp_foldl_mid (c : Cfg) (t : TestDef) : ∀ (ops : List Op) (s : RS) (Wr : List Nat), Running s →
    (∀ op ∈ ops, Mid op) → KP c t.id s Wr →
    Running (ops.foldl (step c t) s) ∧ KP c t.id (ops.foldl (step c t) s) (Wr ++ written ops) ∧
      (((∃ op ∈ ops, IsBadOp op) ∨ s.captured = false) → (ops.foldl (step c t) s).captured = false)
  | [], s, Wr, hr, _, h => ⟨hr, by simpa [written] using h, by
      intro h'; rcases h' with ⟨op, hop, _⟩ | h'
      · simp at hop
      · exact h'⟩
  | op :: ops, s, Wr, hr, hm, h => by
    simp only [List.foldl_cons]
    obtain ⟨h1, h2, h3⟩ := kp_step_mid c t s op Wr hr (hm op (by simp)) h
    have hr' := hr.of_ext (ext_step_mid c t s op hr (Or.inl (hm op (by simp))))
    obtain ⟨a, b, d⟩ := kp_foldl_mid c t ops _ _ hr' (fun o ho => hm o (by simp [ho])) h1
    refine ⟨a, by rw [written_cons, ← List.append_assoc]; exact b, ?_⟩
    intro h'
    apply d
    rcases h' with ⟨o, ho, hb⟩ | h'
    · rcases List.mem_cons.1 ho with e | e
      · subst e; exact Or.inr (h2 hb)
      · exact Or.inl ⟨o, e, hb⟩
    · exact Or.inr (h3 h')

theorem shown_mono_foldl (c : Cfg) (t : TestDef) (ops : List Op) (s : RS) (p : Nat × Nat)
    (h : p ∈ shown s.evs) : p ∈ shown (ops.foldl (step c t) s).evs := by
  obtain ⟨_, new, e, _⟩ := attr_foldl c t (s.buf ++ written ops) ops s
    (fun k hk => List.mem_append.2 (Or.inl hk)) (fun k hk => List.mem_append.2 (Or.inr hk))
  rw [e]; exact List.mem_append.2 (Or.inl h)

theorem written_append (a b : List Op) : written (a ++ b) = written a ++ written b := by
  simp [written]

/-- **C13_failing_shown** — a test that records a failure or an error (also in a sub-test, also an
unexpected success) has everything it wrote, in any phase, made visible under its own name: inside
the first report what was captured until then, raw what it writes afterwards.  With and without
`--buffer`. -/
theorem C13_failing_shown (c : Cfg) (t : TestDef) (s : RS) (hbt : Between s)
    (hbad : ∃ op ∈ Proto.run t, IsBadOp op) :
    ∀ k ∈ written (Proto.run t), (t.id, k) ∈ shown (runTest c s t).evs := by
  have hb0 : Between (s.emit (.tstart t.id)) := ⟨hbt.aborted, hbt.hasTestState, hbt.captured⟩
  cases hd : t.decoSkip
  · obtain ⟨mid, fin, tail, hrun, hmid, hfin, htail⟩ := run_shape t hd
    unfold runTest
    rw [hrun] at hbad ⊢
    intro k hk
    have hfinw : written fin = [] := by
      rcases hfin with rfl | ⟨f, rfl, hf⟩
      · rfl
      · cases f <;> simp [Final] at hf <;> simp [written, writtenOp]
    have htailw : written (Op.stopTest :: tail) = [] := by
      rcases htail with rfl | rfl <;> simp [written, writtenOp]
    have hkmid : k ∈ written mid := by
      rw [written_cons, written_append, written_append, hfinw, htailw] at hk
      simpa [writtenOp] using hk
    show (t.id, k) ∈ shown ((List.foldl (step c t) (s.emit (.tstart t.id))
      (.startTest :: (mid ++ fin ++ .stopTest :: tail))).evs ++ [.tend t.id])
    rw [shown_snoc_quiet _ _ rfl, List.foldl_cons, List.foldl_append, List.foldl_append]
    have e1 : step c t (s.emit (.tstart t.id)) .startTest = startTest c t (s.emit (.tstart t.id)) := by
      simp [step, hb0.aborted]
    rw [e1]
    obtain ⟨hr1, _, _, hcap1⟩ := startTest_spec c t _ hb0
    have kp0 : KP c t.id (startTest c t (s.emit (.tstart t.id))) [] :=
      ⟨by rw [hcap1]; exact id, by intro k hk; simp at hk⟩
    obtain ⟨hr2, kp2, hcap2⟩ := kp_foldl_mid c t mid _ [] hr1 hmid kp0
    simp only [List.nil_append] at kp2
    apply shown_mono_foldl
    -- where the bad operation is
    have hbad' : (∃ op ∈ mid, IsBadOp op) ∨ (∃ op ∈ fin, IsBadOp op) := by
      obtain ⟨op, hop, hb⟩ := hbad
      rcases List.mem_cons.1 hop with e | hop
      · subst e; simp [IsBadOp] at hb
      · rcases List.mem_append.1 hop with hop | hop
        · rcases List.mem_append.1 hop with hop | hop
          · exact Or.inl ⟨op, hop, hb⟩
          · exact Or.inr ⟨op, hop, hb⟩
        · rcases List.mem_cons.1 hop with e | hop
          · subst e; simp [IsBadOp] at hb
          · rcases htail with e | e
            · subst e; simp at hop
            · subst e; simp at hop; subst hop; simp [IsBadOp] at hb
    have hmidcase : (∃ op ∈ mid, IsBadOp op) →
        (t.id, k) ∈ shown (List.foldl (step c t) (startTest c t (s.emit (.tstart t.id))) mid).evs := by
      intro hb'
      have hc := hcap2 (Or.inl hb')
      rcases kp2.2 k hkmid with h | ⟨h, _⟩
      · exact h
      · rw [hc] at h; cases h
    -- after the closing result everything written is visible
    rcases hbad' with hb' | ⟨f, hfm, hfb⟩
    · exact shown_mono_foldl c t fin _ _ (hmidcase hb')
    · rcases hfin with rfl | ⟨f', rfl, hf⟩
      · simp at hfm
      · simp only [List.mem_singleton] at hfm
        subst hfm
        simp only [List.foldl_cons, List.foldl_nil]
        cases f with
        | addUnexpectedSuccess =>
          have e2 : step c t (List.foldl (step c t) (startTest c t (s.emit (.tstart t.id))) mid) .addUnexpectedSuccess
              = bad c t.id .unexpectedSuccess (List.foldl (step c t) (startTest c t (s.emit (.tstart t.id))) mid) := by
            simp [step, hr2.aborted, hr2.hasStartTime]
          rw [e2]
          exact (kp_bad c t.id _ _ _ kp2).2 k hkmid
        | _ => simp [IsBadOp, Final] at hfb hf
  · -- a decorator-skipped test writes nothing
    rw [run_decoSkip t hd]
    intro k hk
    simp [written, writtenOp] at hk


/-- the hypotheses are met by a concrete failing test that writes before and after its failing
sub-test, and the conclusion is what one expects: both tokens are visible under its name -/
example :
    let t : TestDef := { id := 1, subs := [{ writes := [(false, 7)], exc := some .fail }],
                         tearDown := { writes := [(true, 8)] } }
    let c : Cfg := { buffer := true, stopOnError := false, hooksUp := [0], hooksDown := [0] }
    (∃ op ∈ Proto.run t, IsBadOp op) ∧ written (Proto.run t) = [7, 8] ∧
      shown (runTest c {} t).evs = [(1, 7), (1, 8)] := by
  refine ⟨⟨.addSubTest (some .fail), by decide, trivial⟩, by decide, by decide⟩

end Ztr.Result
