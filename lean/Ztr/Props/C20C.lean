import Ztr.Props.C20B
/-! # C20, stage C — Tarjan's invariants on the step machine: every yielded component is a strongly
connected component (mutual reachability class), and all nodes are yielded

Colours: *white* = unvisited, *gray* = on `ancestors` (the current DFS path), *black* = visited and not
gray; black nodes are either still on the stack or in a yielded component.  The stack decomposes into
one *segment* per ancestor: the black nodes finished inside that ancestor's subtree (and not yet
popped), then the ancestor itself.  -/
namespace Ztr.Digraph

def numOf (s : St) (x : Nat) : Nat := (s.num x).getD 0

/-- the edge `x → m` has been accounted for in `low x` -/
def EdgeOK (s : St) (x m : Nat) : Prop := s.num m ≠ none ∧ (m ∈ s.stack → s.low x ≤ numOf s m)

/-- what is known about a black stacked node `x` whose nearest gray node below it is `a` -/
structure BlackOK (nbrs : Nat → List Nat) (s : St) (a x : Nat) : Prop where
  up : Reaches nbrs x a
  down : Reaches nbrs a x
  lowge : s.low a ≤ s.low x
  nonroot : s.low x < numOf s x
  edges : ∀ m ∈ nbrs x, EdgeOK s x m

/-- ancestors, visit stack and node stack decompose together, one frame/segment per ancestor -/
inductive Segs (nbrs : Nat → List Nat) (s : St) : List Nat → List (Option Nat) → List Nat → Prop
  | nil : Segs nbrs s [] [] []
  | cons {a : Nat} {A : List Nat} {P : List Nat} {V : List (Option Nat)} {B S : List Nat} :
      (∀ m ∈ P, m ∈ nbrs a) →
      (∀ m ∈ nbrs a, m ∈ P ∨ EdgeOK s a m) →
      (∀ x ∈ B, BlackOK nbrs s a x) →
      (∀ p, A.head? = some p → a ∈ nbrs p) →
      Segs nbrs s A V S →
      Segs nbrs s (a :: A) (P.map some ++ none :: V) (B ++ a :: S)

theorem Reaches.trans {nbrs : Nat → List Nat} {a b c : Nat} (h1 : Reaches nbrs a b) (h2 : Reaches nbrs b c) :
    Reaches nbrs a c := by
  induction h1 with
  | refl _ => exact h2
  | step hm _ ih => exact Reaches.step hm (ih h2)

theorem Reaches.edge {nbrs : Nat → List Nat} {a b : Nat} (h : b ∈ nbrs a) : Reaches nbrs a b :=
  Reaches.step h (Reaches.refl b)

theorem Segs.frames {nbrs : Nat → List Nat} {s : St} {A : List Nat} {V : List (Option Nat)} {S : List Nat}
    (h : Segs nbrs s A V S) : Frames nbrs A V := by
  induction h with
  | nil => exact Frames.nil
  | cons hP _ _ _ _ ih => exact Frames.cons hP ih

theorem Segs.nil_stack {nbrs : Nat → List Nat} {s : St} {V : List (Option Nat)} {S : List Nat}
    (h : Segs nbrs s [] V S) : V = [] ∧ S = [] := by
  cases h; exact ⟨rfl, rfl⟩

theorem Segs.anc_sub {nbrs : Nat → List Nat} {s : St} {A : List Nat} {V : List (Option Nat)} {S : List Nat}
    (h : Segs nbrs s A V S) : ∀ a ∈ A, a ∈ S := by
  induction h with
  | nil => intro a ha; simp at ha
  | cons _ _ _ _ _ ih =>
    intro x hx
    rcases List.mem_cons.1 hx with rfl | hx
    · simp
    · simp [ih x hx]

theorem Segs.inv_cons {nbrs : Nat → List Nat} {s : St} {a : Nat} {A : List Nat} {V : List (Option Nat)} {S : List Nat}
    (h : Segs nbrs s (a :: A) V S) :
    ∃ (P : List Nat) (V0 : List (Option Nat)) (B S0 : List Nat), V = P.map some ++ none :: V0 ∧ S = B ++ a :: S0 ∧
      (∀ m ∈ P, m ∈ nbrs a) ∧ (∀ m ∈ nbrs a, m ∈ P ∨ EdgeOK s a m) ∧ (∀ x ∈ B, BlackOK nbrs s a x) ∧
      (∀ p, A.head? = some p → a ∈ nbrs p) ∧ Segs nbrs s A V0 S0 := by
  cases h with
  | cons h1 h2 h3 h4 h5 => exact ⟨_, _, _, _, rfl, rfl, h1, h2, h3, h4, h5⟩

/-- every stacked node reaches the top ancestor -/
theorem Segs.reach_top {nbrs : Nat → List Nat} {s : St} {A : List Nat} {V : List (Option Nat)} {S : List Nat}
    (h : Segs nbrs s A V S) : ∀ a, A.head? = some a → ∀ y ∈ S, Reaches nbrs y a := by
  induction h with
  | nil => intro a ha; simp at ha
  | @cons a A P V B S _ _ h3 h4 h5 ih =>
    intro a' ha' y hy
    simp only [List.head?_cons, Option.some.injEq] at ha'
    subst ha'
    rcases List.mem_append.1 hy with hy | hy
    · exact (h3 y hy).up
    · rcases List.mem_cons.1 hy with rfl | hy
      · exact Reaches.refl _
      · cases A with
        | nil => obtain ⟨_, hS⟩ := h5.nil_stack; subst hS; simp at hy
        | cons p A' =>
          exact (ih p rfl y hy).trans (Reaches.edge (h4 p rfl))

theorem append_cons_unique {α : Type} {a : α} : ∀ {pre B rest S0 : List α},
    pre ++ a :: rest = B ++ a :: S0 → a ∉ pre → a ∉ B → pre = B ∧ rest = S0
  | [], [], _, _, h, _, _ => by simp at h; exact ⟨rfl, h⟩
  | [], b :: B, _, _, h, _, hB => by
    simp only [List.nil_append, List.cons_append, List.cons.injEq] at h
    exact absurd (by simp [h.1]) hB
  | p :: pre, [], _, _, h, hp, _ => by
    simp only [List.nil_append, List.cons_append, List.cons.injEq] at h
    exact absurd (by simp [h.1]) hp
  | p :: pre, b :: B, rest, S0, h, hp, hB => by
    simp only [List.cons_append, List.cons.injEq] at h
    obtain ⟨rfl, h⟩ := h
    obtain ⟨e1, e2⟩ := append_cons_unique h (fun hh => hp (by simp [hh])) (fun hh => hB (by simp [hh]))
    exact ⟨by rw [e1], e2⟩

/-- the structure survives a change of state that keeps the numbering, does not add old nodes to the
stack, lowers `low` only for gray nodes and leaves it alone for black ones -/
theorem Segs.transfer {nbrs : Nat → List Nat} {s s' : St} {A : List Nat} {V : List (Option Nat)} {S : List Nat}
    (h : Segs nbrs s A V S)
    (hnum : ∀ m, s.num m ≠ none → s'.num m = s.num m)
    (hstack : ∀ m, s.num m ≠ none → m ∈ s'.stack → m ∈ s.stack)
    (hlowA : ∀ x ∈ A, s'.low x ≤ s.low x)
    (hlowB : ∀ x ∈ S, x ∉ A → s'.low x = s.low x)
    (hvis : ∀ x ∈ S, s.num x ≠ none)
    (hnd : S.Nodup) : Segs nbrs s' A V S := by
  induction h with
  | nil => exact Segs.nil
  | @cons a A P V B S h1 h2 h3 h4 h5 ih =>
    have hndB : ∀ x ∈ B, x ≠ a ∧ x ∉ S := by
      intro x hx
      have := List.nodup_append.1 hnd
      refine ⟨fun e => ?_, fun hxs => ?_⟩
      · exact this.2.2 x hx a (by simp) e
      · exact this.2.2 x hx x (by simp [hxs]) rfl
    have hndS : a ∉ S ∧ S.Nodup := by
      have := (List.nodup_append.1 hnd).2.1
      exact List.nodup_cons.1 this
    have hAS : ∀ x ∈ A, x ∈ S := h5.anc_sub
    have numOf_eq : ∀ m, s.num m ≠ none → numOf s' m = numOf s m := by
      intro m hm; unfold numOf; rw [hnum m hm]
    have edge : ∀ x m, s'.low x ≤ s.low x → EdgeOK s x m → EdgeOK s' x m := by
      intro x m hl ⟨e1, e2⟩
      refine ⟨by rw [hnum m e1]; exact e1, fun hm => ?_⟩
      rw [numOf_eq m e1]
      exact Nat.le_trans hl (e2 (hstack m e1 hm))
    refine Segs.cons h1 ?_ ?_ h4 ?_
    · intro m hm
      rcases h2 m hm with h | h
      · exact Or.inl h
      · exact Or.inr (edge a m (hlowA a (by simp)) h)
    · intro x hx
      have hb := h3 x hx
      obtain ⟨hxa, hxS⟩ := hndB x hx
      have hxA : x ∉ a :: A := by
        intro hh
        rcases List.mem_cons.1 hh with e | e
        · exact hxa e
        · exact hxS (hAS x e)
      have hlx : s'.low x = s.low x := hlowB x (by simp [hx]) hxA
      have hxv : s.num x ≠ none := hvis x (by simp [hx])
      refine ⟨hb.up, hb.down, ?_, ?_, ?_⟩
      · rw [hlx]; exact Nat.le_trans (hlowA a (by simp)) hb.lowge
      · rw [hlx, numOf_eq x hxv]; exact hb.nonroot
      · intro m hm
        exact edge x m (by rw [hlx]; exact Nat.le_refl _) (hb.edges m hm)
    · apply ih
      · intro x hx; exact hlowA x (by simp [hx])
      · intro x hx hxA
        apply hlowB x (by simp [hx])
        intro hh
        rcases List.mem_cons.1 hh with e | e
        · subst e; exact hndS.1 hx
        · exact hxA e
      · intro x hx; exact hvis x (by simp [hx])
      · exact hndS.2


/-! ## the invariant -/

structure Inv3 (order : List Nat) (nbrs : Nat → List Nat) (s : St) : Prop where
  base : Inv order s
  segs : Segs nbrs s s.ancestors s.visits s.stack ∨
    (s.ancestors = [] ∧ s.stack = [] ∧ ∃ m, s.visits = [some m] ∧ s.num m = none ∧ m ∈ s.unvisited)
  numlt : ∀ x d, s.num x = some d → d < s.counter
  numinj : ∀ x y, s.num x ≠ none → s.num x = s.num y → x = y
  numOrd : ∀ x, s.num x ≠ none → x ∈ order
  stk : ∀ x, s.stacked x = true ↔ x ∈ s.stack
  sorted : s.stack.Pairwise (fun x y => numOf s y < numOf s x)
  lowle : ∀ x ∈ s.stack, s.low x ≤ numOf s x
  lowwit : ∀ x ∈ s.stack, ∃ y ∈ s.stack, numOf s y = s.low x ∧ Reaches nbrs x y
  closedOut : ∀ x ∈ s.out.flatten, ∀ m ∈ nbrs x, m ∈ s.out.flatten
  sccs : ∀ C ∈ s.out, ∀ x ∈ C, ∀ y, y ∈ C ↔ (Reaches nbrs x y ∧ Reaches nbrs y x)

theorem inv3_init (order : List Nat) (nbrs : Nat → List Nat) : Inv3 order nbrs (init order) where
  base := inv_init order
  segs := Or.inl Segs.nil
  numlt := by intro x d h; simp [init] at h
  numinj := by intro x y h; simp [init] at h
  numOrd := by intro x h; simp [init] at h
  stk := by intro x; simp [init]
  sorted := by simp [init]
  lowle := by intro x h; simp [init] at h
  lowwit := by intro x h; simp [init] at h
  closedOut := by intro x h; simp [init] at h
  sccs := by intro C h; simp [init] at h

section derived
variable {order : List Nat} {nbrs : Nat → List Nat} {s : St}

theorem Inv3.nodupAll (hnd : order.Nodup) (h : Inv3 order nbrs s) :
    (s.unvisited ++ s.stack ++ s.out.flatten).Nodup := h.base.perm.nodup_iff.2 hnd

theorem Inv3.nodupStack (hnd : order.Nodup) (h : Inv3 order nbrs s) : s.stack.Nodup := nodup_stack hnd h.base

theorem Inv3.stack_visited (hnd : order.Nodup) (h : Inv3 order nbrs s) : ∀ x ∈ s.stack, s.num x ≠ none := by
  intro x hx hn
  have hxo : x ∈ order := (h.base.perm.mem_iff).1 (by simp [hx])
  have hxu : x ∈ s.unvisited := (h.base.unv x hxo).1 hn
  have := h.nodupAll hnd
  have h2 := (List.nodup_append.1 (List.nodup_append.1 this).1).2.2
  exact h2 x hxu x hx rfl

theorem Inv3.visited_where (h : Inv3 order nbrs s) : ∀ x, s.num x ≠ none → x ∈ s.stack ∨ x ∈ s.out.flatten := by
  intro x hx
  have hxo := h.numOrd x hx
  have hnu : x ∉ s.unvisited := fun hu => hx ((h.base.unv x hxo).2 hu)
  have := (h.base.perm.mem_iff).2 hxo
  simp only [List.mem_append] at this
  rcases this with (hu | hs) | ho
  · exact absurd hu hnu
  · exact Or.inl hs
  · exact Or.inr ho

theorem Inv3.out_not_stack (hnd : order.Nodup) (h : Inv3 order nbrs s) : ∀ x ∈ s.out.flatten, x ∉ s.stack := by
  intro x hx hs
  have := h.nodupAll hnd
  have h2 := (List.nodup_append.1 this).2.2
  exact h2 x (by simp [hs]) x hx rfl

end derived

/-! ## the steps -/

/-- `numOf`, `EdgeOK`, … only read these fields -/
theorem numOf_congr {s s' : St} (h : s'.num = s.num) (x : Nat) : numOf s' x = numOf s x := by
  unfold numOf; rw [h]

/-- picking the next root: `visits = []` -/
theorem inv3_pick {order : List Nat} {nbrs : Nat → List Nat} {s : St} (h : Inv3 order nbrs s)
    (hv : s.visits = []) {n : Nat} {rest : List Nat} (hu : s.unvisited = n :: rest) :
    Inv3 order nbrs { s with visits := [some n] } := by
  have hi : Inv order { s with visits := [some n] } := by
    refine ⟨h.base.perm, h.base.anc, h.base.unv, ?_⟩
    intro v hv'
    simp only [List.mem_singleton, Option.some.injEq] at hv'
    subst hv'
    exact (h.base.perm.mem_iff).1 (by simp [hu])
  have hA : s.ancestors = [] ∧ s.stack = [] := by
    rcases h.segs with hs | ⟨_, _, m, hm, _⟩
    · rw [hv] at hs
      have hA : s.ancestors = [] := hs.frames.nil_iff.2 rfl
      rw [hA] at hs
      exact ⟨hA, hs.nil_stack.2⟩
    · rw [hv] at hm; cases hm
  refine ⟨hi, Or.inr ⟨hA.1, hA.2, n, rfl, ?_, by rw [hu]; simp⟩, h.numlt, h.numinj, h.numOrd, h.stk, h.sorted,
    h.lowle, h.lowwit, h.closedOut, h.sccs⟩
  have hn : n ∈ order := (h.base.perm.mem_iff).1 (by simp [hu])
  exact (h.base.unv n hn).2 (by rw [hu]; simp)


theorem somes_none_unique : ∀ {P Q : List Nat} {V W : List (Option Nat)},
    P.map some ++ none :: V = Q.map some ++ none :: W → P = Q ∧ V = W
  | [], [], _, _, h => by simp at h; exact ⟨rfl, h⟩
  | [], q :: Q, _, _, h => by simp at h
  | p :: P, [], _, _, h => by simp at h
  | p :: P, q :: Q, V, W, h => by
    simp only [List.map_cons, List.cons_append, List.cons.injEq, Option.some.injEq] at h
    obtain ⟨rfl, h⟩ := h
    obtain ⟨e1, e2⟩ := somes_none_unique h
    exact ⟨by rw [e1], e2⟩

theorem Segs.inv_some {nbrs : Nat → List Nat} {s : St} {A : List Nat} {node : Nat} {vs : List (Option Nat)} {S : List Nat}
    (h : Segs nbrs s A (some node :: vs) S) :
    ∃ (a : Nat) (A0 : List Nat) (P' : List Nat) (V0 : List (Option Nat)) (B S0 : List Nat),
      A = a :: A0 ∧ vs = P'.map some ++ none :: V0 ∧ S = B ++ a :: S0 ∧ node ∈ nbrs a ∧
      (∀ m ∈ P', m ∈ nbrs a) ∧ (∀ m ∈ nbrs a, m = node ∨ m ∈ P' ∨ EdgeOK s a m) ∧ (∀ x ∈ B, BlackOK nbrs s a x) ∧
      (∀ p, A0.head? = some p → a ∈ nbrs p) ∧ Segs nbrs s A0 V0 S0 := by
  cases A with
  | nil => exact absurd h.nil_stack.1 (by simp)
  | cons a A0 =>
    obtain ⟨P, V0, B, S0, hV, hS, h1, h2, h3, h4, h5⟩ := h.inv_cons
    cases P with
    | nil => simp at hV
    | cons q P' =>
      simp only [List.map_cons, List.cons_append, List.cons.injEq, Option.some.injEq] at hV
      obtain ⟨rfl, hV⟩ := hV
      refine ⟨a, A0, P', V0, B, S0, rfl, hV, hS, h1 _ (by simp), fun m hm => h1 m (by simp [hm]), ?_, h3, h4, h5⟩
      intro m hm
      rcases h2 m hm with h | h
      · rcases List.mem_cons.1 h with e | e
        · exact Or.inl e
        · exact Or.inr (Or.inl e)
      · exact Or.inr (Or.inr h)

theorem lowerLow_low (s : St) (p v : Nat) :
    (∀ x, (lowerLow s p v).low x ≤ s.low x) ∧ (∀ x, x ≠ p → (lowerLow s p v).low x = s.low x) ∧
    (lowerLow s p v).low p ≤ v ∧ ((lowerLow s p v).low p = s.low p ∨ (lowerLow s p v).low p = v) := by
  unfold lowerLow
  by_cases h : v < s.low p
  · simp only [h, if_true, upd]
    refine ⟨fun x => ?_, fun x hx => by simp [hx], by simp, Or.inr (by simp)⟩
    by_cases e : x = p
    · subst e; simp; omega
    · simp [e]
  · rw [if_neg h]
    exact ⟨fun _ => Nat.le_refl _, fun _ _ => rfl, by omega, Or.inl rfl⟩

theorem lowerLow_other (s : St) (p v : Nat) :
    (lowerLow s p v).stacked = s.stacked ∧ (lowerLow s p v).counter = s.counter := by
  unfold lowerLow; split <;> simp

/-- a visit of an already visited node: the frame loses one pending entry, `low` of the top ancestor is
lowered when the node is still on the stack -/
theorem inv3_skip {order : List Nat} {nbrs : Nat → List Nat} (hnd : order.Nodup) {s s' : St}
    (h : Inv3 order nbrs s) (hbase : Inv order s') {node d : Nat} {vs : List (Option Nat)}
    (hv : s.visits = some node :: vs) (hnum : s.num node = some d)
    (hs' : (s.stacked node = false ∧ s' = { s with visits := vs }) ∨
      (s.stacked node = true ∧ ∃ p rest, s.ancestors = p :: rest ∧ s' = lowerLow { s with visits := vs } p d)) :
    Inv3 order nbrs s' := by
  have hsegs : Segs nbrs s s.ancestors (some node :: vs) s.stack := by
    rcases h.segs with hs | ⟨_, _, m, hm, hw, _⟩
    · rw [hv] at hs; exact hs
    · rw [hv] at hm
      simp only [List.cons.injEq, Option.some.injEq] at hm
      obtain ⟨rfl, _⟩ := hm
      rw [hw] at hnum; cases hnum
  obtain ⟨a, A0, P', V0, B, S0, hA, hvs, hS, hedge, h1, h2, h3, h4, h5⟩ := hsegs.inv_some
  have hndS := h.nodupStack hnd
  have hvisS := h.stack_visited hnd
  have hnode_vis : s.num node ≠ none := by rw [hnum]; simp
  have hdnum : numOf s node = d := by unfold numOf; rw [hnum]; rfl
  -- the common description of s'
  have hdesc : s'.num = s.num ∧ s'.stack = s.stack ∧ s'.ancestors = s.ancestors ∧ s'.visits = vs ∧ s'.out = s.out ∧
      s'.stacked = s.stacked ∧ s'.counter = s.counter ∧ (∀ x, s'.low x ≤ s.low x) ∧ (∀ x, x ≠ a → s'.low x = s.low x) ∧
      (node ∈ s.stack → s'.low a ≤ d) ∧ (s'.low a = s.low a ∨ (s'.low a = d ∧ node ∈ s.stack)) := by
    rcases hs' with ⟨hst, he⟩ | ⟨hst, p, rest, hp, he⟩
    · refine ⟨by rw [he], by rw [he], by rw [he], by rw [he], by rw [he], by rw [he], by rw [he],
        fun x => by rw [he]; exact Nat.le_refl _, fun x _ => by rw [he], ?_, Or.inl (by rw [he])⟩
      intro hin
      have := (h.stk node).2 hin
      rw [hst] at this; cases this
    · rw [he]
      have hpa : p = a := by rw [hA] at hp; simp at hp; exact hp.1.symm
      subst hpa
      obtain ⟨e1, e2, e3, e4, e5, e6⟩ := lowerLow_fields { s with visits := vs } p d
      obtain ⟨l1, l2, l3, l4⟩ := lowerLow_low { s with visits := vs } p d
      obtain ⟨o1, o2⟩ := lowerLow_other { s with visits := vs } p d
      refine ⟨e5, e2, e4, e6, e3, o1, o2, l1, l2, fun _ => l3, ?_⟩
      rcases l4 with l | l
      · exact Or.inl l
      · exact Or.inr ⟨l, (h.stk node).1 hst⟩
  obtain ⟨dn, ds, da, dv, dout, dstk, dcnt, dl1, dl2, dl3, dl4⟩ := hdesc
  have hnumOf : ∀ x, numOf s' x = numOf s x := numOf_congr dn
  -- the new structure
  have hseg' : Segs nbrs s' s'.ancestors s'.visits s'.stack := by
    rw [da, dv, ds, hA, hvs, hS]
    have htr : Segs nbrs s' (a :: A0) (some node :: vs) s.stack := by
      rw [← hA]
      apply hsegs.transfer
      · intro m _; rw [dn]
      · intro m _ hm; rw [ds] at hm; exact hm
      · intro x _; exact dl1 x
      · intro x _ hxA; apply dl2; intro e; subst e; rw [hA] at hxA; exact hxA (by simp)
      · exact hvisS
      · exact hndS
    obtain ⟨a', A0', P'', V0', B', S0', hA', hvs', hS', _, g1, g2, g3, g4, g5⟩ := htr.inv_some
    simp only [List.cons.injEq] at hA'
    obtain ⟨rfl, rfl⟩ := hA'
    obtain ⟨rfl, rfl⟩ := somes_none_unique (hvs'.symm.trans hvs)
    have hS'' : B' ++ a :: S0' = B ++ a :: S0 := hS'.symm.trans hS
    have ha'B' : a ∉ B' := by
      have := hndS; rw [hS'] at this
      intro hh
      exact (List.nodup_append.1 this).2.2 a hh a (by simp) rfl
    have ha'B : a ∉ B := by
      have := hndS; rw [hS] at this
      intro hh
      exact (List.nodup_append.1 this).2.2 a hh a (by simp) rfl
    obtain ⟨rfl, rfl⟩ := append_cons_unique hS'' ha'B' ha'B
    refine Segs.cons g1 ?_ g3 g4 g5
    intro m hm
    rcases g2 m hm with e | e | e
    · subst e
      refine Or.inr ⟨by rw [dn]; exact hnode_vis, fun hin => ?_⟩
      rw [hnumOf, hdnum]
      rw [ds] at hin
      exact dl3 hin
    · exact Or.inl e
    · exact Or.inr e
  refine ⟨hbase, Or.inl hseg', ?_, ?_, ?_, ?_, ?_, ?_, ?_, ?_, ?_⟩
  · intro x d' hx; rw [dn] at hx; rw [dcnt]; exact h.numlt x d' hx
  · intro x y hx hxy; rw [dn] at hx hxy; exact h.numinj x y hx hxy
  · intro x hx; rw [dn] at hx; exact h.numOrd x hx
  · intro x; rw [dstk, ds]; exact h.stk x
  · rw [ds]; exact h.sorted.imp (fun {x y} hxy => by rw [hnumOf, hnumOf]; exact hxy)
  · intro x hx; rw [ds] at hx; rw [hnumOf]; exact Nat.le_trans (dl1 x) (h.lowle x hx)
  · intro x hx
    rw [ds] at hx ⊢
    by_cases e : x = a
    · subst e
      rcases dl4 with l | ⟨l, hin⟩
      · obtain ⟨y, hy, hyn, hr⟩ := h.lowwit x hx
        exact ⟨y, hy, by rw [hnumOf, l]; exact hyn, hr⟩
      · exact ⟨node, hin, by rw [hnumOf, hdnum, l], Reaches.edge hedge⟩
    · obtain ⟨y, hy, hyn, hr⟩ := h.lowwit x hx
      exact ⟨y, hy, by rw [hnumOf, dl2 x e]; exact hyn, hr⟩
  · rw [dout]; exact h.closedOut
  · rw [dout]; exact h.sccs


theorem Inv3.out_visited {order : List Nat} {nbrs : Nat → List Nat} {s : St} (hnd : order.Nodup) (h : Inv3 order nbrs s) :
    ∀ x ∈ s.out.flatten, s.num x ≠ none := by
  intro x hx hn
  have hxo : x ∈ order := (h.base.perm.mem_iff).1 (by simp [hx])
  have hxu : x ∈ s.unvisited := (h.base.unv x hxo).1 hn
  have := h.nodupAll hnd
  exact (List.nodup_append.1 this).2.2 x (by simp [hxu]) x hx rfl

/-- first visit of a node: it becomes the top ancestor with an empty segment -/
theorem inv3_expand {order : List Nat} {nbrs : Nat → List Nat} (hnd : order.Nodup) {s : St}
    (h : Inv3 order nbrs s) {node : Nat} {vs : List (Option Nat)} (hbase : Inv order (expand nbrs s node vs))
    (hv : s.visits = some node :: vs) (hnum : s.num node = none) :
    Inv3 order nbrs (expand nbrs s node vs) := by
  have hndS := h.nodupStack hnd
  have hvisS := h.stack_visited hnd
  have hnS : node ∉ s.stack := fun hin => hvisS node hin hnum
  have hno : node ∈ order := h.base.vis node (by rw [hv]; simp)
  -- field facts
  have fnum : ∀ m, m ≠ node → (expand nbrs s node vs).num m = s.num m := by intro m hm; simp [expand, upd, hm]
  have fnumn : (expand nbrs s node vs).num node = some s.counter := by simp [expand, upd]
  have flow : ∀ m, m ≠ node → (expand nbrs s node vs).low m = s.low m := by intro m hm; simp [expand, upd, hm]
  have flown : (expand nbrs s node vs).low node = s.counter := by simp [expand, upd]
  have fstack : (expand nbrs s node vs).stack = node :: s.stack := rfl
  have fcounter : (expand nbrs s node vs).counter = s.counter + 1 := rfl
  have fstacked : (expand nbrs s node vs).stacked = upd s.stacked node true := rfl
  have fanc : (expand nbrs s node vs).ancestors = node :: s.ancestors := rfl
  have fvis : (expand nbrs s node vs).visits = (nbrs node).reverse.map some ++ none :: vs := rfl
  have fout : (expand nbrs s node vs).out = s.out := rfl
  have fnumOf : ∀ m, m ≠ node → numOf (expand nbrs s node vs) m = numOf s m := by
    intro m hm; unfold numOf; rw [fnum m hm]
  have fnumOfn : numOf (expand nbrs s node vs) node = s.counter := by unfold numOf; rw [fnumn]; rfl
  have hne_of_vis : ∀ m, s.num m ≠ none → m ≠ node := by intro m hm e; subst e; exact hm hnum
  have hlt_of_vis : ∀ m, s.num m ≠ none → numOf s m < s.counter := by
    intro m hm
    cases hd : s.num m with
    | none => exact absurd hd hm
    | some d => unfold numOf; rw [hd]; exact h.numlt m d hd
  generalize hs' : expand nbrs s node vs = s' at *
  -- transfer of an old structure
  have transfer : ∀ {A : List Nat} {V : List (Option Nat)}, Segs nbrs s A V s.stack → (∀ x ∈ A, x ∈ s.stack) →
      Segs nbrs s' A V s.stack := by
    intro A V hsg hAS
    apply hsg.transfer
    · intro m hm; exact fnum m (hne_of_vis m hm)
    · intro m hm hin
      rw [fstack] at hin
      rcases List.mem_cons.1 hin with e | e
      · exact absurd e (hne_of_vis m hm)
      · exact e
    · intro x hx; rw [flow x (hne_of_vis x (hvisS x (hAS x hx)))]; exact Nat.le_refl _
    · intro x hx _; exact flow x (hne_of_vis x (hvisS x hx))
    · exact hvisS
    · exact hndS
  have hseg' : Segs nbrs s' (node :: s.ancestors)
      ((nbrs node).reverse.map some ++ none :: vs) (node :: s.stack) := by
    have top : ∀ {A : List Nat} {V0 : List (Option Nat)}, (∀ p, A.head? = some p → node ∈ nbrs p) →
        Segs nbrs s' A V0 s.stack →
        Segs nbrs s' (node :: A) ((nbrs node).reverse.map some ++ none :: V0) ([] ++ node :: s.stack) :=
      fun h4 h5 => Segs.cons (fun m hm => List.mem_reverse.1 hm) (fun m hm => Or.inl (List.mem_reverse.2 hm))
        (fun x hx => by simp at hx) h4 h5
    rcases h.segs with hs | ⟨hA, hS, m, hm, _, _⟩
    · rw [hv] at hs
      have htr := transfer hs hs.anc_sub
      obtain ⟨a, A0, P', V0, B, S0, hA, hvs, hS, hedge, g1, g2, g3, g4, g5⟩ := htr.inv_some
      have haS : a ∈ s.stack := by rw [hS]; simp
      have hrest : Segs nbrs s' (a :: A0) vs s.stack := by
        rw [hvs, hS]
        refine Segs.cons g1 ?_ g3 g4 g5
        intro m hm
        rcases g2 m hm with e | e | e
        · subst e
          refine Or.inr ⟨by rw [fnumn]; simp, fun _ => ?_⟩
          rw [fnumOfn, flow a (hne_of_vis a (hvisS a haS))]
          exact Nat.le_of_lt (Nat.lt_of_le_of_lt (h.lowle a haS) (hlt_of_vis a (hvisS a haS)))
        · exact Or.inl e
        · exact Or.inr e
      rw [hA]
      exact top (fun p hp => by simp at hp; subst hp; exact hedge) hrest
    · rw [hv] at hm
      simp only [List.cons.injEq, Option.some.injEq] at hm
      obtain ⟨_, rfl⟩ := hm
      rw [hA, hS]
      rw [hS] at top
      exact top (A := []) (fun p hp => by cases hp) Segs.nil
  refine ⟨hbase, Or.inl (by rw [fanc, fvis, fstack]; exact hseg'), ?_, ?_, ?_, ?_, ?_, ?_, ?_,
    by rw [fout]; exact h.closedOut, by rw [fout]; exact h.sccs⟩
  · intro x d hx
    rw [fcounter]
    by_cases e : x = node
    · subst e; rw [fnumn] at hx; cases hx; omega
    · rw [fnum x e] at hx; have := h.numlt x d hx; omega
  · intro x y hx hxy
    by_cases ex : x = node
    · subst ex
      by_cases ey : y = x
      · exact ey.symm
      · rw [fnumn, fnum y ey] at hxy
        have := h.numlt y s.counter hxy.symm
        omega
    · rw [fnum x ex] at hx hxy
      by_cases ey : y = node
      · subst ey
        rw [fnumn] at hxy
        have := h.numlt x s.counter hxy
        omega
      · rw [fnum y ey] at hxy
        exact h.numinj x y hx hxy
  · intro x hx
    by_cases e : x = node
    · subst e; exact hno
    · rw [fnum x e] at hx; exact h.numOrd x hx
  · intro x
    rw [fstacked, fstack]
    unfold upd
    by_cases e : x = node
    · simp [e]
    · simp only [e, if_false, List.mem_cons, false_or]; exact h.stk x
  · rw [fstack]
    refine List.Pairwise.cons ?_ ?_
    · intro y hy
      rw [fnumOfn, fnumOf y (hne_of_vis y (hvisS y hy))]
      exact hlt_of_vis y (hvisS y hy)
    · exact h.sorted.imp_of_mem (fun {x y} hx hy hxy => by
        rw [fnumOf x (hne_of_vis x (hvisS x hx)), fnumOf y (hne_of_vis y (hvisS y hy))]; exact hxy)
  · intro x hx
    rw [fstack] at hx
    rcases List.mem_cons.1 hx with e | e
    · subst e; rw [flown, fnumOfn]; exact Nat.le_refl _
    · have hxn := hne_of_vis x (hvisS x e)
      rw [flow x hxn, fnumOf x hxn]; exact h.lowle x e
  · intro x hx
    rw [fstack] at hx ⊢
    rcases List.mem_cons.1 hx with e | e
    · subst e
      exact ⟨x, by simp, by rw [fnumOfn, flown], Reaches.refl _⟩
    · obtain ⟨y, hy, hyn, hr⟩ := h.lowwit x e
      have hxn := hne_of_vis x (hvisS x e)
      have hyn' := hne_of_vis y (hvisS y hy)
      exact ⟨y, by simp [hy], by rw [fnumOf y hyn', flow x hxn]; exact hyn, hr⟩


theorem Segs.inv_none {nbrs : Nat → List Nat} {s : St} {A : List Nat} {vs : List (Option Nat)} {S : List Nat}
    (h : Segs nbrs s A (none :: vs) S) :
    ∃ (a : Nat) (A0 B S0 : List Nat), A = a :: A0 ∧ S = B ++ a :: S0 ∧ (∀ m ∈ nbrs a, EdgeOK s a m) ∧
      (∀ x ∈ B, BlackOK nbrs s a x) ∧ (∀ p, A0.head? = some p → a ∈ nbrs p) ∧ Segs nbrs s A0 vs S0 := by
  cases A with
  | nil => have := h.nil_stack.1; cases this
  | cons a A0 =>
    obtain ⟨P, V0, B, S0, hV, hS, h1, h2, h3, h4, h5⟩ := h.inv_cons
    cases P with
    | nil =>
      simp only [List.map_nil, List.nil_append, List.cons.injEq, true_and] at hV
      subst hV
      refine ⟨a, A0, B, S0, rfl, hS, ?_, h3, h4, h5⟩
      intro m hm
      rcases h2 m hm with e | e
      · simp at e
      · exact e
    | cons q P => simp at hV

theorem reaches_closed {nbrs : Nat → List Nat} {P : Nat → Prop} (hc : ∀ x, P x → ∀ m ∈ nbrs x, P m)
    {a b : Nat} (h : Reaches nbrs a b) : P a → P b := by
  induction h with
  | refl _ => exact id
  | step hm _ ih => intro ha; exact ih (hc _ ha _ hm)

/-- return from a node that is not the root of its component: its segment is merged into the parent's -/
theorem inv3_return_nonroot {order : List Nat} {nbrs : Nat → List Nat} (hnd : order.Nodup) {s s' : St}
    (h : Inv3 order nbrs s) {node p : Nat} {anc' : List Nat} {vs : List (Option Nat)}
    (hv : s.visits = none :: vs) (hA : s.ancestors = node :: p :: anc') (hlow : s.low node ≠ numOf s node)
    (hbase : Inv order s')
    (enum : s'.num = s.num) (estack : s'.stack = s.stack) (eout : s'.out = s.out) (estacked : s'.stacked = s.stacked)
    (ecounter : s'.counter = s.counter) (eanc : s'.ancestors = p :: anc') (evis : s'.visits = vs)
    (llow : ∀ x, s'.low x ≤ s.low x) (olow : ∀ x, x ≠ p → s'.low x = s.low x) (plow : s'.low p ≤ s.low node)
    (clow : s'.low p = s.low p ∨ s'.low p = s.low node) : Inv3 order nbrs s' := by
  have hndS := h.nodupStack hnd
  have hvisS := h.stack_visited hnd
  have hsegs : Segs nbrs s (node :: p :: anc') (none :: vs) s.stack := by
    rcases h.segs with hs | ⟨_, _, m, hm, _⟩
    · rw [hv, hA] at hs; exact hs
    · rw [hv] at hm; cases hm
  obtain ⟨a, A0, B, S0, eA, hS, hedges, hB, hpe, hrest⟩ := hsegs.inv_none
  cases eA
  have hnodeS : node ∈ s.stack := by rw [hS]; simp
  have hlt : s.low node < numOf s node := Nat.lt_of_le_of_ne (h.lowle node hnodeS) hlow
  have hsorted := h.sorted
  rw [hS] at hsorted
  obtain ⟨sB, sRest, sBR⟩ := List.pairwise_append.1 hsorted
  obtain ⟨sN, sS0⟩ := List.pairwise_cons.1 sRest
  obtain ⟨y, hyS, hyn, hry⟩ := h.lowwit node hnodeS
  have hyS0 : y ∈ S0 := by
    rw [hS] at hyS
    rcases List.mem_append.1 hyS with hy | hy
    · have := sBR y hy node (by simp); omega
    · rcases List.mem_cons.1 hy with e | e
      · subst e; omega
      · exact e
  have hpe' : node ∈ nbrs p := hpe p rfl
  have hyp : Reaches nbrs y p := hrest.reach_top p rfl y hyS0
  have hnode_p : Reaches nbrs node p := hry.trans hyp
  have hp_node : Reaches nbrs p node := Reaches.edge hpe'
  have hndS' : (B ++ node :: S0).Nodup := hS ▸ hndS
  have hnd1 := List.nodup_append.1 hndS'
  have hnS0 : node ∉ S0 := (List.nodup_cons.1 hnd1.2.1).1
  have hS0nd : S0.Nodup := (List.nodup_cons.1 hnd1.2.1).2
  have hpS0 : p ∈ S0 := hrest.anc_sub p (by simp)
  have hpn : p ≠ node := fun e => hnS0 (e ▸ hpS0)
  have hBp : ∀ x ∈ B, x ≠ p := fun x hx e => hnd1.2.2 x hx p (by simp [hpS0]) e
  have nO : ∀ x, numOf s' x = numOf s x := numOf_congr enum
  have htr : Segs nbrs s' (p :: anc') vs S0 := by
    apply hrest.transfer
    · intro m _; rw [enum]
    · intro m _ hm; rw [estack] at hm; exact hm
    · intro x _; exact llow x
    · intro x hx hxA; exact olow x (fun e => hxA (by simp [e]))
    · intro x hx; exact hvisS x (by rw [hS]; simp [hx])
    · exact hS0nd
  obtain ⟨P1, V1, B1, S1, evs, eS0, g1, g2, g3, g4, g5⟩ := htr.inv_cons
  have edgeport : ∀ x m, x ≠ p → EdgeOK s x m → EdgeOK s' x m := by
    intro x m hx ⟨e1, e2⟩
    refine ⟨by rw [enum]; exact e1, fun hm => ?_⟩
    rw [nO, olow x hx]
    exact e2 (by rw [estack] at hm; exact hm)
  have hseg' : Segs nbrs s' (p :: anc') vs ((B ++ node :: B1) ++ p :: S1) := by
    rw [evs]
    refine Segs.cons g1 g2 ?_ g4 g5
    intro x hx
    rcases List.mem_append.1 hx with hx | hx
    · have hb := hB x hx
      have hxp := hBp x hx
      exact ⟨hb.up.trans hnode_p, hp_node.trans hb.down, by rw [olow x hxp]; exact Nat.le_trans plow hb.lowge,
        by rw [olow x hxp, nO]; exact hb.nonroot, fun m hm => edgeport x m hxp (hb.edges m hm)⟩
    · rcases List.mem_cons.1 hx with e | hx
      · subst e
        exact ⟨hnode_p, hp_node, by rw [olow x hpn.symm]; exact plow, by rw [olow _ hpn.symm, nO]; exact hlt,
          fun m hm => edgeport x m hpn.symm (hedges m hm)⟩
      · exact g3 x hx
  have estack' : s'.stack = (B ++ node :: B1) ++ p :: S1 := by rw [estack, hS, eS0]; simp
  refine ⟨hbase, Or.inl (by rw [eanc, evis, estack']; exact hseg'), ?_, ?_, ?_, ?_, ?_, ?_, ?_,
    by rw [eout]; exact h.closedOut, by rw [eout]; exact h.sccs⟩
  · intro x d hx; rw [ecounter]; rw [enum] at hx; exact h.numlt x d hx
  · intro x y hx hxy; rw [enum] at hx hxy; exact h.numinj x y hx hxy
  · intro x hx; rw [enum] at hx; exact h.numOrd x hx
  · intro x; rw [estacked, estack]; exact h.stk x
  · rw [estack]; exact h.sorted.imp (fun {a b} hab => by rw [nO, nO]; exact hab)
  · intro x hx; rw [estack] at hx; rw [nO]; exact Nat.le_trans (llow x) (h.lowle x hx)
  · intro x hx
    rw [estack] at hx ⊢
    have old : s'.low x = s.low x → ∃ y ∈ s.stack, numOf s' y = s'.low x ∧ Reaches nbrs x y := by
      intro e
      obtain ⟨z, hz, hzn, hrz⟩ := h.lowwit x hx
      exact ⟨z, hz, by rw [nO, e]; exact hzn, hrz⟩
    by_cases e : x = p
    · subst e
      rcases clow with c | c
      · exact old c
      · exact ⟨y, hyS, by rw [nO, c]; exact hyn, hp_node.trans hry⟩
    · exact old (olow x e)

/-- return from the root of a component: its segment is popped and yielded -/
theorem inv3_return_root {order : List Nat} {nbrs : Nat → List Nat} (hnd : order.Nodup) {s s' : St}
    (h : Inv3 order nbrs s) {node : Nat} {anc : List Nat} {vs : List (Option Nat)} {C R : List Nat}
    (hv : s.visits = none :: vs) (hA : s.ancestors = node :: anc) (hlow : s.low node = numOf s node)
    (hr : popUntil node s.stack [] = (C, R)) (hbase : Inv order s')
    (enum : s'.num = s.num) (ecounter : s'.counter = s.counter) (elow : s'.low = s.low)
    (eanc : s'.ancestors = anc) (evis : s'.visits = vs) (estack : s'.stack = R) (eout : s'.out = C :: s.out)
    (estacked : ∀ x, s'.stacked x = if x ∈ C then false else s.stacked x) : Inv3 order nbrs s' := by
  have hndS := h.nodupStack hnd
  have hvisS := h.stack_visited hnd
  have hsegs : Segs nbrs s (node :: anc) (none :: vs) s.stack := by
    rcases h.segs with hs | ⟨_, _, m, hm, _⟩
    · rw [hv, hA] at hs; exact hs
    · rw [hv] at hm; cases hm
  obtain ⟨a, A0, B, S0, eA, hS, hedges, hB, hpe, hrest⟩ := hsegs.inv_none
  cases eA
  have hnodeS : node ∈ s.stack := by rw [hS]; simp
  have hsorted := h.sorted
  rw [hS] at hsorted
  obtain ⟨sB, sRest, sBR⟩ := List.pairwise_append.1 hsorted
  obtain ⟨sN, sS0⟩ := List.pairwise_cons.1 sRest
  have hndS' : (B ++ node :: S0).Nodup := hS ▸ hndS
  have hnd1 := List.nodup_append.1 hndS'
  have hnS0 : node ∉ S0 := (List.nodup_cons.1 hnd1.2.1).1
  have hS0nd : S0.Nodup := (List.nodup_cons.1 hnd1.2.1).2
  have hnB : node ∉ B := fun hx => hnd1.2.2 node hx node (by simp) rfl
  have hBS0 : ∀ x ∈ B, x ∉ S0 := fun x hx hx0 => hnd1.2.2 x hx x (by simp [hx0]) rfl
  obtain ⟨pre, rest, e1, e2, e3⟩ := popUntil_spec node s.stack [] hnodeS
  rw [hr] at e3
  obtain ⟨ePre, eRest⟩ := append_cons_unique (e1.symm.trans hS) e2 hnB
  subst ePre eRest
  simp only [List.reverse_nil, List.nil_append, Prod.mk.injEq] at e3
  obtain ⟨eC, eR⟩ := e3
  subst eC eR
  have hCmem : ∀ x, x ∈ pre ++ [node] ↔ x ∈ pre ∨ x = node := by intro x; simp
  have hS0S : ∀ x ∈ R, x ∈ s.stack := by intro x hx; rw [hS]; simp [hx]
  have nO : ∀ x, numOf s' x = numOf s x := numOf_congr enum
  have hCfacts : ∀ x ∈ pre ++ [node], (∀ m ∈ nbrs x, EdgeOK s x m) ∧ s.low node ≤ s.low x ∧
      Reaches nbrs x node ∧ Reaches nbrs node x ∧ x ∈ s.stack := by
    intro x hx
    rcases (hCmem x).1 hx with hx | hx
    · have hb := hB x hx
      exact ⟨hb.edges, hb.lowge, hb.up, hb.down, by rw [hS]; simp [hx]⟩
    · subst hx
      exact ⟨hedges, Nat.le_refl _, Reaches.refl _, Reaches.refl _, hnodeS⟩
  have htr : Segs nbrs s' anc vs R := by
    apply hrest.transfer
    · intro m _; rw [enum]
    · intro m _ hm; rw [estack] at hm; exact hS0S m hm
    · intro x _; rw [elow]; exact Nat.le_refl _
    · intro x _ _; rw [elow]
    · intro x hx; exact hvisS x (hS0S x hx)
    · exact hS0nd
  have hclosed' : ∀ x ∈ (pre ++ [node]) ++ s.out.flatten, ∀ m ∈ nbrs x, m ∈ (pre ++ [node]) ++ s.out.flatten := by
    intro x hx m hm
    rcases List.mem_append.1 hx with hx | hx
    · obtain ⟨hed, hlg, _, _, _⟩ := hCfacts x hx
      obtain ⟨e1, e2⟩ := hed m hm
      rcases h.visited_where m e1 with hms | hmo
      · have hle := e2 hms
        rw [hS] at hms
        rcases List.mem_append.1 hms with hmB | hmR
        · exact List.mem_append.2 (Or.inl ((hCmem m).2 (Or.inl hmB)))
        · rcases List.mem_cons.1 hmR with e | e
          · exact List.mem_append.2 (Or.inl ((hCmem m).2 (Or.inr e)))
          · have := sN m e; omega
      · exact List.mem_append.2 (Or.inr hmo)
    · exact List.mem_append.2 (Or.inr (h.closedOut x hx m hm))
  refine ⟨hbase, Or.inl (by rw [eanc, evis, estack]; exact htr), ?_, ?_, ?_, ?_, ?_, ?_, ?_, ?_, ?_⟩
  · intro x d hx; rw [ecounter]; rw [enum] at hx; exact h.numlt x d hx
  · intro x y hx hxy; rw [enum] at hx hxy; exact h.numinj x y hx hxy
  · intro x hx; rw [enum] at hx; exact h.numOrd x hx
  · intro x
    rw [estacked, estack]
    by_cases hx : x ∈ pre ++ [node]
    · rw [if_pos hx]
      constructor
      · intro hh; cases hh
      · intro hx0
        rcases (hCmem x).1 hx with hxB | hxn
        · exact absurd hx0 (hBS0 x hxB)
        · subst hxn; exact absurd hx0 hnS0
    · rw [if_neg hx]
      refine (h.stk x).trans ?_
      rw [hS]
      constructor
      · intro hh
        rcases List.mem_append.1 hh with hb | hb
        · exact absurd ((hCmem x).2 (Or.inl hb)) hx
        · rcases List.mem_cons.1 hb with e | e
          · exact absurd ((hCmem x).2 (Or.inr e)) hx
          · exact e
      · intro hh; simp [hh]
  · rw [estack]; exact sS0.imp (fun {a b} hab => by rw [nO, nO]; exact hab)
  · intro x hx; rw [estack] at hx; rw [nO, elow]; exact h.lowle x (hS0S x hx)
  · intro x hx
    rw [estack] at hx ⊢
    obtain ⟨z, hz, hzn, hrz⟩ := h.lowwit x (hS0S x hx)
    have hle := h.lowle x (hS0S x hx)
    refine ⟨z, ?_, by rw [nO, elow]; exact hzn, hrz⟩
    rw [hS] at hz
    rcases List.mem_append.1 hz with hb | hb
    · have := sBR z hb x (by simp [hx]); omega
    · rcases List.mem_cons.1 hb with e | e
      · subst e; have := sN x hx; omega
      · exact e
  · rw [eout, List.flatten_cons]; exact hclosed'
  · rw [eout]
    intro C' hC'
    rcases List.mem_cons.1 hC' with e | e
    · subst e
      intro x hx y
      obtain ⟨_, _, hxn, hnx, hxS⟩ := hCfacts x hx
      constructor
      · intro hy
        obtain ⟨_, _, hyn, hny, _⟩ := hCfacts y hy
        exact ⟨hxn.trans hny, hyn.trans hnx⟩
      · intro ⟨hxy, hyx⟩
        have hyin : y ∈ (pre ++ [node]) ++ s.out.flatten :=
          reaches_closed (P := fun z => z ∈ (pre ++ [node]) ++ s.out.flatten) hclosed' hxy (List.mem_append.2 (Or.inl hx))
        rcases List.mem_append.1 hyin with hy | hy
        · exact hy
        · have hxo : x ∈ s.out.flatten :=
            reaches_closed (P := fun z => z ∈ s.out.flatten) h.closedOut hyx hy
          exact absurd hxS (h.out_not_stack hnd x hxo)
    · exact h.sccs C' e


/-- a node whose `low` is below its own number has a parent on the DFS path -/
theorem nonroot_has_parent {order : List Nat} {nbrs : Nat → List Nat} (hnd : order.Nodup) {s : St}
    (h : Inv3 order nbrs s) {node : Nat} {vs : List (Option Nat)}
    (hv : s.visits = none :: vs) (hA : s.ancestors = [node]) (hlow : s.low node ≠ numOf s node) : False := by
  have hsegs : Segs nbrs s [node] (none :: vs) s.stack := by
    rcases h.segs with hs | ⟨_, _, m, hm, _⟩
    · rw [hv, hA] at hs; exact hs
    · rw [hv] at hm; cases hm
  obtain ⟨a, A0, B, S0, eA, hS, hedges, hB, hpe, hrest⟩ := hsegs.inv_none
  cases eA
  have hnodeS : node ∈ s.stack := by rw [hS]; simp
  have hlt : s.low node < numOf s node := Nat.lt_of_le_of_ne (h.lowle node hnodeS) hlow
  have hsorted := h.sorted
  rw [hS] at hsorted
  obtain ⟨sB, sRest, sBR⟩ := List.pairwise_append.1 hsorted
  obtain ⟨y, hyS, hyn, hry⟩ := h.lowwit node hnodeS
  have hS0 : S0 = [] := hrest.nil_stack.2
  subst hS0
  rw [hS] at hyS
  rcases List.mem_append.1 hyS with hy | hy
  · have := sBR y hy node (by simp); omega
  · simp only [List.mem_singleton] at hy
    subst hy; omega

/-- at the root of a component the parent's `low` is already smaller: folding changes nothing -/
theorem fold_noop_root {order : List Nat} {nbrs : Nat → List Nat} (hnd : order.Nodup) {s : St}
    (h : Inv3 order nbrs s) {node : Nat} {anc : List Nat} {vs : List (Option Nat)}
    (hv : s.visits = none :: vs) (hA : s.ancestors = node :: anc) (hlow : s.low node = numOf s node)
    (X : St) (eanc : X.ancestors = anc) (elow : X.low = s.low) : foldIntoParent X node = X := by
  cases hanc : anc with
  | nil => unfold foldIntoParent; rw [eanc, hanc]
  | cons p rest =>
    have hsegs : Segs nbrs s (node :: anc) (none :: vs) s.stack := by
      rcases h.segs with hs | ⟨_, _, m, hm, _⟩
      · rw [hv, hA] at hs; exact hs
      · rw [hv] at hm; cases hm
    obtain ⟨a, A0, B, S0, eA, hS, hedges, hB, hpe, hrest⟩ := hsegs.inv_none
    cases eA
    have hsorted := h.sorted
    rw [hS] at hsorted
    obtain ⟨sB, sRest, sBR⟩ := List.pairwise_append.1 hsorted
    obtain ⟨sN, sS0⟩ := List.pairwise_cons.1 sRest
    have hpS0 : p ∈ S0 := hrest.anc_sub p (by rw [hanc]; simp)
    have h1 := sN p hpS0
    have h2 := h.lowle p (by rw [hS]; simp [hpS0])
    unfold foldIntoParent
    rw [eanc, hanc]
    show lowerLow X p (X.low node) = X
    unfold lowerLow
    rw [if_neg]
    rw [elow]
    omega

theorem inv3_step {order : List Nat} {nbrs : Nat → List Nat} (hnd : order.Nodup)
    (hclosed : ∀ n, ∀ m ∈ nbrs n, m ∈ order) {s s' : St}
    (h : Inv3 order nbrs s) (hs : step true nbrs s = some s') : Inv3 order nbrs s' := by
  have hbase := inv_step hnd hclosed h.base hs
  unfold step at hs
  split at hs
  · rename_i hv
    split at hs
    · simp at hs
    · rename_i n rest hu
      simp only [Option.some.injEq] at hs
      subst hs
      exact inv3_pick h hv hu
  · rename_i vs hv
    split at hs
    · simp at hs
    · rename_i node anc hanc
      simp only [Bool.not_true, Bool.false_and, Bool.false_eq_true, if_false] at hs
      split at hs
      · rename_i hlow
        simp only [Option.some.injEq] at hs
        have hfold := fold_noop_root hnd h hv hanc hlow
          (emit (popScc (popFrame s vs anc) (popUntil node s.stack [])) (popUntil node s.stack []).1) rfl rfl
        rw [hfold] at hs
        subst hs
        exact inv3_return_root hnd h (C := (popUntil node s.stack []).1) (R := (popUntil node s.stack []).2)
          hv hanc hlow rfl hbase rfl rfl rfl rfl rfl rfl rfl (fun _ => rfl)
      · rename_i hlow
        simp only [Option.some.injEq] at hs
        subst hs
        cases anc with
        | nil => exact (nonroot_has_parent hnd h hv hanc hlow).elim
        | cons p anc' =>
          have e : foldIntoParent (popFrame s vs (p :: anc')) node
              = lowerLow (popFrame s vs (p :: anc')) p (s.low node) := rfl
          rw [e] at hbase ⊢
          obtain ⟨f1, f2, f3, f4, f5, f6⟩ := lowerLow_fields (popFrame s vs (p :: anc')) p (s.low node)
          obtain ⟨l1, l2, l3, l4⟩ := lowerLow_low (popFrame s vs (p :: anc')) p (s.low node)
          obtain ⟨o1, o2⟩ := lowerLow_other (popFrame s vs (p :: anc')) p (s.low node)
          exact inv3_return_nonroot hnd h hv hanc hlow hbase f5 f2 f3 o1 o2 f4 f6 l1 l2 l3 l4
  · rename_i node vs hv
    split at hs
    · rename_i d hnum
      split at hs
      · rename_i hst
        split at hs
        · rename_i hanc
          -- a stacked node with no ancestors: impossible
          exfalso
          have hin : node ∈ s.stack := (h.stk node).1 hst
          rcases h.segs with hsg | ⟨_, hS, _⟩
          · rw [hanc] at hsg
            rw [hsg.nil_stack.2] at hin
            simp at hin
          · rw [hS] at hin; simp at hin
        · rename_i p rest hanc
          simp only [Option.some.injEq] at hs
          exact inv3_skip hnd h hbase hv hnum (Or.inr ⟨hst, p, rest, hanc, hs.symm⟩)
      · rename_i hst
        simp only [Option.some.injEq] at hs
        exact inv3_skip hnd h hbase hv hnum (Or.inl ⟨by simpa using hst, hs.symm⟩)
    · rename_i hnum
      simp only [Option.some.injEq] at hs
      subst hs
      exact inv3_expand hnd h hbase hv hnum

theorem inv3_run {order : List Nat} {nbrs : Nat → List Nat} (hnd : order.Nodup)
    (hclosed : ∀ n, ∀ m ∈ nbrs n, m ∈ order) :
    ∀ (fuel : Nat) (s : St), Inv3 order nbrs s → Inv3 order nbrs (run true nbrs fuel s).1
  | 0, _, h => h
  | f + 1, s, h => by
    unfold run
    cases hs : step true nbrs s with
    | none => exact h
    | some s' => exact inv3_run hnd hclosed f s' (inv3_step hnd hclosed h hs)

/-- when `run` reports exhaustion, the final state has no step -/
theorem run_halted {nbrs : Nat → List Nat} : ∀ (fuel : Nat) (s : St), (run true nbrs fuel s).2 = true →
    step true nbrs (run true nbrs fuel s).1 = none
  | 0, _, h => by simp [run] at h
  | f + 1, s, h => by
    unfold run at h ⊢
    cases hs : step true nbrs s with
    | none => simpa [hs] using hs
    | some s' =>
      rw [hs] at h
      exact run_halted f s' h

/-- an exhausted generator has emptied its stack -/
theorem halted_empty {order : List Nat} {nbrs : Nat → List Nat} {s : St} (h : Inv3 order nbrs s)
    (hs : step true nbrs s = none) : s.unvisited = [] ∧ s.stack = [] := by
  unfold step at hs
  split at hs
  · rename_i hv
    split at hs
    · rename_i hu
      refine ⟨hu, ?_⟩
      rcases h.segs with hsg | ⟨_, hS, _⟩
      · rw [hv] at hsg
        have hA : s.ancestors = [] := hsg.frames.nil_iff.2 rfl
        rw [hA] at hsg
        exact hsg.nil_stack.2
      · exact hS
    · simp at hs
  · rename_i vs hv
    split at hs
    · rename_i hanc
      exfalso
      rcases h.segs with hsg | ⟨_, _, m, hm, _⟩
      · rw [hv, hanc] at hsg
        have := hsg.nil_stack.1
        cases this
      · rw [hv] at hm; cases hm
    · simp only [Bool.not_true, Bool.false_and, Bool.false_eq_true, if_false] at hs
      split at hs <;> simp at hs
  · split at hs
    · split at hs
      · split at hs <;> simp at hs
      · simp at hs
    · simp at hs

/-- **C20_sccs** — for every graph (neighbour lists inside the node set, no node listed twice) and
every iteration order of nodes and neighbours: `sccs(trivial=True)` terminates, its components together
are a permutation of the nodes, and two nodes share a component iff each reaches the other. -/
theorem C20_sccs (order : List Nat) (nbrs : Nat → List Nat) (hnd : order.Nodup)
    (hclosed : ∀ n, ∀ m ∈ nbrs n, m ∈ order) :
    let t := sccs true order nbrs (fuelFor order nbrs)
    t.2 = true ∧ t.1.flatten.Perm order ∧
    (∀ c ∈ t.1, ∀ x ∈ c, ∀ y, (y ∈ c ↔ Reaches nbrs x y ∧ Reaches nbrs y x)) := by
  have hh := C20_halts order nbrs hnd hclosed
  have hi := inv3_run hnd hclosed (fuelFor order nbrs) (init order) (inv3_init order nbrs)
  have hstep := run_halted (nbrs := nbrs) (fuelFor order nbrs) (init order) hh
  obtain ⟨hu, hS⟩ := halted_empty hi hstep
  refine ⟨hh, ?_, ?_⟩
  · show ((run true nbrs (fuelFor order nbrs) (init order)).1.out.reverse).flatten.Perm order
    have hp := hi.base.perm
    rw [hu, hS] at hp
    simp only [List.nil_append] at hp
    refine List.Perm.trans ?_ hp
    exact (List.reverse_perm _).flatten
  · intro c hc
    have hc' : c ∈ (run true nbrs (fuelFor order nbrs) (init order)).1.out := List.mem_reverse.1 hc
    exact hi.sccs c hc'

/-! ## the default mode is the trivial mode with the trivial components dropped -/

/-- forget the trivial components of `out` -/
def dropTrivial (nbrs : Nat → List Nat) (s : St) : St :=
  { s with out := s.out.filter (fun c => !isTrivialScc nbrs c) }

theorem lowerLow_dropTrivial (nbrs : Nat → List Nat) (s : St) (p v : Nat) :
    lowerLow (dropTrivial nbrs s) p v = dropTrivial nbrs (lowerLow s p v) := by
  unfold lowerLow dropTrivial
  split <;> rfl

theorem foldIntoParent_dropTrivial (nbrs : Nat → List Nat) (s : St) (node : Nat) :
    foldIntoParent (dropTrivial nbrs s) node = dropTrivial nbrs (foldIntoParent s node) := by
  unfold foldIntoParent
  cases ha : s.ancestors with
  | nil => simp [dropTrivial, ha]
  | cons p rest =>
    have : (dropTrivial nbrs s).ancestors = p :: rest := ha
    simp only [this]
    exact lowerLow_dropTrivial nbrs s _ _

theorem dropTrivial_emit_trivial (nbrs : Nat → List Nat) (s : St) (c : List Nat) (h : isTrivialScc nbrs c = true) :
    dropTrivial nbrs (emit s c) = dropTrivial nbrs s := by
  simp [dropTrivial, emit, List.filter_cons, h]

theorem dropTrivial_emit_nontrivial (nbrs : Nat → List Nat) (s : St) (c : List Nat) (h : isTrivialScc nbrs c = false) :
    dropTrivial nbrs (emit s c) = emit (dropTrivial nbrs s) c := by
  simp [dropTrivial, emit, List.filter_cons, h]

/-- one step in default mode = one step in trivial mode, then dropping the trivial components -/
theorem step_false {order : List Nat} {nbrs : Nat → List Nat} (hnd : order.Nodup) {s : St}
    (hinv : Inv3 order nbrs s) :
    step false nbrs (dropTrivial nbrs s) = (step true nbrs s).map (dropTrivial nbrs) := by
  unfold step
  have e1 : (dropTrivial nbrs s).visits = s.visits := rfl
  have e2 : (dropTrivial nbrs s).unvisited = s.unvisited := rfl
  have e3 : (dropTrivial nbrs s).ancestors = s.ancestors := rfl
  have e4 : (dropTrivial nbrs s).num = s.num := rfl
  have e5 : (dropTrivial nbrs s).low = s.low := rfl
  have e6 : (dropTrivial nbrs s).stacked = s.stacked := rfl
  have e7 : (dropTrivial nbrs s).stack = s.stack := rfl
  rw [e1, e2, e3, e4, e5, e6, e7]
  cases hv : s.visits with
  | nil =>
    cases hu : s.unvisited with
    | nil => rfl
    | cons n rest => rfl
  | cons v vs =>
    cases v with
    | none =>
      cases ha : s.ancestors with
      | nil => rfl
      | cons node anc =>
        simp only [Bool.not_false, Bool.true_and, Bool.not_true, Bool.false_and, Bool.false_eq_true, if_false]
        have hpf : popFrame (dropTrivial nbrs s) vs anc = dropTrivial nbrs (popFrame s vs anc) := rfl
        have hps : ∀ r, popScc (dropTrivial nbrs (popFrame s vs anc)) r = dropTrivial nbrs (popScc (popFrame s vs anc) r) :=
          fun _ => rfl
        by_cases hroot : s.low node = (s.num node).getD 0
        · simp only [hroot, if_true]
          rw [hpf, hps]
          cases htriv : isTrivialScc nbrs (popUntil node s.stack []).1
          · simp only [Bool.false_eq_true, if_false, Option.map_some]
            rw [← dropTrivial_emit_nontrivial nbrs _ _ htriv, foldIntoParent_dropTrivial]
          · simp only [if_true, Option.map_some]
            have hfold := fold_noop_root hnd hinv hv ha hroot
              (emit (popScc (popFrame s vs anc) (popUntil node s.stack [])) (popUntil node s.stack []).1) rfl rfl
            rw [hfold, dropTrivial_emit_trivial nbrs _ _ htriv]
        · simp only [hroot, if_false, Option.map_some]
          rw [hpf, foldIntoParent_dropTrivial]
    | some node =>
      cases hn : s.num node with
      | none => simp only [hn, Option.map_some]; rfl
      | some d =>
        simp only [hn, Option.map_some]
        have hvv : ({ dropTrivial nbrs s with visits := vs } : St) = dropTrivial nbrs { s with visits := vs } := rfl
        cases hst : s.stacked node
        · simp only [Bool.false_eq_true, if_false, Option.map_some]; rfl
        · simp only [if_true]
          cases ha : s.ancestors with
          | nil => simp only [Option.map_some]; rfl
          | cons p rest =>
            simp only [Option.map_some]
            exact congrArg some (lowerLow_dropTrivial nbrs { s with visits := vs, ancestors := p :: rest } p d)

theorem run_false {order : List Nat} {nbrs : Nat → List Nat} (hnd : order.Nodup)
    (hclosed : ∀ n, ∀ m ∈ nbrs n, m ∈ order) :
    ∀ (fuel : Nat) (s : St), Inv3 order nbrs s → run false nbrs fuel (dropTrivial nbrs s) =
      ((dropTrivial nbrs (run true nbrs fuel s).1), (run true nbrs fuel s).2)
  | 0, s, _ => rfl
  | f + 1, s, hi => by
    unfold run
    rw [step_false hnd hi]
    cases hs : step true nbrs s with
    | none => rfl
    | some s' =>
      simp only [Option.map_some]
      exact run_false hnd hclosed f s' (inv3_step hnd hclosed hi hs)

/-- **C20_default_mode** — `sccs()` (default mode) yields exactly the components of `sccs(True)` that
are not trivial (more than one node, or a node with a self-loop), in the same order, and halts
exactly when the trivial mode does. -/
theorem C20_default_mode (order : List Nat) (nbrs : Nat → List Nat) (hnd : order.Nodup)
    (hclosed : ∀ n, ∀ m ∈ nbrs n, m ∈ order) (fuel : Nat) :
    (sccs false order nbrs fuel).1 = (sccs true order nbrs fuel).1.filter (fun c => !isTrivialScc nbrs c) ∧
    (sccs false order nbrs fuel).2 = (sccs true order nbrs fuel).2 := by
  unfold sccs
  have hinit : init order = dropTrivial nbrs (init order) := by simp [dropTrivial, init]
  have h := run_false hnd hclosed fuel (init order) (inv3_init order nbrs)
  rw [← hinit] at h
  rw [h]
  simp [dropTrivial, List.filter_reverse]


/-- **C20** — the full statement `C20_spec`, for every graph and every iteration order -/
theorem C20_full (order : List Nat) (nbrs : Nat → List Nat) (hnd : order.Nodup)
    (hclosed : ∀ n, ∀ m ∈ nbrs n, m ∈ order) : C20_spec order nbrs := by
  obtain ⟨h1, h2, h3⟩ := C20_sccs order nbrs hnd hclosed
  exact ⟨h1, h2, h3, (C20_default_mode order nbrs hnd hclosed _).1⟩

/-- the hypotheses are satisfiable by a graph with a non-trivial component, a self-loop and an isolated node -/
example : let order := [3, 1, 2, 0]
    let nbrs : Nat → List Nat := fun n => if n = 0 then [1] else if n = 1 then [2, 1] else if n = 2 then [0] else []
    order.Nodup ∧ (∀ n, ∀ m ∈ nbrs n, m ∈ order) ∧
    (sccs true order nbrs (fuelFor order nbrs)).1 = [[3], [0, 2, 1]] := by
  refine ⟨by decide, ?_, by decide⟩
  intro n m hm
  by_cases h0 : n = 0
  · simp [h0] at hm; simp [hm]
  · by_cases h1 : n = 1
    · simp [h1] at hm; rcases hm with e | e <;> simp [e]
    · by_cases h2 : n = 2
      · simp [h2] at hm; simp [hm]
      · simp [h0, h1, h2] at hm

end Ztr.Digraph
