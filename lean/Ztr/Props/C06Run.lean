import Ztr.Props.C03Run
import Ztr.Props.C04
/-! # C06, first sentence — what the tests of a layer do does not depend on the process that runs them

`-j N` moves the layers into subprocesses; a sequential run keeps them in the parent (or resumes them
in subprocesses after a layer that cannot be torn down).  In the model the iterations of a layer add
the same events, failures, errors and counts to *any* process state, under any options that agree on
`--buffer`, `--stop-on-error` and `--repeat`: the layer's contribution is a function of the layer.
(Modelling assumption: a test's script does not read process-global state left by other layers.) -/
namespace Ztr.Runner
open Ztr.Layers Ztr.Proto Ztr.Result

/-- what the iterations of one layer add to the state of the process that runs them -/
structure Delta where
  trace : List Ev := []
  failures : List Nat := []
  errors : List Err := []
  skipped : Nat := 0
  ran : Option Nat := none          -- `none`: `ran` is left as it was
  aborted : Bool := false
  interrupted : Bool := false

/-- `s'` is `s` extended by `d` -/
structure Extends (s s' : PS) (d : Delta) : Prop where
  trace : s'.trace = s.trace ++ d.trace
  failures : s'.failures = s.failures ++ d.failures
  errors : s'.errors = s.errors ++ d.errors
  skipped : s'.skipped = s.skipped + d.skipped
  setup : s'.setup = s.setup
  aborted : s'.aborted = (s.aborted || d.aborted)
  interrupted : s'.interrupted = (s.interrupted || d.interrupted)
  ran : s'.ran = d.ran.getD s.ran

def Delta.append (a b : Delta) : Delta :=
  { trace := a.trace ++ b.trace, failures := a.failures ++ b.failures, errors := a.errors ++ b.errors,
    skipped := a.skipped + b.skipped, ran := b.ran.orElse (fun _ => a.ran),
    aborted := a.aborted || b.aborted, interrupted := a.interrupted || b.interrupted }

theorem Extends.trans {s1 s2 s3 : PS} {a b : Delta} (h1 : Extends s1 s2 a) (h2 : Extends s2 s3 b) :
    Extends s1 s3 (a.append b) := by
  refine ⟨?_, ?_, ?_, ?_, ?_, ?_, ?_, ?_⟩
  · rw [h2.trace, h1.trace]; simp [Delta.append]
  · rw [h2.failures, h1.failures]; simp [Delta.append]
  · rw [h2.errors, h1.errors]; simp [Delta.append]
  · rw [h2.skipped, h1.skipped]; simp [Delta.append]; omega
  · rw [h2.setup, h1.setup]
  · rw [h2.aborted, h1.aborted]; simp [Delta.append, Bool.or_assoc]
  · rw [h2.interrupted, h1.interrupted]; simp [Delta.append, Bool.or_assoc]
  · rw [h2.ran, h1.ran]
    simp only [Delta.append]
    cases b.ran <;> simp

/-- the delta of one completed iteration -/
def iterDelta (w : World) (o : Opts) (l : Nat) (tests : List TestDef) : Delta :=
  let r := Result.runTests (resultCfg w o l) tests {}
  { trace := r.evs.map Ev.test ++
      [.summary r.testsRun (r.failures.length + r.unexpected.length) (r.errors.length + w.importErrors) r.skipped.length]
    failures := r.failures ++ r.unexpected
    errors := r.errors.map Err.test
    skipped := r.skipped.length
    ran := some r.testsRun }

theorem extends_iterDone (w : World) (o : Opts) (l : Nat) (tests : List TestDef) (s : PS) :
    Extends s (iterDone w o l tests s) (iterDelta w o l tests) := by
  refine ⟨?_, ?_, ?_, ?_, rfl, ?_, ?_, rfl⟩
  · simp [iterDone, iterLogged, PS.emit, iterDelta]
  · simp [iterDone, iterLogged, PS.emit, iterDelta]
  · simp [iterDone, iterLogged, PS.emit, iterDelta]
  · simp [iterDone, iterLogged, PS.emit, iterDelta]
  · simp [iterDone, iterLogged, PS.emit, iterDelta]
  · simp [iterDone, iterLogged, PS.emit, iterDelta]

/-- the delta of `n` iterations of layer `l`: a function of the layer, the options and `n` alone -/
def layerDelta (w : World) (o : Opts) (l : Nat) (tests : List TestDef) : Nat → Delta
  | 0 => {}
  | n + 1 =>
    let r := Result.runTests (resultCfg w o l) tests {}
    if r.aborted then { trace := r.evs.map Ev.test, aborted := true }
    else if r.interrupted then { trace := r.evs.map Ev.test, interrupted := true }
    else if r.shouldStop then iterDelta w o l tests
    else (iterDelta w o l tests).append (layerDelta w o l tests n)

/-- **frame theorem** — whatever the state of the process, `n` iterations of a layer extend it by
`layerDelta`. -/
theorem runIterations_extends (w : World) (o : Opts) (l : Nat) (tests : List TestDef) :
    ∀ (n : Nat) (s : PS), Extends s (runIterations w o l tests n s) (layerDelta w o l tests n)
  | 0, s => by
    refine ⟨?_, ?_, ?_, ?_, rfl, ?_, ?_, rfl⟩ <;> simp [runIterations, layerDelta]
  | n + 1, s => by
    rw [runIterations_succ]
    unfold layerDelta
    by_cases h1 : (Result.runTests (resultCfg w o l) tests {}).aborted = true
    · simp only [h1, if_true]
      refine ⟨?_, ?_, ?_, ?_, rfl, ?_, ?_, rfl⟩ <;> simp [iterLogged]
    · simp only [h1, if_false, Bool.false_eq_true]
      by_cases h2 : (Result.runTests (resultCfg w o l) tests {}).interrupted = true
      · simp only [h2, if_true]
        refine ⟨?_, ?_, ?_, ?_, rfl, ?_, ?_, rfl⟩ <;> simp [iterLogged]
      · simp only [h2, if_false, Bool.false_eq_true]
        by_cases h3 : (Result.runTests (resultCfg w o l) tests {}).shouldStop = true
        · simp only [h3, if_true]
          exact extends_iterDone w o l tests s
        · simp only [h3, if_false, Bool.false_eq_true]
          exact (extends_iterDone w o l tests s).trans (runIterations_extends w o l tests n _)

theorem resultCfg_congr (w : World) (o o' : Opts) (l : Nat) (hb : o.buffer = o'.buffer)
    (hx : o.stopOnError = o'.stopOnError) : resultCfg w o l = resultCfg w o' l := by
  unfold resultCfg; rw [hb, hx]

theorem layerDelta_congr (w : World) (o o' : Opts) (l : Nat) (tests : List TestDef) (hb : o.buffer = o'.buffer)
    (hx : o.stopOnError = o'.stopOnError) : ∀ n, layerDelta w o l tests n = layerDelta w o' l tests n
  | 0 => rfl
  | n + 1 => by
    unfold layerDelta iterDelta
    rw [resultCfg_congr w o o' l hb hx, layerDelta_congr w o o' l tests hb hx n]

/-- **C06_layer_same_in_every_process** — for options that agree on `--buffer` and `--stop-on-error`
(a `-j N` parent hands exactly these to its children; `processes` and `resume` may differ), the
iterations of a layer add the same test events and summaries, the same failures and errors, and the
same counts to the state of whichever process runs them, whatever that process did before. -/
theorem C06_layer_same_in_every_process (w : World) (o o' : Opts) (l : Nat) (tests : List TestDef) (n : Nat)
    (hb : o.buffer = o'.buffer) (hx : o.stopOnError = o'.stopOnError) (s s' : PS) :
    Extends s (runIterations w o l tests n s) (layerDelta w o l tests n) ∧
    Extends s' (runIterations w o' l tests n s') (layerDelta w o l tests n) := by
  refine ⟨runIterations_extends w o l tests n s, ?_⟩
  rw [layerDelta_congr w o o' l tests hb hx n]
  exact runIterations_extends w o' l tests n s'


/-! ## the whole run: `-j N` against the sequential run -/

/-- the errors that stand for erroring tests -/
def testErrs (es : List Err) : List Nat :=
  es.filterMap (fun e => match e with | .test t => some t | _ => none)

theorem testErrs_append (a b : List Err) : testErrs (a ++ b) = testErrs a ++ testErrs b := by
  simp [testErrs, List.filterMap_append]

/-- two process states with the same test-level results and flags -/
structure SameRes (s s' : PS) : Prop where
  failures : s'.failures = s.failures
  terrs : testErrs s'.errors = testErrs s.errors
  aborted : s'.aborted = s.aborted
  interrupted : s'.interrupted = s.interrupted

theorem SameRes.refl (s : PS) : SameRes s s := ⟨rfl, rfl, rfl, rfl⟩

theorem SameRes.trans {a b c : PS} (h1 : SameRes a b) (h2 : SameRes b c) : SameRes a c :=
  ⟨h2.failures.trans h1.failures, h2.terrs.trans h1.terrs, h2.aborted.trans h1.aborted,
    h2.interrupted.trans h1.interrupted⟩

theorem sameRes_emit (s : PS) (e : Ev) : SameRes s (s.emit e) := ⟨rfl, rfl, rfl, rfl⟩

theorem sameRes_tdOne (w : World) (l : Nat) (s : PS) : SameRes s (tdOne w l s) := by
  unfold tdOne
  by_cases ht : (w.info l).hasTearDown = true
  · simp only [ht, if_true]
    split
    · exact ⟨rfl, by simp [PS.emit, testErrs], rfl, rfl⟩
    · exact ⟨rfl, rfl, rfl, rfl⟩
  · simp only [ht, Bool.false_eq_true, if_false]
    exact ⟨rfl, rfl, rfl, rfl⟩

theorem sameRes_tearDownList (w : World) (opt : Bool) :
    ∀ (order : List Nat) (s : PS), SameRes s (tearDownList w opt order s).1
  | [], s => by simp [tearDownList]; exact SameRes.refl s
  | l :: ls, s => by
    rw [tearDownList_cons]
    split
    · exact sameRes_tdOne w l s
    · exact (sameRes_tdOne w l s).trans (sameRes_tearDownList w opt ls _)

theorem sameRes_tearDownUnneeded (w : World) (needed : List Nat) (opt : Bool) (s : PS) :
    SameRes s (tearDownUnneeded w needed opt s).1 := sameRes_tearDownList w opt _ s

/-- no layer `setUp` ever raises -/
def NoSetUpFaults (w : World) : Prop := ∀ l k, w.setUpRaises l k = false

theorem setupBases_ok (f : Nat → PS → PS × Bool) (hf : ∀ b s, SameRes s (f b s).1 ∧ (f b s).2 = true) :
    ∀ (bs : List Nat) (s : PS), SameRes s (setupBases f bs s).1 ∧ (setupBases f bs s).2 = true
  | [], s => ⟨SameRes.refl s, rfl⟩
  | b :: bs, s => by
    rw [setupBases]
    simp only [(hf b s).2, if_true]
    obtain ⟨h1, h2⟩ := setupBases_ok f hf bs (f b s).1
    exact ⟨(hf b s).1.trans h1, h2⟩

theorem setupLayerF_ok (w : World) (hw : NoSetUpFaults w) :
    ∀ (f l : Nat) (s : PS), SameRes s (setupLayerF w f l s).1 ∧ (setupLayerF w f l s).2 = true
  | 0, _, s => ⟨SameRes.refl s, rfl⟩
  | f + 1, l, s => by
    rw [setupLayerF]
    split
    · exact ⟨SameRes.refl s, rfl⟩
    · obtain ⟨h1, h2⟩ := setupBases_ok (setupLayerF w f) (fun b s => setupLayerF_ok w hw f b s) (w.graph.bases l) s
      simp only [h2, Bool.not_true, Bool.false_eq_true, if_false]
      split
      · rw [hw l _]
        exact ⟨h1.trans ⟨rfl, rfl, rfl, rfl⟩, rfl⟩
      · exact ⟨h1.trans ⟨rfl, rfl, rfl, rfl⟩, rfl⟩

theorem setupLayer_ok (w : World) (hw : NoSetUpFaults w) (l : Nat) (s : PS) :
    SameRes s (setupLayer w l s).1 ∧ (setupLayer w l s).2 = true := setupLayerF_ok w hw _ l s


/-! ### test-level flags of a layer's iterations -/

end Ztr.Runner

namespace Ztr.Result
open Ztr.Proto

theorem runTests_quiet (c : Cfg) (hc : c.stopOnError = false) : ∀ (ts : List TestDef) (s : RS),
    (∀ t ∈ ts, Quiet t) → Between s → s.shouldStop = false → s.interrupted = false →
    (runTests c ts s).interrupted = false ∧ (runTests c ts s).shouldStop = false
  | [], _, _, _, h1, h2 => ⟨h2, h1⟩
  | t :: ts, s, hq, hb, h1, h2 => by
    unfold runTests
    simp only [h1, hb.aborted, h2, Bool.or_self, Bool.false_eq_true, if_false]
    obtain ⟨f1, f2⟩ := runTest_flags c t s hc (hq t (by simp)) h1 h2
    obtain ⟨_, _, _, hb'⟩ := runTest_bracket c t s hb
    exact runTests_quiet c hc ts _ (fun x hx => hq x (by simp [hx])) hb' f1 f2

end Ztr.Result

namespace Ztr.Runner
open Ztr.Layers Ztr.Proto Ztr.Result

def reps (o : Opts) : Nat := if o.repeat_ = 0 then 1 else o.repeat_

/-- test-level part of `Extends` -/
structure ResExt (s s' : PS) (F E : List Nat) : Prop where
  failures : s'.failures = s.failures ++ F
  terrs : testErrs s'.errors = testErrs s.errors ++ E
  aborted : s'.aborted = s.aborted
  interrupted : s'.interrupted = s.interrupted

theorem ResExt.of_same {s s' : PS} (h : SameRes s s') : ResExt s s' [] [] :=
  ⟨by simp [h.failures], by simp [h.terrs], h.aborted, h.interrupted⟩

theorem ResExt.trans {a b c : PS} {F1 E1 F2 E2 : List Nat} (h1 : ResExt a b F1 E1) (h2 : ResExt b c F2 E2) :
    ResExt a c (F1 ++ F2) (E1 ++ E2) :=
  ⟨by rw [h2.failures, h1.failures, List.append_assoc], by rw [h2.terrs, h1.terrs, List.append_assoc],
    h2.aborted.trans h1.aborted, h2.interrupted.trans h1.interrupted⟩

theorem layerDelta_flags (w : World) (o : Opts) (l : Nat) (tests : List TestDef) (hx : o.stopOnError = false)
    (hq : ∀ t ∈ tests, Quiet t) : ∀ n, (layerDelta w o l tests n).aborted = false ∧
      (layerDelta w o l tests n).interrupted = false
  | 0 => ⟨rfl, rfl⟩
  | n + 1 => by
    unfold layerDelta
    have h1 : (Result.runTests (resultCfg w o l) tests {}).aborted = false := runTests_not_aborted _ _
    obtain ⟨h2, h3⟩ := runTests_quiet (resultCfg w o l) hx tests {} hq between_init rfl rfl
    simp only [h1, h2, h3, Bool.false_eq_true, if_false]
    obtain ⟨a, b⟩ := layerDelta_flags w o l tests hx hq n
    exact ⟨by simp [Delta.append, iterDelta, a], by simp [Delta.append, iterDelta, b]⟩

/-- failures and erroring tests a layer contributes -/
def layerF (w : World) (o : Opts) (g : Nat × List TestDef) : List Nat := (layerDelta w o g.1 g.2 (reps o)).failures
def layerE (w : World) (o : Opts) (g : Nat × List TestDef) : List Nat := testErrs (layerDelta w o g.1 g.2 (reps o)).errors

/-- **runLayer, fault-free set-up** — either `CanNotTearDown` (nothing changes at test level), or the
layer's tests run here and contribute exactly `layerDelta` -/
theorem runLayer_cases (w : World) (hw : NoSetUpFaults w) (o : Opts) (hx : o.stopOnError = false)
    (l : Nat) (tests : List TestDef) (hq : ∀ t ∈ tests, Quiet t) (s : PS) :
    ((runLayer w o l tests s).2 = true ∧ SameRes s (runLayer w o l tests s).1) ∨
    ((runLayer w o l tests s).2 = false ∧ ResExt s (runLayer w o l tests s).1 (layerF w o (l, tests)) (layerE w o (l, tests))) := by
  rw [runLayer_eq]
  have hhead : SameRes s (rlHeader o l s) := by
    unfold rlHeader; split
    · exact SameRes.refl s
    · exact sameRes_emit s _
  have htd := sameRes_tearDownUnneeded w (gather w.graph l) false (rlHeader o l s)
  by_cases h1 : (tearDownUnneeded w (gather w.graph l) false (rlHeader o l s)).2 = true
  · rw [if_pos h1]
    exact Or.inl ⟨h1, hhead.trans htd⟩
  · rw [if_neg h1]
    obtain ⟨hsu, hok⟩ := setupLayer_ok w hw l (tearDownUnneeded w (gather w.graph l) false (rlHeader o l s)).1
    rw [if_neg (by simp [hok])]
    refine Or.inr ⟨rfl, ?_⟩
    have hready : SameRes s (rlReady w o l s) := (hhead.trans htd).trans hsu
    have hext := runIterations_extends w o l tests (reps o) { rlReady w o l s with ran := 0 }
    obtain ⟨fa, fi⟩ := layerDelta_flags w o l tests hx hq (reps o)
    refine ⟨?_, ?_, ?_, ?_⟩
    · show (runIterations w o l tests (reps o) { rlReady w o l s with ran := 0 }).failures = _
      rw [hext.failures]; show (rlReady w o l s).failures ++ _ = _; rw [hready.failures]; rfl
    · show testErrs (runIterations w o l tests (reps o) { rlReady w o l s with ran := 0 }).errors = _
      rw [hext.errors, testErrs_append]; show testErrs (rlReady w o l s).errors ++ _ = _; rw [hready.terrs]; rfl
    · show (runIterations w o l tests (reps o) { rlReady w o l s with ran := 0 }).aborted = _
      rw [hext.aborted]
      show ((rlReady w o l s).aborted || (layerDelta w o l tests (reps o)).aborted) = _
      rw [fa, hready.aborted]; simp
    · show (runIterations w o l tests (reps o) { rlReady w o l s with ran := 0 }).interrupted = _
      rw [hext.interrupted]
      show ((rlReady w o l s).interrupted || (layerDelta w o l tests (reps o)).interrupted) = _
      rw [fi, hready.interrupted]; simp


/-! ### the layer loop of the sequential parent -/

theorem layerLoop_cons (w : World) (o : Opts) (l : Nat) (tests : List TestDef) (rest : List (Nat × List TestDef)) (s : PS) :
    layerLoop w o ((l, tests) :: rest) s =
      if (runLayer w o l tests s).1.aborted || (runLayer w o l tests s).1.interrupted then ((runLayer w o l tests s).1, [])
      else if (runLayer w o l tests s).2 then
        (match o.resume with
         | none => ((runLayer w o l tests s).1, (l, tests) :: rest)
         | some _ => layerLoop w o rest (runLayer w o l tests s).1)
      else if o.processes > 1 then ((runLayer w o l tests s).1, rest)
      else if o.stopOnError && (!(runLayer w o l tests s).1.failures.isEmpty || !(runLayer w o l tests s).1.errors.isEmpty) then
        ((runLayer w o l tests s).1, [])
      else layerLoop w o rest (runLayer w o l tests s).1 := by
  rw [layerLoop]
  rfl

theorem layerLoop_seq (w : World) (hw : NoSetUpFaults w) (o : Opts) (hx : o.stopOnError = false)
    (hp : ¬ o.processes > 1) (hr : o.resume = none) :
    ∀ (L : List (Nat × List TestDef)) (s : PS), (∀ g ∈ L, ∀ t ∈ g.2, Quiet t) → s.aborted = false →
      s.interrupted = false →
      ∃ pre, L = pre ++ (layerLoop w o L s).2 ∧
        ResExt s (layerLoop w o L s).1 (pre.flatMap (layerF w o)) (pre.flatMap (layerE w o))
  | [], s, _, _, _ => ⟨[], by simp [layerLoop], by simpa [layerLoop] using ResExt.of_same (SameRes.refl s)⟩
  | (l, tests) :: rest, s, hq, ha, hi => by
    rw [layerLoop_cons]
    rcases runLayer_cases w hw o hx l tests (hq (l, tests) (by simp)) s with ⟨h2, hs⟩ | ⟨h2, he⟩
    · have fa : (runLayer w o l tests s).1.aborted = false := hs.aborted.trans ha
      have fi : (runLayer w o l tests s).1.interrupted = false := hs.interrupted.trans hi
      simp only [fa, fi, Bool.or_self, Bool.false_eq_true, if_false, h2, if_true, hr]
      exact ⟨[], by simp, by simpa using ResExt.of_same hs⟩
    · have fa : (runLayer w o l tests s).1.aborted = false := he.aborted.trans ha
      have fi : (runLayer w o l tests s).1.interrupted = false := he.interrupted.trans hi
      simp only [fa, fi, Bool.or_self, Bool.false_eq_true, if_false, h2, hp, hx, Bool.false_and]
      obtain ⟨pre, e1, e2⟩ := layerLoop_seq w hw o hx hp hr rest (runLayer w o l tests s).1
        (fun g hg => hq g (by simp [hg])) fa fi
      refine ⟨(l, tests) :: pre, by rw [List.cons_append, ← e1], ?_⟩
      simpa [List.flatMap_cons] using he.trans e2

/-! ### a layer subprocess -/

theorem eq_singleton_of_nodup_mem {l : Nat} : ∀ {xs : List Nat}, xs.Nodup → (∀ x, x ∈ xs ↔ x ∈ [l]) → xs = [l]
  | [], _, h => by have := (h l).2 (by simp); simp at this
  | [a], _, h => by have := (h a).1 (by simp); simp at this; rw [this]
  | a :: b :: r, hnd, h => by
    have ha := (h a).1 (by simp)
    have hb := (h b).1 (by simp)
    simp at ha hb
    subst ha hb
    simp at hnd

theorem orderByBases_singleton (G : Graph) (l : Nat) : orderByBases G [l] = [l] :=
  eq_singleton_of_nodup_mem (C10_once G [l]).1 (C10_once G [l]).2

theorem orderByBases_nil (G : Graph) : orderByBases G [] = [] := by
  apply List.eq_nil_iff_forall_not_mem.2
  intro x hx
  have := ((C10_once G []).2 x).1 hx
  simp at this

theorem filter_key_unique {l : Nat} {tests : List TestDef} : ∀ {gs : List (Nat × List TestDef)},
    (gs.map (·.1)).Nodup → (l, tests) ∈ gs → gs.filter (fun g => g.1 == l) = [(l, tests)]
  | [], _, h => by simp at h
  | g :: gs, hnd, h => by
    simp only [List.map_cons, List.nodup_cons] at hnd
    rcases List.mem_cons.1 h with e | e
    · subst e
      simp only [List.filter_cons, beq_self_eq_true, if_true]
      congr 1
      apply List.filter_eq_nil_iff.2
      intro x hx hxl
      have : x.1 = l := by simpa using hxl
      exact hnd.1 (this ▸ List.mem_map.2 ⟨x, hx, rfl⟩)
    · have hne : ¬ (g.1 == l) = true := by
        intro hh
        have : g.1 = l := by simpa using hh
        exact hnd.1 (this ▸ List.mem_map.2 ⟨(l, tests), e, rfl⟩)
      rw [List.filter_cons, if_neg hne]
      exact filter_key_unique hnd.2 e

theorem orderedLayers_child (w : World) (o : Opts) (l n : Nat) (tests : List TestDef)
    (hnd : (w.groups.map (·.1)).Nodup) (hg : (l, tests) ∈ w.groups) :
    orderedLayers w { o with resume := some (l, n) } = [(l, tests)] := by
  unfold orderedLayers
  simp only []
  rw [filter_key_unique hnd hg]
  simp [orderByBases_singleton]

theorem tearDownUnneeded_empty (w : World) (needed : List Nat) (opt : Bool) (s : PS) (h : s.setup = []) :
    tearDownUnneeded w needed opt s = (s, false) := by
  unfold tearDownUnneeded
  simp [h, orderByBases_nil, tearDownList]

theorem rlHeader_setup (o : Opts) (l : Nat) (s : PS) : (rlHeader o l s).setup = s.setup := by
  unfold rlHeader; split <;> rfl

/-- the process of a layer subprocess, test level: exactly the layer's contribution -/
theorem child_result (w : World) (hw : NoSetUpFaults w) (o : Opts) (hx : o.stopOnError = false)
    (hnd : (w.groups.map (·.1)).Nodup) (l n : Nat) (tests : List TestDef) (hg : (l, tests) ∈ w.groups)
    (hq : ∀ t ∈ tests, Quiet t) (cb : Nat → Bool) :
    (finalState w { o with resume := some (l, n) } cb).failures = layerF w o (l, tests) ∧
    testErrs (finalState w { o with resume := some (l, n) } cb).errors = layerE w o (l, tests) := by
  have hxo : ({ o with resume := some (l, n) } : Opts).stopOnError = false := hx
  have hstart : fsStart w { o with resume := some (l, n) } = {} := by
    unfold fsStart; simp
  have hloop : fsLoop w { o with resume := some (l, n) } =
      layerLoop w { o with resume := some (l, n) } [(l, tests)] {} := by
    unfold fsLoop
    rw [hstart, orderedLayers_child w o l n tests hnd hg]
    simp
  -- the single layer runs here
  have hno : (runLayer w { o with resume := some (l, n) } l tests {}).2 = false := by
    rw [runLayer_eq]
    rw [tearDownUnneeded_empty w _ false _ (by rw [rlHeader_setup])]
    simp only [Bool.false_eq_true, if_false]
    obtain ⟨_, hok⟩ := setupLayer_ok w hw l (rlHeader { o with resume := some (l, n) } l {})
    rw [if_neg (by simp [hok])]
  rcases runLayer_cases w hw { o with resume := some (l, n) } hxo l tests hq {} with ⟨h2, _⟩ | ⟨_, he⟩
  · rw [hno] at h2; cases h2
  · have fa : (runLayer w { o with resume := some (l, n) } l tests {}).1.aborted = false := he.aborted
    have fi : (runLayer w { o with resume := some (l, n) } l tests {}).1.interrupted = false := he.interrupted
    have hl : layerLoop w { o with resume := some (l, n) } [(l, tests)] {} =
        ((runLayer w { o with resume := some (l, n) } l tests {}).1, []) := by
      rw [layerLoop_cons]
      simp only [fa, fi, Bool.or_self, Bool.false_eq_true, if_false, hno, hxo, Bool.false_and]
      split
      · rfl
      · simp [layerLoop]
    have hfin : finalState w { o with resume := some (l, n) } cb =
        (tearDownUnneeded w [] true (runLayer w { o with resume := some (l, n) } l tests {}).1).1 := by
      rw [finalState_eq]
      unfold fsSpawned
      rw [hloop, hl]
      simp [fa, fi]
    have hsame := sameRes_tearDownUnneeded w [] true (runLayer w { o with resume := some (l, n) } l tests {}).1
    have hcong : ∀ g, layerF w { o with resume := some (l, n) } g = layerF w o g ∧
        layerE w { o with resume := some (l, n) } g = layerE w o g := by
      intro g
      unfold layerF layerE reps
      rw [layerDelta_congr w { o with resume := some (l, n) } o g.1 g.2 rfl rfl]
      exact ⟨rfl, rfl⟩
    rw [hfin, hsame.failures, hsame.terrs, he.failures, he.terrs, (hcong (l, tests)).1, (hcong (l, tests)).2]
    simp [testErrs]


/-! ### the whole run -/

theorem sameRes_spawnAll (o : Opts) (cb : Nat → Bool) :
    ∀ (rest : List (Nat × List TestDef)) (n : Nat) (s : PS), SameRes s (spawnAll o cb rest n s)
  | [], _, s => by simp [spawnAll]; exact SameRes.refl s
  | (l, _) :: rest, n, s => by
    rw [spawnAll]
    split
    · exact SameRes.refl s
    · refine SameRes.trans ?_ (sameRes_spawnAll o cb rest (n + 1) _)
      split
      · exact ⟨rfl, by simp [PS.emit, testErrs_append, testErrs], rfl, rfl⟩
      · exact ⟨rfl, rfl, rfl, rfl⟩

theorem flatMap_congr_mem {α β : Type} {L : List α} {f h : α → List β} (e : ∀ g ∈ L, f g = h g) :
    L.flatMap f = L.flatMap h := by
  induction L with
  | nil => rfl
  | cons a r ih =>
    simp only [List.flatMap_cons]
    rw [e a (by simp), ih (fun g hg => e g (by simp [hg]))]

/-- the state of the subprocess for layer `l`, started with resume number `n` -/
def childState (w : World) (o : Opts) (l n : Nat) : PS :=
  finalState w { o with resume := some (l, n) } (fun _ => false)

/-- the failures of a whole run: the parent's own, then those of the subprocesses of the layers its
layer loop left over (by `C01_rest_in_children` exactly the layers it spawns, in this order) -/
def wholeFailures (w : World) (o : Opts) (cb : Nat → Bool) (num : Nat → Nat) : List Nat :=
  (finalState w o cb).failures ++ (fsLoop w o).2.flatMap (fun g => (childState w o g.1 (num g.1)).failures)

/-- the erroring tests of a whole run -/
def wholeTestErrors (w : World) (o : Opts) (cb : Nat → Bool) (num : Nat → Nat) : List Nat :=
  testErrs (finalState w o cb).errors ++
    (fsLoop w o).2.flatMap (fun g => testErrs (childState w o g.1 (num g.1)).errors)

/-- hypotheses of the whole-run statement: fault-free layer set-up, one group per layer, no
KeyboardInterrupt out of a test -/
structure Calm (w : World) : Prop where
  noSetUpFaults : NoSetUpFaults w
  keys : (w.groups.map (·.1)).Nodup
  quiet : ∀ g ∈ w.groups, ∀ t ∈ g.2, Quiet t

/-- **C06_whole_run** — in every mode (sequential, sequential with layers resumed in subprocesses after
a layer that cannot be torn down, `-j N`) the failures and the erroring tests of the whole run are the
contributions of the selected layers, in layer order; no layer is lost or run twice, whatever the
subprocess numbering and whatever the parent is told about its children. -/
theorem C06_whole_run (w : World) (hc : Calm w) (o : Opts) (hr : o.resume = none) (hx : o.stopOnError = false)
    (cb : Nat → Bool) (num : Nat → Nat) :
    wholeFailures w o cb num = (orderedLayers w o).flatMap (layerF w o) ∧
    wholeTestErrors w o cb num = (orderedLayers w o).flatMap (layerE w o) := by
  obtain ⟨_, _, hmem⟩ := C03_layers_once w o hr
  have hchild : ∀ g ∈ orderedLayers w o,
      (childState w o g.1 (num g.1)).failures = layerF w o g ∧
      testErrs (childState w o g.1 (num g.1)).errors = layerE w o g := by
    intro g hg
    have hgw := hmem g hg
    exact child_result w hc.noSetUpFaults o hx hc.keys g.1 (num g.1) g.2 hgw (hc.quiet g hgw) _
  have hspawn : ∀ (rest : List (Nat × List TestDef)) (n : Nat) (s : PS),
      SameRes s (tearDownUnneeded w [] true (spawnAll o cb rest n s)).1 :=
    fun rest n s => (sameRes_spawnAll o cb rest n s).trans (sameRes_tearDownUnneeded w [] true _)
  unfold wholeFailures wholeTestErrors
  by_cases hp : o.processes > 1
  · -- `-j N`: the parent runs no layer itself
    have hloop : fsLoop w o = (fsStart w o, orderedLayers w o) := by
      unfold fsLoop; simp [hp, hr]
    have hst : fsStart w o = ({} : PS).emit (.summary 0 0 w.importErrors 0) := by
      unfold fsStart; simp [hp, hr]
    have hfin : finalState w o cb = (tearDownUnneeded w [] true (spawnAll o cb (orderedLayers w o) 1 (fsStart w o))).1 := by
      rw [finalState_eq]; unfold fsSpawned; rw [hloop, hst]; simp [hr, hp, PS.emit]
    have hs := hspawn (orderedLayers w o) 1 (fsStart w o)
    rw [hfin, hs.failures, hs.terrs, hloop, hst]
    simp only [PS.emit, testErrs, List.filterMap_nil, List.nil_append]
    exact ⟨flatMap_congr_mem (fun g hg => (hchild g hg).1), flatMap_congr_mem (fun g hg => (hchild g hg).2)⟩
  · -- sequential: a prefix runs in the parent, the rest in subprocesses
    have hst : fsStart w o = {} := by unfold fsStart; simp [hp]
    have hloop : fsLoop w o = layerLoop w o (orderedLayers w o) {} := by
      unfold fsLoop; rw [hst]; simp [hp]
    obtain ⟨pre, e1, e2⟩ := layerLoop_seq w hc.noSetUpFaults o hx hp hr (orderedLayers w o) {}
      (fun g hg => hc.quiet g (hmem g hg)) rfl rfl
    have fa : (layerLoop w o (orderedLayers w o) {}).1.aborted = false := e2.aborted
    have fi : (layerLoop w o (orderedLayers w o) {}).1.interrupted = false := e2.interrupted
    have hfin : finalState w o cb = (tearDownUnneeded w [] true
        (spawnAll o cb (layerLoop w o (orderedLayers w o) {}).2 0 (layerLoop w o (orderedLayers w o) {}).1)).1 := by
      rw [finalState_eq]; unfold fsSpawned; rw [hloop]; simp [fa, fi, hr, hp]
    have hs := hspawn (layerLoop w o (orderedLayers w o) {}).2 0 (layerLoop w o (orderedLayers w o) {}).1
    have hrest : ∀ g ∈ (layerLoop w o (orderedLayers w o) {}).2, g ∈ orderedLayers w o := by
      intro g hg; rw [e1]; exact List.mem_append.2 (Or.inr hg)
    rw [hfin, hs.failures, hs.terrs, hloop, e2.failures, e2.terrs]
    constructor
    · rw [flatMap_congr_mem (fun g hg => (hchild g (hrest g hg)).1)]
      show [] ++ _ ++ _ = _
      rw [List.nil_append, ← List.flatMap_append, ← e1]
    · rw [flatMap_congr_mem (fun g hg => (hchild g (hrest g hg)).2)]
      show testErrs [] ++ _ ++ _ = _
      simp only [testErrs, List.filterMap_nil, List.nil_append]
      rw [← List.flatMap_append, ← e1]

/-- **C06_equals_sequential** — a `-j N` run and the sequential run of the same world (same `--buffer`,
`--repeat`, no `--stop-on-error`) report the same failures and the same erroring tests. -/
theorem C06_equals_sequential (w : World) (hc : Calm w) (o : Opts) (hr : o.resume = none)
    (hx : o.stopOnError = false) (N : Nat) (cb cb' : Nat → Bool) (num num' : Nat → Nat) :
    wholeFailures w { o with processes := N } cb num = wholeFailures w { o with processes := 1 } cb' num' ∧
    wholeTestErrors w { o with processes := N } cb num = wholeTestErrors w { o with processes := 1 } cb' num' := by
  obtain ⟨a1, a2⟩ := C06_whole_run w hc { o with processes := N } hr hx cb num
  obtain ⟨b1, b2⟩ := C06_whole_run w hc { o with processes := 1 } hr hx cb' num'
  have hL : orderedLayers w { o with processes := N } = orderedLayers w { o with processes := 1 } := rfl
  have hF : ∀ g, layerF w { o with processes := N } g = layerF w { o with processes := 1 } g := by
    intro g; unfold layerF reps
    rw [layerDelta_congr w { o with processes := N } { o with processes := 1 } g.1 g.2 rfl rfl]
  have hE : ∀ g, layerE w { o with processes := N } g = layerE w { o with processes := 1 } g := by
    intro g; unfold layerE reps
    rw [layerDelta_congr w { o with processes := N } { o with processes := 1 } g.1 g.2 rfl rfl]
  rw [a1, a2, b1, b2, hL]
  exact ⟨flatMap_congr_mem (fun g _ => hF g), flatMap_congr_mem (fun g _ => hE g)⟩


/-! ### non-vacuity: a world that meets `Calm`, with a layer that cannot be torn down, a failing and an
erroring test -/

def c6W : World where
  graph := c1G
  info := fun _ => ⟨true, true, true, true⟩
  setUpRaises := fun _ _ => false
  tearDownResult := fun l _ => if l == 1 then .notImpl else .ok
  groups := [(1, [{ id := 10, body := { exc := some .fail } }]), (2, [{ id := 20 }, { id := 21, setUp := { exc := some .error } }])]
  importErrors := 0

theorem c6W_calm : Calm c6W where
  noSetUpFaults := fun _ _ => rfl
  keys := by decide
  quiet := by
    have h : ∀ g ∈ c6W.groups, ∀ t ∈ g.2, ∀ op ∈ Proto.run t, op ≠ Op.raiseInterrupt := by decide
    exact h

example : wholeFailures c6W { processes := 1 } (fun _ => true) (fun _ => 0) = [10] ∧
    wholeTestErrors c6W { processes := 1 } (fun _ => true) (fun _ => 0) = [21] ∧
    (fsLoop c6W { processes := 1 }).2.map (·.1) = [2] ∧
    wholeFailures c6W { processes := 3 } (fun _ => false) (fun l => l) = [10] ∧
    (fsLoop c6W { processes := 3 }).2.map (·.1) = [1, 2] := by decide

end Ztr.Runner
