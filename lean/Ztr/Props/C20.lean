import Ztr.Model.Digraph
/-! # C20 — strongly connected components

Stage A (this file), for every graph, every iteration order and every number of steps:
* `C20_emitted_is_segment` — a yielded component is the stack segment above its root;
* `C20_disjoint_partial` — every node is, at every moment, in exactly one of `unvisited`, `stack`,
  or one yielded component: components are duplicate-free, pairwise disjoint and made of graph nodes.

Stage B (`C20B.lean`): the frame structure of the visit stack and termination within `fuelFor` steps
(`C20_halts`).  Stage C (`C20C.lean`): Tarjan's low-link invariants on the step machine; the full
statement `C20_spec` below is proved there as `C20_full` (components = mutual-reachability classes,
all nodes yielded, default mode = the non-trivial components in the same order).
-/
namespace Ztr.Digraph

/-- reachability in the graph -/
inductive Reaches (nbrs : Nat → List Nat) : Nat → Nat → Prop
  | refl (a) : Reaches nbrs a a
  | step {a b c} : b ∈ nbrs a → Reaches nbrs b c → Reaches nbrs a c

/-- the full statement (proved as `C20_full` in `C20C.lean`) -/
def C20_spec (order : List Nat) (nbrs : Nat → List Nat) : Prop :=
  let fuel := fuelFor order nbrs
  let t := sccs true order nbrs fuel
  let f := sccs false order nbrs fuel
  t.2 = true ∧ t.1.flatten.Perm order ∧
  (∀ c ∈ t.1, ∀ x ∈ c, ∀ y, (y ∈ c ↔ Reaches nbrs x y ∧ Reaches nbrs y x)) ∧
  f.1 = t.1.filter (fun c => !isTrivialScc nbrs c)

/-! ### popUntil -/

theorem popUntil_spec (node : Nat) : ∀ (st acc : List Nat), node ∈ st →
    ∃ pre rest, st = pre ++ node :: rest ∧ node ∉ pre ∧
      popUntil node st acc = (acc.reverse ++ pre ++ [node], rest)
  | [], _, h => by simp at h
  | n :: st, acc, h => by
    unfold popUntil
    by_cases hn : n = node
    · subst hn
      exact ⟨[], st, rfl, by simp, by simp⟩
    · have hm : node ∈ st := by
        rcases List.mem_cons.1 h with e | e
        · exact absurd e.symm hn
        · exact e
      obtain ⟨pre, rest, h1, h2, h3⟩ := popUntil_spec node st (n :: acc) hm
      refine ⟨n :: pre, rest, by simp [h1], ?_, ?_⟩
      · simp only [List.mem_cons, not_or]
        exact ⟨fun e => hn e.symm, h2⟩
      · simp only [hn, if_false, h3]
        simp

/-- **C20_emitted_is_segment** — the component popped at a root is the stack segment from the top
down to (and including) the root, in pop order; the rest of the stack is untouched. -/
theorem C20_emitted_is_segment (node : Nat) (st : List Nat) (h : node ∈ st) :
    ∃ pre, (popUntil node st []).1 = pre ++ [node] ∧ node ∉ pre ∧
      st = (popUntil node st []).1 ++ (popUntil node st []).2 := by
  obtain ⟨pre, rest, h1, h2, h3⟩ := popUntil_spec node st [] h
  refine ⟨pre, by simp [h3], h2, ?_⟩
  rw [h3, h1]; simp

/-! ### the partition invariant -/

structure Inv (order : List Nat) (s : St) : Prop where
  perm : (s.unvisited ++ s.stack ++ s.out.flatten).Perm order
  anc : s.ancestors.Sublist s.stack
  unv : ∀ v, v ∈ order → (s.num v = none ↔ v ∈ s.unvisited)
  vis : ∀ v, some v ∈ s.visits → v ∈ order

theorem inv_init (order : List Nat) : Inv order (init order) where
  perm := by simp [init]
  anc := by simp [init]
  unv := by intro v hv; simp [init, hv]
  vis := by intro v hv; simp [init] at hv

theorem sublist_of_cons_sublist_append {a : Nat} {anc pre rest : List Nat}
    (h : (a :: anc).Sublist (pre ++ a :: rest)) (hpre : a ∉ pre) (hnd : (pre ++ a :: rest).Nodup) :
    anc.Sublist rest := by
  induction pre with
  | nil =>
    simp only [List.nil_append] at h hnd
    cases h with
    | cons _ h' =>
      -- a :: anc is a sublist of rest, so a ∈ rest: contradicts nodup
      have : a ∈ rest := h'.subset (by simp)
      exact absurd this (List.nodup_cons.1 hnd).1
    | cons_cons _ h' => exact h'
  | cons p ps ih =>
    simp only [List.cons_append] at h hnd
    have hpa : a ≠ p := fun e => hpre (by simp [e])
    cases h with
    | cons _ h' =>
      exact ih h' (fun e => hpre (List.mem_cons_of_mem _ e)) (List.nodup_cons.1 hnd).2
    | cons_cons _ h' => exact absurd rfl hpa

theorem lowerLow_fields (s : St) (p v : Nat) :
    (lowerLow s p v).unvisited = s.unvisited ∧ (lowerLow s p v).stack = s.stack ∧
    (lowerLow s p v).out = s.out ∧ (lowerLow s p v).ancestors = s.ancestors ∧
    (lowerLow s p v).num = s.num ∧ (lowerLow s p v).visits = s.visits := by
  unfold lowerLow; split <;> simp

theorem inv_lowerLow {order : List Nat} {s : St} (h : Inv order s) (p v : Nat) :
    Inv order (lowerLow s p v) := by
  obtain ⟨e1, e2, e3, e4, e5, e6⟩ := lowerLow_fields s p v
  exact ⟨by rw [e1, e2, e3]; exact h.perm, by rw [e4, e2]; exact h.anc,
    by rw [e5, e1]; exact h.unv, by rw [e6]; exact h.vis⟩

theorem nodup_stack {order : List Nat} (hnd : order.Nodup) {s : St} (h : Inv order s) : s.stack.Nodup := by
  have h1 : (s.unvisited ++ s.stack ++ s.out.flatten).Nodup := h.perm.nodup_iff.2 hnd
  have h2 := (List.nodup_append.1 h1).1
  exact (List.nodup_append.1 h2).2.1

theorem inv_foldIntoParent {order : List Nat} {s : St} (h : Inv order s) (node : Nat) :
    Inv order (foldIntoParent s node) := by
  unfold foldIntoParent
  split
  · exact h
  · exact inv_lowerLow h _ _

theorem inv_step {order : List Nat} {nbrs : Nat → List Nat} (hnd : order.Nodup)
    (hclosed : ∀ n, ∀ m ∈ nbrs n, m ∈ order) {s s' : St}
    (h : Inv order s) (hs : step true nbrs s = some s') : Inv order s' := by
  unfold step at hs
  split at hs
  · -- visits = []
    split at hs
    · simp at hs
    · rename_i n rest hu
      simp only [Option.some.injEq] at hs
      subst hs
      refine ⟨h.perm, h.anc, h.unv, ?_⟩
      intro v hv
      simp only [List.mem_singleton, Option.some.injEq] at hv
      subst hv
      have : v ∈ s.unvisited := by rw [hu]; simp
      exact (h.perm.mem_iff).1 (by simp [this])
  · -- marker
    rename_i vs hv
    have hvis' : ∀ v, some v ∈ vs → v ∈ order := fun v hv' => h.vis v (by rw [hv]; simp [hv'])
    split at hs
    · simp at hs
    · rename_i node anc hanc
      have hsub : (node :: anc).Sublist s.stack := hanc ▸ h.anc
      have hnode : node ∈ s.stack := hsub.subset (by simp)
      have hnds := nodup_stack hnd h
      have hanc' : anc.Sublist s.stack := (List.sublist_cons_self node anc).trans hsub
      have base : Inv order (popFrame s vs anc) := ⟨h.perm, hanc', h.unv, hvis'⟩
      simp only [Bool.not_true, Bool.false_and, Bool.false_eq_true, if_false] at hs
      split at hs
      · -- root
        obtain ⟨pre, rest, h1, h2, h3⟩ := popUntil_spec node s.stack [] hnode
        have hrest : anc.Sublist rest := by
          rw [h1] at hsub hnds
          exact sublist_of_cons_sublist_append hsub h2 hnds
        simp only [List.reverse_nil, List.nil_append] at h3
        have popped : Inv order (emit (popScc (popFrame s vs anc) (popUntil node s.stack []))
            (popUntil node s.stack []).1) := by
          refine ⟨?_, by simp only [emit, popScc, popFrame, h3]; exact hrest, h.unv, hvis'⟩
          simp only [emit, popScc, popFrame, h3, List.flatten_cons]
          have := h.perm
          rw [h1] at this
          refine List.Perm.trans ?_ this
          simp only [List.append_assoc]
          apply List.Perm.append_left
          have e1 : rest ++ (pre ++ ([node] ++ s.out.flatten)) = (rest ++ (pre ++ [node])) ++ s.out.flatten := by simp
          have e2 : pre ++ (node :: rest ++ s.out.flatten) = ((pre ++ [node]) ++ rest) ++ s.out.flatten := by simp
          rw [e1, e2]
          exact List.Perm.append_right _ List.perm_append_comm
        simp only [Option.some.injEq] at hs; subst hs
        exact inv_foldIntoParent popped _
      · simp only [Option.some.injEq] at hs; subst hs
        exact inv_foldIntoParent base _
  · -- first visit of a node
    rename_i node vs hv
    have hvis' : ∀ v, some v ∈ vs → v ∈ order := fun v hv' => h.vis v (by rw [hv]; simp [hv'])
    have hno : node ∈ order := h.vis node (by rw [hv]; simp)
    split at hs
    · -- already visited
      have base : Inv order { s with visits := vs } := ⟨h.perm, h.anc, h.unv, hvis'⟩
      split at hs
      · split at hs
        · simp only [Option.some.injEq] at hs; subst hs; exact base
        · simp only [Option.some.injEq] at hs; subst hs; exact inv_lowerLow base _ _
      · simp only [Option.some.injEq] at hs; subst hs; exact base
    · rename_i hnum
      have hun : node ∈ s.unvisited := (h.unv node hno).1 hnum
      simp only [Option.some.injEq] at hs
      subst hs
      refine ⟨?_, ?_, ?_, ?_⟩
      · simp only [expand]
        refine List.Perm.trans ?_ h.perm
        have := List.perm_cons_erase hun
        simp only [List.append_assoc]
        have e : s.unvisited.erase node ++ (node :: s.stack ++ s.out.flatten)
            = (s.unvisited.erase node ++ [node]) ++ (s.stack ++ s.out.flatten) := by simp
        rw [e]
        apply List.Perm.append_right
        exact (List.perm_append_comm).trans this.symm
      · exact List.Sublist.cons_cons _ h.anc
      · intro v hv'
        simp only [expand, upd]
        by_cases e : v = node
        · subst e
          have hndu : s.unvisited.Nodup := by
            have h1 : (s.unvisited ++ s.stack ++ s.out.flatten).Nodup := h.perm.nodup_iff.2 hnd
            exact (List.nodup_append.1 (List.nodup_append.1 h1).1).1
          simp only [if_true]
          constructor
          · intro hh; cases hh
          · intro hh; exact absurd hh (hndu.not_mem_erase)
        · simp only [e, if_false]
          rw [h.unv v hv']
          exact ⟨fun hh => (List.mem_erase_of_ne e).2 hh, fun hh => List.mem_of_mem_erase hh⟩
      · intro v hv'
        simp only [expand, List.mem_append, List.mem_map, List.mem_reverse, List.mem_cons] at hv'
        rcases hv' with ⟨m, hm, e⟩ | e | e
        · have := Option.some.inj e; subst this; exact hclosed node _ hm
        · cases e
        · exact hvis' v e

theorem inv_run {order : List Nat} {nbrs : Nat → List Nat} (hnd : order.Nodup)
    (hclosed : ∀ n, ∀ m ∈ nbrs n, m ∈ order) :
    ∀ (fuel : Nat) (s : St), Inv order s → Inv order (run true nbrs fuel s).1
  | 0, _, h => h
  | f + 1, s, h => by
    unfold run
    cases hs : step true nbrs s with
    | none => exact h
    | some s' => exact inv_run hnd hclosed f s' (inv_step hnd hclosed h hs)

/-- **C20_disjoint_partial** — for every graph whose neighbour lists stay inside the node set,
every iteration order and every number of steps: each node is in exactly one of `unvisited`, the
stack, or one yielded component (so components are duplicate-free, pairwise disjoint, and contain
only graph nodes), and no node is lost. -/
theorem C20_disjoint_partial (order : List Nat) (nbrs : Nat → List Nat) (hnd : order.Nodup)
    (hclosed : ∀ n, ∀ m ∈ nbrs n, m ∈ order) (fuel : Nat) :
    let s := (run true nbrs fuel (init order)).1
    (s.unvisited ++ s.stack ++ s.out.flatten).Perm order ∧ (s.out.flatten).Nodup := by
  have h := inv_run hnd hclosed fuel (init order) (inv_init order)
  refine ⟨h.perm, ?_⟩
  have h1 : ((run true nbrs fuel (init order)).1.unvisited ++ (run true nbrs fuel (init order)).1.stack
      ++ (run true nbrs fuel (init order)).1.out.flatten).Nodup := h.perm.nodup_iff.2 hnd
  exact (List.nodup_append.1 h1).2.1

end Ztr.Digraph
