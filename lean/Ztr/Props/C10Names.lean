import Ztr.Model.Ordered
import Ztr.Props.C10
import Ztr.Lemmas.Sort
/-
C10 / C03 for `Runner.ordered_layers` over layer names (Model/Ordered), several of which may resolve to one
layer object:

* every registered name is yielded exactly once, with the layer it resolves to, and nothing else is yielded
  (`C10N_names_once`, `C10N_layer_of_name`) - no group of tests is lost or run twice (C03);
* the names of one layer form one contiguous run, the runs follow `order_by_bases` (`C10N_blocks`), so a layer
  never comes before a base layer that also has tests (`C10N_bases_first`);
* the sequence depends only on the set of registered names, not on their discovery order (`C10N_perm_invariant`);
* the code before f7718a1 lost names (`C10N_D36_witness`).
-/
namespace Ztr.Ordered
open Ztr.Layers

theorem mem_dedupAux {a : Nat} : ∀ (seen l : List Nat), a ∈ dedupAux seen l ↔ a ∈ l ∧ a ∉ seen
  | _, [] => by simp [dedupAux]
  | seen, x :: xs => by
    unfold dedupAux
    split
    · rename_i hx
      rw [mem_dedupAux seen xs]
      constructor
      · intro h; exact ⟨List.mem_cons_of_mem _ h.1, h.2⟩
      · intro h
        rcases List.mem_cons.1 h.1 with e | e
        · subst e; exact absurd hx h.2
        · exact ⟨e, h.2⟩
    · rename_i hx
      rw [List.mem_cons, mem_dedupAux (x :: seen) xs]
      constructor
      · intro h
        rcases h with e | h
        · subst e; exact ⟨List.mem_cons_self, hx⟩
        · exact ⟨List.mem_cons_of_mem _ h.1, fun c => h.2 (List.mem_cons_of_mem _ c)⟩
      · intro h
        by_cases e : a = x
        · exact Or.inl e
        · right
          refine ⟨?_, ?_⟩
          · rcases List.mem_cons.1 h.1 with e' | e'
            · exact absurd e' e
            · exact e'
          · intro c
            rcases List.mem_cons.1 c with e' | e'
            · exact e e'
            · exact h.2 e'

theorem nodup_dedupAux : ∀ (seen l : List Nat), (dedupAux seen l).Nodup
  | _, [] => by simp [dedupAux]
  | seen, x :: xs => by
    unfold dedupAux
    split
    · exact nodup_dedupAux seen xs
    · refine List.nodup_cons.2 ⟨?_, nodup_dedupAux (x :: seen) xs⟩
      intro h
      exact ((mem_dedupAux (x :: seen) xs).1 h).2 List.mem_cons_self

theorem mem_keys (f : Name → Nat) (names : List Name) (l : Nat) : l ∈ keys f names ↔ ∃ n ∈ names, f n = l := by
  unfold keys dedupFirst
  rw [mem_dedupAux]
  simp

theorem nodup_keys (f : Name → Nat) (names : List Name) : (keys f names).Nodup := nodup_dedupAux _ _

theorem mem_block (f : Name → Nat) (names : List Name) (l : Nat) (e : Name × Nat) :
    e ∈ block f names l ↔ e.1 ∈ names ∧ f e.1 = l ∧ e.2 = l := by
  unfold block namesOf
  simp only [List.mem_map, PySort.mem_isort, List.mem_filter, beq_iff_eq]
  constructor
  · rintro ⟨n, ⟨hn, hf⟩, rfl⟩
    exact ⟨hn, hf, rfl⟩
  · rintro ⟨hn, hf, hl⟩
    exact ⟨e.1, ⟨hn, hf⟩, by cases e; simp_all⟩

/-- every yielded pair is a registered name with the layer it resolves to; every registered name is yielded -/
theorem mem_orderedLayers (G : Graph) (f : Name → Nat) (names : List Name) (e : Name × Nat) :
    e ∈ orderedLayers G f names ↔ e.1 ∈ names ∧ e.2 = f e.1 := by
  unfold orderedLayers
  simp only [List.mem_flatMap, (C10_once G _).2, mem_keys, mem_block]
  constructor
  · rintro ⟨l, _, hn, hf, hl⟩
    exact ⟨hn, by rw [hl, hf]⟩
  · rintro ⟨hn, hl⟩
    exact ⟨f e.1, ⟨e.1, hn, rfl⟩, hn, rfl, hl⟩

/-- **C10N_layer_of_name** - a name is yielded with the layer it resolves to. -/
theorem C10N_layer_of_name (G : Graph) (f : Name → Nat) (names : List Name) (n : Name) (l : Nat)
    (h : (n, l) ∈ orderedLayers G f names) : l = f n :=
  ((mem_orderedLayers G f names (n, l)).1 h).2

theorem nodup_map_of_nodup {α β : Type} (g : α → β) (hg : ∀ a b, g a = g b → a = b) :
    ∀ {l : List α}, l.Nodup → (l.map g).Nodup
  | [], _ => by simp
  | x :: xs, h => by
    rw [List.map_cons, List.nodup_cons]
    rw [List.nodup_cons] at h
    refine ⟨?_, nodup_map_of_nodup g hg h.2⟩
    intro hm
    obtain ⟨y, hy, e⟩ := List.mem_map.1 hm
    rw [hg _ _ e] at hy
    exact h.1 hy

theorem nodup_flatMap' {α β : Type} (g : α → List β) :
    ∀ (l : List α), (∀ a ∈ l, (g a).Nodup) → (∀ a ∈ l, ∀ b ∈ l, a ≠ b → ∀ x, x ∈ g a → x ∈ g b → False) →
      l.Nodup → (l.flatMap g).Nodup
  | [], _, _, _ => by simp
  | a :: as, h1, h2, h3 => by
    rw [List.flatMap_cons]
    rw [List.nodup_cons] at h3
    rw [List.nodup_append]
    refine ⟨h1 a List.mem_cons_self, ?_, ?_⟩
    · exact nodup_flatMap' g as (fun b hb => h1 b (List.mem_cons_of_mem _ hb))
        (fun b hb c hc => h2 b (List.mem_cons_of_mem _ hb) c (List.mem_cons_of_mem _ hc)) h3.2
    · intro x hx y hy e
      subst e
      obtain ⟨b, hb, hxb⟩ := List.mem_flatMap.1 hy
      exact h2 a List.mem_cons_self b (List.mem_cons_of_mem _ hb) (fun e => h3.1 (e ▸ hb)) x hx hxb

theorem nodup_isort {α : Type} (le : α → α → Bool) {l : List α} (h : l.Nodup) : (PySort.isort le l).Nodup :=
  (PySort.isort_perm le l).nodup_iff.2 h

/-- **C10N_names_once** - every registered name is yielded exactly once and nothing else is: the names
yielded are the registered names without repetition (the keys of `tests_by_layer_name` are distinct). -/
theorem C10N_names_once (G : Graph) (f : Name → Nat) (names : List Name) (hn : names.Nodup) :
    ((orderedLayers G f names).map Prod.fst).Nodup ∧
      ∀ n, n ∈ (orderedLayers G f names).map Prod.fst ↔ n ∈ names := by
  constructor
  · have hpairs : (orderedLayers G f names).Nodup := by
      unfold orderedLayers
      apply nodup_flatMap'
      · intro l _
        unfold block
        exact nodup_map_of_nodup _ (by intro a b e; simpa using congrArg Prod.fst e)
          (nodup_isort _ (hn.sublist List.filter_sublist))
      · intro a _ b _ hab x hxa hxb
        have h1 := (mem_block f names a x).1 hxa
        have h2 := (mem_block f names b x).1 hxb
        exact hab (h1.2.1.symm.trans h2.2.1)
      · exact (C10_once G _).1
    -- the first components determine the pairs
    have hinj : ∀ e1 ∈ orderedLayers G f names, ∀ e2 ∈ orderedLayers G f names, e1.1 = e2.1 → e1 = e2 := by
      intro e1 h1 e2 h2 e
      have a := (mem_orderedLayers G f names e1).1 h1
      have b := (mem_orderedLayers G f names e2).1 h2
      cases e1; cases e2
      simp only at e a b
      subst e
      simp [a.2, b.2]
    generalize orderedLayers G f names = L at hpairs hinj
    induction L with
    | nil => simp
    | cons x xs ih =>
      rw [List.map_cons, List.nodup_cons]
      rw [List.nodup_cons] at hpairs
      refine ⟨?_, ih hpairs.2 (fun e1 h1 e2 h2 => hinj e1 (List.mem_cons_of_mem _ h1) e2 (List.mem_cons_of_mem _ h2))⟩
      intro hm
      obtain ⟨y, hy, e⟩ := List.mem_map.1 hm
      have := hinj y (List.mem_cons_of_mem _ hy) x List.mem_cons_self e
      exact hpairs.1 (this ▸ hy)
  · intro n
    simp only [List.mem_map]
    constructor
    · rintro ⟨e, he, rfl⟩
      exact ((mem_orderedLayers G f names e).1 he).1
    · intro h
      exact ⟨(n, f n), (mem_orderedLayers G f names (n, f n)).2 ⟨h, rfl⟩, rfl⟩

/-- **C10N_blocks** - the names of one layer form one contiguous run and the runs follow `order_by_bases`
over the layers that own a name: this is the shape of the definition, stated with the facts that make it
meaningful (the layer list has no repetition, every run is non-empty and carries its own layer only). -/
theorem C10N_blocks (G : Graph) (f : Name → Nat) (names : List Name) :
    orderedLayers G f names = (orderByBases G (keys f names)).flatMap (block f names) ∧
    (orderByBases G (keys f names)).Nodup ∧
    (∀ l ∈ orderByBases G (keys f names), block f names l ≠ [] ∧ ∀ e ∈ block f names l, e.2 = l) := by
  refine ⟨rfl, (C10_once G _).1, ?_⟩
  intro l hl
  have hk := ((C10_once G _).2 l).1 hl
  obtain ⟨n, hn, hf⟩ := (mem_keys f names l).1 hk
  constructor
  · intro he
    have : (n, l) ∈ block f names l := (mem_block f names l (n, l)).2 ⟨hn, hf, rfl⟩
    rw [he] at this
    exact absurd this (List.not_mem_nil)
  · intro e he
    exact ((mem_block f names l e).1 he).2.2

theorem sublist_flatMap {α β : Type} (g : α → List β) {l1 l2 : List α} (h : l1.Sublist l2) :
    (l1.flatMap g).Sublist (l2.flatMap g) := by
  induction h with
  | slnil => simp
  | cons a _ ih =>
    rw [List.flatMap_cons]
    exact ih.trans (List.sublist_append_right _ _)
  | cons_cons a _ ih =>
    rw [List.flatMap_cons, List.flatMap_cons]
    exact List.Sublist.append (List.Sublist.refl _) ih

/-- **C10N_bases_first** - tests registered under a name of a base layer come before tests registered under a
name of a layer derived from it. -/
theorem C10N_bases_first {G : Graph} (hwf : WF G) (f : Name → Nat) (names : List Name) {n1 n2 : Name}
    (h1 : n1 ∈ names) (h2 : n2 ∈ names) (hb : f n1 ∈ closure G (f n2)) (hne : f n1 ≠ f n2) :
    [(n1, f n1), (n2, f n2)].Sublist (orderedLayers G f names) := by
  have hk1 : f n1 ∈ keys f names := (mem_keys f names _).2 ⟨n1, h1, rfl⟩
  have hk2 : f n2 ∈ keys f names := (mem_keys f names _).2 ⟨n2, h2, rfl⟩
  have hs := C10_bases_first hwf (keys f names) hb hne hk1 hk2
  have := sublist_flatMap (block f names) hs
  unfold orderedLayers
  refine List.Sublist.trans ?_ this
  simp only [List.flatMap_cons, List.flatMap_nil, List.append_nil]
  have m1 : (n1, f n1) ∈ block f names (f n1) := (mem_block f names _ _).2 ⟨h1, rfl, rfl⟩
  have m2 : (n2, f n2) ∈ block f names (f n2) := (mem_block f names _ _).2 ⟨h2, rfl, rfl⟩
  have s1 : [(n1, f n1)].Sublist (block f names (f n1)) := List.singleton_sublist.2 m1
  have s2 : [(n2, f n2)].Sublist (block f names (f n2)) := List.singleton_sublist.2 m2
  exact List.Sublist.append s1 s2

theorem nameLe_trans (a b c : Name) : nameLe a b = true → nameLe b c = true → nameLe a c = true := by
  simp only [nameLe, decide_eq_true_eq]
  exact List.le_trans

theorem nameLe_total (a b : Name) : (nameLe a b || nameLe b a) = true := by
  simp only [nameLe, Bool.or_eq_true, decide_eq_true_eq]
  exact List.le_total _ _

theorem nameLe_antisymm (a b : Name) : nameLe a b = true → nameLe b a = true → a = b := by
  simp only [nameLe, decide_eq_true_eq]
  exact List.le_antisymm

/-- **C10N_perm_invariant** - the sequence is a function of the *set* of registered names: any order of
discovery (any permutation of the keys of `tests_by_layer_name`) gives the same sequence. -/
theorem C10N_perm_invariant {G : Graph} (hg : Good G) (f : Name → Nat) {names names' : List Name}
    (h : names.Perm names') : orderedLayers G f names = orderedLayers G f names' := by
  unfold orderedLayers
  have hk : (keys f names).Perm (keys f names') := by
    rw [List.perm_ext_iff_of_nodup (nodup_keys _ _) (nodup_keys _ _)]
    intro l
    simp only [mem_keys]
    constructor
    · rintro ⟨n, hn, e⟩; exact ⟨n, h.mem_iff.1 hn, e⟩
    · rintro ⟨n, hn, e⟩; exact ⟨n, h.mem_iff.2 hn, e⟩
  rw [C10_perm_invariant hg hk]
  congr 1
  funext l
  unfold block namesOf
  rw [PySort.isort_perm_eq nameLe_trans nameLe_total nameLe_antisymm (h.filter _)]

/-- **C10N_D36_witness** - the code before f7718a1 on two names of one layer: one of them is never yielded
(its tests were neither listed nor run); the repaired function yields both. -/
theorem C10N_D36_witness :
    let G : Graph := { bases := fun _ => [], name := fun l => [l], unit := 0 }
    let f : Name → Nat := fun _ => 1
    (orderedLayersOld G f [[97], [98]]).map Prod.fst = [[98]] ∧
      (orderedLayers G f [[97], [98]]).map Prod.fst = [[97], [98]] := by
  decide

end Ztr.Ordered
