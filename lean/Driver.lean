import Lean.Data.Json
import Ztr.Model.Filter
import Ztr.Model.Layers
import Ztr.Model.Shuffle
import Ztr.Model.Digraph
import Ztr.Model.Channel
import Ztr.Model.Suites
/-!
Line protocol between the Python harness and the executable model: one JSON object per line in,
one JSON object per line out.  `op` selects the model component.  Unknown or malformed requests are
answered with `{"error": …}` (never defaulted).
-/
open Lean

namespace J
def bool! (j : Json) (k : String) : Except String Bool := j.getObjValAs? Bool k
def nat! (j : Json) (k : String) : Except String Nat := j.getObjValAs? Nat k
def int! (j : Json) (k : String) : Except String Int := j.getObjValAs? Int k
def str! (j : Json) (k : String) : Except String String := j.getObjValAs? String k
def arr! (j : Json) (k : String) : Except String (Array Json) := do
  let v ← j.getObjVal? k
  v.getArr?
def bools! (j : Json) (k : String) : Except String (List Bool) := do
  let a ← arr! j k
  a.toList.mapM (fun x => x.getBool?)
def nats! (j : Json) (k : String) : Except String (List Nat) := do
  let a ← arr! j k
  a.toList.mapM (fun x => x.getNat?)
def natss! (j : Json) (k : String) : Except String (List (List Nat)) := do
  let a ← arr! j k
  a.toList.mapM (fun x => do let b ← x.getArr?; b.toList.mapM (fun y => y.getNat?))
end J

/-- `filter`: pattern i is identified by its index; `match[i]` = `re.search(p_i, name)`. -/
def opFilter (j : Json) : Except String Json := do
  let negs ← J.bools! j "neg"
  let ms ← J.bools! j "match"
  let dot ← J.bool! j "dot"
  if negs.length ≠ ms.length then throw "filter: length mismatch"
  let ps : List (Bool × Nat) := negs.zipIdx.map (fun (b, i) => (b, i))
  let m : Nat → Unit → Bool := fun p _ => ms.getD p false
  let r := Ztr.Filter.accept m (fun _ => dot) ps ()
  return Json.mkObj [("accept", Json.bool r)]

def graphOf (j : Json) : Except String Ztr.Layers.Graph := do
  let bases ← J.natss! j "bases"
  let names ← J.natss! j "names"
  let unit ← J.nat! j "unit"
  let ba := bases.toArray
  let na := names.toArray
  return { bases := fun l => ba.getD l [], name := fun l => na.getD l [1114112 + l], unit := unit }

def jNats (l : List Nat) : Json := Json.arr (l.map (fun n => Json.num (JsonNumber.fromNat n))).toArray
def jNatss (l : List (List Nat)) : Json := Json.arr (l.map jNats).toArray

/-- `layers`: order_by_bases, gather_layers and layer_sort_key on a layer graph -/
def opLayers (j : Json) : Except String Json := do
  let G ← graphOf j
  let ls ← J.nats! j "ls"
  return Json.mkObj [
    ("order", jNats (Ztr.Layers.orderByBases G ls)),
    ("gather", jNatss (ls.map (Ztr.Layers.gather G))),
    ("keys", Json.arr ((ls.map (fun l => jNatss (Ztr.Layers.sortKey G l))).toArray))]

/-- `shuffle`: Shuffle.global_setup on `layers` = [[name code points, [test ids]], …] with the index
stream `js`; also the seed hand-over. -/
def opShuffle (j : Json) : Except String Json := do
  let ls ← J.arr! j "layers"
  let layers ← ls.toList.mapM (fun (x : Json) => do
    let a ← x.getArr?
    if a.size ≠ 2 then throw "shuffle: layer must be [name, tests]"
    let n ← (← a[0]!.getArr?).toList.mapM (fun y => y.getNat?)
    let ts ← (← a[1]!.getArr?).toList.mapM (fun y => y.getNat?)
    return ((n, ts) : List Nat × List Nat))
  let js ← J.nats! j "js"
  let r := Ztr.Shuffle.shuffleAll layers js
  return Json.mkObj [("layers", Json.arr (r.map (fun (n, ts) => Json.arr #[jNats n, jNats ts])).toArray)]

/-- `sccs`: DiGraph.sccs with explicit iteration orders -/
def opSccs (j : Json) : Except String Json := do
  let order ← J.nats! j "order"
  let nb ← J.natss! j "nbrs"          -- nbrs[n] = iteration order of the neighbour set of node n
  let trivial ← J.bool! j "trivial"
  let na := nb.toArray
  let nbrs : Nat → List Nat := fun n => na.getD n []
  let fuel := Ztr.Digraph.fuelFor order nbrs
  let r := Ztr.Digraph.run trivial nbrs fuel (Ztr.Digraph.init order)
  return Json.mkObj [("out", jNatss r.1.out.reverse), ("halted", Json.bool r.2),
    ("stack_empty", Json.bool r.1.stack.isEmpty)]

def jInt (i : Int) : Json := Json.num (JsonNumber.fromInt i)

/-- `channel_parse`: what the parent records for a child's complete stderr (or a spawn failure) -/
def opChannelParse (j : Json) : Except String Json := do
  let bs ← J.nats! j "stderr"
  let sf ← J.bool! j "spawn_failed"
  match Ztr.Channel.parentOutcome sf bs with
  | .ok ran f e => return Json.mkObj [("kind", "ok"), ("ran", jInt ran), ("fails", jNatss f), ("errs", jNatss e)]
  | .commError => return Json.mkObj [("kind", "commError")]
  | .crash => return Json.mkObj [("kind", "crash")]

/-- `child_report`: the bytes SubProcess.report writes -/
def opChildReport (j : Json) : Except String Json := do
  let ran ← J.nat! j "ran"
  let f ← J.natss! j "fails"
  let e ← J.natss! j "errs"
  return Json.mkObj [("bytes", jNats (Ztr.Channel.childReport ran f e)),
    ("pyws", jNats Ztr.Channel.pyWhitespace)]

def optInt (j : Json) (k : String) : Except String (Option Int) := do
  match j.getObjVal? k with
  | .ok Json.null => return none
  | .ok v => return some (← v.getInt?)
  | .error _ => return none

def optNat (j : Json) (k : String) : Except String (Option Nat) := do
  match j.getObjVal? k with
  | .ok Json.null => return none
  | .ok v => return some (← v.getNat?)
  | .error _ => return none

partial def suiteOf (j : Json) : Except String Ztr.Suites.Suite := do
  let t ← J.str! j "t"
  match t with
  | "leaf" => return .leaf (← J.nat! j "id") (← optInt j "lvl") (← optNat j "lyr")
  | "startup" => return .startup (← J.nat! j "id")
  | "node" =>
    let kids ← J.arr! j "kids"
    let ks ← kids.toList.mapM suiteOf
    return .node (← optInt j "lvl") (← optNat j "lyr") ks
  | _ => throw s!"bad suite tag {t}"

def jOptNat : Option Nat → Json
  | none => Json.null
  | some n => Json.num (JsonNumber.fromNat n)

/-- `suites`: tests_from_suite per suite and the find_tests grouping -/
def opSuites (j : Json) : Except String Json := do
  let ss ← (← J.arr! j "suites").toList.mapM suiteOf
  let atLevel ← J.int! j "at_level"
  let only ← optInt j "only_level"
  let accepted ← J.nats! j "accepted"
  let unit ← J.nat! j "unit"
  let acc : Nat → Bool := fun t => accepted.contains t
  let per := ss.map (Ztr.Suites.testsFromSuite atLevel only acc unit)
  let groups := Ztr.Suites.findTests atLevel only acc unit ss
  return Json.mkObj [
    ("per_suite", Json.arr (per.map (fun l => Json.arr (l.map (fun (t, y) => Json.arr #[Json.num (JsonNumber.fromNat t), jOptNat y])).toArray)).toArray),
    ("groups", Json.arr (groups.map (fun (k, ts) => Json.arr #[jOptNat k, jNats ts])).toArray)]

/-- `normalize`: option normalisation of get_options; pattern 0 is the unit-layer pattern -/
def opNormalize (j : Json) : Except String Json := do
  let all ← J.bool! j "all"
  let atLevel ← J.int! j "at_level"
  let only ← optInt j "only_level"
  let unit ← J.bool! j "unit"
  let nonUnit ← J.bool! j "non_unit"
  let negs ← J.bools! j "layer_neg"
  let layer := negs.zipIdx.map (fun (b, i) => (b, i + 1))
  let o : Ztr.Suites.Opts Nat := { all := all, atLevel := atLevel, onlyLevel := only, unit := unit, nonUnit := nonUnit, layer := layer }
  let n := Ztr.Suites.normalize 0 o
  return Json.mkObj [("at_level", jInt n.atLevel), ("unit", Json.bool n.unit), ("non_unit", Json.bool n.nonUnit),
    ("layer", Json.arr (n.layer.map (fun (b, p) => Json.arr #[Json.bool b, Json.num (JsonNumber.fromNat p)])).toArray)]

/-- `layer_kept`: Filter.global_setup's layer selection.  Layers are indices; `match[p][n]` is the
regex result of pattern p on layer n. -/
def opLayerKept (j : Json) : Except String Json := do
  let negs ← J.bools! j "layer_neg"
  let rows ← (← J.arr! j "match").toList.mapM (fun (r : Json) => do
    (← r.getArr?).toList.mapM (fun x => x.getBool?))
  let dots ← J.bools! j "dot"
  let units ← J.bools! j "is_unit"
  let nonUnit ← J.bool! j "non_unit"
  let resume ← optNat j "resume"
  let layer := negs.zipIdx.map (fun (b, i) => (b, i))
  let o : Ztr.Suites.Opts Nat := { all := false, atLevel := 1, onlyLevel := none, unit := false, nonUnit := nonUnit, layer := layer }
  let m : Nat → Nat → Bool := fun p n => (rows.getD p []).getD n false
  let kept := (List.range units.length).map (fun n =>
    Ztr.Suites.layerKept m (fun n => dots.getD n false) (fun n => units.getD n false) o resume n)
  return Json.mkObj [("kept", Json.arr (kept.map Json.bool).toArray)]

def dispatch (j : Json) : Except String Json := do
  let op ← J.str! j "op"
  match op with
  | "filter" => opFilter j
  | "layers" => opLayers j
  | "shuffle" => opShuffle j
  | "sccs" => opSccs j
  | "suites" => opSuites j
  | "normalize" => opNormalize j
  | "layer_kept" => opLayerKept j
  | "channel_parse" => opChannelParse j
  | "child_report" => opChildReport j
  | _ => throw s!"unknown op {op}"

partial def loop (h : IO.FS.Stream) (out : IO.FS.Stream) : IO Unit := do
  let line ← h.getLine
  if line.isEmpty then return ()
  let res := match Json.parse line with
    | .error e => Json.mkObj [("error", Json.str s!"parse: {e}")]
    | .ok j => match dispatch j with
      | .ok r => r
      | .error e => Json.mkObj [("error", Json.str e)]
  out.putStrLn (Json.compress res)
  loop h out

def main : IO Unit := do
  let out ← IO.getStdout
  loop (← IO.getStdin) out
  out.flush
