import Lean.Data.Json
import Ztr.Model.Filter
import Ztr.Model.Layers
import Ztr.Model.Shuffle
import Ztr.Model.Digraph
import Ztr.Model.Channel
import Ztr.Model.Suites
import Ztr.Model.Runner
import Ztr.Model.Whole
import Ztr.Model.Bytecode
import Ztr.Model.Threads
import Ztr.Model.Bracket
import Ztr.Model.Sched
import Ztr.Model.Xml
import Ztr.Model.Discovery
import Ztr.Model.Streams
import Ztr.Model.Ordered
import Ztr.Model.Options
import Ztr.Model.Handover
import Ztr.Model.XmlFile
/-!
Line protocol between the Python harness and the executable model: one JSON object per line in,
one JSON object per line out.  `op` selects the model component.  Unknown or malformed requests are
answered with `{"error": …}` (never defaulted).
-/
open Lean

namespace J
def bool! (j : Json) (k : String) : Except String Bool := j.getObjValAs? Bool k
def nat! (j : Json) (k : String) : Except String Nat := j.getObjValAs? Nat k
def int! (j : Json) (k : String) : Except String Int := j.getObjValAs? Int k
def str! (j : Json) (k : String) : Except String String := j.getObjValAs? String k
def arr! (j : Json) (k : String) : Except String (Array Json) := do
  let v ← j.getObjVal? k
  v.getArr?
def bools! (j : Json) (k : String) : Except String (List Bool) := do
  let a ← arr! j k
  a.toList.mapM (fun x => x.getBool?)
def nats! (j : Json) (k : String) : Except String (List Nat) := do
  let a ← arr! j k
  a.toList.mapM (fun x => x.getNat?)
def natss! (j : Json) (k : String) : Except String (List (List Nat)) := do
  let a ← arr! j k
  a.toList.mapM (fun x => do let b ← x.getArr?; b.toList.mapM (fun y => y.getNat?))
end J

/-- `filter`: pattern i is identified by its index; `match[i]` = `re.search(p_i, name)`. -/
def opFilter (j : Json) : Except String Json := do
  let negs ← J.bools! j "neg"
  let ms ← J.bools! j "match"
  let dot ← J.bool! j "dot"
  if negs.length ≠ ms.length then throw "filter: length mismatch"
  let ps : List (Bool × Nat) := negs.zipIdx.map (fun (b, i) => (b, i))
  let m : Nat → Unit → Bool := fun p _ => ms.getD p false
  let r := Ztr.Filter.accept m (fun _ => dot) ps ()
  return Json.mkObj [("accept", Json.bool r)]

def graphOf (j : Json) : Except String Ztr.Layers.Graph := do
  let bases ← J.natss! j "bases"
  let names ← J.natss! j "names"
  let unit ← J.nat! j "unit"
  let ba := bases.toArray
  let na := names.toArray
  return { bases := fun l => ba.getD l [], name := fun l => na.getD l [1114112 + l], unit := unit }

def jNats (l : List Nat) : Json := Json.arr (l.map (fun n => Json.num (JsonNumber.fromNat n))).toArray
def jNatss (l : List (List Nat)) : Json := Json.arr (l.map jNats).toArray

/-- `layers`: order_by_bases, gather_layers and layer_sort_key on a layer graph -/
def opLayers (j : Json) : Except String Json := do
  let G ← graphOf j
  let ls ← J.nats! j "ls"
  return Json.mkObj [
    ("order", jNats (Ztr.Layers.orderByBases G ls)),
    ("gather", jNatss (ls.map (Ztr.Layers.gather G))),
    ("keys", Json.arr ((ls.map (fun l => jNatss (Ztr.Layers.sortKey G l))).toArray))]

/-- `ordered_layers`: Runner.ordered_layers over registered names; `regnames` = the keys of tests_by_layer_name
(code points) in insertion order, `layerOf[i]` = the layer the i-th name resolves to -/
def opOrderedLayers (j : Json) : Except String Json := do
  let G ← graphOf j
  let regs ← J.natss! j "regnames"
  let lof ← J.nats! j "layerOf"
  if regs.length ≠ lof.length then throw "ordered_layers: length mismatch"
  let table := regs.zip lof
  let f : Ztr.Ordered.Name → Nat := fun n => ((table.find? (fun p => p.1 == n)).map (·.2)).getD 0
  let r := Ztr.Ordered.orderedLayers G f regs
  let old := Ztr.Ordered.orderedLayersOld G f regs
  return Json.mkObj [("yielded", Json.arr (r.map (fun (n, l) => Json.arr #[jNats n, (l : Json)])).toArray),
    ("old", Json.arr (old.map (fun (n, l) => Json.arr #[jNats n, (l : Json)])).toArray)]

/-- `cli_filters`: which patterns reach the filter predicates.  Patterns are numbers (0 = '.'); `test`, `module` =
option values in order; `legacyModule`, `legacyTest` = the positional filters or null -/
def opCliFilters (j : Json) : Except String Json := do
  let optN (k : String) : Except String (Option Nat) := do
    match j.getObjVal? k with
    | .ok Json.null => return none
    | .ok v => return some (← v.getNat?)
    | .error _ => return none
  let r : Ztr.Options.Raw Nat := { test := ← J.nats! j "test", module := ← J.nats! j "module",
                                   legacyModule := ← optN "legacyModule", legacyTest := ← optN "legacyTest" }
  let f := Ztr.Options.filters 0 r
  return Json.mkObj [("module", jNats f.1), ("test", jNats f.2)]

/-- `handover`: words are numbers: 0 = '--resume-layer', 1 = '--default', 1000+n = str(n), anything else an
ordinary word.  mode "compose": what `spawn_layer_in_subprocess` puts behind the script; mode "configure": what
`Runner.configure` hands to `get_options`. -/
def handoverToks : Ztr.Handover.Toks Nat :=
  { resume := 0, dflt := 1, showNum := fun n => 1000 + n,
    parseNum := fun s => if s ≥ 1000 then some (s - 1000) else none }

def opHandover (j : Json) : Except String Json := do
  let optN (k : String) : Except String (Option Nat) := do
    match j.getObjVal? k with
    | .ok Json.null => return none
    | .ok v => return some (← v.getNat?)
    | .error _ => return none
  let mode ← J.str! j "mode"
  match mode with
  | "compose" =>
    let tail := Ztr.Handover.childTail handoverToks (← J.nat! j "name") (← J.nat! j "num") (← J.nats! j "defaults")
      (← optN "seed") (← J.nats! j "user")
    return Json.mkObj [("tail", jNats tail)]
  | "configure" =>
    match Ztr.Handover.configure handoverToks (← J.nats! j "given") (← J.nats! j "args") with
    | none => return Json.mkObj [("raises", Json.bool true)]
    | some c =>
      let res : Json := match c.resume with
        | none => Json.null
        | some (n, k) => Json.arr #[(n : Json), (k : Json)]
      return Json.mkObj [("raises", Json.bool false), ("resume", res), ("defaults", jNats c.defaults), ("args", jNats c.args)]
  | _ => throw "handover: unknown mode"

/-- `shuffle`: Shuffle.global_setup on `layers` = [[name code points, [test ids]], …] with the index
stream `js`; also the seed hand-over. -/
def opShuffle (j : Json) : Except String Json := do
  let ls ← J.arr! j "layers"
  let layers ← ls.toList.mapM (fun (x : Json) => do
    let a ← x.getArr?
    if a.size ≠ 2 then throw "shuffle: layer must be [name, tests]"
    let n ← (← a[0]!.getArr?).toList.mapM (fun y => y.getNat?)
    let ts ← (← a[1]!.getArr?).toList.mapM (fun y => y.getNat?)
    return ((n, ts) : List Nat × List Nat))
  let js ← J.nats! j "js"
  let r := Ztr.Shuffle.shuffleAll layers js
  return Json.mkObj [("layers", Json.arr (r.map (fun (n, ts) => Json.arr #[jNats n, jNats ts])).toArray)]

/-- `sccs`: DiGraph.sccs with explicit iteration orders -/
def opSccs (j : Json) : Except String Json := do
  let order ← J.nats! j "order"
  let nb ← J.natss! j "nbrs"          -- nbrs[n] = iteration order of the neighbour set of node n
  let trivial ← J.bool! j "trivial"
  let na := nb.toArray
  let nbrs : Nat → List Nat := fun n => na.getD n []
  let fuel := Ztr.Digraph.fuelFor order nbrs
  let r := Ztr.Digraph.run trivial nbrs fuel (Ztr.Digraph.init order)
  return Json.mkObj [("out", jNatss r.1.out.reverse), ("halted", Json.bool r.2),
    ("stack_empty", Json.bool r.1.stack.isEmpty)]

def jInt (i : Int) : Json := Json.num (JsonNumber.fromInt i)

/-- `channel_parse`: what the parent records for a child's complete stderr (or a spawn failure) -/
def opChannelParse (j : Json) : Except String Json := do
  let bs ← J.nats! j "stderr"
  let sf ← J.bool! j "spawn_failed"
  match Ztr.Channel.parentOutcome sf bs with
  | .ok ran f e => return Json.mkObj [("kind", "ok"), ("ran", jInt ran), ("fails", jNatss f), ("errs", jNatss e)]
  | .commError => return Json.mkObj [("kind", "commError")]
  | .crash => return Json.mkObj [("kind", "crash")]

/-- `child_report`: the bytes SubProcess.report writes -/
def opChildReport (j : Json) : Except String Json := do
  let ran ← J.nat! j "ran"
  let f ← J.natss! j "fails"
  let e ← J.natss! j "errs"
  return Json.mkObj [("bytes", jNats (Ztr.Channel.childReport ran f e)),
    ("pyws", jNats Ztr.Channel.pyWhitespace)]

def optInt (j : Json) (k : String) : Except String (Option Int) := do
  match j.getObjVal? k with
  | .ok Json.null => return none
  | .ok v => return some (← v.getInt?)
  | .error _ => return none

def optNat (j : Json) (k : String) : Except String (Option Nat) := do
  match j.getObjVal? k with
  | .ok Json.null => return none
  | .ok v => return some (← v.getNat?)
  | .error _ => return none

partial def suiteOf (j : Json) : Except String Ztr.Suites.Suite := do
  let t ← J.str! j "t"
  match t with
  | "leaf" => return .leaf (← J.nat! j "id") (← optInt j "lvl") (← optNat j "lyr")
  | "startup" => return .startup (← J.nat! j "id")
  | "node" =>
    let kids ← J.arr! j "kids"
    let ks ← kids.toList.mapM suiteOf
    return .node (← optInt j "lvl") (← optNat j "lyr") ks
  | _ => throw s!"bad suite tag {t}"

def jOptNat : Option Nat → Json
  | none => Json.null
  | some n => Json.num (JsonNumber.fromNat n)

/-- `suites`: tests_from_suite per suite and the find_tests grouping -/
def opSuites (j : Json) : Except String Json := do
  let ss ← (← J.arr! j "suites").toList.mapM suiteOf
  let atLevel ← J.int! j "at_level"
  let only ← optInt j "only_level"
  let accepted ← J.nats! j "accepted"
  let unit ← J.nat! j "unit"
  let acc : Nat → Bool := fun t => accepted.contains t
  let per := ss.map (Ztr.Suites.testsFromSuite atLevel only acc unit)
  let groups := Ztr.Suites.findTests atLevel only acc unit ss
  return Json.mkObj [
    ("per_suite", Json.arr (per.map (fun l => Json.arr (l.map (fun (t, y) => Json.arr #[Json.num (JsonNumber.fromNat t), jOptNat y])).toArray)).toArray),
    ("groups", Json.arr (groups.map (fun (k, ts) => Json.arr #[jOptNat k, jNats ts])).toArray)]

/-- `normalize`: option normalisation of get_options; pattern 0 is the unit-layer pattern -/
def opNormalize (j : Json) : Except String Json := do
  let all ← J.bool! j "all"
  let atLevel ← J.int! j "at_level"
  let only ← optInt j "only_level"
  let unit ← J.bool! j "unit"
  let nonUnit ← J.bool! j "non_unit"
  let negs ← J.bools! j "layer_neg"
  let layer := negs.zipIdx.map (fun (b, i) => (b, i + 1))
  let o : Ztr.Suites.Opts Nat := { all := all, atLevel := atLevel, onlyLevel := only, unit := unit, nonUnit := nonUnit, layer := layer }
  let n := Ztr.Suites.normalize 0 o
  return Json.mkObj [("at_level", jInt n.atLevel), ("unit", Json.bool n.unit), ("non_unit", Json.bool n.nonUnit),
    ("layer", Json.arr (n.layer.map (fun (b, p) => Json.arr #[Json.bool b, Json.num (JsonNumber.fromNat p)])).toArray)]

/-- `layer_kept`: Filter.global_setup's layer selection.  Layers are indices; `match[p][n]` is the
regex result of pattern p on layer n. -/
def opLayerKept (j : Json) : Except String Json := do
  let negs ← J.bools! j "layer_neg"
  let rows ← (← J.arr! j "match").toList.mapM (fun (r : Json) => do
    (← r.getArr?).toList.mapM (fun x => x.getBool?))
  let dots ← J.bools! j "dot"
  let units ← J.bools! j "is_unit"
  let nonUnit ← J.bool! j "non_unit"
  let resume ← optNat j "resume"
  let layer := negs.zipIdx.map (fun (b, i) => (b, i))
  let o : Ztr.Suites.Opts Nat := { all := false, atLevel := 1, onlyLevel := none, unit := false, nonUnit := nonUnit, layer := layer }
  let m : Nat → Nat → Bool := fun p n => (rows.getD p []).getD n false
  let kept := (List.range units.length).map (fun n =>
    Ztr.Suites.layerKept m (fun n => dots.getD n false) (fun n => units.getD n false) o resume n)
  return Json.mkObj [("kept", Json.arr (kept.map Json.bool).toArray)]

/-! ### worlds -/

def excOf (j : Json) (k : String) : Except String (Option Ztr.Proto.Exc) := do
  match j.getObjVal? k with
  | .ok Json.null => return none
  | .ok (Json.str "fail") => return some .fail
  | .ok (Json.str "error") => return some .error
  | .ok (Json.str "skip") => return some .skip
  | .ok (Json.str "interrupt") => return some .interrupt
  | .ok v => throw s!"bad exc {v}"
  | .error _ => return none

def partOf (j : Json) : Except String Ztr.Proto.Part := do
  let ws ← (← J.arr! j "writes").toList.mapM (fun (x : Json) => do
    let a ← x.getArr?
    if a.size ≠ 2 then throw "write must be [stderr?, token]"
    return ((← a[0]!.getBool?, ← a[1]!.getNat?) : Bool × Nat))
  return { writes := ws, exc := ← excOf j "exc" }

def testOf (j : Json) : Except String Ztr.Proto.TestDef := do
  let id ← J.nat! j "id"
  let count ← J.nat! j "count"
  let decoSkip ← J.bool! j "decoSkip"
  let expectFail ← J.bool! j "expectFail"
  let setUp ← partOf (← j.getObjVal? "setUp")
  let subs ← (← J.arr! j "subs").toList.mapM partOf
  let body ← partOf (← j.getObjVal? "body")
  let tearDown ← partOf (← j.getObjVal? "tearDown")
  let cleanups ← (← J.arr! j "cleanups").toList.mapM partOf
  return { id := id, count := count, decoSkip := decoSkip, expectFail := expectFail, setUp := setUp, subs := subs, body := body, tearDown := tearDown, cleanups := cleanups }

def phaseJson : Ztr.Proto.Phase → Json
  | .setUp => Json.arr #["setUp"]
  | .body => Json.arr #["body"]
  | .sub k => Json.arr #["sub", Json.num (JsonNumber.fromNat k)]
  | .tearDown => Json.arr #["tearDown"]
  | .cleanup k => Json.arr #["cleanup", Json.num (JsonNumber.fromNat k)]

def jN (n : Nat) : Json := Json.num (JsonNumber.fromNat n)

def badStr : Ztr.Result.Bad → String
  | .failure => "failure" | .error => "error" | .unexpectedSuccess => "unexpectedSuccess"
  | .subFailure => "subFailure" | .subError => "subError"

def evJson : Ztr.Runner.Ev → Json
  | .setUp l ok => Json.arr #["lsu", jN l, Json.bool ok]
  | .tearDown l r => Json.arr #["ltd", jN l, Json.str (match r with | .ok => "ok" | .raised => "raise" | .notImpl => "notimpl")]
  | .header l => Json.arr #["header", jN l]
  | .summary a b c d => Json.arr #["summary", jN a, jN b, jN c, jN d]
  | .spawn l n => Json.arr #["spawn", jN l, jN n]
  | .test (.hookSetUp l o) => Json.arr #["tsu", jN l, Json.bool o]
  | .test (.hookTearDown l o) => Json.arr #["ttd", jN l, Json.bool o]
  | .test (.code t ph) => Json.arr #["ph", jN t, phaseJson ph]
  | .test (.leak t tok) => Json.arr #["leak", jN t, jN tok]
  | .test (.report t b toks) => Json.arr #["report", jN t, Json.str (badStr b), jNats toks]
  | .test (.skipped t) => Json.arr #["skipped", jN t]
  | .test (.passed t) => Json.arr #["passed", jN t]
  | .test (.tstart t) => Json.arr #["tstart", jN t]
  | .test (.tend t) => Json.arr #["tend", jN t]

def errJson : Ztr.Runner.Err → Json
  | .test t => Json.arr #["test", jN t]
  | .layerSetUp l => Json.arr #["layerSetUp", jN l]
  | .layerTearDown l => Json.arr #["layerTearDown", jN l]
  | .child l => Json.arr #["child", jN l]

/-- the world and the options of a `world` / `whole` request -/
def worldOf (j : Json) : Except String (Ztr.Runner.World × Ztr.Runner.Opts) := do
  let G ← graphOf j
  let infos ← (← J.arr! j "info").toList.mapM (fun (x : Json) => do
    let a ← x.getArr?
    if a.size ≠ 4 then throw "info must have 4 flags"
    return ({ hasSetUp := ← a[0]!.getBool?, hasTearDown := ← a[1]!.getBool?, hasTestSetUp := ← a[2]!.getBool?, hasTestTearDown := ← a[3]!.getBool? } : Ztr.Runner.LayerInfo))
  let ia := infos.toArray
  let suF ← J.natss! j "setUpRaises"        -- per layer: attempt numbers that raise
  let sa := suF.toArray
  -- per layer: list of [attempt, code] with code 1 = raise, 2 = notimpl; attempt 999999 = every attempt
  let tdF ← (← J.arr! j "tearDownFaults").toList.mapM (fun (x : Json) => do
    (← x.getArr?).toList.mapM (fun (y : Json) => do
      let a ← y.getArr?
      if a.size ≠ 2 then throw "tearDown fault must be [attempt, code]"
      return ((← a[0]!.getNat?, ← a[1]!.getNat?) : Nat × Nat)))
  let ta := tdF.toArray
  let groups ← (← J.arr! j "groups").toList.mapM (fun (x : Json) => do
    let a ← x.getArr?
    if a.size ≠ 2 then throw "group must be [layer, tests]"
    let ts ← (← a[1]!.getArr?).toList.mapM testOf
    return ((← a[0]!.getNat?, ts) : Nat × List Ztr.Proto.TestDef))
  let importErrors ← J.nat! j "importErrors"
  let w : Ztr.Runner.World := {
    graph := G
    info := fun l => ia.getD l { hasSetUp := false, hasTearDown := false, hasTestSetUp := false, hasTestTearDown := false }
    setUpRaises := fun l k => (sa.getD l []).contains k || (sa.getD l []).contains 999999
    tearDownResult := fun l k =>
      match (ta.getD l []).find? (fun (p : Nat × Nat) => p.1 == k || p.1 == 999999) with
      | some (_, 1) => .raised
      | some (_, 2) => .notImpl
      | _ => .ok
    groups := groups
    importErrors := importErrors }
  let repeat_ ← J.nat! j "repeat"
  let stopOnError ← J.bool! j "stopOnError"
  let buffer ← J.bool! j "buffer"
  let processes ← J.nat! j "processes"
  let resume ← (do
    match j.getObjVal? "resume" with
    | .ok Json.null => return none
    | .ok v =>
      let a ← v.getArr?
      if a.size ≠ 2 then throw "resume must be [layer, number]"
      return some ((← a[0]!.getNat?, ← a[1]!.getNat?) : Nat × Nat)
    | .error _ => return none : Except String (Option (Nat × Nat)))
  let o : Ztr.Runner.Opts := { repeat_ := repeat_, stopOnError := stopOnError, buffer := buffer, processes := processes, resume := resume }
  return (w, o)

/-- `world`: one runner process on a test world -/
def opWorld (j : Json) : Except String Json := do
  let (w, o) ← worldOf j
  let childBad ← J.nats! j "childBad"
  let r := Ztr.Runner.runProcess w o (fun l => childBad.contains l)
  let fs := Ztr.Runner.finalState w o (fun l => childBad.contains l)
  return Json.mkObj [
    ("trace", Json.arr (r.trace.map evJson).toArray),
    ("snaps", Json.arr (fs.glog.map (fun p => jNats p.2.setup)).toArray),
    ("ran", jN r.ran), ("failures", jNats r.failures),
    ("errors", Json.arr (r.errors.map errJson).toArray),
    ("skipped", jN r.skipped), ("failed", Json.bool r.failed),
    ("aborted", Json.bool r.aborted), ("interrupted", Json.bool r.interrupted),
    ("leftover", jNats r.leftover)]

/-- `whole`: the parent and the subprocesses it starts, composed by `Model/Whole`; `lost` lists the
layers whose subprocess does not deliver its report -/
def opWhole (j : Json) : Except String Json := do
  let (w, o) ← worldOf j
  let lost ← J.nats! j "lost"
  let fate : Nat → Ztr.Runner.Fate := fun l => if lost.contains l then .lost else .completes
  let P := Ztr.Runner.parentOut w o fate
  let kids := Ztr.Runner.spawnedLayers P.trace
  let t := Ztr.Runner.wholeTotals w o fate
  return Json.mkObj [
    ("totals", jNats [t.1, t.2.1, t.2.2.1, t.2.2.2]),
    ("failed", Json.bool (Ztr.Runner.wholeFailed w o fate)),
    ("spawned", Json.arr (kids.map (fun l => jNats [l, Ztr.Runner.numberOf w o l])).toArray),
    ("parentTrace", Json.arr (P.trace.map evJson).toArray),
    ("children", Json.arr (kids.map (fun l =>
      let c := Ztr.Runner.childOut w o l
      Json.mkObj [("layer", jN l), ("ran", jN c.ran), ("failures", jNats c.failures),
        ("errors", Json.arr (c.errors.map errJson).toArray), ("skipped", jN c.skipped),
        ("failed", Json.bool c.failed)])).toArray)]

/-- `proto`: the unittest call sequence of one test script -/
def opProto (j : Json) : Except String Json := do
  let t ← testOf j
  let ops := Ztr.Proto.run t
  let opJson : Ztr.Proto.Op → Json := fun op => match op with
    | .startTest => "startTest" | .stopTest => "stopTest"
    | .code ph _ => phaseJson ph
    | .addSuccess => "addSuccess" | .addFailure => "addFailure" | .addError => "addError" | .addSkip => "addSkip"
    | .addSubTest none => "addSubTest:ok" | .addSubTest (some .fail) => "addSubTest:fail"
    | .addSubTest (some _) => "addSubTest:error" | .addSubSkip => "addSubSkip"
    | .addExpectedFailure => "addExpectedFailure" | .addUnexpectedSuccess => "addUnexpectedSuccess"
    | .raiseInterrupt => "KeyboardInterrupt"
  return Json.mkObj [("ops", Json.arr (ops.map opJson).toArray)]

partial def treeOf (j : Json) : Except String Ztr.Bytecode.Tree := do
  let files ← J.natss! j "files"
  let subs ← (← J.arr! j "subs").toList.mapM (fun (x : Json) => do
    let a ← x.getArr?
    if a.size ≠ 2 then throw "sub must be [name, tree]"
    let n ← (← a[0]!.getArr?).toList.mapM (fun y => y.getNat?)
    let t ← treeOf a[1]!
    return (n, t))
  return .dir files subs

/-- `bytecode`: remove_stale_bytecode on a set of search roots -/
def opBytecode (j : Json) : Except String Json := do
  let roots ← (← J.arr! j "roots").toList.mapM (fun (x : Json) => do
    let path ← J.natss! x "path"
    let t ← treeOf (← x.getObjVal? "tree")
    return (path, t))
  let ignore ← J.natss! j "ignore"
  let keep ← J.bool! j "keep"
  let usec ← J.bool! j "usecompiled"
  let r := Ztr.Bytecode.deletions keep usec (fun n => ignore.contains n) roots
  return Json.mkObj [("deleted", Json.arr (r.map jNatss).toArray)]

/-- `threads`: history = list of ["start", uid, ident, ignored] | ["finish", uid] | ["rename", uid, ignored] | ["testStart"] | ["testStop"] -/
def opThreads (j : Json) : Except String Json := do
  let h ← (← J.arr! j "history").toList.mapM (fun (x : Json) => do
    let a ← x.getArr?
    let tag ← a[0]!.getStr?
    match tag with
    | "start" => return Ztr.Threads.HEv.start { uid := ← a[1]!.getNat?, ident := ← a[2]!.getNat?, ignored := ← a[3]!.getBool? }
    | "finish" => return .finish (← a[1]!.getNat?)
    | "rename" => return .rename (← a[1]!.getNat?) (← a[2]!.getBool?)
    | "testStart" => return .testStart
    | "testStop" => return .testStop
    | _ => throw s!"bad history tag {tag}")
  let r := Ztr.Threads.run h
  return Json.mkObj [("reports", jNatss r.reports), ("spec", jNatss r.spec)]

/-- `bracket`: the feature bracket on an abstract global state.
`g` = [gcThr, gcDbg, tbFormat, tbPrint, trace, thrTrace, setTrace, profile, warn, stdout, stderr];
`feats` = [["coverage", t] | ["profiling", p] | ["threshold", v] | ["debug", v] | ["traceback", f, p] | ["other"]];
`warnAfterBody` = what the test phase leaves in the warning filters. -/
def opBracket (j : Json) : Except String Json := do
  let gv ← J.nats! j "g"
  if gv.length ≠ 11 then throw "g must have 11 entries"
  let a := gv.toArray
  let g : Ztr.Bracket.G := ⟨a[0]!, a[1]!, a[2]!, a[3]!, a[4]!, a[5]!, a[6]!, a[7]!, a[8]!, a[9]!, a[10]!⟩
  let feats ← (← J.arr! j "feats").toList.mapM (fun (x : Json) => do
    let a ← x.getArr?
    let tag ← a[0]!.getStr?
    match tag with
    | "coverage" => return Ztr.Bracket.Feat.coverage (← a[1]!.getNat?)
    | "profiling" => return .profiling (← a[1]!.getNat?)
    | "threshold" => return .threshold (← a[1]!.getNat?)
    | "debug" => return .debug (← a[1]!.getNat?)
    | "traceback" => return .traceback (← a[1]!.getNat?) (← a[2]!.getNat?)
    | "other" => return .other
    | _ => throw s!"bad feature {tag}")
  let wb ← J.nat! j "warnAfterBody"
  let r := Ztr.Bracket.run feats (fun g => { g with warn := wb }) g
  return Json.mkObj [("g", jNats [r.gcThr, r.gcDbg, r.tbFormat, r.tbPrint, r.trace, r.thrTrace, r.setTrace,
    r.profile, r.warn, r.stdout, r.stderr])]

/-- `sched`: resume_tests as a transition system -/
def opSched (j : Json) : Except String Json := do
  let n ← J.nat! j "n"
  let k ← J.nat! j "k"
  let labels ← (← J.arr! j "labels").toList.mapM (fun (x : Json) => do
    let a ← x.getArr?
    let tag ← a[0]!.getStr?
    match tag with
    | "iter" => return Ztr.Sched.Label.iter
    | "line" => return .line (← a[1]!.getNat?) (← a[2]!.getNat?)
    | "dots" => return .dots (← a[1]!.getNat?)
    | "done" => return .done (← a[1]!.getNat?)
    | "dead" => return .dead (← a[1]!.getNat?)
    | _ => throw s!"bad label {tag}")
  let r := Ztr.Sched.exec labels (Ztr.Sched.init n k)
  return Json.mkObj [("printed", Json.arr (r.printed.map (fun (i, ls) => Json.arr #[jN i, jNats ls])).toArray),
    ("cur", jN r.cur), ("maxRunning", jN r.maxRunning), ("finished", Json.bool (Ztr.Sched.finished r))]

/-- `xml`: record a history of result events and render every report file -/
def opXml (j : Json) : Except String Json := do
  let host ← J.nats! j "host"
  let stamp ← J.nats! j "stamp"
  let evs ← (← J.arr! j "events").toList.mapM (fun (x : Json) => do
    let o ← J.arr! x "obj"
    let tag ← o[0]!.getStr?
    let strAt (i : Nat) : Except String (List Nat) := do (← o[i]!.getArr?).toList.mapM (fun y => y.getNat?)
    let obj ← (match tag with
      | "unit" => do return Ztr.Xml.TestObj.unit (← strAt 1) (← strAt 2) (← strAt 3)
      | "sub" => do return Ztr.Xml.TestObj.sub (← strAt 1) (← strAt 2) (← strAt 3) (← strAt 4)
      | "startup" => do return Ztr.Xml.TestObj.startup (← strAt 1)
      | "doctest" => do return Ztr.Xml.TestObj.doctest (← strAt 1)
      | _ => throw s!"bad obj {tag}" : Except String Ztr.Xml.TestObj)
    let kindS ← J.str! x "kind"
    let kind ← (match kindS with
      | "success" => pure Ztr.Xml.Kind.success | "failure" => pure .failure | "error" => pure .error
      | _ => throw "bad kind" : Except String Ztr.Xml.Kind)
    let names := Ztr.Xml.parseNames obj
    let c : Ztr.Xml.Case := { className := names.2.2, name := names.2.1, time := ← J.nats! x "time", kind := kind, message := ← J.nats! x "message", etype := ← J.nats! x "etype", text := ← J.nats! x "text" }
    return (names.1, c))
  let suites := evs.foldl (fun ss (p : List Nat × Ztr.Xml.Case) => Ztr.Xml.record ss p.1 p.2) []
  let stime ← J.nats! j "suite_time"
  return Json.mkObj [("files", Json.arr (suites.map (fun s =>
    Json.arr #[jNats s.name, jNats (Ztr.Xml.renderSuite s host stime stamp)])).toArray),
    -- the names of the report files (Model/XmlFile), in the order of the suites
    ("stems", Json.arr (suites.map (fun s => jNats (Ztr.XmlFile.stem s.name))).toArray)]

/-- `discovery`: find_test_files + the import gate.  Predicates are given as the lists of names
for which they hold. -/
def opDiscovery (j : Json) : Except String Json := do
  let roots ← (← J.arr! j "roots").toList.mapM (fun (x : Json) => do
    let path ← J.natss! x "path"
    let t ← treeOf (← x.getObjVal? "tree")
    return (path, t))
  let pkgs ← (← J.arr! j "roots").toList.mapM (fun (x : Json) => do
    match x.getObjVal? "pkg" with
    | .ok v => (← v.getArr?).toList.mapM (fun (y : Json) => do (← y.getArr?).toList.mapM (fun z => z.getNat?))
    | .error _ => return ([] : List (List Nat)))
  let ident ← J.natss! j "identifier"
  let tp ← J.natss! j "testsPat"
  let tfp ← J.natss! j "testFilePat"
  let ign ← J.natss! j "ignoreDir"
  let igf ← J.natss! j "ignoreFolders"
  let usec ← J.bool! j "usecompiled"
  let accepted ← (← J.arr! j "acceptedModules").toList.mapM (fun (x : Json) => do
    (← x.getArr?).toList.mapM (fun (y : Json) => do (← y.getArr?).toList.mapM (fun z => z.getNat?)))
  let fIdent : List Nat → Bool := fun n => ident.contains n
  let fTp : List Nat → Bool := fun n => tp.contains n
  let fTfp : List Nat → Bool := fun n => tfp.contains n
  let fIgn : List Nat → Bool := fun n => ign.contains n
  let fIgf : List Nat → Bool := fun n => igf.contains n
  let e : Ztr.Discovery.Env := { identifier := fIdent, testsPat := fTp, testFilePat := fTfp, ignoreDir := fIgn, ignoreFolders := fIgf, usecompiled := usec }
  -- `--package`: the directories of the named packages (`__path__`), in option order; absent/null without `-s`
  let pkgDirs ← (do
    match j.getObjVal? "packageDirs" with
    | .ok Json.null => return none
    | .ok v => return some (← (← v.getArr?).toList.mapM (fun (x : Json) => do
        (← x.getArr?).toList.mapM (fun (y : Json) => do (← y.getArr?).toList.mapM (fun z => z.getNat?))))
    | .error _ => return none : Except String (Option (List (List (List Nat)))))
  -- roots and pkgs must pair up (`zip` would silently drop the excess)
  if roots.length ≠ pkgs.length then throw "roots and packages differ in length"
  let files := Ztr.Discovery.findTestFilesS e roots pkgs pkgDirs
  let mods := Ztr.Discovery.importedModulesS e (fun m => accepted.contains m) roots pkgs pkgDirs
  let cands := files.map (fun p => Ztr.Discovery.moduleNamesS e roots pkgs pkgDirs p)
  return Json.mkObj [("files", Json.arr (files.map jNatss).toArray),
    ("imported", Json.arr (mods.map jNatss).toArray),
    ("modules", Json.arr (cands.map (fun m => match m.head? with | some x => jNatss x | none => Json.null)).toArray),
    ("candidates", Json.arr (cands.map (fun c => Json.arr (c.map jNatss).toArray)).toArray),
    ("startDirs", Json.arr ((Ztr.Discovery.testDirs roots pkgs pkgDirs).map (fun r => jNatss r.1.1)).toArray)]

/-- `kept_lines`: what the deferred / keep-alive collectors keep of a child's stdout -/
def opKeptLines (j : Json) : Except String Json := do
  let bs ← J.nats! j "stdout"
  let lines := Ztr.Channel.stdoutLines bs
  return Json.mkObj [("kept", Json.arr ((Ztr.Channel.keptLines bs).map jNats).toArray),
    ("dots", Json.arr (lines.map (fun l => Json.bool (Ztr.Channel.isDotsLine l))).toArray)]

/-- `streams`: the capture state machine.  `ops` = [["setUp"] | ["restore"] | ["skip"] | ["write", "out"|"err", tok] |
["close", w] | ["install", w, ["orig"] | ["buf", gen] | ["own", n]]]; answers the observable state after every
operation: what sys.stdout / sys.stderr are ("orig" | "bufOut" | "bufErr" | "stale" | "own"), the flag, the held
capture streams ([closed, content] or null), what a restore returned, tokens shown so far, raised. -/
def opStreams (j : Json) : Except String Json := do
  let buffer ← J.bool! j "buffer"
  let which (x : Json) : Except String Ztr.Streams.Which := do
    match ← x.getStr? with
    | "out" => return .out
    | "err" => return .err
    | w => throw s!"bad stream {w}"
  let ops ← (← J.arr! j "ops").toList.mapM (fun (x : Json) => do
    let a ← x.getArr?
    let tag ← a[0]!.getStr?
    match tag with
    | "setUp" => return Ztr.Streams.Op.setUp
    | "restore" => return .restore
    | "skip" => return .skipReport
    | "write" => return .write (← which a[1]!) (← a[2]!.getNat?)
    | "close" => return .close (← which a[1]!)
    | "install" => do
      let r ← a[2]!.getArr?
      let rt ← r[0]!.getStr?
      let ref ← match rt with
        | "orig" => pure Ztr.Streams.Ref.orig
        | "buf" => do pure (Ztr.Streams.Ref.buf (← r[1]!.getNat?))
        | "own" => do pure (Ztr.Streams.Ref.own (← r[1]!.getNat?))
        | _ => throw s!"bad ref {rt}"
      return .install (← which a[1]!) ref
    | _ => throw s!"bad op {tag}")
  let kind (s : Ztr.Streams.St) (r : Ztr.Streams.Ref) : String :=
    match r with
    | .orig => "orig"
    | .own _ => "own"
    | .buf _ => if Ztr.Streams.isHeld r s.bufOut then "bufOut" else if Ztr.Streams.isHeld r s.bufErr then "bufErr" else "stale"
  let jbuf (b : Option Ztr.Streams.Buf) : Json :=
    match b with
    | none => Json.null
    | some b => Json.arr #[Json.bool b.closed, Json.arr (b.content.map (fun (n : Nat) => (n : Json))).toArray]
  let jn (l : List Nat) : Json := Json.arr (l.map (fun (n : Nat) => (n : Json))).toArray
  let rec go (s : Ztr.Streams.St) (ops : List Ztr.Streams.Op) (acc : Array Json) : Array Json :=
    match ops with
    | [] => acc
    | op :: rest =>
      let ret : Json := match op with
        | .restore => match (Ztr.Streams.restore buffer s).2 with
          | none => Json.null
          | some (a, b) => Json.arr #[jn a, jn b]
        | _ => Json.null
      let s' := Ztr.Streams.step buffer s op
      go s' rest (acc.push (Json.mkObj [("out", Json.str (kind s' s'.out)), ("err", Json.str (kind s' s'.err)),
        ("flag", Json.bool s'.flag), ("bufOut", jbuf s'.bufOut), ("bufErr", jbuf s'.bufErr), ("ret", ret),
        ("shown", jn s'.shown), ("raised", Json.bool s'.raised)]))
  return Json.mkObj [("states", Json.arr (go {} ops #[]))]

def dispatch (j : Json) : Except String Json := do
  let op ← J.str! j "op"
  match op with
  | "filter" => opFilter j
  | "layers" => opLayers j
  | "shuffle" => opShuffle j
  | "sccs" => opSccs j
  | "bytecode" => opBytecode j
  | "threads" => opThreads j
  | "bracket" => opBracket j
  | "sched" => opSched j
  | "xml" => opXml j
  | "discovery" => opDiscovery j
  | "world" => opWorld j
  | "whole" => opWhole j
  | "proto" => opProto j
  | "suites" => opSuites j
  | "normalize" => opNormalize j
  | "layer_kept" => opLayerKept j
  | "channel_parse" => opChannelParse j
  | "kept_lines" => opKeptLines j
  | "child_report" => opChildReport j
  | "streams" => opStreams j
  | "ordered_layers" => opOrderedLayers j
  | "cli_filters" => opCliFilters j
  | "handover" => opHandover j
  | _ => throw s!"unknown op {op}"

partial def loop (h : IO.FS.Stream) (out : IO.FS.Stream) : IO Unit := do
  let line ← h.getLine
  if line.isEmpty then return ()
  let res := match Json.parse line with
    | .error e => Json.mkObj [("error", Json.str s!"parse: {e}")]
    | .ok j => match dispatch j with
      | .ok r => r
      | .error e => Json.mkObj [("error", Json.str e)]
  out.putStrLn (Json.compress res)
  loop h out

def main : IO Unit := do
  let out ← IO.getStdout
  loop (← IO.getStdin) out
  out.flush
