#!/bin/bash
# run every seeded change against the check of its property (4 at a time); summary at the end
cd "$(dirname "$0")/.."
ls -d seeded/*/ | xargs -n1 basename | xargs -P4 -I{} sh -c '/venv/bin/python tools/seeded.py seeded/{} --skip-confirm > /tmp/seedall_{}.log 2>&1'
/venv/bin/python - <<'PY'
import json, glob, os
rows = []
for d in sorted(glob.glob("seeded/*/")):
    r = json.load(open(os.path.join(d, "result.json")))
    if json.load(open(os.path.join(d, "meta.json"))).get("status") == "neutralised":
        print(r["id"], "neutralised by a later repair (not counted)")
        continue
    rows.append((r["id"], r["property"], r.get("caught_by"), r.get("with_failing_input")))
for row in rows:
    print(*row)
print("caught", sum(1 for r in rows if r[2]), "of", len(rows))
PY
