#!/venv/bin/python
"""Run the registered checks against a seeded change (a patch that breaks a property while the
existing tests keep passing).

    tools/seeded.py seeded/<id> [--tier quick|thorough] [--props C01,C05] [--keep]

Works on a scratch git worktree of /repo (never on /repo itself) and on a scratch copy of /verif
(so that a regenerated Facts.lean cannot disturb checks running in /verif); both are removed at the
end.  Steps: (1) demo on the clean worktree must exit 0; (2) apply patch.diff; (3) the pinned test
suite must give the same passes as on the clean tree; (4) demo must now exit non-zero; (5) run the
checks of the property named in meta.json (or --props) with ZTR_REPO pointing at the worktree and
report which of them print a VIOLATION line.  Result: seeded/<id>/result.json.
"""
import argparse
import json
import os
import shutil
import subprocess
import sys
import tempfile
import time
import xml.etree.ElementTree as ET

VERIF = os.path.dirname(os.path.dirname(os.path.abspath(__file__)))
SITE = os.path.join(VERIF, "harness", "site")
PY = "/venv/bin/python"


def sh(cmd, cwd=None, env=None, timeout=3600):
    r = subprocess.run(cmd, cwd=cwd, env=env, stdout=subprocess.PIPE, stderr=subprocess.STDOUT, text=True,
                       timeout=timeout)
    return r.returncode, r.stdout


def wt_env(wt):
    env = dict(os.environ)
    env["PYTHONPATH"] = SITE
    env["ZTR_REPO_SRC"] = os.path.join(wt, "src")
    env["ZTR_REPO"] = wt
    env.setdefault("PYTHONIOENCODING", "utf-8:backslashreplace")
    return env


def passes(wt):
    junit = os.path.join(wt, "_junit.xml")
    sh([PY, "-m", "pytest", "-q", "-p", "no:cacheprovider", "--timeout=900", "--continue-on-collection-errors",
        "--junitxml=" + junit], cwd=wt, env=wt_env(wt))
    ok = set()
    try:
        for tc in ET.parse(junit).getroot().iter("testcase"):
            if not list(tc):
                ok.add("%s::%s" % (tc.get("classname"), tc.get("name")))
    finally:
        if os.path.exists(junit):
            os.unlink(junit)
    return ok


def find_demo(d):
    for n in ("demo.py", "demo.sh"):
        if os.path.exists(os.path.join(d, n)):
            return n
    raise SystemExit("no demo in %s" % d)


def run_demo(d, wt):
    n = find_demo(d)
    cmd = [PY, os.path.join(d, n)] if n.endswith(".py") else ["bash", os.path.join(d, n)]
    try:
        return sh(cmd, cwd=wt, env=wt_env(wt), timeout=900)
    except subprocess.TimeoutExpired:
        return 124, "demo timed out"


def main():
    ap = argparse.ArgumentParser()
    ap.add_argument("dir")
    ap.add_argument("--tier", default="quick")
    ap.add_argument("--props")
    ap.add_argument("--keep", action="store_true")
    ap.add_argument("--skip-confirm", action="store_true", help="skip steps 1-4 (already confirmed)")
    a = ap.parse_args()
    d = os.path.abspath(a.dir)
    meta = json.load(open(os.path.join(d, "meta.json")))
    props = a.props.split(",") if a.props else [meta["property"]]
    shutil.rmtree(os.path.join(d, "replays"), ignore_errors=True)
    base = tempfile.mkdtemp(prefix="ztrseed-")
    wt = os.path.join(base, "wt")
    vcopy = os.path.join(base, "verif")
    res = {"id": os.path.basename(d), "property": meta["property"], "tier": a.tier, "checks": {}}
    try:
        rc, out = sh(["git", "-C", "/repo", "worktree", "add", "--detach", wt, "HEAD"])
        if rc:
            raise SystemExit(out)
        if not a.skip_confirm:
            clean_pass = passes(wt)
            rc0, out0 = run_demo(d, wt)
            res["demo_clean_exit"] = rc0
        rc, out = sh(["git", "apply", os.path.join(d, "patch.diff")], cwd=wt)
        if rc:
            raise SystemExit("patch does not apply: " + out)
        if not a.skip_confirm:
            mut_pass = passes(wt)
            res["tests_lost"] = sorted(clean_pass - mut_pass)
            res["tests_pass_clean"] = len(clean_pass)
            rc1, out1 = run_demo(d, wt)
            res["demo_mutant_exit"] = rc1
            res["demo_mutant_tail"] = out1[-600:]
            res["confirmed"] = (rc0 == 0 and rc1 != 0 and not res["tests_lost"])
            if rc0 != 0:
                res["demo_clean_tail"] = out0[-600:]
        # scratch copy of /verif (with its build output) so Facts.lean regeneration stays private
        shutil.copytree(VERIF, vcopy, symlinks=True,
                        ignore=shutil.ignore_patterns(".git", "__pycache__", "replays", "seeded", ".audit_*", ".build.lock"))
        env = wt_env(wt)
        env.pop("PYTHONPATH")
        procs = {}
        for p in props:
            procs[p] = subprocess.Popen([PY, "check.py", p, "--tier", a.tier], cwd=vcopy, env=env,
                                        stdout=subprocess.PIPE, stderr=subprocess.PIPE, text=True)
        for p, pr in procs.items():
            t0 = time.time()
            try:
                so, se = pr.communicate(timeout=7200)
            except subprocess.TimeoutExpired:
                pr.kill()
                so, se = pr.communicate()
            viol = [ln for ln in so.split("\n") if ln.startswith("VIOLATION")]
            entry = {"exit": pr.returncode, "violation_lines": viol, "stderr_tail": se[-1500:]}
            for ln in viol:
                for tok in ln.split():
                    if tok.startswith("replay="):
                        rp = os.path.join(vcopy, tok[7:])
                        if os.path.exists(rp):
                            try:
                                entry["replay_excerpt"] = open(rp).read()[:3000]
                                os.makedirs(os.path.join(d, "replays"), exist_ok=True)
                                shutil.copy(rp, os.path.join(d, "replays", "%s-%s" % (p, os.path.basename(rp))))
                            except OSError:
                                pass
            res["checks"][p] = entry
        res["caught_by"] = sorted(p for p, e in res["checks"].items() if e["exit"] == 1 and e["violation_lines"])
        res["with_failing_input"] = sorted(p for p, e in res["checks"].items() if e["exit"] == 1 and any(
            "no-failing-input-found" not in ln for ln in e["violation_lines"]))
    finally:
        if not a.keep:
            sh(["git", "-C", "/repo", "worktree", "remove", "--force", wt])
            shutil.rmtree(base, ignore_errors=True)
            sh(["git", "-C", "/repo", "worktree", "prune"])
    if a.skip_confirm:
        # keep what an earlier, complete run established about the change itself (demonstration, test suite)
        try:
            prev = json.load(open(os.path.join(d, "result.json")))
            for k in ("confirmed", "demo_clean_exit", "demo_mutant_exit", "demo_mutant_tail", "tests_lost", "tests_pass_clean"):
                if k in prev and k not in res:
                    res[k] = prev[k]
        except (OSError, ValueError):
            pass
    with open(os.path.join(d, "result.json"), "w") as f:
        json.dump(res, f, indent=1, sort_keys=True)
    print(json.dumps({k: v for k, v in res.items() if k != "checks"}, indent=1))
    for p, e in res["checks"].items():
        print(p, "exit", e["exit"], e["violation_lines"])
        if e["exit"] != 1:
            print(e["stderr_tail"][-600:])
    return 0


if __name__ == "__main__":
    sys.exit(main())
