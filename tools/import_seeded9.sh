#!/bin/bash
# import_seeded9.sh Cxx : copy /tmp/wt9/Cxx/_mut/m{1,2} to seeded/Cxx-m{11,12}/ and run tools/seeded.py on each
cd "$(dirname "$0")/.."
p=$1
for k in 1 2; do
  m=/tmp/wt9/$p/_mut/m$k
  [ -d "$m" ] || continue
  id=$p-m$((k+16))
  mkdir -p seeded/$id
  cp $m/patch.diff seeded/$id/
  cp $m/demo.* seeded/$id/ 2>/dev/null
  cp $m/README.md seeded/$id/ 2>/dev/null
  /venv/bin/python - "$p" "$id" <<'PY'
import json, sys, os
p, id = sys.argv[1], sys.argv[2]
rd = "seeded/%s/README.md" % id
readme = open(rd).read() if os.path.exists(rd) else ""
json.dump({"property": p, "round": 9, "source": "independent sub-agent given only the property text, the descriptions of the earlier changes to avoid, and a scratch worktree",
           "needs_to_manifest": "see README.md", "readme_head": readme[:400]}, open("seeded/%s/meta.json" % id, "w"), indent=1)
PY
  /venv/bin/python tools/seeded.py seeded/$id > /tmp/seed_$id.log 2>&1 &
done
wait
for k in 17 18; do id=$p-m$k; [ -f seeded/$id/result.json ] && /venv/bin/python -c "
import json; r=json.load(open('seeded/$id/result.json')); print('$id', {k:r.get(k) for k in ('confirmed','demo_clean_exit','demo_mutant_exit','tests_lost','caught_by','with_failing_input')})"; done
