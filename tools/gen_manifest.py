#!/usr/bin/env python3
"""Writes MANIFEST.json from the table below (kept in one place so it stays valid)."""
import json
import os

HERE = os.path.dirname(os.path.dirname(os.path.abspath(__file__)))

CHECKS = {
    "C01": dict(
        text="Runner-level Lean model (Model/Proto = unittest 3.12.1 protocol, Model/Result = TestResult, Model/Runner = layer loop, resume, children) tied to the code by running the real runner (CLI, real children) on generated test worlds whose hooks and tests write a pid-tagged trace; every process is compared event by event with the model on this property's projection, and the property's clauses are monitored on the real traces/output. Projection/monitor: layer setUp/tearDown/test events: stack exactness, setUp/tearDown guards, all torn down, frozen after NotImplementedError.",
        note='hooks that re-enter the runner, MemoryError/KeyboardInterrupt/EndRun and -D are not modelled; Lean theorems for the invariant are being added (see evidence.obligations)',
        technique="Lean 4 executable model + differential correspondence on generated test worlds + trace monitors (theorems in progress)",
        design="§5 C01"),
    "C02": dict(
        text="Runner-level Lean model (Model/Proto = unittest 3.12.1 protocol, Model/Result = TestResult, Model/Runner = layer loop, resume, children) tied to the code by running the real runner (CLI, real children) on generated test worlds whose hooks and tests write a pid-tagged trace; every process is compared event by event with the model on this property's projection, and the property's clauses are monitored on the real traces/output. Projection/monitor: exit status iff something went wrong (trace truth), incl. children that die by os._exit/SIGKILL/SIGSEGV in any phase, non-spoofing fd-2 noise.",
        note='OS process death and pipe EOF are sampled, not proved; header-spoofing fd-2 noise is KNOWN-FINDING D10 (C07)',
        technique="Lean 4 executable model + differential correspondence on generated test worlds + trace monitors (theorems in progress)",
        design="§5 C02"),
    "C03": dict(
        text="Runner-level Lean model (Model/Proto = unittest 3.12.1 protocol, Model/Result = TestResult, Model/Runner = layer loop, resume, children) tied to the code by running the real runner (CLI, real children) on generated test worlds whose hooks and tests write a pid-tagged trace; every process is compared event by event with the model on this property's projection, and the property's clauses are monitored on the real traces/output. Projection/monitor: selected tests executed exactly --repeat times in one process, --list-tests lists the same set in the same order without running code, all modes agree.",
        note='selection itself is C08/C09; shuffle order is taken from the real listing (C11)',
        technique="Lean 4 executable model + differential correspondence on generated test worlds + trace monitors (theorems in progress)",
        design="§5 C03"),
    "C04": dict(
        text="Runner-level Lean model (Model/Proto = unittest 3.12.1 protocol, Model/Result = TestResult, Model/Runner = layer loop, resume, children) tied to the code by running the real runner (CLI, real children) on generated test worlds whose hooks and tests write a pid-tagged trace; every process is compared event by event with the model on this property's projection, and the property's clauses are monitored on the real traces/output. Projection/monitor: no runner traceback, summaries printed, layers torn down, other tests still run for raising tests/layers in every phase, with/without --buffer.",
        note='exception classes outside Exception in layer hooks are outside the quantifier',
        technique="Lean 4 executable model + differential correspondence on generated test worlds + trace monitors (theorems in progress)",
        design="§5 C04"),
    "C05": dict(
        text="Runner-level Lean model (Model/Proto = unittest 3.12.1 protocol, Model/Result = TestResult, Model/Runner = layer loop, resume, children) tied to the code by running the real runner (CLI, real children) on generated test worlds whose hooks and tests write a pid-tagged trace; every process is compared event by event with the model on this property's projection, and the property's clauses are monitored on the real traces/output. Projection/monitor: testSetUp/testTearDown bracket every test window: bases first, mirrored, balanced, incl. decorator-skipped tests; Model/Proto validated against plain unittest.",
        note='unittest protocol = CPython 3.12.1; raising per-test hooks are C18',
        technique="Lean 4 executable model + differential correspondence on generated test worlds + trace monitors (theorems in progress)",
        design="§5 C05"),
    "C12": dict(
        text="Runner-level Lean model (Model/Proto = unittest 3.12.1 protocol, Model/Result = TestResult, Model/Runner = layer loop, resume, children) tied to the code by running the real runner (CLI, real children) on generated test worlds whose hooks and tests write a pid-tagged trace; every process is compared event by event with the model on this property's projection, and the property's clauses are monitored on the real traces/output. Projection/monitor: 'Ran'/'Total' numbers and the failure/error name lists vs the truth computed from the trace.",
        note='KNOWN-FINDINGs D4 (skipped of children) and D5 (--repeat total)',
        technique="Lean 4 executable model + differential correspondence on generated test worlds + trace monitors (theorems in progress)",
        design="§5 C12"),
    "C13": dict(
        text="Runner-level Lean model (Model/Proto = unittest 3.12.1 protocol, Model/Result = TestResult, Model/Runner = layer loop, resume, children) tied to the code by running the real runner (CLI, real children) on generated test worlds whose hooks and tests write a pid-tagged trace; every process is compared event by event with the model on this property's projection, and the property's clauses are monitored on the real traces/output. Projection/monitor: token attribution under --buffer (quiet when ok, shown when failing, never in another test's report) and stream identity seen by layer hooks.",
        note="output after a failing test's last result event is raw inside its window",
        technique="Lean 4 executable model + differential correspondence on generated test worlds + trace monitors (theorems in progress)",
        design="§5 C13"),
    "C16": dict(
        text="Runner-level Lean model (Model/Proto = unittest 3.12.1 protocol, Model/Result = TestResult, Model/Runner = layer loop, resume, children) tied to the code by running the real runner (CLI, real children) on generated test worlds whose hooks and tests write a pid-tagged trace; every process is compared event by event with the model on this property's projection, and the property's clauses are monitored on the real traces/output. Projection/monitor: no test start after the first bad outcome in a process, no layer set-up/child after it in sequential runs, clean-up and verdict.",
        note='under -j N only the per-process clause is claimed',
        technique="Lean 4 executable model + differential correspondence on generated test worlds + trace monitors (theorems in progress)",
        design="§5 C16"),
    "C07": dict(
        text="Byte-level Lean model of the child's report writer and the parent's stderr parser (split at \\n, "
             "bytes.split, Python int() grammar, header search, completeness test, UTF-8 validity). Theorems for all "
             "byte strings: round trip through any non-spoofing newline-terminated noise before and any bytes after, "
             "every strict prefix (every byte offset) of a report yields a communication error, spawn failure yields an "
             "error, int(str(n)) round trip. Tied to the code by running the real spawn_layer_in_subprocess on the same "
             "byte strings through a fake Popen and the real SubProcess.report; the property is monitored on the real outcome.",
        note="pipe EOF on child death, reaping and grandchildren holding the pipe are OS behaviour (not modelled); names "
             "must be valid UTF-8; header-looking or unterminated noise before the report is KNOWN-FINDING D10",
        technique="Lean 4 theorems on byte-level model + differential correspondence through a fake Popen",
        design="§5 C07"),
    "C08": dict(
        text="Lean theorems over all pattern lists, names and match matrices (spec, permutation and duplicate "
             "invariance, monotonicity with the exact guards); model tied to build_filtering_func by exhaustive "
             "small-scope + random correspondence; the property's sentence is monitored on the real results.",
        note="regex engine abstract (match matrix from CPython re); end-to-end use of the predicate is covered by C03",
        technique="Lean 4 theorems on hand-written model + differential correspondence with real build_filtering_func",
        design="§5 C08"),
    "C09": dict(
        text="Lean theorems for suite trees of any depth (mutual structural induction): every leaf appears once with "
             "the nearest level/layer declaration on its path, defaults (1, unit layer); the level predicate, --all, "
             "-u/-f/both and the child's --resume-layer selection as decision-logic theorems. Tied to the real "
             "tests_from_suite, find_tests, get_options and Filter.global_setup on generated trees and option vectors; "
             "the statement is monitored on the real results.",
        note="regex engine abstract (C08); --all is bounded by sys.maxsize (KNOWN-FINDING D14)",
        technique="Lean 4 theorems on hand-written model + differential correspondence with real discovery/filter code",
        design="§5 C09"),
    "C10": dict(
        text="Lean theorems for every well-founded layer graph and every input list: result is duplicate-free with "
             "exactly the requested members, bases precede derived layers, the unit layer is first, and (for "
             "injective names) every permutation of the input gives the same list; model tied to order_by_bases / "
             "gather_layers / layer_sort_key by exhaustive small DAGs + random DAGs; clauses monitored on real results.",
        note="Python sorted() modelled as stable insertion sort; layer names injective (guard, witness proved); "
             "contiguity of a layer's tests is C03",
        technique="Lean 4 theorems on hand-written model + differential correspondence with real order_by_bases",
        design="§5 C10"),
    "C11": dict(
        text="Lean theorems for every index stream, list and layer dict: Fisher-Yates result is a permutation, layers "
             "keep their keys and only permute their own tests, the generated feature order puts Shuffle before "
             "Filter/SubProcess/Listing so every mode sees the same order (pipeline theorem over Generated/Facts), "
             "children use the parent's seed; tied to the real Shuffle.global_setup through the recorded index stream "
             "and to the real spawn/get_options for the seed hand-over.",
        note="RNG and float floor trusted (index stream recorded from the real code, bounds asserted); only CPython "
             "3.12.1 available; end-to-end list/run/-j agreement is exercised by the world runs of C03",
        technique="Lean 4 theorems on hand-written model + generated facts + differential correspondence",
        design="§5 C11"),
    "C20": dict(
        text="PARTIAL proof. Lean step-machine model of the iterative Tarjan code; proved for all graphs, iteration "
             "orders and step counts: every node is in exactly one of unvisited/stack/one yielded component (components "
             "duplicate-free, pairwise disjoint, inside the node set, nothing lost) and a yielded component is the "
             "stack segment above its root. The full statement (components = mutual reachability classes, default mode "
             "= non-trivial ones) is kept as an unproved def and checked on every real output by an independent oracle "
             "(a test). The model is tied to the code by identical emission sequences (exhaustive <= 3/4 nodes + random).",
        note="mutual-reachability clause and emptiness of the stack at exhaustion are not proved (Tarjan low-link "
             "invariants); set iteration orders are read from the real objects",
        technique="Lean 4 invariant proof on step-machine model (partial) + exact differential correspondence + oracle",
        design="§5 C20"),
}

NOT_APPLICABLE = {}

ALL = ["C%02d" % i for i in range(1, 21)]


def main():
    checks = []
    for pid in ALL:
        if pid not in CHECKS:
            continue
        c = CHECKS[pid]
        checks.append({
            "property_id": pid,
            "quick_cmd": "/venv/bin/python check.py %s --tier quick" % pid,
            "thorough_cmd": "/venv/bin/python check.py %s --tier thorough" % pid,
            "evidence_file": "evidence/%s.json" % pid,
            "replay_cmd_template": "/venv/bin/python check.py %s --replay {path}" % pid,
            "engine": "lean-ztr",
            "level_claimed": {"category": "proof", "text": c["text"], "design_ref": c["design"]},
            "level_note": c["note"],
            "technique": c["technique"],
        })
    na = []
    for pid in ALL:
        if pid not in CHECKS:
            na.append({"property_id": pid,
                       "reason": NOT_APPLICABLE.get(pid, "not yet built in this round: model/theorems/correspondence "
                                                    "for this property are planned in DESIGN.md but no check is registered yet")})
    m = {
        "version": 1,
        "setup_cmd": "/venv/bin/python check.py --setup",
        "hooks": {
            "guard": "ZOPE_TESTRUNNER_VERIF",
            "enable": "no source hooks are needed: observations come from generated test worlds and substituted "
                      "collaborators; checks export ZOPE_TESTRUNNER_VERIF=1 for form",
            "baseline_off_cmd": "cd /repo && /venv/bin/python -m pytest -ra -q -p no:cacheprovider --timeout=900 "
                                "--continue-on-collection-errors",
            "source_commits": [],
            "add_only": True,
        },
        "engines": [{
            "name": "lean-ztr", "path": "lean/",
            "serves_properties": [c["property_id"] for c in checks],
            "kind_free_text": "Lean 4 library (models, theorems, compiled model driver) + Python correspondence harness",
        }],
        "checks": checks,
        "not_applicable": na,
        "notes": "All checks: check.py <id> --tier quick|thorough. Exit 2 = internal error/timeout (no verdict).",
    }
    with open(os.path.join(HERE, "MANIFEST.json"), "w") as f:
        json.dump(m, f, indent=1)
        f.write("\n")


if __name__ == "__main__":
    main()
