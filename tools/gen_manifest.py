#!/usr/bin/env python3
"""Writes MANIFEST.json from the table below (kept in one place so it stays valid)."""
import json
import os

HERE = os.path.dirname(os.path.dirname(os.path.abspath(__file__)))

CHECKS = {
    "C01": dict(
        text="Runner-level Lean model (Model/Proto = unittest 3.12.1 protocol, Model/Result = TestResult, Model/Runner = layer loop, resume, children) tied to the code by running the real runner (CLI, real children) on generated test worlds whose hooks and tests write a pid-tagged trace; every process is compared event by event with the model on this property's projection, and the property's clauses are monitored on the real traces/output. Theorems (every world, option vector and fault script of the model; induction over the run with a ghost log that snapshots setup_layers at every event): the set-up stack is exactly the closure of what was set up and not torn down (C01_exact_stack), a layer is set up only when absent and after all its bases (C01_setUp_guard, C10_bases_first), torn down only when present and before its bases (C01_tearDown_order), everything is torn down at the end unless frozen (C01_all_torn_down, C01_balance), nothing is set up in the parent after NotImplementedError and the rest runs in children (C01_frozen, C01_rest_in_children). Real setup_layers is read from the runner's stack frames at every event and compared with the model's snapshots.",
        note='hooks that re-enter the runner, MemoryError/KeyboardInterrupt/EndRun and -D are not modelled',
        technique="Lean 4 theorems on the runner-level model (unittest protocol, TestResult, layer loop) + differential correspondence on generated test worlds + trace monitors",
        design="§5 C01"),
    "C02": dict(
        text="Runner-level Lean model (Model/Proto = unittest 3.12.1 protocol, Model/Result = TestResult, Model/Runner = layer loop, resume, children) tied to the code by running the real runner (CLI, real children) on generated test worlds whose hooks and tests write a pid-tagged trace; every process is compared event by event with the model on this property's projection, and the property's clauses are monitored on the real traces/output. Theorems: the verdict of a whole run (parent and children through the byte-level channel of C07) is 'failed' iff the trace contains a failure, an error, a failed layer set-up/tear-down, an import error or a child that did not report (C02_run_verdict, C02_verdict_iff_trace, child_bad_iff_trace); NotImplementedError in tearDown is not an error (C02_notImplemented_is_not_an_error). Monitor: exit status iff something went wrong (trace truth), incl. children that die by os._exit/SIGKILL/SIGSEGV in any phase, noisy children, non-spoofing fd-2 noise.",
        note='OS process death and pipe EOF are sampled, not proved; header-spoofing fd-2 noise is KNOWN-FINDING D10 (C07)',
        technique="Lean 4 theorems on the runner-level model (unittest protocol, TestResult, layer loop) + differential correspondence on generated test worlds + trace monitors",
        design="§5 C02"),
    "C03": dict(
        text="Runner-level Lean model (Model/Proto = unittest 3.12.1 protocol, Model/Result = TestResult, Model/Runner = layer loop, resume, children) tied to the code by running the real runner (CLI, real children) on generated test worlds whose hooks and tests write a pid-tagged trace; every process is compared event by event with the model on this property's projection, and the property's clauses are monitored on the real traces/output. Theorems: every selected test of a layer is started exactly once per iteration in the process that runs the layer (C03_tests_started, C03_all_started, C03_iterations_execute), each layer runs in one process (C03_layers_once, C03_child_one_layer), a child runs only its own layer's tests and the parent none of theirs (C03_parent_tests_not_in_children, C03_child_only_own_layer). Monitor: selected tests executed exactly --repeat times in one process, --list-tests lists the same set in the same order without running code, all modes (list / run / -j N / --shuffle) agree.",
        note='selection itself is C08/C09; shuffle order is taken from the real listing (C11)',
        technique="Lean 4 theorems on the runner-level model (unittest protocol, TestResult, layer loop) + differential correspondence on generated test worlds + trace monitors",
        design="§5 C03"),
    "C04": dict(
        text="Runner-level Lean model (Model/Proto = unittest 3.12.1 protocol, Model/Result = TestResult, Model/Runner = layer loop, resume, children) tied to the code by running the real runner (CLI, real children) on generated test worlds whose hooks and tests write a pid-tagged trace; every process is compared event by event with the model on this property's projection, and the property's clauses are monitored on the real traces/output. Theorems: no modelled test or layer fault aborts the run (runTests_not_aborted, C04_no_abort), a summary is produced for every layer iteration (C04_summary_each_iteration), a failing layer hook is recorded as an error (C04_layer_failure_recorded), all layers are torn down afterwards (C04_all_torn_down). Monitor: no runner traceback, summaries printed, layers torn down, other tests still run for raising tests/layers in every phase, with/without --buffer, colour, XML reports, exceptions with cause/context/unhashable/SyntaxError, undecodable output bytes.",
        note='exception classes outside Exception in layer hooks are outside the quantifier',
        technique="Lean 4 theorems on the runner-level model (unittest protocol, TestResult, layer loop) + differential correspondence on generated test worlds + trace monitors",
        design="§5 C04"),
    "C05": dict(
        text="Runner-level Lean model (Model/Proto = unittest 3.12.1 protocol, Model/Result = TestResult, Model/Runner = layer loop, resume, children) tied to the code by running the real runner (CLI, real children) on generated test worlds whose hooks and tests write a pid-tagged trace; every process is compared event by event with the model on this property's projection, and the property's clauses are monitored on the real traces/output. Projection/monitor: testSetUp/testTearDown bracket every test window: bases first, mirrored, balanced, incl. decorator-skipped tests; Model/Proto validated against plain unittest.",
        note='unittest protocol = CPython 3.12.1; raising per-test hooks are C18',
        technique="Lean 4 theorems on the runner-level model (unittest protocol, TestResult, layer loop) + differential correspondence on generated test worlds + trace monitors",
        design="§5 C05"),
    "C12": dict(
        text="Runner-level Lean model (Model/Proto = unittest 3.12.1 protocol, Model/Result = TestResult, Model/Runner = layer loop, resume, children) tied to the code by running the real runner (CLI, real children) on generated test worlds whose hooks and tests write a pid-tagged trace; every process is compared event by event with the model on this property's projection, and the property's clauses are monitored on the real traces/output. Theorems: after every callback the counters and lists of the model TestResult agree with the callbacks received (C12_step, C12_counts), testsRun equals the started tests (C12_tests_run), the printed summary of a layer equals the truth of its trace (C12_summary, C12_summary_truth); for the whole run (Model/Whole: parent and subprocesses composed in Lean, the model's 'Total:' numbers are compared with the real line on every world) the failure list of every process has one entry per failure event and its own errors one per error event (C12_process_counts), and the Total's failures/errors are the events of all processes plus lost children plus import errors (C12_totals_truth); the two known deviations of the Total line are witnessed in the model (C12_D4_witness, C12_D5_witness). Monitor: 'Ran'/'Total' numbers and the failure/error name lists vs the truth computed from the trace, incl. names only backslashreplace can write, reported by children.",
        note='KNOWN-FINDINGs D4 (skipped of children) and D5 (--repeat total)',
        technique="Lean 4 theorems on the runner-level model (unittest protocol, TestResult, layer loop) + differential correspondence on generated test worlds + trace monitors",
        design="§5 C12"),
    "C13": dict(
        text="Runner-level Lean model (Model/Proto = unittest 3.12.1 protocol, Model/Result = TestResult, Model/Runner = layer loop, resume, children) tied to the code by running the real runner (CLI, real children) on generated test worlds whose hooks and tests write a pid-tagged trace; every process is compared event by event with the model on this property's projection, and the property's clauses are monitored on the real traces/output. Theorems (every test sequence, every outcome kind, every op sequence unittest can produce): between tests and after the run the std streams are the originals and every per-test hook saw them (C13_restored_between_tests), without --buffer they are never replaced (C13_never_replaced), a test without a failure/error shows nothing (C13_quiet_when_ok), whatever becomes visible is shown under the name of the test that wrote it - the buffers are empty when a test starts (C13_attributed_test, C13_attribution over a whole layer run), and a test that records a failure/error has everything it wrote made visible under its name (C13_failing_shown). One level below, Model/Streams is the capture code (_setUpStdStreams, _restoreStdStreams, _takeBufferedOutput, addSkip's re-capture) as a state machine over stream objects, tied to the real TestResult methods by operation histories (runner operations interleaved with test code that writes, closes the stream it finds, puts saved streams back, installs its own): no runner operation ever raises (C13S_never_raises), a restore leaves both streams the originals (C13S_restore_clean, C13S_between_tests for every history in which the test only puts back what it found), the result then holds only open empty capture streams and returned exactly their contents (C13S_drained, C13S_returns_content), without --buffer the runner never touches the streams (C13S_no_buffer); the defects of the two earlier versions of that code are witnessed (C13S_D35*_witness). Projection/monitor: token attribution under --buffer (quiet when ok, shown when failing, never in another test's report) and stream identity seen by layer hooks, incl. tests that rebind or own their std streams and XML reports.",
        note="output after a failing test's last result event is raw inside its window",
        technique="Lean 4 theorems on the runner-level model (unittest protocol, TestResult, layer loop) + differential correspondence on generated test worlds + trace monitors",
        design="§5 C13"),
    "C16": dict(
        text="Runner-level Lean model (Model/Proto = unittest 3.12.1 protocol, Model/Result = TestResult, Model/Runner = layer loop, resume, children) tied to the code by running the real runner (CLI, real children) on generated test worlds whose hooks and tests write a pid-tagged trace; every process is compared event by event with the model on this property's projection, and the property's clauses are monitored on the real traces/output. Projection/monitor: no test start after the first bad outcome in a process, no layer set-up/child after it in sequential runs, clean-up and verdict.",
        note='under -j N only the per-process clause is claimed',
        technique="Lean 4 theorems on the runner-level model (unittest protocol, TestResult, layer loop) + differential correspondence on generated test worlds + trace monitors",
        design="§5 C16"),
    "C06": dict(
        text="(1) Whole-run theorems on the runner-level model (Props/C06Run): the iterations of a layer extend the state of "
             "whichever process runs them by the same events, failures, errors and counts (frame theorem "
             "C06_layer_same_in_every_process), and for every world with fault-free layer set-up, one group per layer and no "
             "KeyboardInterrupt, without --stop-on-error, the failures and erroring tests of the whole run (parent plus the "
             "subprocesses of the layers it hands over) are the layers' contributions in layer order in every mode "
             "(C06_whole_run), hence equal for -j N and the sequential run (C06_equals_sequential). (2) "
             "resume_tests as a labelled transition system (parent loop passes, child output lines, done/dead events in any "
             "order). Theorems for every schedule, k and N: never more than N running (not even transiently), the start "
             "loop fills min(N, running+ready) slots, printed output is always the complete blocks of children 0..cur-1 "
             "in layer order, a pass prints every leading done child. Tied to the real resume_tests and the real result "
             "collectors by a fake spawn whose completion order is scripted (all k! orders for small k).  The run's failure and error lists are the layers' lists in layer order for every schedule (Props/C06Order: printed_eq, C06_outcomes_in_layer_order, C06_outcomes_complete, C06_all_displayed; the code before 4ea7031 is witnessed to list them in completion order, C06_D46_witness), compared with the lists the real resume_tests leaves behind.",
        note="OS scheduling, reaping of children and the 10 ms polling are runtime; the equality with the sequential run "
             "is proved for test-level outcomes under the stated hypotheses (layer set-up faults indexed by call count can "
             "legitimately differ between modes) and monitored on the -j N world runs (shuffle_modes, C02/C03/C12); a test's "
             "script is assumed not to depend on process-global state left by other layers",
        technique="Lean 4 invariants over a transition system + correspondence with the real scheduler loop",
        design="§5 C06"),
    "C14": dict(
        text="Lean model of find_test_files/find_suites on directory trees with abstract regex predicates. Theorems for "
             "all trees, predicates and path lists: yielded paths = inductive spec (matching files in directories reached "
             "through identifier, non-ignored names), no file twice for overlapping/repeated paths, independence of the "
             "enumeration order of files and of sub-directories, import only through the --module gate and once per module "
             "name (C14_import_gate, C14_import_once), candidate module names carry the package of their search path "
             "(longest prefix first); with -s each package directory is walked once and nothing outside the named packages "
             "is loaded (C14_package_once, C14_package_restricts). Tied to the real "
             "code on temp trees created in shuffled order; imports observed through module top-level code.  The module name of a file is relative to the longest search path above it - component-wise prefix, independent of the order in which the search paths were given (Props/C14Prefix: C14_name_from_longest, C14_prefix_is_componentwise, C14_order_of_paths_irrelevant).",
        note="-s/--package is modelled (test_dirs); which directories a package name resolves to is asked of Python's import system in a worker; symlinked directories are materialised and must behave like real ones "
             "(D30 fixed); independence of enumeration order is proved per directory level and as one statement over whole "
             "trees (C14_enum_independent: trees related by permuting files and sub-directories at any depth, distinct "
             "sub-directory names)",
        technique="Lean 4 theorems on hand-written model + differential correspondence on real directory trees",
        design="§5 C14"),
    "C15": dict(
        text="Lean model of remove_stale_bytecode on directory trees. Theorem for all trees, ignore sets and search "
             "paths: a path is deleted iff it is an orphan (inductive spec: compiled suffix, no same-named .py beside it, "
             "directory reached without __pycache__/ignored components); nothing is deleted with -k/--usecompiled. Tied "
             "to the real function and to --list-tests CLI runs by complete file-system snapshots before/after.",
        note="symlinked directories are not modelled; suffix table regenerated from the source",
        technique="Lean 4 exact characterisation theorem + snapshot-diff correspondence",
        design="§5 C15"),
    "C17": dict(
        text="Lean model of _record, the name parsers (unittest, subtest, StartUpFailure), xml_safe and the ElementTree "
             "serializer (escaping, char references, indent). Theorems for every history and every string: the rendered "
             "file is a well-formed element of the XML grammar with only XML Chars (declarative grammar), each event is "
             "filed once under its own suite/class/name, suite attributes equal element counts. Tied to the real wrapper "
             "char-for-char; every real file is parsed with expat and ElementTree.  Report file names (Model/XmlFile: % and the path separator written %XX) name a file inside the reports directory and are injective - no report overwrites another (C17F_no_separator, C17F_decode, C17F_injective, C17F_naive_collides), compared with the files on disk.",
        note="grammar subset = what the serializer emits; the name parser of DocTestCase is modelled (C17_doctest_name), those of DocFileCase and manuel are not; file names "
             "derive from class names (identifiers)",
        technique="Lean 4 theorems on serializer model + char-for-char correspondence + strict XML parsers as oracle",
        design="§5 C17"),
    "C18": dict(
        text="Lean model of the feature bracket of Runner.run on an abstract global state (gc threshold/debug, traceback "
             "functions, trace/profile hooks, sys.settrace, warning filters, std streams). Theorem: for every subset of "
             "the state-changing options and every test phase that only touches warning filters, the state after equals "
             "the state before (guards: no pre-installed trace/profile hook). The reversed/finally loop shape is "
             "regenerated from the source. Tied to in-process runs of the real runner (fresh worker per case) with "
             "snapshots before/after for option subsets x endings incl. KeyboardInterrupt and raising per-test hooks.",
        note="feature set-up failures (before the try) are outside the statement; pre-installed trace hook is "
             "KNOWN-FINDING D21; -D (post-mortem) is not exercised",
        technique="Lean 4 theorems on bracket model + generated shape facts + snapshot correspondence",
        design="§5 C18"),
    "C19": dict(
        text="Lean model of the snapshot/difference leak check with explicit thread idents. Theorem for every history of "
             "thread starts/ends and tests without ident reuse into a snapshot: the report equals the threads started "
             "during the test, alive at its end and not ignored; a leaked thread is never reported for a later test; "
             "the reuse witness is proved. Tied to real runs whose tests start real threads (threading and _thread) and "
             "log their idents.",
        note="thread-exit timing is runtime (finished threads are waited for); ident reuse is KNOWN-FINDING D12",
        technique="Lean 4 invariant proof over histories + correspondence with real threads",
        design="§5 C19"),
    "C07": dict(
        text="Byte-level Lean model of the child's report writer and the parent's stderr parser (split at \\n, "
             "bytes.split, Python int() grammar, header search, completeness test, UTF-8 validity). Theorems for all "
             "byte strings: round trip through any non-spoofing newline-terminated noise before and any bytes after, "
             "every strict prefix (every byte offset) of a report yields a communication error or - when only the final newline "
             "of a report without names is missing - the complete report (C07_truncation), no byte string makes the "
             "parser fail (C07_never_crash), spawn failure yields an error, int(str(n)) round trip. Tied to the code by running the real spawn_layer_in_subprocess on the same "
             "byte strings through a fake Popen and the real SubProcess.report; the property is monitored on the real outcome.",
        note="pipe EOF on child death, reaping and grandchildren holding the pipe are OS behaviour (not modelled); names "
             "are decoded with errors='replace' (D28); header-looking or unterminated noise before the report is KNOWN-FINDING D10",
        technique="Lean 4 theorems on byte-level model + differential correspondence through a fake Popen",
        design="§5 C07"),
    "C08": dict(
        text="Lean theorems over all pattern lists, names and match matrices (spec, permutation and duplicate "
             "invariance, monotonicity with the exact guards); model tied to build_filtering_func by exhaustive "
             "small-scope + random correspondence; the property's sentence is monitored on the real results. The glue "
             "in front of the predicate is modelled too (Model/Options = get_options' handling of -t, -m, the positional "
             "filters and the default ['.']): the predicate gets exactly the patterns given, ['.'] only when none was "
             "(C08O_test_given, C08O_module_given, C08O_test_kept), tied to the real get_options on every combination of "
             "0-2 option values and 0-2 positional filters; the uses of the predicate (--module gate before import, "
             "--test in tests_from_suite, --layer in Filter.global_setup) are run on generated trees and suites.",
        note="regex engine abstract (match matrix from CPython re); end-to-end use of the predicate is covered by C03",
        technique="Lean 4 theorems on hand-written model + differential correspondence with real build_filtering_func",
        design="§5 C08"),
    "C09": dict(
        text="Lean theorems for suite trees of any depth (mutual structural induction): every leaf appears once with "
             "the nearest level/layer declaration on its path, defaults (1, unit layer); the level predicate, --all, "
             "-u/-f/both and the child's --resume-layer selection as decision-logic theorems. Tied to the real "
             "tests_from_suite, find_tests, get_options and Filter.global_setup on generated trees and option vectors; "
             "the statement is monitored on the real results.",
        note="regex engine abstract (C08); --all is bounded by sys.maxsize (KNOWN-FINDING D14)",
        technique="Lean 4 theorems on hand-written model + differential correspondence with real discovery/filter code",
        design="§5 C09"),
    "C10": dict(
        text="Lean theorems for every well-founded layer graph and every input list: result is duplicate-free with "
             "exactly the requested members, bases precede derived layers, the unit layer is first, and (for "
             "injective names) every permutation of the input gives the same list; model tied to order_by_bases / "
             "gather_layers / layer_sort_key by exhaustive small DAGs + random DAGs; clauses monitored on real results. "
             "Runner.ordered_layers over registered names (Model/Ordered; several names may resolve to one layer object): "
             "every registered name is yielded exactly once with the layer it resolves to (C10N_names_once, "
             "C10N_layer_of_name), the names of a layer side by side and the layers in order_by_bases order (C10N_blocks, "
             "C10N_bases_first), independent of the order of registration (C10N_perm_invariant); tied to the real method "
             "on generated layer graphs with aliased names. Whole runs: layer run order of sequential, resumed and -j N "
             "runs of generated worlds, two runs in one process with layers named by dotted-name strings.",
        note="Python sorted() modelled as stable insertion sort; layer names injective (guard, witness proved); "
             "contiguity of a layer's tests is C03",
        technique="Lean 4 theorems on hand-written model + differential correspondence with real order_by_bases",
        design="§5 C10"),
    "C11": dict(
        text="Lean theorems for every index stream, list and layer dict: Fisher-Yates result is a permutation, layers "
             "keep their keys and only permute their own tests, the generated feature order puts Shuffle before "
             "Filter/SubProcess/Listing so every mode sees the same order (pipeline theorem over Generated/Facts), "
             "children use the parent's seed; tied to the real Shuffle.global_setup through the recorded index stream "
             "and to the real spawn/get_options for the seed hand-over.  Model/Handover is the command line on its way "
             "to a layer subprocess and back (spawn_layer_in_subprocess composes, Runner.configure takes apart): for every "
             "layer name, default list and user words the child recovers exactly name, number, defaults and the user's "
             "words behind the seed option (H_roundtrip, H_roundtrip_seed, H_seed_in_front, H_parent, H_cut_short, guard "
             "witnessed by H_default_first_witness); tied word for word to the two real functions.",
        note="RNG and float floor trusted (index stream recorded from the real code, bounds asserted); only CPython "
             "3.12.1 available; end-to-end list/run/-j agreement is exercised by the world runs of C03",
        technique="Lean 4 theorems on hand-written model + generated facts + differential correspondence",
        design="§5 C11"),
    "C20": dict(
        text="Lean step-machine model of the iterative Tarjan code (one step per loop iteration). Proved for every graph "
             "(no node listed twice, neighbour lists inside the node set), every iteration order of nodes and neighbours: "
             "the generator is exhausted within 3|V|+|E|+3 steps (C20_halts, potential function), its components together "
             "are a permutation of the nodes and two nodes share a component iff each reaches the other (C20_sccs: "
             "Tarjan's low-link invariants as an 11-clause inductive invariant over the step machine, inv3_step), and the "
             "default mode yields exactly the non-trivial components of sccs(True) in the same order "
             "(C20_default_mode); together the full statement C20_full. Tied to the code by identical emission "
             "sequences (component order and inner order) on all graphs with <= 3/4 nodes and random graphs; the "
             "theorems' hypotheses are checked on every real graph object; an independent SCC oracle monitors real output.",
        note="set iteration orders are read from the real objects and handed to the model; node keys are modelled as "
             "natural numbers (hashable, id()-keyed and unhashable-equal objects are exercised by the correspondence)",
        technique="Lean 4 invariant proof (Tarjan low-link invariants) on step-machine model + exact differential correspondence + oracle",
        design="§5 C20"),
}

NOT_APPLICABLE = {}

ALL = ["C%02d" % i for i in range(1, 21)]


def main():
    checks = []
    for pid in ALL:
        if pid not in CHECKS:
            continue
        c = CHECKS[pid]
        checks.append({
            "property_id": pid,
            "quick_cmd": "/venv/bin/python check.py %s --tier quick" % pid,
            "thorough_cmd": "/venv/bin/python check.py %s --tier thorough" % pid,
            "evidence_file": "evidence/%s.json" % pid,
            "replay_cmd_template": "/venv/bin/python check.py %s --replay {path}" % pid,
            "engine": "lean-ztr",
            "level_claimed": {"category": "proof", "text": c["text"], "design_ref": c["design"]},
            "level_note": c["note"],
            "technique": c["technique"],
        })
    na = []
    for pid in ALL:
        if pid not in CHECKS:
            na.append({"property_id": pid,
                       "reason": NOT_APPLICABLE.get(pid, "not yet built in this round: model/theorems/correspondence "
                                                    "for this property are planned in DESIGN.md but no check is registered yet")})
    m = {
        "version": 1,
        "setup_cmd": "/venv/bin/python check.py --setup",
        "hooks": {
            "guard": "ZOPE_TESTRUNNER_VERIF",
            "enable": "no source hooks are needed: observations come from generated test worlds and substituted "
                      "collaborators; checks export ZOPE_TESTRUNNER_VERIF=1 for form",
            "baseline_off_cmd": "cd /repo && /venv/bin/python -m pytest -ra -q -p no:cacheprovider --timeout=900 "
                                "--continue-on-collection-errors",
            "source_commits": [],
            "add_only": True,
        },
        "engines": [{
            "name": "lean-ztr", "path": "lean/",
            "serves_properties": [c["property_id"] for c in checks],
            "kind_free_text": "Lean 4 library (models, theorems, compiled model driver) + Python correspondence harness",
        }],
        "checks": checks,
        "not_applicable": na,
        "notes": "All checks: check.py <id> --tier quick|thorough. Exit 2 = internal error/timeout (no verdict).",
    }
    with open(os.path.join(HERE, "MANIFEST.json"), "w") as f:
        json.dump(m, f, indent=1)
        f.write("\n")


if __name__ == "__main__":
    main()
