#!/venv/bin/python
"""Builds corpus/<prop>/*.json from the failing inputs the checks found for the seeded changes
(seeded/<id>/replays/*.json, written by tools/seeded.py): the input part of each replay, so that every
check starts with the inputs that once exposed a defect.  Every corpus case must pass on the unchanged
tree (it is an input, not an expectation)."""
import glob
import json
import os

VERIF = os.path.dirname(os.path.dirname(os.path.abspath(__file__)))


def main():
    n = 0
    for d in sorted(glob.glob(os.path.join(VERIF, "seeded", "*"))):
        sid = os.path.basename(d)
        kept = 0
        for f in sorted(glob.glob(os.path.join(d, "replays", "*.json"))):
            r = json.load(open(f))
            if r.get("kind") != "violation" or kept >= 2:
                continue
            case = r.get("case") or {}
            prop = r.get("property")
            keep = None
            if "world" in case and "opts" in case:
                keep = {"type": "world", "world": case["world"], "opts": case["opts"], "label": case.get("label", "")}
            elif "tree" in case and "roots" in case and "keep" in case:
                keep = {"type": "bytecode", "tree": case["tree"], "roots": case["roots"], "keep": case["keep"],
                        "usecompiled": case["usecompiled"]}
            if keep is None:
                continue
            if keep["type"] == "world" and (keep["opts"].get("post_mortem") or keep["label"] in ("post-mortem", "buffer+post-mortem")):
                continue        # -D runs are decided by monitors of their own (no per-test windows in the trace)
            keep["from"] = sid
            keep["what"] = r.get("what", "")[:300]
            os.makedirs(os.path.join(VERIF, "corpus", prop), exist_ok=True)
            with open(os.path.join(VERIF, "corpus", prop, "%s-%d.json" % (sid, kept)), "w") as out:
                json.dump(keep, out, sort_keys=True)
            kept += 1
            n += 1
    print("corpus cases written:", n)


if __name__ == "__main__":
    main()
