#!/bin/bash
# import_seeded.sh Cxx : copy /tmp/wt/Cxx/_mut/m* to seeded/Cxx-m*/ and run tools/seeded.py on each
p=$1
for m in /tmp/wt/$p/_mut/m*; do
  [ -d "$m" ] || continue
  id=$p-$(basename $m)
  mkdir -p seeded/$id
  cp $m/patch.diff seeded/$id/
  cp $m/demo.* seeded/$id/ 2>/dev/null
  cp $m/README.md seeded/$id/ 2>/dev/null
  if [ ! -f seeded/$id/meta.json ]; then
    /venv/bin/python - "$p" "$id" <<'PY'
import json, sys, os
p, id = sys.argv[1], sys.argv[2]
readme = open("seeded/%s/README.md" % id).read() if os.path.exists("seeded/%s/README.md" % id) else ""
json.dump({"property": p, "source": "independent sub-agent given only the property text and a scratch worktree",
           "needs_to_manifest": "see README.md", "readme_head": readme[:400]}, open("seeded/%s/meta.json" % id, "w"), indent=1)
PY
  fi
  /venv/bin/python tools/seeded.py seeded/$id > /tmp/seed_$id.log 2>&1 &
done
wait
for m in /tmp/wt/$p/_mut/m*; do id=$p-$(basename $m); echo "== $id"; /venv/bin/python -c "
import json; r=json.load(open('seeded/$id/result.json')); print({k:r.get(k) for k in ('confirmed','demo_clean_exit','demo_mutant_exit','tests_lost','caught_by','with_failing_input')})"; done
