#!/venv/bin/python
"""result.json files rewritten by `seeded.py --skip-confirm` before it learnt to keep the confirmation fields: take those
fields from the newest committed version that has them."""
import glob, json, os, subprocess
V = os.path.dirname(os.path.dirname(os.path.abspath(__file__)))
KEYS = ("confirmed", "demo_clean_exit", "demo_mutant_exit", "demo_mutant_tail", "tests_lost", "tests_pass_clean")
n = 0
for f in sorted(glob.glob(os.path.join(V, "seeded", "*", "result.json"))):
    r = json.load(open(f))
    if "confirmed" in r:
        continue
    rel = os.path.relpath(f, V)
    revs = subprocess.run(["git", "-C", V, "log", "--format=%h", "--", rel], capture_output=True, text=True).stdout.split()
    for rev in revs:
        try:
            old = json.loads(subprocess.run(["git", "-C", V, "show", "%s:%s" % (rev, rel)], capture_output=True, text=True).stdout)
        except ValueError:
            continue
        if "confirmed" in old:
            for k in KEYS:
                if k in old:
                    r[k] = old[k]
            json.dump(r, open(f, "w"), indent=1, sort_keys=True)
            n += 1
            break
print("restored", n)
