#!/bin/bash
# run every registered quick (or $TIER) check on the unchanged tree for the given seeds; prints non-zero exits
cd "$(dirname "$0")/.."
TIER=${TIER:-quick}
for seed in "$@"; do
  for p in 01 02 03 04 05 06 07 08 09 10 11 12 13 14 15 16 17 18 19 20; do echo "$seed C$p"; done
done | xargs -P5 -L1 sh -c 'VERIF_SEED=$0 /venv/bin/python check.py $1 --tier '$TIER' > /tmp/clean_${TIER:-quick}_$0_$1.out 2> /tmp/clean_${TIER:-quick}_$0_$1.err; echo "seed $0 $1 exit $?"' | sort | grep -v "exit 0" ; echo "clean run done for seeds $@"
