"""Ground truth of a real run, computed from its trace (which test code ran) and the unittest
protocol (Model/Proto ops of each test): what was executed, failed, errored, skipped — independently
of anything the runner printed or counted."""
from harness import corr_world as cw

BAD_FAIL = ("addFailure", "addSubTest:fail", "addUnexpectedSuccess")
BAD_ERR = ("addError", "addSubTest:error")
SKIPS = ("addSkip", "addSubSkip")


class Window:
    def __init__(self, tid, nth=0):
        self.tid = tid
        self.nth = nth            # how many times this test has been entered before in this process
        self.phases = []
        self.complete = False


def windows(evs):
    """per-process list of test windows in execution order"""
    out = []
    cur = None
    seen = {}
    for e in evs:
        if e[0] == "tstart":
            cur = Window(e[1], seen.get(e[1], 0))
            seen[e[1]] = cur.nth + 1
            out.append(cur)
        elif e[0] == "tend" and cur is not None:
            cur.complete = True
            cur = None
        elif e[0] == "ph" and cur is not None:
            cur.phases.append(e[2])
    return out


def executed_ops(ops, phases):
    """the result calls that happened, given which code phases ran (all of them for a complete window)"""
    res = []
    n = 0
    for op in ops:
        if isinstance(op, list):
            if n >= len(phases):
                break
            n += 1
        else:
            res.append(op)
    return res


def calls_of(w, ops):
    """the result calls unittest made during window `w` (later runs of a flaky test use its calm script)"""
    script = ops[(w.tid, "calm")] if (w.nth > 0 and (w.tid, "calm") in ops) else ops[w.tid]
    return executed_ops(script, w.phases) if not w.complete else [o for o in script if isinstance(o, str)]


def window_counts(w, ops, tests):
    calls = calls_of(w, ops)
    return {
        "ran": tests[w.tid]["count"],
        "fail": sum(1 for c in calls if c in BAD_FAIL),
        "err": sum(1 for c in calls if c in BAD_ERR),
        "skip": sum(1 for c in calls if c in SKIPS),
        "bad": any(c in BAD_FAIL or c in BAD_ERR for c in calls),
    }


def layer_runs(c, evs, ops):
    """split a process trace into layer runs / iterations: [(layer idx, [window counts])] in order.
    A new group starts when the layer of the test changes or a test id repeats (next iteration)."""
    tests = {t["id"]: t for t in c.world["tests"]}
    groups = []
    seen = set()
    cur_layer = None
    for w in windows(evs):
        li = tests[w.tid]["layer"]
        if li != cur_layer or w.tid in seen:
            groups.append((li, []))
            seen = set()
            cur_layer = li
        seen.add(w.tid)
        groups[-1][1].append(window_counts(w, ops, tests))
    return groups


def any_bad(c, ops):
    """did anything go wrong anywhere, according to the traces?"""
    parent, children = cw.real_processes(c)
    tests = {t["id"]: t for t in c.world["tests"]}
    for evs in [parent] + list(children.values()):
        for e in evs:
            if e[0] == "lsu" and not e[2]:
                return "layer %d setUp raised" % e[1]
            if e[0] == "ltd" and e[2] == "raise":
                return "layer %d tearDown raised" % e[1]
        for w in windows(evs):
            if window_counts(w, ops, tests)["bad"]:
                return "test t%d had a failure or error" % w.tid
    if any(m.get("importError") for m in c.world["modules"].values()):
        return "import error"
    return None
