"""C02 — the verdict is 'failed' exactly when something went wrong, in every mode."""
import copy

from harness import corr_world as cw
from harness import truth
from harness import worlds

PROP = "C02"
LEAN_MODULE = "Ztr.Props.C02"
THEOREMS = ['Ztr.Runner.C02_run_verdict', 'Ztr.Runner.C02_verdict_iff_trace', 'Ztr.Runner.child_bad_iff_trace',
            'Ztr.Runner.counted_finalState', 'Ztr.Runner.C02_verdict', 'Ztr.Runner.C02_tearDown_outcomes',
            'Ztr.Runner.C02_notImplemented_is_not_an_error', 'Ztr.Runner.C02_child_channel',
            'Ztr.Channel.C07_truncation', 'Ztr.Channel.C07_spawn_failure', 'Ztr.Channel.C07_never_crash',
            'Ztr.Channel.C07_roundtrip']
RULE = ("worlds with bad outcomes of every kind placed at random (tests, layer setUp/tearDown failures, import "
        "errors, NotImplementedError tear-downs that are not errors), run in-process / with resumed children / -j N; "
        "children that die (os._exit(0), os._exit(3), SIGKILL, SIGSEGV) in a test phase or in a layer hook; tests that "
        "write report look-alikes to sys.stdout/sys.stderr and non-spoofing noise to fd 2. The CLI exit status is "
        "compared with the truth computed from the traces. Non-trivial = a run with children or a bad outcome; "
        "distinct by (world, options)")
ASSUMPTIONS = ["--list-tests, options.fail and DuplicateTestIDError are outside the statement",
               "fd-2 noise that parses as a report header is KNOWN-FINDING D10 (C07)"]
TRUSTED = ["CPython unittest 3.12.1 callback protocol (Model/Proto)", "OS process death / pipe EOF semantics (sampled)"]
KINDS = ("lsu", "ltd", "tstart", "tend")


def make_monitor(ctx):
    def monitor(c):
        ops = cw.test_ops(ctx, c.model_world if hasattr(c, "model_world") else c.world)
        died = [e for e in c.obs.events if e["ev"] == "die"]
        bad = truth.any_bad(c, ops)
        if died:
            bad = bad or "a child process died (%s)" % died[0]["how"]
        want = 1 if bad else 0
        if c.opts.get("post_mortem"):
            # (-D runs the tests through test.debug(): no per-test windows in the trace; these worlds' tests either
            # pass, skip, or fail/raise in their body)
            kinds = {t["id"]: t["kind"] for t in c.world["tests"]}
            hit = [e["t"] for e in c.obs.events if e.get("ev") == "ph" and e.get("ph") == ["body"]
                   and kinds.get(e["t"]) in ("fail", "error")]
            if hit:
                bad = "test t%d failed (%s)" % (hit[0], kinds[hit[0]])
                if c.obs.exit == 0:
                    return ("exit status 0 with -D although %s" % bad, "C02:post-mortem-pass")
                return None
        # "a test module could not be imported", in whichever process: a module whose import began and did not end
        begun, ended = {}, set()
        for e in c.obs.events:
            if e.get("ev") == "modimport":
                begun.setdefault((e["pid"], e["m"]), e)
            elif e.get("ev") == "modok":
                ended.add((e["pid"], e["m"]))
        broken = sorted({m for (pid, m) in begun if (pid, m) not in ended
                         and not c.world["modules"].get(m, {}).get("importError")})
        if broken and not died and not bad:
            bad = "test module(s) %r could not be imported in a process of the run" % broken
            want = 1
        if c.obs.exit != want:
            return ("exit status %r, but %s" % (c.obs.exit, bad or "nothing went wrong"), "C02:verdict")
        if c.obs.exit == 0 and c.groups is not None and not c.obs.timeout:
            # a run that passes has run every selected layer somewhere: a layer none of whose tests started in any
            # process is a layer whose subprocess was not started or whose report was lost
            started = {e["t"] for e in c.obs.events if e.get("ev") in ("tstart", "ph")}
            for li, ts in c.groups:
                if ts and not started & set(ts):
                    return ("exit status 0, but layer %s (tests %r) ran in no process: its subprocess was not started "
                            "or did not deliver a report" % (worlds.layer_name(c.world, li), sorted(ts)[:6]),
                            "C02:layer-lost")
        return None
    return monitor


def verdict_vs_model(ctx, c):
    """the exit status against `Model/Whole.wholeFailed` (the object of `C02_run_verdict`): parent and children
    composed in Lean"""
    if any(e["ev"] == "die" for e in c.obs.events):
        return
    q = dict(worlds.model_query(c.world, c.opts, c.groups, import_errors=c.import_errors), op="whole", lost=[])
    ans = ctx.driver.batch([q])[0]
    if "error" in ans:
        ctx.drift("runner.verdict", "driver error %s" % ans["error"], c.replay_obj())
        return
    ran, nf, ne, sk, failed = cw.model_totals(c)
    if bool(ans["failed"]) != bool(failed):
        ctx.drift("runner.whole", "Model/Whole says failed=%r, the composition of the per-process models %r"
                  % (ans["failed"], failed), c.replay_obj())
    elif (c.obs.exit == 1) != bool(ans["failed"]):
        ctx.drift("runner.verdict", "exit status %r, model failed=%r" % (c.obs.exit, ans["failed"]), c.replay_obj())


def gen_cases(ctx):
    rng = ctx.rng
    n = 70 if ctx.quick() else 2000
    cases = []
    for i in range(n):
        w = worlds.gen_world(rng, tests_per_layer=(0, 3), kinds=["pass"] * 6 + ["fail", "error", "uxsuccess", "subFail",
                             "errTearDown", "skipBody", "xfail", "skipDeco"], p_fault=0.2, p_write=0.0, import_errors=True)
        if rng.random() < 0.5:
            # a clean world: nothing goes wrong except possibly NotImplementedError tear-downs
            for t in w["tests"]:
                if t["kind"] not in ("pass", "skipBody", "xfail", "skipDeco"):
                    nt = worlds.gen_test(rng, t["id"], [1], kind="pass", p_write=0.0)
                    nt["layer"], nt["module"] = t["layer"], t["module"]
                    w["tests"][w["tests"].index(t)] = nt
            for l in w["layers"]:
                l["setUpRaises"] = []
                l["tearDownFaults"] = [f for f in l["tearDownFaults"] if f[1] == 2]
            w["modules"] = {k: v for k, v in w["modules"].items() if not v.get("importError")}
        if i % 9 == 4:
            # a layer (an "abstract" base layer, say) whose setUp raises NotImplementedError - or an OSError: a setUp that
            # raised is something that went wrong, whatever the class (only a tearDown may say "not supported")
            cand = [l for l in w["layers"] if l["kind"] != "unit" and l["setUp"]]
            if cand:
                l_ = rng.choice(cand)
                l_["setUpRaises"] = [rng.choice([0, 999999])]
                l_["excStyle"] = rng.choice(["notimpl", "notimpl", "oserror"])
        # noise that must not matter
        for t in w["tests"]:
            if rng.random() < 0.15:
                t["body"]["writes"] = [[rng.random() < 0.5, 3 * rng.randint(1, 30)]]
                # (a test that writes does not also close the stream it finds: writing to a stream one has closed is
                # an error of the test's own - false alarm of this check with seed 3, see DESIGN section 11)
                for p_ in cw.parts_of(t):
                    p_.pop("close", None)
            if rng.random() < 0.1:
                t["setUp"]["fd2"] = rng.choice(["warning: noise\n", "1 2\n", "a b c\n", "\n", "x" * 3000 + "\n",
                                                 "caf\xe9 latin-1 noise\n", "\xff\xfe\x00 binary\n", "3 0 0 trailing words\n"])
        o = worlds.gen_opts(rng, allow=("j", "verbose", "repeat", "buffer"))
        if rng.random() < 0.2:
            from harness import corr_c12
            corr_c12.make_flaky(rng, w, o)
        if any(m.get("importError") for m in w["modules"].values()) and rng.random() < 0.5:
            # a module that cannot be imported is "something went wrong" whatever the selection of tests is
            if w["tests"] and rng.random() < 0.6:
                o["test"] = ["t%d " % rng.choice(w["tests"])["id"]]
            else:
                o["only_level"] = rng.choice([2, 3])
        cases.append(cw.Case(w, o))
    cases += noisy_cases(ctx, 12 if ctx.quick() else 300)
    cases += stdin_cases(ctx, 3 if ctx.quick() else 40)
    cases += wrapper_cases(ctx, 8 if ctx.quick() else 80)
    # outcomes that depend on state surviving --repeat iterations: every bad part raises only the first time
    for i in range(8 if ctx.quick() else 200):
        w = worlds.gen_world(rng, n_layers=rng.choice([1, 2, 3]), tests_per_layer=(1, 3),
                             kinds=["pass", "pass", "fail", "error", "subFail", "errTearDown"], p_fault=0.0, p_write=0.0)
        for t in w["tests"]:
            t["expectFail"] = False
            for p_ in cw.parts_of(t):
                if p_.get("exc") in ("fail", "error"):
                    p_["once"] = True
        o = {"verbose": rng.choice([0, 1]), "processes": rng.choice([1, 1, 2]), "repeat": rng.choice([2, 3])}
        if rng.random() < 0.4:
            cand = [l for l in w["layers"] if l["kind"] != "unit" and l["tearDown"]]
            if cand:
                rng.choice(cand)["tearDownFaults"] = [[999999, 2]]
        cases.append(cw.Case(w, o))
    cases += death_cases(ctx, 16 if ctx.quick() else 300)
    cases += post_mortem_cases(ctx, 4 if ctx.quick() else 40)
    # tear-down faults of both kinds in one tear-down pass: a derived layer whose tearDown raises a real error, its
    # base signals NotImplementedError, another layer follows; nothing else goes wrong
    for i in range(6 if ctx.quick() else 80):
        w = worlds.gen_world(rng, n_layers=rng.choice([3, 4]), tests_per_layer=(1, 2), kinds=["pass"], p_fault=0.0, p_write=0.0)
        w.pop("sysPathObject", None)
        nonunit = [k for k, l in enumerate(w["layers"]) if l["kind"] != "unit"]
        if len(nonunit) < 3:
            continue
        for k in nonunit:
            w["layers"][k].update(kind="instance", module="wlayers", setUp=True, tearDown=True, setUpRaises=[],
                                  tearDownFaults=[], bases=[])
            w["layers"][k].pop("falsy", None)
        order = sorted(nonunit, key=lambda k: worlds.layer_name(w, k))
        base, derived = sorted(order[:2])       # the base must be created first
        w["layers"][derived]["bases"] = [base]
        w["layers"][base]["tearDownFaults"] = [[999999, 2]]
        w["layers"][derived]["tearDownFaults"] = [[0, 1]]
        if i % 3 == 2:
            # ... or the other way round: the error in the base, the derived layer cannot be torn down
            w["layers"][base]["tearDownFaults"] = [[0, 1]]
            w["layers"][derived]["tearDownFaults"] = [[999999, 2]]
        cases.append(cw.Case(w, {"verbose": rng.choice([0, 1, 2]), "processes": 1}, "teardown-faults"))
    return cases


def wrapper_cases(ctx, n):
    """the runner started through a wrapper script without suffix that extends sys.path; test modules import code
    that is found only there; layers resumed in subprocesses (one cannot be torn down) or run with -j N"""
    rng = ctx.rng
    cases = []
    for i in range(n):
        w = worlds.gen_world(rng, n_layers=rng.choice([3, 4]), tests_per_layer=(1, 3), p_fault=0.0, p_write=0.0,
                             kinds=["pass"] if i % 2 == 0 else ["pass", "pass", "fail", "error"],
                             layout={"modnames": ["tests", "pa.tests", "pb.tests"][:rng.choice([2, 3])]})
        w.pop("sysPathObject", None)
        # (not every module: the layers of a subprocess are found through the modules it can import)
        for name_ in rng.sample(sorted(w["modules"]), rng.choice([1, 1, len(w["modules"])])):
            w["modules"][name_]["needsHelper"] = True
        o = {"verbose": rng.choice([0, 1]), "processes": rng.choice([1, 2]), "wrapper": True}
        if o["processes"] == 1:
            # (no layer can be torn down: whichever runs first in the parent, the others are resumed)
            for l in w["layers"]:
                if l["kind"] != "unit":
                    l["setUp"] = l["tearDown"] = True
                    l["bases"] = []
                    l["tearDownFaults"] = [[999999, 2]]
        if i % 2 == 0:
            # directed: only "pa.tests" needs the extra path, and every layer also owns a test of "tests" - a subprocess
            # that lost the extra path still finds its layer, and silently loses the tests of pa.tests
            for m_ in w["modules"].values():
                m_.pop("needsHelper", None)
            w["modules"]["pa.tests"]["needsHelper"] = True
            nid = max([t["id"] for t in w["tests"]] + [0]) + 1
            for li, l in enumerate(w["layers"]):
                for mod_ in ("tests", "pa.tests"):
                    if l["kind"] == "unit" and mod_ == "pa.tests":
                        continue
                    t = worlds.gen_test(rng, nid, [9000 + nid], kind="pass" if (i % 4 == 0 or mod_ == "tests") else "fail", p_write=0.0)
                    for k in ("doctest", "rebind", "ownstream"):
                        t.pop(k, None)
                    t["layer"], t["module"] = li, mod_
                    w["tests"].append(t)
                    w["modules"][mod_]["suites"].append({"t": "leaf", "id": nid, "lyr": None if l["kind"] == "unit" else li})
                    nid += 1
            for t in w["tests"]:
                if w["layers"][t["layer"]]["kind"] == "unit" and t["module"] != "tests":
                    # (unit tests run in the parent; keep them out of the module under test)
                    pass
        cases.append(cw.Case(w, o, "wrapper-script"))
    return cases


def noisy_cases(ctx, n):
    """children that write raw fd-2 noise of every kind around a bad outcome, and failing tests whose captured stderr
    looks like a report header"""
    rng = ctx.rng
    cases = []
    for i in range(n):
        w = worlds.gen_world(rng, n_layers=rng.choice([2, 3]), tests_per_layer=(1, 3),
                             kinds=["pass", "pass", "fail", "error"], p_fault=0.0, p_write=0.0)
        for t in w["tests"]:
            if rng.random() < 0.6:
                rng.choice([t["setUp"], t["body"], t["tearDown"]])["fd2"] = rng.choice(
                    ["caf\xe9 latin-1 noise\n", "\xff\xfe\x00 binary\n", "3 0 0 trailing words\n", "warning\n",
                     "2026 09 29 12:00:01 worker started\n", "\x80\n", "store: entries hits misses 3 0 0\n",
                     "cache 1 0 0\n"])
        o = {"verbose": rng.choice([0, 1, 2]), "processes": rng.choice([2, 3])}
        if rng.random() < 0.35 or i % 5 == 0:
            # a failing test whose captured stderr looks like a report header (shown in its report under --buffer)
            bad_tests = [t for t in w["tests"] if t["kind"] in ("fail", "error") and w["layers"][t["layer"]]["kind"] != "unit"]
            if not bad_tests and i % 5 == 0:
                cand = [t for t in w["tests"] if w["layers"][t["layer"]]["kind"] != "unit" and not t.get("doctest")]
                if cand:
                    cand[0]["body"]["exc"] = "fail"
                    cand[0]["kind"] = "fail"
                    cand[0]["expectFail"] = False
                    bad_tests = [cand[0]]
            if bad_tests:
                rng.choice(bad_tests)["body"]["stderr_text"] = rng.choice(["7 0 0\n", "1 0 0\n", "12 0 0 \n"])
                o["buffer"] = True
        cases.append(cw.Case(w, o))
    return cases


def stdin_cases(ctx, n):
    """code under test that bound sys.stdin when it was imported and reads from it in a test: in a layer subprocess
    the real stdin is a pipe from the parent that nobody writes to; the run must terminate all the same"""
    rng = ctx.rng
    cases = []
    for i in range(n):
        w = worlds.gen_world(rng, n_layers=rng.choice([2, 3]), tests_per_layer=(1, 3), kinds=["pass", "pass", "fail"],
                             p_fault=0.0, p_write=0.0)
        victims = [t for t in w["tests"] if w["layers"][t["layer"]]["kind"] != "unit" and not t.get("doctest")]
        if not victims:
            continue
        rng.choice(victims)["body"]["readstdin"] = True
        o = {"verbose": rng.choice([0, 1]), "processes": rng.choice([2, 3]), "_timeout": 45}
        cases.append(cw.Case(w, o, "reads-stdin"))
    return cases


def death_cases(ctx, n):
    """children that die: at the OS level (os._exit, SIGKILL, SIGSEGV) in any test phase or layer hook, or through
    Python (SystemExit, MemoryError, KeyboardInterrupt out of a layer hook)"""
    rng = ctx.rng
    cases = []
    for i in range(n):
        w = worlds.gen_world(rng, n_layers=rng.choice([2, 3]), tests_per_layer=(1, 3), kinds=["pass"], p_fault=0.0,
                             p_write=0.0)
        victims = [t for t in w["tests"] if w["layers"][t["layer"]]["kind"] != "unit"]
        for _ in range(8):
            if victims or i != 1:
                break
            w = worlds.gen_world(rng, n_layers=rng.choice([2, 3]), tests_per_layer=(1, 3), kinds=["pass"], p_fault=0.0,
                                 p_write=0.0)
            victims = [t for t in w["tests"] if w["layers"][t["layer"]]["kind"] != "unit"]
        how = rng.choice(["exit0", "exit3", "sigkill", "segv", "linger"]) if i != 1 else "linger"
        if victims and (rng.random() < 0.55 or how == "linger"):
            t = rng.choice(victims)
            rng.choice([t["setUp"], t["body"], t["tearDown"]])["exc"] = how
        else:
            cand = [l for l in w["layers"] if l["kind"] != "unit" and l["setUp"] and l["tearDown"]]
            if not cand:
                continue
            # (also through Python: exceptions the runner lets through - SystemExit, MemoryError, KeyboardInterrupt)
            rng.choice(cand)[rng.choice(["dieInSetUp", "dieInTearDown"])] = rng.choice(
                ["exit0", "exit3", "pyexit0", "pyexit3", "pymemory", "pyinterrupt"])
        o = {"verbose": rng.choice([0, 1]), "processes": rng.choice([2, 3])}
        if rng.random() < 0.3:
            # a parent whose stdout cannot encode what the dying child wrote to stderr (the error banner quotes it)
            o["_env"] = {"PYTHONIOENCODING": "ascii"}
            o["verbose"] = rng.choice([1, 2])
            for t in w["tests"]:
                t.pop("label", None)
            if victims:
                rng.choice(victims)["setUp"]["fd2"] = rng.choice(["caf\xe9 na\xefve\n", "\xff\xfe\n"])
        cases.append(cw.Case(w, o, "child-dies"))
    return cases


def child_import_cases(ctx, n):
    """a test module that can be imported in the main process but not in a layer subprocess, and that holds all the
    tests of the layers it contributes to: the subprocess cannot find its layer - that is "a test module could not be
    imported" and "a subprocess did not deliver its report" at once, the verdict is 'failed'.  (A module that holds only
    some of a layer's tests is KNOWN-FINDING D45 and is not generated.)"""
    rng = ctx.rng
    cases = []
    for i in range(n * 4):
        if len(cases) >= n:
            break
        w = worlds.gen_world(rng, n_layers=rng.choice([2, 3]), tests_per_layer=(1, 3), kinds=["pass"], p_fault=0.0,
                             p_write=0.0)
        for m in sorted(w["modules"]):
            lays = {t["layer"] for t in w["tests"] if t["module"] == m}
            if lays and all(t["module"] == m for t in w["tests"] if t["layer"] in lays):
                w["modules"][m]["importErrorInChild"] = True
                cases.append(cw.Case(w, {"verbose": rng.choice([0, 1]), "processes": rng.choice([2, 3])}, "child-import"))
                break
    return cases


def run_cases(ctx, cases):
    cw.run_real_cases(ctx, cases)
    mon = make_monitor(ctx)
    normal = []
    for c in cases:
        if c.label == "child-import":
            ctx.count(c.replay_obj(), nontrivial=True, sample=cw.describe(c))
            ctx.bump("child-import")
            if not cw.sane_run(ctx, c, PROP):
                continue
            if c.obs.exit != 1:
                ctx.violation("exit status %r although a test module could not be imported in a layer subprocess (whose "
                              "layer has no other tests) (opts %r)" % (c.obs.exit, c.opts), c.replay_obj(),
                              signature="C02:child-import")
        elif c.label == "child-dies":
            ctx.count(c.replay_obj(), nontrivial=True, sample=cw.describe(c))
            ctx.bump("child-dies")
            if not cw.sane_run(ctx, c, PROP):
                continue
            c.model_world = strip_deaths(c.world)
            bad = mon(c)
            if bad:
                ctx.violation(bad[0] + " (opts %r)" % c.opts, c.replay_obj(), signature=bad[1] + ":death")
            elif "Could not communicate with subprocess" not in c.obs.stdout and any(e["ev"] == "die" for e in c.obs.events) \
                    and not c.opts.get("_env") and "subprocess for " not in c.obs.stdout:
                # (with a parent stdout that cannot encode what the child wrote, the banner itself may be cut short;
                # the verdict - checked above - and the error list are what counts)
                ctx.violation("a child died but no communication error was reported", c.replay_obj(), signature="C02:silent-death")
        else:
            normal.append(c)
    cw.standard_check_after_real(ctx, normal, PROP, KINDS, "runner.verdict", mon, extra=verdict_vs_model)


def strip_deaths(world):
    w = copy.deepcopy(world)
    for t in w["tests"]:
        for part in [t["setUp"], t["body"], t["tearDown"]]:
            if part.get("exc") in ("exit0", "exit3", "sigkill", "segv", "linger"):
                part["exc"] = None
    return w


def twice_same_cases(ctx, n):
    """the same tests run twice in one process (an embedding program, a watch mode): a layer whose setUp fails the first
    time only (a resource that is there the second time) - the second run has nothing that went wrong"""
    rng = ctx.rng
    for i in range(n):
        w = worlds.gen_world(rng, n_layers=rng.choice([2, 3]), tests_per_layer=(1, 2), kinds=["pass"], p_fault=0.0, p_write=0.0)
        cand = [l for l in w["layers"] if l["kind"] != "unit"]
        for l in cand:
            l.update(setUp=True, tearDown=True, setUpRaises=[], tearDownFaults=[])
            l.pop("falsy", None)
            for k_ in ("slowSetUp", "slowTearDown"):
                l.pop(k_, None)
        victim = rng.choice(cand)
        victim["setUpRaises"] = [0]
        victim["excStyle"] = rng.choice([None, "cause", "oserror"])
        for t in w["tests"]:
            for k_ in ("doctest", "rebind", "ownstream", "label"):
                t.pop(k_, None)
        o = {"verbose": rng.choice([0, 1])}
        res, err = cw.run_in_process(ctx, [(w, o), (w, o)], tag="same", same_dir=True)
        ctx.count(("twice-same", i, str(w)[:300]), nontrivial=True, sample=None)
        ctx.bump("same-world-twice-in-one-process")
        if res is None:
            ctx.notes.append("twice-same worker failed: %s" % err)
            continue
        exits = [r.exit for r in res]
        if exits != [1, 0] or any(r.exc for r in res):
            ctx.violation("the same world run twice in one process, a layer whose setUp raises the first time it is called "
                          "only: verdicts %r (1 = failed), expected [1, 0]; exceptions %r" % (exits, [r.exc for r in res]),
                          {"world": w, "opts": o, "stdout_second": res[-1].stdout[-1500:]}, signature="C02:second-run")


def run(ctx):
    twice_same_cases(ctx, 2 if ctx.quick() else 20)
    run_cases(ctx, cw.corpus_cases(PROP) + gen_cases(ctx) + child_import_cases(ctx, 3 if ctx.quick() else 40))
    # a child that cannot be started is "something went wrong" too
    from harness import corr_channel
    corr_channel.spawn_failure_cases(ctx)
    # ... and so is a child whose complete report arrives while its stderr stays open for a while
    corr_channel.slow_eof_cases(ctx)


def replay(ctx, obj):
    c = cw.replay_case(obj)
    if c is None:
        return run(ctx)
    run_cases(ctx, [c])


def post_mortem_cases(ctx, n):
    """-D/--post-mortem (the debugger prompt is answered with "c"): the verdict all the same"""
    rng = ctx.rng
    cases = []
    for i in range(n):
        w = worlds.gen_world(rng, n_layers=rng.choice([1, 2]), tests_per_layer=(1, 3),
                             kinds=["pass", "pass", "skipBody"] if i % 2 else ["pass", "error", "fail"], p_fault=0.0, p_write=0.0)
        for t in w["tests"]:
            for k in ("doctest", "rebind", "ownstream", "label"):
                t.pop(k, None)
        cases.append(cw.Case(w, {"verbose": 1, "post_mortem": True, "_stdin": "c\n" * 30, "_timeout": 60}, "post-mortem"))
    return cases


def probe_d34(ctx):
    import os
    import random
    import shutil
    rng = random.Random(11)
    w = worlds.gen_world(rng, n_layers=1, tests_per_layer=(2, 2), kinds=["fail"], p_fault=0.0, p_write=0.0)
    for t in w["tests"]:
        for k in ("doctest", "rebind", "ownstream", "label"):
            t.pop(k, None)
    d = os.path.join(ctx.tmp, "probe-d34")
    worlds.materialize(w, d)
    obs = worlds.run_real(w, {"verbose": 1, "post_mortem": True, "_stdin": "c\n" * 10, "_timeout": 60}, d)
    shutil.rmtree(d, ignore_errors=True)
    started = [e for e in obs.events if e.get("ev") == "ph"]
    return bool(started and obs.exit == 0 and "(Pdb)" in obs.stdout), (
        "-D: a failing test (the debugger is left with 'c') ends the run with exit status %r" % obs.exit)


def probe_d44(ctx):
    """a layer whose setUp calls sys.exit(0), in the main process"""
    import os
    import random
    import shutil
    rng = random.Random(44)
    w = worlds.gen_world(rng, n_layers=2, tests_per_layer=(1, 1), kinds=["pass"], p_fault=0.0, p_write=0.0)
    non_unit = sorted([k for k, l in enumerate(w["layers"]) if l["kind"] != "unit"], key=lambda k: worlds.layer_name(w, k))
    for k in non_unit:
        w["layers"][k].update(setUp=True, tearDown=True, bases=[], setUpRaises=[], tearDownFaults=[])
        w["layers"][k].pop("falsy", None)
    w["layers"][non_unit[-1]]["dieInSetUp"] = "pyexit0"
    d = os.path.join(ctx.tmp, "probe_d44")
    worlds.materialize(w, d)
    obs = worlds.run_real(w, {"verbose": 1}, d)
    shutil.rmtree(d, ignore_errors=True)
    reached = any(e.get("ev") == "die" for e in obs.events)
    return bool(reached and obs.exit == 0), (
        "a layer setUp that raises SystemExit(0) in the main process ends the run with exit status %r: the set-up did "
        "not succeed, its tests did not run, the verdict is 'passed'" % obs.exit)


def probe_d45(ctx):
    """a module that fails to import in a layer subprocess only, and holds SOME of the tests of its layer"""
    import os
    import random
    import shutil
    rng = random.Random(45)
    for _ in range(50):
        w = worlds.gen_world(rng, n_layers=2, tests_per_layer=(2, 3), kinds=["pass"], p_fault=0.0, p_write=0.0)
        pick = None
        for m in sorted(w["modules"]):
            lays = {t["layer"] for t in w["tests"] if t["module"] == m}
            others = [t for t in w["tests"] if t["layer"] in lays and t["module"] != m]
            # every layer the module contributes to has tests elsewhere too: each subprocess finds its layer
            if lays and all(any(t["layer"] == l and t["module"] != m for t in w["tests"]) for l in lays) and others:
                pick = m
                break
        if pick:
            break
    else:
        return False, "no witness world generated"
    w["modules"][pick]["importErrorInChild"] = True
    d = os.path.join(ctx.tmp, "probe_d45")
    worlds.materialize(w, d)
    obs = worlds.run_real(w, {"verbose": 1, "processes": 2}, d)
    shutil.rmtree(d, ignore_errors=True)
    broken = "cannot be imported in a layer subprocess" in obs.stdout + obs.stderr
    return bool(broken and obs.exit == 0), (
        "-j 2: a test module that cannot be imported in the layer subprocesses (it can in the main process) while its "
        "layers have tests in other modules too: the subprocesses print the import problem, the parent never learns of "
        "it - exit status %r" % obs.exit)


KNOWN_PROBES = {"D34": probe_d34, "D44": probe_d44, "D45": probe_d45}
