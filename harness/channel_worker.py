"""Worker for corr_channel: runs the real spawn_layer_in_subprocess on a scripted child whose *stdout*
is given, with a real result collector, in a process of its own (a parent that spins in C code cannot
be timed out from inside).  stdin = JSON {collector, stdout(list of ints), stderr(list of ints)}.
Prints one JSON line."""
import contextlib
import io
import json
import os
import queue
import sys
import threading

sys.path.insert(0, os.path.dirname(os.path.dirname(os.path.abspath(__file__))))
from harness import common  # noqa: E402
common.setup_env()
from harness import fakeproc  # noqa: E402


def main():
    case = json.loads(sys.stdin.read())
    from zope.testrunner import runner
    from zope.testrunner.formatter import OutputFormatter
    from zope.testrunner.options import get_options
    with contextlib.redirect_stdout(io.StringIO()):
        options = get_options(["prog", "-j2"] + (["-vv"] if case["collector"] == "keepalive" else []), [])
    options.testrunner_defaults = []
    options.original_testrunner_args = ["prog"]
    options.resume_layer = None
    options.resume_number = 0
    options.output = OutputFormatter(options)
    q = queue.Queue()
    cls = {"deferred": runner.DeferredSubprocessResult, "keepalive": runner.KeepaliveSubprocessResult,
           "immediate": runner.ImmediateSubprocessResult}[case["collector"]]
    out = io.TextIOWrapper(io.BytesIO(), encoding="utf-8", errors="backslashreplace", write_through=True)
    old = sys.stdout
    sys.stdout = out
    try:
        result = cls("m.L", q)
        fake = fakeproc.FakePopen({"stdout": bytes(case["stdout"]), "stderr": bytes(case["stderr"])})
        failures, errors = [], []
        exc = []

        def target():
            try:
                with fakeproc.patched_popen(fake):
                    runner.spawn_layer_in_subprocess(result, ["-m", "zope.testrunner"], options, [], "m.L", object(),
                                                     failures, errors, [], 1)
            except BaseException as e:  # noqa: BLE001
                exc.append(repr(e))
        t = threading.Thread(target=target)
        t.start()
        t.join()
    finally:
        sys.stdout = old
    kept = [list(x) for x in result.stdout]
    qd = []
    while not q.empty():
        qd.append(q.get())
    print(json.dumps({"exc": exc, "ran": result.num_ran, "done": result.done, "errors": [e[0] for e in errors],
                      "kept": kept, "queued": len(qd), "printed": list(out.buffer.getvalue())}))


if __name__ == "__main__":
    main()
