"""C05 — per-test layer hooks bracket every test."""
from harness import corr_world as cw
from harness import worlds

PROP = "C05"
LEAN_MODULE = "Ztr.Props.C05"
THEOREMS = ['Ztr.Proto.run_shape', 'Ztr.Result.runTest_bracket', 'Ztr.Result.C05_bracket', 'Ztr.Result.runTests_between', 'Ztr.Runner.C05_bases_first', 'Ztr.Runner.C05_mirrored', 'Ztr.Runner.C05_outside_untouched']
RULE = ("worlds whose layers log testSetUp/testTearDown and whose tests log setUp/body/subtests/tearDown/cleanups; all "
        "17 outcome kinds (pass, fail, error, skip by decorator / in setUp / in body / in tearDown / in a subtest, "
        "expected failure, unexpected success, failing subtests, errors in setUp/tearDown/cleanups) in random sequences, "
        "--repeat; Non-trivial = a layer stack of depth >= 2 with hooks; distinct by (world, options)")
ASSUMPTIONS = ["per-test hooks that raise abort the run (C18) and are outside this property's quantifier",
               "the unittest callback protocol is the one of CPython 3.12.1 (Model/Proto)"]
TRUSTED = ["CPython unittest 3.12.1 callback protocol (validated against plain unittest on every run)"]

KINDS = ("tsu", "ttd", "ph", "tstart", "tend")


def order_by_bases_real(world, l):
    from harness import corr_layers
    spec = [(("unit" if x["kind"] == "unit" else x["kind"]), (x["module"], x["name"]), x["bases"]) for x in world["layers"]]
    w = corr_layers.build_world(spec)
    from zope.testrunner import runner
    g = []
    runner.gather_layers(w.objs[l], g)
    return w.idx(runner.order_by_bases(g))


def monitor(c):
    w = c.world
    L = w["layers"]
    tests = {t["id"]: t for t in w["tests"]}
    parent, children = cw.real_processes(c)
    for pname, evs in [("parent", parent)] + [("child %r" % (k,), v) for k, v in children.items()]:
        evs = [e for e in evs if e[0] in KINDS]
        cur = None
        win = []
        for e in evs:
            if e[0] == "tstart":
                cur = e[1]
                win = []
            elif e[0] == "tend":
                bad = check_window(pname, L, tests[cur], win)
                if bad:
                    return bad
                cur = None
            elif cur is None:
                if e[0] in ("tsu", "ttd"):
                    return ("%s: %s of layer %d outside any test" % (pname, e[0], e[1]), "C05:outside")
            else:
                win.append(e)
    return None


def check_window(pname, L, t, win):
    ups = [e[1] for e in win if e[0] == "tsu"]
    downs = [e[1] for e in win if e[0] == "ttd"]
    phs = [e for e in win if e[0] == "ph"]
    stack = worlds.closure(L, t["layer"])
    want_up = sorted(x for x in stack if L[x]["testSetUp"])
    want_down = sorted(x for x in stack if L[x]["testTearDown"])
    if sorted(ups) != want_up:
        return ("%s: test t%d (layer %d, %s): testSetUp called on %r, the layers of its stack with the hook are %r"
                % (pname, t["id"], t["layer"], t["kind"], ups, want_up), "C05:setUp-set")
    if sorted(downs) != want_down:
        return ("%s: test t%d (layer %d, %s): testTearDown called on %r, the layers of its stack with the hook are %r"
                % (pname, t["id"], t["layer"], t["kind"], downs, want_down), "C05:tearDown-set")
    kinds = [e[0] for e in win]
    if kinds != ["tsu"] * len(ups) + ["ph"] * len(phs) + ["ttd"] * len(downs):
        return ("%s: t%d: hooks do not bracket the test: %r" % (pname, t["id"], kinds), "C05:bracket")
    pos = {x: k for k, x in enumerate(ups)}
    for x in ups:
        for b in worlds.closure(L, x):
            if b != x and b in pos and pos[b] > pos[x]:
                return ("%s: t%d: testSetUp of layer %d before its base %d" % (pname, t["id"], x, b), "C05:setUp-order")
    both = [x for x in ups if x in downs]
    if [x for x in downs if x in both] != list(reversed(both)):
        return ("%s: t%d: testTearDown order %r is not the reverse of the testSetUp order %r"
                % (pname, t["id"], downs, ups), "C05:mirror")
    dpos = {x: k for k, x in enumerate(downs)}
    for x in downs:
        for b in worlds.closure(L, x):
            if b != x and b in dpos and dpos[b] < dpos[x]:
                return ("%s: t%d: testTearDown of base %d before derived %d" % (pname, t["id"], b, x), "C05:tearDown-order")
    return None


def gen_cases(ctx):
    rng = ctx.rng
    n = 100 if ctx.quick() else 2500
    cases = []
    for i in range(n):
        w = worlds.gen_world(rng, tests_per_layer=(0, 4), p_fault=0.0, p_write=0.0)
        for l in w["layers"]:
            if l["kind"] != "unit" and rng.random() < 0.7:
                l["testSetUp"] = l["testTearDown"] = True
        if i % 5 == 0:
            # runs of consecutive decorator-skipped tests (no startTest on this Python) between other outcomes
            tok = [1000]
            lid = [k for k, l in enumerate(w["layers"]) if l["kind"] != "unit"]
            if lid:
                li = rng.choice(lid)
                base = max([t["id"] for t in w["tests"]] + [0]) + 1
                kinds = rng.choice([["skipDeco", "skipDeco"], ["pass", "skipDeco", "skipDeco", "skipDeco", "fail"],
                                    ["skipDeco", "skipDeco", "pass"], ["skipBody", "skipDeco", "skipDeco", "subSkip"]])
                m = next(iter(w["modules"]))
                for k, kind in enumerate(kinds):
                    t = worlds.gen_test(rng, base + k, tok, kind=kind, p_write=0.0)
                    t["layer"], t["module"] = li, m
                    w["tests"].append(t)
                # one suite, in this order
                w["modules"][m]["suites"].append({"t": "node", "lyr": li, "lvl": None,
                                                  "kids": [{"t": "leaf", "id": base + k} for k in range(len(kinds))]})
        o = worlds.gen_opts(rng, allow=("repeat",))
        o["verbose"] = rng.choice([0, 1, 2])
        label = None
        if i % 6 == 1:
            # layers of one stack that share their qualified name (classes a factory function returns, instances
            # created with one name): bases without tests of their own take the name of a layer derived from them
            used = set()
            for m in w["modules"].values():
                for st in m["suites"]:
                    acc = []
                    worlds.flat_leaves(st, 0, acc)
                    used.update(lyr for _, lyr, _ in acc)
            tops = [k for k in used if w["layers"][k]["kind"] != "unit" and w["layers"][k]["bases"]]
            if tops:
                top = rng.choice(sorted(tops))
                for a in sorted(worlds.closure(w["layers"], top)):
                    la = w["layers"][a]
                    if a != top and a not in used and la["kind"] != "unit" and not la.get("falsy"):
                        la["name"], la["module"] = w["layers"][top]["name"], w["layers"][top]["module"]
                        label = "same-name"
                o["repeat"] = rng.choice([1, 2, 3])
                o.pop("decor", None)
        if i % 6 == 2 and label is None:
            # tests of different layers that are instances of one class, in one suite
            if worlds.shape_shared_class(rng, w):
                label = "shared-class"
        cases.append(cw.Case(w, o, label or ""))
    return cases


def twice_cases(ctx):
    """the runner is used twice in one process (an embedding program, the runner's own tests): the second world's
    layers carry the same dotted names as the first one's but are other objects with other hooks and bases; the
    second run must bracket its tests with ITS layers' hooks"""
    import copy
    import json
    import os
    import shutil
    import subprocess
    from harness import common
    rng = ctx.rng
    cases = []
    for i in range(4 if ctx.quick() else 60):
        w1 = worlds.gen_world(rng, n_layers=rng.choice([2, 3, 4]), tests_per_layer=(1, 3),
                              kinds=["pass", "fail", "skipDeco", "error"], p_fault=0.0, p_write=0.0)
        w2 = copy.deepcopy(w1)
        for k, l in enumerate(w2["layers"]):
            if l["kind"] == "unit":
                continue
            # other hooks ...
            if l["kind"] == "instance":
                l["testSetUp"] = not l["testSetUp"]
                l["testTearDown"] = rng.random() < 0.7
            # ... and one more base, where that keeps the hierarchy legal
            earlier = [j for j in range(k) if w2["layers"][j]["kind"] == "instance" and j not in worlds.closure(w2["layers"], k)]
            if l["kind"] == "instance" and earlier and rng.random() < 0.7:
                l["bases"] = l["bases"] + [rng.choice(earlier)]
        if i % 2 == 0:
            # the tests name their layers by dotted-name strings (module.name), resolved anew in every run
            from harness import corr_layers
            for w_ in (w1, w2):
                for k_, l in enumerate(w_["layers"]):
                    if l["kind"] != "unit" and (not l["name"].isidentifier() or l["module"] == "wrt"):
                        l["module"], l["name"] = "wlayers", "Z%d" % k_
                w_["layerModules"] = True
                corr_layers.all_by_alias(w_, "canon")
        o = {"verbose": 1}
        d1 = os.path.join(ctx.tmp, "tw%04da" % i)
        d2 = os.path.join(ctx.tmp, "tw%04db" % i)
        worlds.materialize(w1, d1)
        worlds.materialize(w2, d2)
        runs = [{"dir": d, "args": worlds.cli_args(d, o)[2:], "trace": os.path.join(d, "trace.jsonl")} for d in (d1, d2)]
        env = dict(os.environ)
        env["PYTHONHASHSEED"] = "0"
        p = subprocess.run([common.PY, os.path.join(common.VERIF, "harness", "twice_worker.py")],
                           input=json.dumps({"runs": runs}).encode(), env=env, stdout=subprocess.PIPE,
                           stderr=subprocess.PIPE, timeout=180)
        c = cw.Case(w2, o, "second-run-in-process")
        try:
            res = json.loads(p.stdout.decode().strip().split("\n")[-1])["runs"]
        except Exception:  # noqa: BLE001
            ctx.drift("runner.twice", "worker failed: %s" % p.stderr.decode()[-400:], c.replay_obj())
            shutil.rmtree(d1, ignore_errors=True)
            shutil.rmtree(d2, ignore_errors=True)
            continue
        obs = worlds.Obs()
        obs.stdout = res[1]["stdout"]
        obs.exit = 1 if res[1]["failed"] else 0
        obs.timeout = False
        if res[1]["exc"]:
            obs.stderr = "Traceback (most recent call last): " + res[1]["exc"]
        worlds.load_trace(obs, runs[1]["trace"])
        obs.parent_pid = next(iter(obs.procs), None)
        c.obs = obs
        cases.append(c)
        shutil.rmtree(d1, ignore_errors=True)
        shutil.rmtree(d2, ignore_errors=True)
    cw.standard_check_after_real(ctx, cases, PROP, KINDS, "runner.hooks", monitor)


def post_mortem_cases(ctx):
    """-D/--post-mortem with a test that raises (the debugger prompt is answered with "c"): the per-test hooks are
    balanced per layer all the same - every testSetUp is followed by its testTearDown before the next one"""
    rng = ctx.rng
    cases = []
    for i in range(4 if ctx.quick() else 60):
        w = worlds.gen_world(rng, n_layers=rng.choice([2, 3]), tests_per_layer=(1, 3), kinds=["pass", "error", "fail"],
                             p_fault=0.0, p_write=0.0)
        for t in w["tests"]:
            for k in ("doctest", "rebind", "ownstream", "label"):
                t.pop(k, None)
        for l in w["layers"]:
            if l["kind"] != "unit":
                l["testSetUp"] = l["testTearDown"] = True
        # (a test that raises in a layer with per-test hooks, in every case)
        cand = [t for t in w["tests"] if w["layers"][t["layer"]]["kind"] != "unit"]
        if cand:
            t = rng.choice(cand)
            nt = worlds.gen_test(rng, t["id"], [1], kind=rng.choice(["error", "fail"]), p_write=0.0)
            nt["layer"], nt["module"] = t["layer"], t["module"]
            for k in ("doctest", "rebind", "ownstream", "label"):
                nt.pop(k, None)
            w["tests"][w["tests"].index(t)] = nt
        cases.append(cw.Case(w, {"verbose": 1, "post_mortem": True, "_stdin": "c\n" * 30, "_timeout": 60}, "post-mortem"))
    cw.run_real_cases(ctx, cases)
    for c in cases:
        ctx.count(c.replay_obj(), nontrivial=True, sample=None)
        ctx.bump("post-mortem")
        if not cw.sane_run(ctx, c, PROP):
            continue
        parent, children = cw.real_processes(c)
        bad = None
        for pname, evs in [("parent", parent)] + [("child %r" % (k,), v) for k, v in children.items()]:
            open_ = {}
            for e in evs:
                if e[0] == "tsu":
                    if open_.get(e[1]):
                        bad = "%s: testSetUp of layer %d is called again before its testTearDown" % (pname, e[1])
                        break
                    open_[e[1]] = True
                elif e[0] == "ttd":
                    if not open_.get(e[1]):
                        bad = "%s: testTearDown of layer %d without a testSetUp before it" % (pname, e[1])
                        break
                    open_[e[1]] = False
            if not bad and any(open_.values()):
                bad = "%s: layers %r saw testSetUp but never the matching testTearDown" % (
                    pname, sorted(k for k, v in open_.items() if v))
            if bad:
                break
        if bad:
            ctx.violation(bad + " (-D)", c.replay_obj(), signature="C05:post-mortem-unbalanced")


def run(ctx):
    cw.standard_check(ctx, cw.corpus_cases(PROP) + gen_cases(ctx), PROP, KINDS, "runner.hooks", monitor)
    twice_cases(ctx)
    post_mortem_cases(ctx)
    # the order of the per-test hooks is order_by_bases over gather_layers (C05_bases_first rests on C10_bases_first)
    from harness import corr_layers
    corr_layers.order_cases(ctx)
    proto_check(ctx)


def proto_check(ctx):
    """Model/Proto against plain unittest (no zope code): the recorded callback sequence of every
    outcome kind must equal the model's."""
    import sys
    import unittest
    import json
    import tempfile
    import os
    import importlib
    rng = ctx.rng
    tok = [1]
    tests = [worlds.gen_test(rng, i, tok, kind=k, p_write=0.0) for i, k in enumerate(worlds.OUTCOME_KINDS * 2)]
    for t in tests:
        t["layer"] = 0
        t["module"] = "tests"
    world = {"layers": worlds.gen_layers(rng, 0), "tests": tests, "modules": {"tests": {"suites": []}}}
    d = tempfile.mkdtemp(dir=ctx.tmp)
    worlds.materialize(world, d)
    sys.path.insert(0, d)
    old_trace = os.environ.pop("ZTR_TRACE", None)
    try:
        sys.modules.pop("wrt", None)
        wrt = importlib.import_module("wrt")
        model = cw.test_ops(ctx, world)

        class Rec(unittest.TestResult):
            def __init__(self):
                super().__init__()
                self.calls = []

            def startTest(self, test):
                self.calls.append("startTest")
                super().startTest(test)

            def stopTest(self, test):
                self.calls.append("stopTest")
                super().stopTest(test)

            def addSuccess(self, test):
                self.calls.append("addSuccess")

            def addFailure(self, test, err):
                self.calls.append("addFailure")

            def addError(self, test, err):
                self.calls.append("addError")

            def addSkip(self, test, reason):
                self.calls.append("addSubSkip" if type(test).__name__ == "_SubTest" else "addSkip")

            def addSubTest(self, test, subtest, err):
                if err is None:
                    self.calls.append("addSubTest:ok")
                else:
                    self.calls.append("addSubTest:fail" if issubclass(err[0], test.failureException)
                                      else "addSubTest:error")

            def addExpectedFailure(self, test, err):
                self.calls.append("addExpectedFailure")

            def addUnexpectedSuccess(self, test):
                self.calls.append("addUnexpectedSuccess")

        for t in tests:
            obj = wrt.make_test(t)
            rec = Rec()
            obj(rec)
            want = [op for op in model[t["id"]] if isinstance(op, str)]
            ctx.count(("proto", t["kind"], json.dumps(t, sort_keys=True)), sample=None)
            if rec.calls != want:
                ctx.drift("proto", "unittest called %r for a %s test, Model/Proto says %r" % (rec.calls, t["kind"], want),
                          {"test": t})
    finally:
        sys.path.remove(d)
        sys.modules.pop("wrt", None)
        if old_trace is not None:
            os.environ["ZTR_TRACE"] = old_trace


def replay(ctx, obj):
    c = cw.replay_case(obj)
    if c is None:
        return run(ctx)
    cw.standard_check(ctx, [c], PROP, KINDS, "runner.hooks", monitor)
