"""Correspondence of Model/Streams with the real capture code of TestResult (`_setUpStdStreams`,
`_restoreStdStreams`, `_takeBufferedOutput`, the stream juggling of `addSkip`): random and directed histories of
runner operations and of what test code can do to the standard streams (write, close the stream it finds, put a saved
stream back, install a stream of its own) are applied to a real TestResult object, in-process; after every operation
the observable state (which object is sys.stdout / sys.stderr, the flag, the held capture streams, what a restore
returned, what reached the original stream) is compared with the model's.  Monitors = the clauses of C13S_* on the
real states."""
import io
import re
import sys
import types
import unittest

COMPONENT = "streams.machine"


class Orig(io.StringIO):
    """the one original stream (installed as sys.stdout and sys.stderr before the result object is made)"""


def classify(res, registry, orig, stream):
    if stream is orig:
        return "orig"
    if res._stdout_buffer is not None and stream is res._stdout_buffer:
        return "bufOut"
    if res._stderr_buffer is not None and stream is res._stderr_buffer:
        return "bufErr"
    if any(stream is x for x in registry):
        return "stale"
    return "own"


def toks(text):
    return [int(x) for x in re.findall(r"TOK(\d+)K", text or "")]


def buf_state(b):
    if b is None:
        return None
    if b.closed:
        return [True, []]
    return [False, toks(b.getvalue())]


def real_history(buffer, ops):
    """-> list of observed states (same shape as the model's), or raises nothing: exceptions of runner operations are
    recorded as raised=True with the exception text"""
    from zope.testrunner import runner as zrunner
    from zope.testrunner.layer import UnitTests

    class Out:
        def __init__(self):
            self.seen = []

        def test_skipped(self, test, reason):
            self.seen.append((sys.stdout, sys.stderr))

    orig = Orig()
    saved = (sys.stdout, sys.stderr)
    sys.stdout = sys.stderr = orig
    states = []
    try:
        options = types.SimpleNamespace(buffer=buffer, output=Out(), post_mortem=False, stop_on_error=False, verbose=0)
        res = zrunner.TestResult(options, [], layer=UnitTests)
        res._test_state = {}
        registry = []          # capture stream objects in the order of their creation: index = generation
        owns = {}
        raised = False
        exc_text = None
        dummy = unittest.FunctionTestCase(lambda: None)

        def note_new():
            for b in (res._stdout_buffer, res._stderr_buffer):
                if b is not None and not any(b is x for x in registry):
                    registry.append(b)
        for op in ops:
            ret = None
            kind = op[0]
            try:
                if kind == "setUp":
                    res._setUpStdStreams()
                    note_new()
                elif kind == "restore":
                    r = res._restoreStdStreams()
                    ret = None if r == (None, None) else [toks(r[0]), toks(r[1])]
                elif kind == "skip":
                    res.addSkip(dummy, "reason")
                    if options.output.seen and any(s is not orig for s in options.output.seen[-1]) and buffer \
                            and res._std_streams_buffered:
                        exc_text = "the skip was reported while a standard stream was not the original one"
                elif kind == "write":
                    stream = sys.stdout if op[1] == "out" else sys.stderr
                    try:
                        stream.write("TOK%dK" % op[2])
                    except ValueError:
                        pass            # a closed stream: the test's own error
                elif kind == "close":
                    stream = sys.stdout if op[1] == "out" else sys.stderr
                    if type(stream).__name__ == "BufferedStandardStream":
                        stream.close()
                elif kind == "install":
                    ref = op[2]
                    if ref[0] == "orig":
                        target = orig
                    elif ref[0] == "buf":
                        target = registry[ref[1]]
                    else:
                        target = owns.setdefault(ref[1], io.StringIO())
                    if op[1] == "out":
                        sys.stdout = target
                    else:
                        sys.stderr = target
            except Exception as e:  # noqa: BLE001 - an exception out of a runner operation
                raised = True
                exc_text = "%s: %s" % (type(e).__name__, e)
            states.append({"out": classify(res, registry, orig, sys.stdout), "err": classify(res, registry, orig, sys.stderr),
                           "flag": bool(res._std_streams_buffered), "bufOut": buf_state(res._stdout_buffer),
                           "bufErr": buf_state(res._stderr_buffer), "ret": ret, "shown": toks(orig.getvalue()),
                           "raised": raised, "exc": exc_text})
    finally:
        sys.stdout, sys.stderr = saved
    return states


def gen_history(rng, n_ops):
    """a random history; the generation numbers of `install` operations are put in range by shadow_fix"""
    ops = []
    tok = 1
    for _ in range(n_ops):
        r = rng.random()
        if r < 0.18:
            ops.append(["setUp"])
        elif r < 0.40:
            ops.append(["restore"])
        elif r < 0.46:
            ops.append(["skip"])
        elif r < 0.66:
            ops.append(["write", rng.choice(["out", "err"]), tok])
            tok += 1
        elif r < 0.78:
            ops.append(["close", rng.choice(["out", "err"])])
        else:
            w = rng.choice(["out", "err"])
            k = rng.random()
            if k < 0.35:
                ref = ["orig"]
            elif k < 0.85:
                ref = ["buf", rng.randrange(8)]
            else:
                ref = ["own", rng.randrange(3)]
            ops.append(["install", w, ref])
    return ops


def shadow_fix(buffer, ops):
    """replay with a tiny shadow of the capture attributes so that every ["install", w, ["buf", g]] names an existing
    generation (g < number of streams created so far); out-of-range ones are clamped"""
    out = []
    created = 0
    attr = {"out": None, "err": None}       # [gen, closed] or None
    sysr = {"out": ("orig",), "err": ("orig",)}
    flag = False
    for op in ops:
        k = op[0]
        if k == "install" and op[2][0] == "buf":
            if created == 0:
                op = ["install", op[1], ["orig"]]
            else:
                op = ["install", op[1], ["buf", op[2][1] % created]]
        out.append(op)
        if not buffer:
            if k == "install":
                sysr[op[1]] = tuple(op[2])
            continue
        if k == "setUp":
            for slot in ("out", "err"):
                if attr[slot] is None:
                    attr[slot] = [created, False]
                    created += 1
                sysr[slot] = ("buf", attr[slot][0])
            flag = True
        elif k == "restore":
            acts = flag or any(attr[s] is not None and sysr[s] == ("buf", attr[s][0]) for s in ("out", "err"))
            if acts:
                flag = False
                for slot in ("out", "err"):
                    sysr[slot] = ("orig",)
                    if attr[slot] is not None and attr[slot][1]:
                        attr[slot] = None
        elif k == "skip":
            if flag:
                for slot in ("out", "err"):
                    sysr[slot] = ("buf", attr[slot][0])
        elif k == "close":
            r = sysr[op[1]]
            for slot in ("out", "err"):
                if attr[slot] is not None and r == ("buf", attr[slot][0]):
                    attr[slot][1] = True
        elif k == "install":
            sysr[op[1]] = tuple(op[2])
    return out


DIRECTED = [
    (True, [["setUp"], ["close", "out"], ["restore"], ["setUp"], ["write", "out", 1], ["restore"]]),
    (True, [["setUp"], ["close", "err"], ["restore"], ["install", "out", ["buf", 0]], ["restore"]]),
    (True, [["setUp"], ["close", "out"], ["restore"], ["install", "err", ["buf", 1]], ["restore"], ["setUp"], ["restore"]]),
    (True, [["setUp"], ["write", "out", 1], ["skip"], ["write", "err", 2], ["close", "out"], ["skip"], ["restore"]]),
    (True, [["setUp"], ["install", "out", ["own", 0]], ["write", "out", 1], ["restore"], ["install", "out", ["own", 0]], ["restore"]]),
    (True, [["setUp"], ["close", "out"], ["close", "err"], ["restore"], ["restore"], ["setUp"], ["write", "err", 1], ["restore"]]),
    (True, [["restore"], ["skip"], ["write", "out", 1], ["setUp"], ["install", "out", ["buf", 1]], ["write", "out", 2], ["restore"]]),
    (False, [["setUp"], ["write", "out", 1], ["close", "out"], ["skip"], ["restore"], ["install", "err", ["own", 1]], ["restore"]]),
]


def run_streams(ctx, n=None):
    rng = ctx.rng
    n = n if n is not None else (300 if ctx.quick() else 6000)
    cases = list(DIRECTED)
    for _ in range(n):
        buffer = rng.random() < 0.85
        ops = shadow_fix(buffer, gen_history(rng, rng.choice([4, 8, 12, 20, 40])))
        cases.append((buffer, ops))
    queries = [{"op": "streams", "buffer": b, "ops": ops} for b, ops in cases]
    answers = ctx.driver.batch(queries)
    for (buffer, ops), ans in zip(cases, answers):
        real = real_history(buffer, ops)
        case = {"buffer": buffer, "ops": ops, "real_last": real[-1] if real else None}
        ctx.count(("streams", buffer, str(ops)), nontrivial=any(o[0] == "close" for o in ops) and any(o[0] == "install" for o in ops),
                  sample=None)
        ctx.bump("stream-histories")
        ctx.bump("stream-ops", len(ops))
        # ---- monitors on the real states
        bad = None
        tame_so_far = True
        for k, (op, st) in enumerate(zip(ops, real)):
            if st["raised"]:
                bad = "operation %d (%s) of the runner raised %s" % (k, op[0], st["exc"])
                break
            if st.get("exc"):
                bad = st["exc"]
                break
            if op[0] == "install":
                slot_kind = st["out"] if op[1] == "out" else st["err"]
                if slot_kind not in ("orig", "bufOut" if op[1] == "out" else "bufErr"):
                    tame_so_far = False
            if op[0] == "restore" and buffer and tame_so_far and (st["out"] != "orig" or st["err"] != "orig"):
                bad = ("after _restoreStdStreams() (operation %d) sys.stdout is %s and sys.stderr is %s although the test "
                       "only ever put back streams it had found" % (k, st["out"], st["err"]))
                break
            if op[0] == "restore" and st["ret"] is not None:
                for name in ("bufOut", "bufErr"):
                    if st[name] is not None and (st[name][0] or st[name][1]):
                        bad = "after a restore that acted the result still holds a closed or non-empty capture stream (%s = %r)" % (name, st[name])
                if bad:
                    break
            if not buffer and op[0] in ("setUp", "restore", "skip") and k > 0 and \
                    (st["out"], st["err"]) != (real[k - 1]["out"], real[k - 1]["err"]):
                bad = "without --buffer the runner's %s changed the standard streams" % op[0]
                break
        if bad:
            ctx.violation("capture streams: " + bad + " (history %r)" % (ops[:k + 1],), case, signature="C13:streams-machine")
            continue
        # ---- correspondence
        if "error" in ans:
            ctx.drift(COMPONENT, "driver error %s" % ans["error"], case)
            continue
        for k, (op, st, ms) in enumerate(zip(ops, real, ans["states"])):
            mine = {key: st[key] for key in ("out", "err", "flag", "bufOut", "bufErr", "ret", "shown", "raised")}
            if mine != ms:
                diff = {key: (mine[key], ms[key]) for key in mine if mine[key] != ms[key]}
                ctx.drift(COMPONENT, "after operation %d (%r) real and model differ (real, model): %r; history %r" % (
                    k, op, diff, ops[:k + 1]), case)
                break


def run(ctx):
    run_streams(ctx)
