"""C11 — correspondence of Model/Shuffle with shuffle.Shuffle, monitors on the real results."""
import contextlib
import io
import types
import unittest

from harness import fakeproc

PROP = "C11"
LEAN_MODULE = "Ztr.Props.C11"
THEOREMS = [
    "Ztr.Shuffle.C11_perm", "Ztr.Shuffle.C11_small", "Ztr.Shuffle.C11_within_layer",
    "Ztr.Shuffle.shuffle_before_filter", "Ztr.Shuffle.shuffle_before_subprocess",
    "Ztr.Shuffle.shuffle_before_listing", "Ztr.Shuffle.find_before_shuffle",
    "Ztr.Shuffle.C11_same_in_every_mode", "Ztr.Shuffle.C11_order_matters",
    "Ztr.Shuffle.C11_children_same_seed", "Ztr.Shuffle.C11_rerun_reported",
    "Ztr.Handover.H_roundtrip", "Ztr.Handover.H_roundtrip_seed", "Ztr.Handover.H_seed_in_front",
    "Ztr.Handover.H_parent", "Ztr.Handover.H_cut_short", "Ztr.Handover.H_default_first_witness",
]
LEAN_DEPS = ["Ztr.Props.C11Handover"]
RULE = ("seeds (0, small, negative, 2**63, random) x dicts of 0..6 layers (names in random insertion order) with 0..40 "
        "tests each; the real Shuffle.global_setup runs on a stub runner with math.floor wrapped to record the index "
        "stream; non-trivial = some layer has >= 2 tests; distinct by (seed, layer sizes, names). Seed hand-over: "
        "real spawn_layer_in_subprocess with a fake Popen, child argv parsed by the real get_options.  Command-line "
        "hand-over (Model/Handover): layer names, default lists and user words over an alphabet that contains "
        "'--default', '--resume-layer', '--', '' and option-looking words; the real spawn_layer_in_subprocess composes "
        "(fake Popen), the real Runner.configure takes apart (get_options replaced by a recorder), both compared with "
        "the model word for word; random word lists (also ill-formed child command lines) go to configure as well.")
ASSUMPTIONS = [
    "random.Random(seed).random() is a deterministic function of the seed (stdlib guarantee); the index stream "
    "floor(r*(i+1)) is recorded from the real code, and 0 <= j <= i is asserted at run time",
    "only CPython 3.12.1 is available: 'every supported Python version' is not exercised",
]
TRUSTED = ["CPython random / float multiplication / math.floor"]

LAYER_NAMES = ["zope.testrunner.layer.UnitTests", "m.A", "m.B", "m.AB", "a.Z", "m.sub.A", "m.Ä", "n.A", "M.A"]


class T(unittest.TestCase):
    def __init__(self, ident):
        super().__init__()
        self.ident = ident

    def runTest(self):
        pass


class FalsyT(T):
    """a test case that is also a container (class TestStack(Stack, unittest.TestCase)): empty, hence false"""

    def __len__(self):
        return 0


def mk_test(i):
    return FalsyT(i) if i % 5 == 2 else T(i)


class Output:
    def __init__(self):
        self.infos = []

    def info(self, msg):
        self.infos.append(msg)


class FloorRecorder:
    def __init__(self):
        import math
        self._math = math
        self.js = []

    def __getattr__(self, k):
        return getattr(self._math, k)

    def floor(self, x):
        j = self._math.floor(x)
        self.js.append(j)
        return j


def real_options(seed, resume_layer=None):
    """a real options object (every attribute the code may read exists), as a parent or as the child for
    `resume_layer`"""
    from zope.testrunner.options import get_options
    with contextlib.redirect_stdout(io.StringIO()):
        options = get_options(["prog", "--shuffle", "--shuffle-seed=%d" % seed], [])
    options.resume_layer = resume_layer
    options.resume_number = 0 if resume_layer is None else 1
    options.testrunner_defaults = []
    return options


def real_shuffle(layers, seed, resume_layer=None):
    """layers: list of (name, [ids]) in dict insertion order.  Returns (result layers, js, reported)."""
    from zope.testrunner import shuffle
    out = Output()
    runner = types.SimpleNamespace()
    runner.options = real_options(seed, resume_layer)
    runner.options.output = out
    runner.tests_by_layer_name = {}
    for name, ids in layers:
        runner.tests_by_layer_name[name] = unittest.TestSuite([mk_test(i) for i in ids])
    feat = shuffle.Shuffle(runner)
    rec = FloorRecorder()
    old = shuffle.math
    shuffle.math = rec
    try:
        feat.global_setup()
    finally:
        shuffle.math = old
    feat.report()
    res = [(name, [t.ident for t in suite]) for name, suite in runner.tests_by_layer_name.items()]
    return res, rec.js, out.infos, feat.seed


def gen_layers(rng):
    k = rng.choice([0, 1, 1, 2, 3, 4, 6])
    names = rng.sample(LAYER_NAMES, k)
    layers = []
    nid = 0
    for n in names:
        size = rng.choice([0, 1, 2, 2, 3, 5, 8, 13, 40])
        layers.append((n, list(range(nid, nid + size))))
        nid += size
    return layers


SEEDS = [0, 1, -1, 7, 2 ** 63, -(2 ** 40), 123456789]


def run(ctx):
    n = 300 if ctx.quick() else 6000
    cases = []
    for k in range(n):
        seed = SEEDS[k % len(SEEDS)] if k < 4 * len(SEEDS) else ctx.rng.randint(-2 ** 64, 2 ** 64)
        cases.append((gen_layers(ctx.rng), seed))
    reals = []
    queries = []
    kept = []
    for layers, seed in cases:
        try:
            res, js, infos, used = real_shuffle(layers, seed)
        except Exception as e:  # noqa: BLE001 - a shuffle that raises has not permuted anything: a failing input
            ctx.violation("--shuffle (seed %r) raises %s: %s for the layers %r (name, number of tests)" % (
                seed, type(e).__name__, e, [(n_, len(ids)) for n_, ids in layers]),
                {"seed": seed, "layers": layers, "error": "%s: %s" % (type(e).__name__, e)}, signature="shuffle-raises")
            continue
        kept.append((layers, seed))
        reals.append((res, js, infos, used))
        queries.append({"op": "shuffle", "js": js,
                        "layers": [[[ord(c) for c in n_], ids] for n_, ids in layers]})
    cases = kept
    answers = ctx.driver.batch(queries)
    for (layers, seed), (res, js, infos, used), ans in zip(cases, reals, answers):
        case = {"layers": layers, "seed": seed, "real": res, "js": js, "model": ans}
        ctx.count((seed, tuple((n_, len(i)) for n_, i in layers)),
                  nontrivial=any(len(i) >= 2 for _, i in layers),
                  sample={"seed": seed, "layers": layers, "real": res})
        ctx.bump("layers=%d" % len(layers))
        ctx.bump("draws", len(js))
        # monitors (the property on the real result)
        if [n_ for n_, _ in res] != [n_ for n_, _ in layers]:
            ctx.violation("layer keys changed: %r" % (res,), case, signature="keys")
            continue
        bad = [n_ for (n_, a), (_, b) in zip(res, layers) if sorted(a) != sorted(b)]
        if bad:
            ctx.violation("layer %s is not a permutation of its own tests" % bad, case, signature="perm")
            continue
        if used != seed or not any(str(seed) in m for m in infos):
            ctx.violation("seed used/reported %r %r differs from the seed given %r" % (used, infos, seed), case,
                          signature="seed-report")
            continue
        res2, _, _, _ = real_shuffle(layers, seed)
        if res2 != res:
            ctx.violation("same seed, same tests, different order", case, signature="nondeterministic")
            continue
        # order must not depend on dict insertion order of the layers
        rev = list(reversed(layers))
        res3, _, _, _ = real_shuffle(rev, seed)
        if dict(res3) != dict(res):
            ctx.violation("order depends on discovery order of the layers", case, signature="layer-order")
            continue
        # a child process (--resume-layer) must arrive at the parent's order for its layer (it shuffles
        # before the filter drops the other layers)
        bad_child = None
        for name, ids in res:
            if len(ids) < 2:
                continue
            res4, _, _, _ = real_shuffle(layers, seed, resume_layer=name)
            if dict(res4).get(name) != ids:
                bad_child = (name, dict(res4).get(name))
                break
        if bad_child:
            ctx.violation("the child process for layer %s orders its tests %r, the parent / listing / sequential run "
                          "orders them %r (seed %r)" % (bad_child[0], bad_child[1], dict(res)[bad_child[0]], seed),
                          case, signature="child-order")
            continue
        # index stream within bounds, expected length
        want = sum(max(0, len(i) - 1) for _, i in layers)
        if len(js) != want:
            ctx.drift("shuffle.draws", "drew %d indices, model expects %d" % (len(js), want), case)
            continue
        if "error" in ans:
            ctx.drift("shuffle", "driver error %s" % ans["error"], case)
            continue
        model = [("".join(chr(c) for c in n_), ids) for n_, ids in ans["layers"]]
        if model != [(n_, ids) for n_, ids in res]:
            ctx.drift("shuffle", "model %r real %r" % (model, res), case)
    seed_handover(ctx)
    handover_model(ctx)
    # end to end: one seed, every mode (listing with and without -j, sequential, -j N)
    from harness import corr_c03
    corr_c03.shuffle_modes(ctx)
    noise_cases(ctx)
    path_order_cases(ctx)


def noise_cases(ctx):
    """"seed-determined": the order for a seed does not depend on what other threads of the process do with the
    `random` module while the shuffle runs (test modules are imported - and may have started threads - before it)"""
    import random as _random
    import sys
    import threading
    rng = ctx.rng
    stop = threading.Event()

    def noise():
        while not stop.is_set():
            _random.random()
    for k in range(3 if ctx.quick() else 20):
        layers = [("wl.L%d" % i, list(range(i * 1000, i * 1000 + rng.choice([150, 300])))) for i in range(rng.choice([2, 3]))]
        seed = rng.randint(0, 10 ** 9)
        state0 = _random.getstate()
        ref = real_shuffle(layers, seed)[0]
        if _random.getstate() != state0:
            ctx.violation("seed %d: the shuffle reads or re-seeds the random module's shared generator (its state changed): "
                          "the order depends on every other user of `random`" % seed,
                          {"seed": seed, "sizes": [len(x[1]) for x in layers]}, signature="C11:shared-generator")
            continue
        stop.clear()
        th = threading.Thread(target=noise, daemon=True)
        old_int = sys.getswitchinterval()
        sys.setswitchinterval(1e-6)
        th.start()
        try:
            got = [real_shuffle(layers, seed)[0] for _ in range(3)]
        finally:
            stop.set()
            th.join()
            sys.setswitchinterval(old_int)
        ctx.count(("noise", seed, len(layers)), nontrivial=True, sample=None)
        ctx.bump("noise-thread")
        if any(g != ref for g in got):
            ctx.violation("seed %d: the shuffled order changes when another thread uses the random module during the "
                          "shuffle" % seed, {"seed": seed, "sizes": [len(x[1]) for x in layers]},
                          signature="C11:shared-generator")


def path_order_cases(ctx):
    """the order in which the search paths are walked (it decides the order of the tests before the shuffle, in every
    process of the run) is the order given on the command line, --test-path entries first: it must not depend on the
    interpreter's hash seed"""
    import json as _json
    import os as _os
    import subprocess as _subprocess
    from harness import common as _common
    code = ("import sys, json, contextlib, io\n"
            "from zope.testrunner.options import get_options\n"
            "with contextlib.redirect_stdout(io.StringIO()):\n"
            "    o = get_options(['prog'] + sys.argv[1:], [])\n"
            "print(json.dumps([p for p, pkg in o.test_path]))\n")
    roots = ["/r/alpha", "/r/beta", "/r/gamma", "/r/delta"]
    for args, want in ((["--path", roots[0], "--path", roots[1], "--path", roots[2], "--path", roots[3]], roots),
                       (["--path", roots[2], "--test-path", roots[1], "--path", roots[0]], [roots[1], roots[2], roots[0]]),
                       (["--test-path", roots[3], "--test-path", roots[0], "--path", roots[1]], [roots[3], roots[0], roots[1]])):
        for hs in ("0", "1", "7"):
            env = dict(_os.environ)
            env["PYTHONHASHSEED"] = hs
            pr = _subprocess.run([_common.PY, "-c", code] + args, env=env, stdout=_subprocess.PIPE, stderr=_subprocess.PIPE,
                                 timeout=60)
            ctx.count(("path-order", tuple(args), hs), sample=None)
            ctx.bump("path-order")
            try:
                got = _json.loads(pr.stdout.decode().strip().split("\n")[-1])
            except Exception:  # noqa: BLE001
                ctx.drift("options.test_path", "get_options failed: %s" % pr.stderr.decode()[-300:], {"args": args})
                continue
            if got != want:
                ctx.violation("options %r (PYTHONHASHSEED=%s): the search paths are walked in the order %r, given were %r"
                              % (args, hs, got, want), {"args": args, "hashseed": hs, "got": got},
                              signature="C11:path-order")
                break


def seed_handover(ctx):
    """children must shuffle with the seed the parent used (and reported)"""
    from zope.testrunner import runner as zrunner
    from zope.testrunner import shuffle
    from zope.testrunner.options import get_options
    variants = [["--shuffle"], ["--shuffle", "--shuffle-seed", "42"], ["--shuffle-seed", "7", "--shuffle"],
                ["--shuffle", "-j2"], ["--shuffle", "mod", "tst"], ["--shuffle", "--shuffle-seed=-3"],
                ["--shuffle", "--shuffle-seed=-1"], ["--shuffle-seed=%d" % -(2 ** 40), "--shuffle"],
                ["--shuffle", "--shuffle-seed", str(2 ** 70 + 1)], ["--shuffle", "--", "mod"], ["--shuffle", "-j2", "--", "mod", "tst"]]
    for extra in variants:
        args = ["prog"] + extra
        with contextlib.redirect_stdout(io.StringIO()):
            options = get_options(list(args), [])
        options.testrunner_defaults = []
        options.resume_layer = None
        options.resume_number = None
        rn = types.SimpleNamespace(options=options, tests_by_layer_name={})
        parent = shuffle.Shuffle(rn)
        fake = fakeproc.FakePopen({"stdout": b"", "stderr": b"0 0 0\n"})
        errors = []
        with fakeproc.patched_popen(fake), contextlib.redirect_stdout(io.StringIO()):
            zrunner.spawn_layer_in_subprocess(fakeproc.SinkResult(), ["-m", "zope.testrunner"], options, [],
                                              "m.A", object(), [], errors, [], 1)
        argv = fake.calls[0]
        # the child: configure() pops --resume-layer NAME N and --default pairs, then get_options
        i = argv.index("--resume-layer")
        child_args = ["prog"] + argv[i + 3:]
        try:
            with contextlib.redirect_stdout(io.StringIO()), contextlib.redirect_stderr(io.StringIO()):
                copts = get_options(child_args, [])
        except SystemExit as e:
            ctx.violation("the child of %r is started with arguments it cannot parse (%r): exit %r" % (args, argv[i:], e.code),
                          {"parent_args": args, "child_argv": argv}, signature="child-args")
            continue
        child = shuffle.Shuffle(types.SimpleNamespace(options=copts, tests_by_layer_name={}))
        ctx.count(("handover", tuple(extra)), sample={"parent_args": args, "child_argv": argv[i:],
                                                      "parent_seed": parent.seed, "child_given": copts.shuffle_seed})
        case = {"parent_args": args, "child_argv": argv, "parent_seed": parent.seed,
                "child_given": copts.shuffle_seed}
        if copts.shuffle_seed is None or child.seed != parent.seed or not copts.shuffle:
            ctx.violation("child of %r would shuffle with its own seed (given %r) instead of the parent's %r"
                          % (args, copts.shuffle_seed, parent.seed), case, signature="child-seed")


WORDS = {0: "--resume-layer", 1: "--default", 2: "-t", 3: "foo", 4: "--shuffle", 5: "--", 6: "", 7: "m.A",
         8: "--default=x", 9: "--shuffle-seed=5", 10: "-vv", 11: "zope.testrunner.layer.UnitTests", 12: "--defaults",
         13: "seven", 14: " --default", 15: "--resume-layer=m.A", 16: "1e3", 17: "0x10", 18: "m.B c"}


def _word(c):
    return str(c - 1000) if c >= 1000 else WORDS.get(c, "<word %d>" % c)


def _code(w):
    for c, x in WORDS.items():
        if x == w:
            return c
    try:
        return 1000 + int(w)
    except ValueError:
        return 999          # a word the composer made up (not of the alphabet): the model will disagree


class _Captured(Exception):
    pass


def _real_configure(given, words):
    """Runner.configure up to its call of get_options: (resume, defaults, args) or the exception raised"""
    import sys
    from zope.testrunner import runner as zrunner

    def recorder(args, defaults):
        raise _Captured(list(args), list(defaults))
    r = zrunner.Runner(defaults=list(given), args=["prog"] + list(words))
    saved_stdin, saved_get = sys.stdin, zrunner.get_options
    zrunner.get_options = recorder
    try:
        r.configure()
    except _Captured as c:
        args, defaults = c.args
        return {"raises": False, "args": args[1:], "defaults": defaults, "prog": args[0]}
    except (IndexError, ValueError) as e:
        return {"raises": True, "exc": type(e).__name__}
    finally:
        zrunner.get_options = saved_get
        sys.stdin = saved_stdin
    return {"raises": True, "exc": "configure returned without calling get_options"}


def handover_model(ctx):
    """Model/Handover against the real composer (spawn_layer_in_subprocess) and the real Runner.configure"""
    import random
    from zope.testrunner import runner as zrunner
    from zope.testrunner.options import get_options
    rng = random.Random(ctx.seed * 7919 + 17)
    alphabet = sorted(WORDS)
    n = 150 if ctx.quick() else 1500
    with contextlib.redirect_stdout(io.StringIO()):
        base = get_options(["prog"], [])
    base.resume_layer = base.resume_number = None

    def words(k, heavy=()):
        pool = alphabet + list(heavy) * 4 + [1000 + rng.randrange(0, 40)]
        return [rng.choice(pool) for _ in range(k)]
    cases = []
    for i in range(n):
        name = rng.choice(alphabet)
        num = rng.randrange(0, 12)
        defaults = words(rng.choice([0, 0, 1, 2, 3]), heavy=(0, 1))
        seed = 9 if rng.random() < 0.4 else None
        user = words(rng.choice([0, 1, 2, 4]), heavy=(1, 5))
        # the parent's own option parser rejects '--default' as an argument: such command lines never reach the composer
        if seed is None and user[:1] == [1]:
            user[0] = 14 if i % 2 else 8
        cases.append((name, num, defaults, seed, user))
    # directed: names and defaults that are protocol words, a seed in front of '--default'
    cases += [(1, 0, [], None, []), (0, 1, [1, 0], None, [5, 3]), (1, 2, [1], 9, [1, 3, 5]), (6, 3, [6], None, [6]),
              (7, 4, [5], 9, [5, 1])]
    q1 = [{"op": "handover", "mode": "compose", "name": nm, "num": k, "defaults": ds, "seed": sd, "user": us}
          for nm, k, ds, sd, us in cases]
    a1 = ctx.driver.batch(q1)
    tails = []
    for (nm, k, ds, sd, us), ans in zip(cases, a1):
        base.testrunner_defaults = [_word(c) for c in ds]
        base.shuffle = sd is not None
        base.shuffle_seed = 5 if sd is not None else None
        base.original_testrunner_args = ["prog"] + [_word(c) for c in us]
        fake = fakeproc.FakePopen({"stdout": b"", "stderr": b"0 0 0\n"})
        with fakeproc.patched_popen(fake), contextlib.redirect_stdout(io.StringIO()):
            zrunner.spawn_layer_in_subprocess(fakeproc.SinkResult(), ["-m", "zope.testrunner"], base, [],
                                              _word(nm), object(), [], [], [], k)
        argv = fake.calls[0]
        real_tail = argv[3:]          # behind [sys.executable, '-m', 'zope.testrunner']
        case = {"name": _word(nm), "num": k, "defaults": base.testrunner_defaults, "seed": sd is not None,
                "user": base.original_testrunner_args[1:], "real_argv": argv, "model": ans}
        ctx.count(("handover-compose", nm, k, tuple(ds), sd, tuple(us)), nontrivial=bool(ds or us), sample=None)
        ctx.bump("handover-compose")
        tails.append(real_tail)
        if "error" in ans:
            ctx.drift("handover.compose", "driver error %s" % ans["error"], case)
            continue
        if [_word(c) for c in ans["tail"]] != real_tail or argv[:3] != [__import__("sys").executable, "-m", "zope.testrunner"]:
            ctx.drift("handover.compose", "child command line %r, model %r" % (real_tail, [_word(c) for c in ans["tail"]]), case)
    # the way back: the composed lines, and arbitrary word lists (cut, ill-formed, not a child's at all)
    back = [([], [_code(w) for w in t]) for t in tails]
    for i in range(n):
        ws = words(rng.choice([0, 1, 2, 3, 5, 8]), heavy=(0, 1))
        if rng.random() < 0.6:
            ws = [0] + ws
        back.append((words(rng.choice([0, 1, 2])), ws))
    q2 = [{"op": "handover", "mode": "configure", "given": g, "args": ws} for g, ws in back]
    a2 = ctx.driver.batch(q2)
    for k, ((g, ws), ans) in enumerate(zip(back, a2)):
        real = _real_configure([_word(c) for c in g], [_word(c) for c in ws])
        case = {"given": [_word(c) for c in g], "argv": ["prog"] + [_word(c) for c in ws], "real": real, "model": ans}
        ctx.count(("handover-configure", tuple(g), tuple(ws)), nontrivial=ws[:1] == [0], sample=None)
        ctx.bump("handover-configure")
        if "error" in ans:
            ctx.drift("handover.configure", "driver error %s" % ans["error"], case)
            continue
        if k < len(cases) and not real["raises"]:
            # monitor (H_roundtrip on the real code): the child recovers the user's words behind at most the seed option,
            # and exactly the defaults
            nm, kk, ds, sd, us = cases[k]
            want_args = (["--shuffle-seed=5"] if sd is not None else []) + [_word(c) for c in us]
            if real["args"] != want_args or real["defaults"] != [_word(c) for c in ds]:
                ctx.violation("a layer subprocess started for parent arguments %r (defaults %r) hands %r (defaults %r) to its "
                              "option parser" % ([_word(c) for c in us], [_word(c) for c in ds], real["args"], real["defaults"]),
                              case, signature="handover-roundtrip")
                continue
        if k < len(cases) and real["raises"]:
            ctx.violation("a layer subprocess cannot take its own command line apart: %r raises %s" % (case["argv"], real.get("exc")),
                          case, signature="handover-roundtrip")
            continue
        if real["raises"] != ans["raises"]:
            ctx.drift("handover.configure", "real %r model %r" % (real, ans), case)
        elif not real["raises"]:
            if real["args"] != [_word(c) for c in ans["args"]] or real["defaults"] != [_word(c) for c in ans["defaults"]]:
                ctx.drift("handover.configure", "real %r model %r" % (real, ans), case)


def replay(ctx, obj):
    run(ctx)
