"""C14 — correspondence of Model/Discovery with the real find_test_files / find_suites on temp trees
materialised in shuffled creation order; module top-level code records every import."""
import contextlib
import io
import json
import os
import re
import shutil
import subprocess

from harness import common

PROP = "C14"
LEAN_MODULE = "Ztr.Props.C14Tree"
LEAN_DEPS = ["Ztr.Props.C14", "Ztr.Props.C14Prefix"]
THEOREMS = ["Ztr.Discovery.C14_enum_independent", "Ztr.Discovery.C14_enum_independent_roots", "Ztr.Discovery.C14_package_once", "Ztr.Discovery.C14_package_restricts", "Ztr.Discovery.C14_import_gate_S", "Ztr.Discovery.findTestFilesS_none", "Ztr.Discovery.C14_once", "Ztr.Discovery.C14_enum_independent_files",
            "Ztr.Discovery.C14_enum_independent_dirs", "Ztr.Discovery.C14_exact", "Ztr.Discovery.C14_winner_spec",
            "Ztr.Discovery.C14_import_gate", "Ztr.Discovery.C14_import_once", "Ztr.Discovery.C14_module_name_has_package",
            "Ztr.Discovery.C14_ignore_folders", "Ztr.Discovery.C14_name_from_longest",
            "Ztr.Discovery.C14_prefix_is_componentwise", "Ztr.Discovery.C14_order_of_paths_irrelevant"]
RULE = ("random directory trees (depth <= 4): identifier / non-identifier / ignored (.git, .svn, CVS, node_modules, "
        "__pycache__) directory names, packages with and without __init__.py, 'tests' / 'ftests' / other names, .py / "
        ".pyc / other extensions; files and directories are created in shuffled order; 1-3 (overlapping, repeated, "
        "nested) --path/--test-path entries, --tests-pattern / --test-file-pattern variations, -m filters, "
        "--usecompiled; the real find_test_files runs in-process and a --list-tests CLI run records which modules were "
        "imported (each module's top level appends its name to a trace). Non-trivial = at least 2 yielded files; "
        "distinct by (tree, options)")
ASSUMPTIONS = ["-s/--package: which directories a package name resolves to (`__path__`) is Python's import system, asked in a worker process and handed to the model", "symlinked directories are materialised (20% of sub-directories) and must behave like real ones", "regular expressions are evaluated by the harness"]
TRUSTED = ["os.walk / importlib (the tree is supplied to the model by the harness)"]

FILES = ["tests.py", "test_a.py", "test_b.py", "testx.py", "ftests.py", "helper.py", "__init__.py", "tests.pyc",
         "test_c.pyc", "data.txt", "tests.txt", ".py", "test_b.pyc", "conftest.py"]
DIRS = ["tests", "pkg", "sub", "ftests", "not-ident", ".git", "node_modules", "__pycache__", "CVS", "1bad", "_ok", "Tests",
        "pkgx", "sub2", "_darcs", "lambda", "import", "in", "build",
        # upper and mixed case: "sorted by path" is the order of the code points (capitals before '_' before small
        # letters), and names that differ only in case are different directories
        "Pkg", "PKG", "Sub", "Zlib", "Alpha", "Products"]

MODULE_SRC = """import os, json
_t = os.environ.get("ZTR_TRACE")
if _t:
    with open(_t, "a") as f:
        f.write(json.dumps({"ev": "modimport", "m": __name__, "file": __file__}) + "\\n")
import unittest
class T(unittest.TestCase):
    def test_it(self):
        pass
"""


TESTS_PKG_FILES = ["ftests.py", "tests.py", "test_a.py", "test_b.py", "testx.py", "atests.py", "helper.py",
                   "test_c.pyc", "tests.pyc", "ftests.pyc", "ztests.py"]


def gen_tree(rng, depth, base=None):
    if base in ("tests", "ftests", "Tests") and rng.random() < 0.6:
        # a tests package: names matching the tests pattern, the test-file pattern, both or neither, chosen so
        # that the two passes over the directory listing disagree with the sorted order
        files = ["__init__.py"] + rng.sample(TESTS_PKG_FILES, rng.randint(2, 6))
        if rng.random() < 0.5:
            # (both kinds of test module side by side, named so that the two passes over the listing and the sorted
            # order disagree)
            files = list(dict.fromkeys(files + ["ftests.py", "test_a.py", "tests.py"]))
    else:
        files = rng.sample(FILES, rng.randint(0, 6))
    subs = []
    if depth > 0:
        stems = {f.split(".")[0] for f in files}
        # (the names the statement speaks about - tests packages, ignored and non-identifier directories - twice as likely
        # as the others; up to four sub-directories, so that two of the pruned kind can be neighbours in the listing)
        pool = DIRS + ["tests", "ftests", "CVS", "_darcs", ".git", "1bad", "not-ident", "node_modules", "__pycache__"]
        picked = []
        for n in rng.sample(pool, rng.randint(0, 4)):
            if n not in picked:
                picked.append(n)
        for n in picked:
            if n in stems:
                continue        # a module and a package of the same name: Python's import picks one of them
            subs.append([n, gen_tree(rng, depth - 1, n)])
    return {"files": files, "subs": subs}


def materialize(tree, d, rng, store=None):
    """`store`: a directory outside every search path; some sub-directories are created there and linked
    into the tree (the walk follows symlinked directories like real ones, with the same pruning)"""
    os.makedirs(d, exist_ok=True)
    if store is None:
        store = [d.rstrip("/") + "_store", 0]
    items = [("f", f) for f in tree["files"]] + [("d", s) for s in tree["subs"]]
    rng.shuffle(items)
    for kind, it in items:
        if kind == "f":
            with open(os.path.join(d, it), "w") as fh:
                # parent packages are imported implicitly by Python: only test modules record their import
                fh.write(MODULE_SRC if it.endswith(".py") and it != "__init__.py" else ("" if it == "__init__.py" else "x"))
        elif rng.random() < 0.2:
            store[1] += 1
            target = os.path.join(store[0], "t%d" % store[1])
            materialize(it[1], target, rng, store)
            os.symlink(target, os.path.join(d, it[0]))
        else:
            materialize(it[1], os.path.join(d, it[0]), rng, store)


class random_no_links:
    """a stand-in for the generator that never creates a symbolic link (and shuffles nothing)"""
    def random(self):
        return 1.0

    def shuffle(self, items):
        pass


def jtree(tree):
    return {"files": [[ord(ch) for ch in f] for f in tree["files"]],
            "subs": [[[ord(ch) for ch in n], jtree(t)] for n, t in tree["subs"]]}


def subtree(tree, comps):
    for c in comps:
        nxt = [t for n, t in tree["subs"] if n == c]
        if not nxt:
            return None
        tree = nxt[0]
    return tree


def all_dirs(tree, prefix=()):
    yield prefix
    for n, t in tree["subs"]:
        yield from all_dirs(t, prefix + (n,))


def all_names(tree):
    out = set(tree["files"])
    for n, t in tree["subs"]:
        out.add(n)
        out |= all_names(t)
    return out


def statement_files(tree, base, env, prefix=()):
    """the property's first sentence, evaluated directly (order: own files sorted, then sub-directories sorted)"""
    files = sorted(tree["files"])
    has_init = "__init__.py" in files or (env["usecompiled"] and "__init__.pyc" in files)
    cands = {}
    for f in files:
        if f.endswith(".py"):
            noext = f[:-3]
        elif env["usecompiled"] and f.endswith(".pyc"):
            noext = f[:-4]
        else:
            continue
        if not noext:
            continue
        if env["tp"](noext) or (env["tp"](base) and has_init and env["tfp"](noext)):
            cands[noext] = min(cands.get(noext, f), f)
    out = ["/".join(prefix + (f,)) for f in sorted(cands.values())]
    for n, t in sorted(tree["subs"]):
        if n in env["ignore"] or n in ("__pycache__", ".git", "node_modules") or not re.match(r"[_a-z]\w*$", n, re.I):
            continue
        out += statement_files(t, n, env, prefix + (n,))
    return out


def run(ctx, n=None, module_gate_only=False):
    from zope.testrunner.find import find_test_files
    from zope.testrunner.options import get_options
    rng = ctx.rng
    if n is None:
        n = 150 if ctx.quick() else 3000
    queries = []
    infos = []
    for idx in range(n):
        tree = gen_tree(rng, rng.choice([1, 2, 3, 4]))
        for _ in range(5):
            if not module_gate_only or any(f.endswith(".py") and f != "__init__.py" for f in all_names(tree)):
                break
            tree = gen_tree(rng, rng.choice([2, 3, 4]))
        directed_pkgs = None
        if not module_gate_only and idx < 9:
            # directed: packages whose directory names are character-wise prefixes of each other, named with -s in
            # every order
            leaf = lambda: {"files": ["__init__.py", "tests.py", "test_a.py"], "subs": []}  # noqa: E731
            tree = {"files": ["tests.py"], "subs": [["pkg", leaf()], ["pkgx", leaf()], ["sub", {"files": ["tests.py"], "subs": [["sub2", leaf()], ["sub", leaf()]]}]]}
            directed_pkgs = [[("pkg",), ("pkgx",)], [("pkgx",), ("pkg",)], [("sub",), ("sub", "sub2"), ("sub", "sub")],
                             [("sub", "sub"), ("sub",)], [("pkg",), ("pkg",), ("pkgx",)], [("sub", "sub2"), ("pkgx",), ("pkg",)],
                             # packages that can be imported but lie outside every search path (an installed copy, the
                             # standard library): nothing of the tree is "inside --package"
                             [("json",)], [("email", "mime"), ("pkg",)], [("xml", "dom"), ("json",)]][idx]
        directed_nested = None
        if not module_gate_only and 9 <= idx < 23:
            # directed: search paths nested in each other, given in every order (a file belongs to the longest search
            # path above it: that decides its module name), the module names observed through a real run; siblings
            # whose names merely begin with a nested search path's name (src / srcx, lib / libx) belong to the outer
            # one; a search path that is itself a tests package (its test files are test modules)
            leaf = lambda: {"files": ["__init__.py", "tests.py", "test_a.py"], "subs": []}  # noqa: E731
            tpkg = lambda: {"files": ["__init__.py", "test_x.py", "test_y.py", "helper.py"], "subs": []}  # noqa: E731
            tree = {"files": ["tests.py"], "subs": [
                ["src", {"files": ["tests.py"], "subs": [["pkg", {"files": ["__init__.py", "tests.py"], "subs": [["tests", tpkg()]]}],
                                                         ["lib", {"files": [], "subs": [["pkg2", leaf()]]}],
                                                         ["libx", {"files": ["tests.py"], "subs": []}]]}],
                ["srcx", {"files": ["tests.py"], "subs": [["inner", leaf()]]}],
                ["other", {"files": ["tests.py"], "subs": []}]]}
            directed_nested = [[(), ("src",)], [("src",), ()], [(), (), ("src",), ("src", "lib")], [("src", "lib"), (), ("src",)],
                               [("src",), ("src", "lib"), ()], [(), ("other",), ("src",)], [("src",), ("src",), ("src", "lib")],
                               [(), ("src", "lib")], [("src", "pkg", "tests")], [(), ("src", "pkg", "tests")],
                               [("src", "pkg", "tests"), ("src",)], [("src", "lib"), ("src",)], [("srcx",), ("src",), ()],
                               [("src", "pkg"), ("src", "pkg", "tests")]][idx - 9]
        d = os.path.join(ctx.tmp, "disc%05d" % idx)
        materialize(tree, d, rng if directed_pkgs is None and directed_nested is None else random_no_links())
        dirs = [p for p in all_dirs(tree)]
        roots = [()] if (rng.random() < 0.5 or directed_pkgs) else [rng.choice(dirs) for _ in range(rng.choice([1, 2, 3]))]
        single_path = directed_pkgs is not None and idx % 2 == 0     # exactly one search path, given once
        if rng.random() < 0.2 and not single_path:
            roots.append(roots[0])
        if directed_nested is not None:
            # (entries at odd positions are given with --test-path and come first in options.test_path: both spellings
            # of every order are exercised over the eight cases)
            roots = list(directed_nested)
        args = ["prog"]
        orig_roots = list(roots)
        for k, r in enumerate(roots):
            args += ["--path" if k % 2 == 0 else "--test-path", os.path.join(d, *r) if r else d]
        # get_options: test_path = [--test-path entries] + [--path entries]
        roots = [r for k, r in enumerate(roots) if k % 2 == 1] + [r for k, r in enumerate(roots) if k % 2 == 0]
        roots_pkgs = [[] for _ in roots]
        if module_gate_only and rng.random() < 0.7:
            # the whole tree is mapped into a package, alone or after an overlapping plain search path
            if rng.random() < 0.6:
                roots, roots_pkgs, args = [], [], ["prog"]
            pr_ = ()
            pkg = rng.choice(["c14ns", "c14ns.sub"])
            args += ["--package-path", d, pkg]
            roots.append(pr_)
            roots_pkgs.append(pkg.split("."))
        elif rng.random() < 0.3 and not single_path:
            # one more search path that maps a directory into a package
            pr_ = rng.choice(dirs)
            pkg = rng.choice(["c14ns", "c14ns.sub", "tests", "pkg"])
            args += ["--package-path", os.path.join(d, *pr_) if pr_ else d, pkg]
            roots.append(pr_)
            roots_pkgs.append(pkg.split("."))
        tpat = rng.choice([None, None, "^f?tests$", "tests", "^test", "^[fz]?tests$"])
        if any(n_ in ("tests", "ftests", "Tests") for n_ in all_names(tree)) and rng.random() < 0.5:
            tpat = rng.choice(["^f?tests$", "tests", "^[fz]?tests$"])
        tfpat = rng.choice([None, None, "^test_", "a$"])
        usec = rng.random() < 0.2
        mfilter = rng.choice([None, None, "tests", "!pkg", "test_a", "^c14ns", "!c14ns", "^tests$", r"^c14ns\.sub\.", "^pkg"])
        if rng.random() < 0.2:
            # several -m patterns, each a regular expression of its own (inline flags, groups): a module is loaded iff
            # one of the positive ones finds it and none of the negated ones does
            mfilter = rng.choice([["(?i)^PKG", "^C14NS"], ["(?i)TESTS$", "^Pkg", "SUB"], ["!(?i)^PKG", "!^C14NS"],
                                  ["(?i)^pkg\\.", "TEST_A"], ["(t)ests", "(s)ub\\.\\1"], ["!(?i)SUB", "!TESTS"],
                                  ["(?x) ^ pkg", "tests $"]])
        given_ignore = []
        if rng.random() < 0.25:
            # names given with --ignore_dir are ignored *in addition to* the built-in ones
            given_ignore = rng.choice([["build"], ["sub"], ["build", "pkg"], ["lambda"]])
            for x_ in given_ignore:
                args += ["--ignore_dir", x_]
        if tpat:
            args += ["--tests-pattern", tpat]
        if tfpat:
            args += ["--test-file-pattern", tfpat]
        if usec:
            args.append("--usecompiled")
        for mf_ in ([mfilter] if isinstance(mfilter, str) else (mfilter or [])):
            args += ["-m", mf_]
        # -s/--package: the walk starts at the directories of the named packages (first --path root on sys.path)
        pkg_rel = None
        path_roots = [r for k, r in enumerate(orig_roots) if k % 2 == 0]
        if directed_pkgs is not None:
            for c_ in directed_pkgs:
                args += ["-s", ".".join(c_)]
            pkg_rel = directed_pkgs
        elif path_roots and not module_gate_only and rng.random() < 0.3:
            top = path_roots[0]
            cands = [p[len(top):] for p in dirs if len(p) > len(top) and p[:len(top)] == top and len(p) - len(top) <= 2
                     and all(re.match(r"[_a-z]\w*$", c_, re.I) for c_ in p[len(top):])]
            if cands:
                chosen = [rng.choice(cands) for _ in range(rng.choice([1, 2, 2, 3]))]
                if rng.random() < 0.3:
                    chosen.append(chosen[0])
                for c_ in chosen:
                    args += ["-s", ".".join(c_)]
                pkg_rel = chosen
        with contextlib.redirect_stdout(io.StringIO()):
            options = get_options(list(args), [])
        pkg_dirs = None
        if pkg_rel is None:
            real_files = [os.path.relpath(f, d) for f, pkg in find_test_files(options)]
        else:
            pr = subprocess.run([common.PY, os.path.join(common.VERIF, "harness", "discovery_worker.py")],
                                input=json.dumps({"args": args[1:]}).encode(), cwd=ctx.tmp,
                                stdout=subprocess.PIPE, stderr=subprocess.PIPE, timeout=120)
            try:
                wres = json.loads(pr.stdout.decode())
            except Exception:  # noqa: BLE001
                wres = {"error": pr.stderr.decode()[-400:]}
            if "error" in wres:
                # a package Python cannot import (shadowed by a module of the same name, ...): not a case
                shutil.rmtree(d, ignore_errors=True)
                shutil.rmtree(d.rstrip("/") + "_store", ignore_errors=True)
                continue
            real_files = [os.path.relpath(f, d) for f, pkg in wres["files"]]
            # where Python found the packages: symlinked directories keep their place in the tree (abspath, not realpath)
            pkg_dirs = [tuple(c_ for c_ in os.path.relpath(p_, d).split("/") if c_ not in (".", ""))
                        for ps in wres["pkg_dirs"] for p_ in ps]
        # imports: a real --list-tests run
        trace = os.path.join(d, "trace.jsonl")
        env = dict(os.environ)
        env["ZTR_TRACE"] = trace
        env["PYTHONDONTWRITEBYTECODE"] = "1"
        imported = None
        if module_gate_only and mfilter is None:
            mfilter = rng.choice(["tests", "!pkg", "^c14ns", "!c14ns", "^tests$", r"^c14ns\.", "^pkg", "^sub"])
            args += ["-m", mfilter]
            with contextlib.redirect_stdout(io.StringIO()):
                options = get_options(list(args), [])
        if (idx % 4 == 0 or module_gate_only or isinstance(mfilter, list) or directed_nested is not None) and not usec:
            pr = subprocess.run([common.PY, "-m", "zope.testrunner", "--list-tests"] + args[1:], cwd=ctx.tmp, env=env,
                                stdout=subprocess.PIPE, stderr=subprocess.PIPE, timeout=120)
            out = pr.stdout.decode("utf-8", "replace")
            failed_imports = []
            m = re.search(r"Test-modules with import problems:\n((?:  \S+\n)+)", out)
            if m:
                failed_imports = [x.strip() for x in m.group(1).split("\n") if x.strip()]
            imported = []
            if os.path.exists(trace):
                for line in open(trace):
                    e = json.loads(line)
                    imported.append((e["m"], os.path.relpath(e["file"], d)))
        names = sorted(all_names(tree) | {os.path.basename(d)} | {c for r in roots for c in r})
        # the two patterns as the statement reads them: regular expressions searched in the name (the defaults are
        # anchored: '^tests$', '^test') - evaluated here, not by the predicates the options object carries
        tp = re.compile(tpat if tpat else "^tests$").search
        tfp = re.compile(tfpat if tfpat else "^test").search
        stems = set()
        for nm in names:
            stems.add(nm)
            if nm.endswith(".py"):
                stems.add(nm[:-3])
            if nm.endswith(".pyc"):
                stems.add(nm[:-4])
        enc = lambda s: [ord(ch) for ch in s]  # noqa: E731
        base_path = [c for c in d.split("/") if c]
        # (the C08 sentence over the patterns as given - each compiled on its own -, not the function under test)
        from harness import corr_world as _cw
        acc = _cw.statement_accept(list(options.module))
        q = {"op": "discovery",
             "roots": [{"path": [enc(c) for c in base_path + list(r)], "tree": jtree(subtree(tree, r)),
                        "pkg": [enc(c) for c in pk]} for r, pk in zip(roots, roots_pkgs)],
             "identifier": [enc(s) for s in stems if re.match(r"[_a-z]\w*$", s, re.I)],
             "testsPat": [enc(s) for s in stems if tp(s)], "testFilePat": [enc(s) for s in stems if tfp(s)],
             # (the documented built-in names plus the names given - not what the options object happens to hold)
             "ignoreDir": [enc(s) for s in sorted({".git", ".svn", "CVS", "{arch}", ".arch-ids", "_darcs"}
                                                  | {args[k_ + 1] for k_, a_ in enumerate(args) if a_ == "--ignore_dir"})],
             "ignoreFolders": [enc(s) for s in (".git", "node_modules", "__pycache__")],
             "usecompiled": usec, "acceptedModules": [],
             "packageDirs": None if pkg_dirs is None else [[enc(c) for c in base_path + list(pd_)] for pd_ in pkg_dirs]}
        infos.append((tree, roots, args[1:], real_files, imported, d, base_path, (options, tp, tfp), acc, usec,
                      failed_imports if imported is not None else None, pkg_dirs))
        queries.append(q)
        shutil.rmtree(d, ignore_errors=True)
        shutil.rmtree(d.rstrip("/") + "_store", ignore_errors=True)
    # first pass: files and module names; second pass: the import gate with the accepted module list
    first = ctx.driver.batch(queries)
    for q, ans, info in zip(queries, first, infos):
        acc = info[8]
        mods = [m for cs in ans.get("candidates", []) for m in cs]
        q["acceptedModules"] = [m for m in mods if acc(".".join("".join(chr(c) for c in comp) for comp in m))]
    answers = ctx.driver.batch(queries)
    for (tree, roots, args, real_files, imported, d, base_path, (options, info_tp, info_tfp), acc, usec, failed_imports, pkg_dirs), ans in zip(infos, answers):
        case = {"tree": tree, "roots": ["/".join(r) for r in roots], "args": [a.replace(d, "<root>") for a in args],
                "real_files": real_files, "imported": imported, "model": ans,
                "package_dirs": None if pkg_dirs is None else ["/".join(p_) for p_ in pkg_dirs]}
        if pkg_dirs is not None:
            ctx.bump("--package")
        ctx.count((str(tree), tuple(roots), tuple(case["args"])), nontrivial=len(real_files) >= 2,
                  sample={"roots": case["roots"], "args": case["args"], "files": real_files[:6]})
        ctx.bump("files=%d" % min(len(real_files), 6))
        ctx.bump("roots=%d" % len(roots))
        if "--package-path" in args:
            ctx.bump("package-path")
        # ---- monitor: the statement
        given_ig = [args[k_ + 1] for k_, a_ in enumerate(args) if a_ == "--ignore_dir"]
        env = {"tp": info_tp, "tfp": info_tfp,
               "ignore": {".git", ".svn", "CVS", "{arch}", ".arch-ids", "_darcs"} | set(given_ig), "usecompiled": usec}
        want = []
        if pkg_dirs is None:
            start = list(roots)
        else:
            # "lying outside --package are never imported": the walk starts at the directories of the named packages
            # that lie under (or are) a search path, each once
            start = []
            for pd_ in pkg_dirs:
                if pd_ not in start and any(pd_[:len(r)] == tuple(r) for r in roots):
                    start.append(pd_)
        for r in start:
            st = subtree(tree, r)
            if st is None:
                continue
            base = r[-1] if r else os.path.basename(d)
            for p in statement_files(st, base, env, tuple(r)):
                if p not in want:
                    want.append(p)
        if len(set(real_files)) != len(real_files):
            ctx.violation("a file is yielded twice: %r" % real_files, case, signature="C14:twice")
            continue
        if real_files != want:
            ctx.violation("discovery yields %r, the matching files in sorted order are %r" % (real_files, want), case,
                          signature="C14:files")
            continue
        if imported is not None:
            names = [m for m, f in imported]
            if len(set(imported)) != len(imported):
                ctx.violation("a module is imported twice: %r" % imported, case, signature="C14:import-twice")
                continue
            rejected = [m for m in names + list(failed_imports or []) if not acc(m)]
            if rejected:
                ctx.violation("modules excluded by -m were imported: %r" % rejected, case, signature="C14:import-gate")
                continue
        if "error" in ans:
            ctx.drift("discovery", "driver error %s" % ans["error"], case)
            continue
        mfiles = ["/".join("".join(chr(c) for c in comp) for comp in p[len(base_path):]) for p in ans["files"]]
        if mfiles != real_files:
            ctx.drift("discovery.files", "model %r real %r" % (mfiles, real_files), case)
            continue
        if imported is not None:
            mimp = [".".join("".join(chr(c) for c in comp) for comp in m) for m in ans["imported"]]
            # a module name may be reached through two files (sys.modules caches the first)
            mimp_once = list(dict.fromkeys(mimp))
            ok = [m for m, f in imported]
            # modules whose import failed (not on sys.path, ...) were attempted too: the runner lists them
            attempted = set(ok) | set(failed_imports)
            # a failed import of `a.b` may import the module `a` on the way (Python's own doing): the order of the
            # recorded imports is compared only when nothing failed
            parents = {".".join(f_.split(".")[:k]) for f_ in (failed_imports or []) for k in range(1, len(f_.split(".")))}
            attempted -= (parents - set(mimp_once))
            missing = sorted(set(mimp_once) - attempted)
            if missing:
                # (the files agree with the model's, the -m patterns were evaluated one by one as the statement says)
                ctx.violation("modules that match the -m patterns %r were never loaded: %r (loaded %r)" % (
                    list(options.module), missing[:6], ok[:6]), case, signature="C14:not-loaded")
                continue
            if set(mimp_once) != attempted or (not failed_imports and [m for m in mimp_once if m in ok] != ok):
                ctx.drift("discovery.imports", "model imports %r, real imported %r + failed %r" % (
                    mimp_once, ok, failed_imports), case)


def probe_d41(ctx):
    """two search paths, each with a tests.py: one module name, two files"""
    d = os.path.join(ctx.tmp, "probe_d41")
    for sub, cls, meth in (("d1", "T", "test_one"), ("d2", "U", "test_two")):
        os.makedirs(os.path.join(d, sub))
        with open(os.path.join(d, sub, "tests.py"), "w") as f:
            f.write("import unittest\nclass %s(unittest.TestCase):\n    def %s(self): pass\n" % (cls, meth))
    env = dict(os.environ)
    env["PYTHONDONTWRITEBYTECODE"] = "1"
    pr = subprocess.run([common.PY, "-m", "zope.testrunner", "--path", os.path.join(d, "d1"), "--path", os.path.join(d, "d2"),
                         "--list-tests"], cwd=d, env=env, stdout=subprocess.PIPE, stderr=subprocess.PIPE, timeout=120)
    out = pr.stdout.decode("utf-8", "replace")
    shutil.rmtree(d, ignore_errors=True)
    still = out.count("test_one (tests.T.test_one)") == 2 and "test_two" not in out
    return still, ("--path d1 --path d2, each with a tests.py: both files map to the module name 'tests'; d1/tests.py "
                   "serves as test module twice (its tests are listed and run twice), d2/tests.py is never loaded")


KNOWN_PROBES = {"D41": probe_d41}


def replay(ctx, obj):
    run(ctx)
