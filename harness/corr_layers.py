"""C10 — correspondence of Model/Layers with runner.order_by_bases / gather_layers / layer_sort_key,
monitors = the property's clauses evaluated on the real results."""
import itertools

PROP = "C10"
LEAN_MODULE = "Ztr.Props.C10"
LEAN_DEPS = ["Ztr.Props.C10Names"]
THEOREMS = [
    "Ztr.Layers.C10_once", "Ztr.Layers.C10_bases_first", "Ztr.Layers.C10_perm_invariant",
    "Ztr.Layers.C10_unit_first", "Ztr.Layers.C10_same_name_witness",
    # Runner.ordered_layers over registered names (several names may resolve to one layer object)
    "Ztr.Ordered.C10N_names_once", "Ztr.Ordered.C10N_layer_of_name", "Ztr.Ordered.C10N_blocks",
    "Ztr.Ordered.C10N_bases_first", "Ztr.Ordered.C10N_perm_invariant", "Ztr.Ordered.C10N_D36_witness",
]
RULE = ("layer graphs: every DAG on n nodes (each node picks an ordered subset of earlier nodes as bases) for n up to "
        "a bound, class and instance layers, with/without the real UnitTests layer, names from a pool (shared "
        "prefixes, unicode, different modules); every subset of requested layers x several input permutations; "
        "plus random DAGs up to 10 nodes. Non-trivial = at least 2 requested layers; distinct by (graph, names, input)")
ASSUMPTIONS = [
    "layer names are injective over a world (the runner identifies layers by dotted name everywhere)",
    "Python's sorted() is modelled as a stable insertion sort (identical on total preorders)",
]
TRUSTED = ["CPython sorted()/tuple/str comparison (validated by the correspondence)"]

NAME_POOL = [("m", "A"), ("m", "B"), ("m", "a"), ("m.sub", "A"), ("m", "AB"), ("n", "A"), ("m", "Ä"),
             ("m", "Z"), ("a", "Z"), ("m", "B2"), ("mm", "A"), ("m", "_")]


class World:
    """Real layer objects for a spec: list of (kind, (module, name), [base indices])."""

    def __init__(self, spec):
        from zope.testrunner.layer import UnitTests
        self.spec = spec
        self.objs = []
        for kind, (mod, name), bases in spec:
            if kind == "unit":
                self.objs.append(UnitTests)
            elif kind == "class":
                bs = tuple(self.objs[b] for b in bases) or (object,)
                self.objs.append(type(name, bs, {"__module__": mod}))
            else:
                o = type("InstanceLayer", (), {})()
                o.__name__ = name
                o.__module__ = mod
                o.__bases__ = tuple(self.objs[b] for b in bases)
                self.objs.append(o)
        self.index = {id(o): i for i, o in enumerate(self.objs)}

    def idx(self, objs):
        return [self.index[id(o)] for o in objs]

    def names(self):
        out = []
        for kind, (mod, name), _ in self.spec:
            if kind == "unit":
                out.append("zope.testrunner.layer.UnitTests")
            else:
                out.append(mod + "." + name)
        return out

    def closure(self, l):
        seen = set()
        todo = [l]
        while todo:
            x = todo.pop()
            if x not in seen:
                seen.add(x)
                todo.extend(self.spec[x][2])
        return seen


def build_world(spec):
    try:
        return World(spec)
    except TypeError:
        # MRO conflict for class layers: same graph as instance layers
        spec2 = [(k if k == "unit" else "instance", nm, bs) for k, nm, bs in spec]
        return World(spec2)


def query(world, ls):
    names = [[ord(c) for c in n] for n in world.names()]
    unit = next((i for i, s in enumerate(world.spec) if s[0] == "unit"), len(world.spec) + 7)
    return {"op": "layers", "bases": [list(s[2]) for s in world.spec], "names": names, "unit": unit, "ls": ls}


def real(world, ls):
    from zope.testrunner import runner
    objs = [world.objs[i] for i in ls]
    order = world.idx(runner.order_by_bases(list(objs)))
    gath = []
    keys = []
    for o in objs:
        g = []
        runner.gather_layers(o, g)
        gath.append(world.idx(g))
        keys.append([[ord(c) for c in s] for s in runner.layer_sort_key(o)])
    return {"order": order, "gather": gath, "keys": keys}


def monitor(world, ls, order):
    """The property's clauses on a real result.  Returns None or a description."""
    if sorted(order) != sorted(set(ls)):
        return "result %r is not the requested set %r, each once" % (order, sorted(set(ls)))
    pos = {l: i for i, l in enumerate(order)}
    for l in order:
        for b in world.closure(l):
            if b != l and b in pos and pos[b] > pos[l]:
                return "layer %d runs before its base %d in %r" % (l, b, order)
    for i, s in enumerate(world.spec):
        if s[0] == "unit" and i in pos and pos[i] != 0:
            return "unit layer not first in %r" % order
    return None


def all_specs(n, with_unit, kinds, rng, max_bases=2):
    """every DAG on n nodes: node i picks an ordered tuple of <= max_bases earlier nodes"""
    start = 1 if with_unit else 0
    choices = []
    for i in range(n):
        if with_unit and i == 0:
            choices.append([()])
            continue
        opts = [()]
        earlier = list(range(start if not with_unit else 0, i))
        for k in range(1, max_bases + 1):
            opts.extend(itertools.permutations(earlier, k))
        choices.append(opts)
    for combo in itertools.product(*choices):
        names = rng.sample(NAME_POOL, n)
        spec = []
        for i, bases in enumerate(combo):
            if with_unit and i == 0:
                spec.append(("unit", ("zope.testrunner.layer", "UnitTests"), []))
            else:
                kind = kinds if kinds != "mixed" else rng.choice(["class", "instance"])
                if kind == "class" and any(spec[b][0] == "instance" for b in bases):
                    kind = "instance"
                spec.append((kind, names[i], list(bases)))
        yield spec


def random_spec(rng, n):
    with_unit = rng.random() < 0.6
    names = rng.sample(NAME_POOL, min(n, len(NAME_POOL)))
    while len(names) < n:
        names.append(("m%d" % len(names), "L%d" % rng.randint(0, 3)))
    spec = []
    for i in range(n):
        if with_unit and i == 0:
            spec.append(("unit", ("zope.testrunner.layer", "UnitTests"), []))
            continue
        k = rng.choice([0, 1, 1, 2, 2, 3])
        earlier = list(range(i))
        bases = rng.sample(earlier, min(k, len(earlier)))
        spec.append(("instance" if rng.random() < 0.5 else "class", names[i], bases))
    # class layers cannot derive from instances
    spec = [(("instance" if k == "class" and any(spec[b][0] == "instance" for b in bs) else k), nm, bs)
            for k, nm, bs in spec]
    return spec


def subsets(n, rng, limit):
    subs = [list(c) for k in range(1, n + 1) for c in itertools.combinations(range(n), k)]
    if len(subs) > limit:
        subs = rng.sample(subs, limit)
    return subs


def cases(ctx):
    nmax = 3 if ctx.quick() else 4
    for n in range(1, nmax + 1):
        for with_unit in (False, True):
            for kinds in ("class", "instance"):
                for spec in all_specs(n, with_unit, kinds, ctx.rng):
                    w = build_world(spec)
                    for sub in subsets(n, ctx.rng, 4 if ctx.quick() else 8):
                        perms = list(itertools.permutations(sub))
                        if len(perms) > 3:
                            perms = ctx.rng.sample(perms, 3)
                        yield w, [list(p) for p in perms]
    # directed: a layer with several bases that is itself never requested (it owns no tests), below requested layers
    # that each have a single base - P, Q, M(P, Q), T(M), X(M): every naming of the four, every subset, every order
    import itertools as _it
    for kinds in ("class", "instance"):
        for names in _it.permutations([("wl", "A"), ("wl", "B"), ("wl", "C"), ("wl", "D")]):
            if ctx.quick() and ctx.rng.random() < 0.5:
                continue
            for mbases in ([0, 1], [1, 0]):
                spec = [(kinds, names[0], []), (kinds, names[1], []), (kinds, names[2], mbases), (kinds, names[3], [2]),
                        (kinds, ("wl", "X"), [2])]
                w = build_world(spec)
                for sub in ([0, 1, 3], [1, 3], [0, 3], [0, 1, 3, 4], [3, 4, 0], [1, 4]):
                    perms = [list(p) for p in _it.permutations(sub)]
                    yield w, (perms if len(perms) <= 2 else ctx.rng.sample(perms, 2))
    for _ in range(150 if ctx.quick() else 3000):
        n = ctx.rng.randint(3, 10)
        w = build_world(random_spec(ctx.rng, n))
        sub = ctx.rng.sample(range(n), ctx.rng.randint(1, n))
        perms = [sub]
        for _ in range(2):
            p = list(sub)
            ctx.rng.shuffle(p)
            perms.append(p)
        # gather output contains duplicates: also feed a list with duplicates (TestResult.__init__ does)
        dup = []
        from zope.testrunner import runner
        runner.gather_layers(w.objs[sub[0]], dup)
        perms.append(w.idx(dup))
        yield w, perms


def order_cases(ctx):
    """order_by_bases / gather_layers / layer_sort_key on small DAGs: clauses monitored, model compared"""
    todo = []
    for w, perms in cases(ctx):
        for ls in perms:
            todo.append((w, ls, perms[0]))
    answers = ctx.driver.batch([query(w, ls) for w, ls, _ in todo])
    first_result = {}
    for (w, ls, canon), ans in zip(todo, answers):
        r = real(w, ls)
        case = {"spec": w.spec, "ls": ls, "real": r, "model": ans}
        ctx.count((str(w.spec), tuple(ls)), nontrivial=len(set(ls)) >= 2,
                  sample={"spec": w.spec, "ls": ls, "real_order": r["order"]})
        ctx.bump("layers=%d" % len(w.spec))
        ctx.bump("requested=%d" % len(ls))
        if any(len(s[2]) > 1 for s in w.spec):
            ctx.bump("multiple-inheritance")
        if "error" in ans:
            ctx.drift("layers", "driver error %s" % ans["error"], case)
            continue
        bad = monitor(w, ls, r["order"])
        if bad:
            ctx.violation(bad, case, signature="order-clause")
            continue
        if sorted(set(ls)) == sorted(set(canon)):
            key = (id(w), tuple(sorted(set(ls))))
            if key in first_result and first_result[key] != r["order"]:
                ctx.violation("order depends on input order: %r vs %r" % (first_result[key], r["order"]),
                              case, signature="input-order")
                continue
            first_result.setdefault(key, r["order"])
        for k in ("order", "gather", "keys"):
            if r[k] != ans[k]:
                ctx.drift("layers." + k, "model %s=%r real=%r (input %r)" % (k, ans[k], r[k], ls), case)
                break


def names_cases(ctx):
    """Runner.ordered_layers over registered names, several of which may resolve to one layer object (aliases):
    every registered name is yielded once with its layer, the names of a layer side by side, layers bases-first, and
    the sequence does not depend on the order of registration (Model/Ordered, Props/C10Names)"""
    import types
    import unittest
    from zope.testrunner import runner as zrunner
    from zope.testrunner import find as zfind
    rng = ctx.rng
    todo = []
    n_cases = 150 if ctx.quick() else 3000
    for _ in range(n_cases):
        w = build_world(random_spec(rng, rng.choice([2, 3, 4, 5, 6])))
        ls = [i for i in range(len(w.spec)) if rng.random() < 0.7] or [0]
        canon = w.names()
        reg = []
        for l in ls:
            ways = [canon[l]]
            # aliases: other dotted names that resolve to the same object
            for k in range(rng.choice([0, 0, 1, 2])):
                ways.append(rng.choice(["alias.%s%d_%d", "m.Alias%s%d_%d", "zz.%s_%d_%d", "A.%s%d_%d"]) % (canon[l].split(".")[-1], k, l))
            if rng.random() < 0.3 and len(ways) > 1:
                ways = ways[1:]            # only known under aliases
            for nm in ways:
                reg.append((nm, l))
        if len({nm for nm, _ in reg}) != len(reg):
            continue                       # (the keys of a dict are distinct)
        rng.shuffle(reg)
        todo.append((w, reg))
        sh = list(reg)
        rng.shuffle(sh)
        todo.append((w, sh))
    queries = []
    for w, reg in todo:
        q = query(w, [])
        q.update(op="ordered_layers", regnames=[[ord(c) for c in nm] for nm, _ in reg], layerOf=[l for _, l in reg])
        queries.append(q)
    answers = ctx.driver.batch(queries)
    prev = None
    for k, ((w, reg), ans) in enumerate(zip(todo, answers)):
        zfind._layer_name_cache.clear()
        for o in w.objs:
            zfind.name_from_layer(o)
        for nm, l in reg:
            zfind._layer_name_cache[nm] = w.objs[l]
        suites = {nm: unittest.TestSuite() for nm, _ in reg}
        stub = types.SimpleNamespace(options=types.SimpleNamespace(processes=1, resume_layer=None), tests_by_layer_name=suites)
        try:
            got = [(nm, w.index[id(layer)], suite is suites[nm]) for nm, layer, suite in zrunner.Runner.ordered_layers(stub)]
        finally:
            zfind._layer_name_cache.clear()
        case = {"spec": w.spec, "registered": reg, "real": [[a, b] for a, b, _ in got], "model": ans}
        ctx.count(("names", str(w.spec), str(reg)), nontrivial=len({l for _, l in reg}) < len(reg), sample=None)
        ctx.bump("ordered-layers-over-names")
        if len({l for _, l in reg}) < len(reg):
            ctx.bump("aliased")
        # ---- monitors: the clauses of C10N_* on the real sequence
        bad = None
        names = [a for a, _, _ in got]
        if sorted(names) != sorted(nm for nm, _ in reg):
            bad = "the names yielded are %r, registered are %r (each must come exactly once)" % (names, sorted(nm for nm, _ in reg))
        elif any(dict(reg)[a] != b for a, b, _ in got) or not all(c for _, _, c in got):
            bad = "a name is yielded with another layer or suite than its own: %r" % (got,)
        else:
            layers_seq = [b for _, b, _ in got]
            runs = [l for i, l in enumerate(layers_seq) if i == 0 or layers_seq[i - 1] != l]
            if len(runs) != len(set(runs)):
                bad = "the names of one layer are not side by side: layers %r" % (layers_seq,)
            else:
                mb = monitor(w, sorted(set(runs)), runs)
                if mb:
                    bad = mb
        if not bad and k % 2 == 1 and prev is not None and [x[:2] for x in got] != prev:
            bad = "the sequence depends on the order of registration: %r vs %r" % ([x[:2] for x in got], prev)
        prev = [x[:2] for x in got] if k % 2 == 0 else None
        if bad:
            ctx.violation("ordered_layers: " + bad, case, signature="names-order")
            continue
        if "error" in ans:
            ctx.drift("layers.names", "driver error %s" % ans["error"], case)
            continue
        model = [("".join(chr(c) for c in n), l) for n, l in ans["yielded"]]
        if model != [(a, b) for a, b, _ in got]:
            ctx.drift("layers.names", "model yields %r, real %r" % (model, [(a, b) for a, b, _ in got]), case)


def run(ctx):
    names_cases(ctx)
    order_cases(ctx)
    world_order_cases(ctx)
    twice_order_cases(ctx)
    parallel_order_cases(ctx)
    # a layer known under two names (an alias): each group runs once, also when its layer is handed to a subprocess
    from harness import corr_c03
    corr_c03.alias_cases(ctx, n=2 if ctx.quick() else 30)


def world_order_cases(ctx):
    """the run order of whole runs: generated worlds in which several layers cannot be torn down (the rest is
    resumed in subprocesses, one after another) and the layers own different numbers of tests"""
    from harness import corr_world as cw
    from harness import worlds
    rng = ctx.rng
    cases = []
    for i in range(14 if ctx.quick() else 150):
        # (tests that fail or raise change nothing about which layers run, and in which order, without -x)
        w = worlds.gen_world(rng, n_layers=rng.choice([3, 4, 5]), tests_per_layer=(1, 4),
                             kinds=["pass"] if i % 2 == 0 else ["pass", "error", "fail", "pass"], p_fault=0.0, p_write=0.0)
        non_unit = [l for l in w["layers"] if l["kind"] != "unit"]
        for l in non_unit:
            l["setUp"] = l["tearDown"] = True
        for l in rng.sample(non_unit, min(len(non_unit), rng.choice([1, 2]))):
            l["tearDownFaults"] = [[999999, 2]]
        if i % 2 == 0:
            # layers named by strings with dots and regex metacharacters (instance layers), resumed in subprocesses
            inst = [l for l in non_unit if l["kind"] == "instance"]
            for l, nm in zip(inst, rng.sample(worlds.ODD_LAYER_NAMES, min(len(inst), len(worlds.ODD_LAYER_NAMES)))):
                l["name"] = nm
        o = {"verbose": rng.choice([0, 1]), "processes": 1, "argseed": rng.randint(0, 10 ** 6)}
        if i % 3 == 1:
            # the search path given relative to the start directory, and tests that leave the process elsewhere before
            # the remaining layers are handed to subprocesses
            for l in non_unit:
                l["tearDownFaults"] = []
            worlds.shape_relpath_chdir(rng, w, o)
        cases.append(cw.Case(w, o))
    # directed: a layer with several bases of which one that is not the last owns tests and sorts after the last
    for names_, multi_bases in ((["Zeta", "Beta", "Multi", "Plain"], [0, 1]), (["Beta", "Zeta", "Multi", "Alpha"], [1, 0]),
                                (["Mid", "Zed", "Abc", "Multi"], [1, 0, 2])):
        w = worlds.gen_world(rng, n_layers=4, tests_per_layer=(1, 2), kinds=["pass"], p_fault=0.0, p_write=0.0)
        non_unit = [k for k, l in enumerate(w["layers"]) if l["kind"] != "unit"]
        if len(non_unit) == 4:
            for k, nm in zip(non_unit, names_):
                l = w["layers"][k]
                l.update(kind="class", name=nm, module="wlayers", bases=[], setUp=True, tearDown=True, tearDownFaults=[],
                         setUpRaises=[])
                l.pop("falsy", None)
            mi = non_unit[names_.index("Multi")]
            w["layers"][mi]["bases"] = [non_unit[b] for b in multi_bases]
            w["layers"][mi].update(testSetUp=True, testTearDown=True)
            # (a base is created before the layer derived from it: the world lists layers in creation order)
            order = [k for k in range(len(w["layers"])) if k != mi] + [mi]
            if order == list(range(len(w["layers"]))):
                cases.append(cw.Case(w, {"verbose": 1, "processes": 1}, "listing-order"))
    cases = [c for c in cw.corpus_cases(PROP) if c.opts.get("processes", 1) == 1] + cases
    cw.run_real_cases(ctx, cases, list_first=True)
    cw.run_models(ctx, cases)
    for c in cases:
        ctx.count(("world-order", json_key(c)), nontrivial=True, sample=None)
        ctx.bump("world-order-runs")
        if c.obs.timeout:
            continue
        bad = cw.run_order_violation(c, strict=True)
        if bad:
            ctx.violation(bad, c.replay_obj(), signature="world-run-order")
            continue
        # --list-tests presents the layers in the order a run executes them
        lst = getattr(c, "listing", None)
        if lst is not None and not lst.timeout and c.parent_model is not None and "error" not in c.parent_model:
            listed = [li for li, ts in cw.listing_groups(c.world, lst.stdout) if ts]
            want = []
            for ev in c.parent_model["trace"]:
                if ev[0] in ("header", "spawn") and ev[1] not in want:
                    want.append(ev[1])
            want = [l for l in want if l in listed]
            if listed != want:
                ctx.violation("--list-tests lists the layers in the order %r, a run executes them in the order %r" % (
                    listed, want), c.replay_obj(), signature="listing-order")


def parallel_order_cases(ctx):
    """-j N: whatever order the layer subprocesses finish in (the layers that come first take longest here), the
    layers appear in the output - one "Running <layer> tests:" group each - in the layer order"""
    from harness import corr_world as cw
    from harness import worlds
    rng = ctx.rng
    cases = []
    for i in range(4 if ctx.quick() else 40):
        w = worlds.gen_world(rng, n_layers=rng.choice([3, 4]), tests_per_layer=(1, 2), kinds=["pass"], p_fault=0.0, p_write=0.0)
        non_unit = [l for l in w["layers"] if l["kind"] != "unit"]
        for l in non_unit:
            l["setUp"] = l["tearDown"] = True
            l["tearDownFaults"] = []
        cases.append(cw.Case(w, {"verbose": rng.choice([0, 1, 2]), "processes": rng.choice([3, 4, 5])}, "parallel-order"))
    cw.run_models(ctx, cases)
    for c in cases:
        if "error" in c.parent_model:
            continue
        order = [e[1] for e in c.parent_model["trace"] if e[0] == "spawn"]
        # the earlier a layer comes, the longer its first test takes
        for rank, li in enumerate(order):
            ts = [t for t in c.world["tests"] if t["layer"] == li and not t.get("doctest")]
            if ts:
                ts[0]["body"]["sleep"] = round(0.5 * (len(order) - 1 - rank), 2)
    cw.run_real_cases(ctx, cases)
    for c in cases:
        ctx.count(("parallel-order", json_key(c)), nontrivial=True, sample=None)
        ctx.bump("parallel-order-runs")
        if c.obs.timeout or "error" in c.parent_model:
            continue
        names = {worlds.layer_name(c.world, i): i for i in range(len(c.world["layers"]))}
        want = [e[1] for e in c.parent_model["trace"] if e[0] == "spawn"]
        got = [names.get(h, h) for h in worlds.parse_output(c.obs.stdout)["headers"] if h != ".EmptyLayer"]
        if got != want:
            ctx.violation("-j %d: the layers appear in the output in the order %r, the layer order is %r" % (
                c.opts["processes"], got, want), c.replay_obj(), signature="world-run-order")


def all_by_alias(w, how=True):
    """every layer declaration of the world by dotted-name string (wrt.ALIAS_<index>, or with how="canon" the layer's
    own module.name) instead of by object"""
    def walk(n):
        if n.get("lyr") is not None:
            n["lyrAlias"] = how
        for k in n.get("kids", []):
            walk(k)
    for m in w["modules"].values():
        for s_ in m["suites"]:
            walk(s_)


def twice_order_cases(ctx):
    """two runs in one process (an embedding program, the runner's own tests).  The tests name their layers by dotted
    names, and in the second run those names designate other objects with another base graph: the second run's layer
    order is the order a fresh process gives that world - it does not depend on what ran before."""
    from harness import corr_world as cw
    from harness import worlds
    rng = ctx.rng
    for i in range(4 if ctx.quick() else 50):
        pair = []
        n_layers = rng.choice([3, 4])
        for _ in range(2):
            w = worlds.gen_world(rng, n_layers=n_layers, tests_per_layer=(1, 2), kinds=["pass"], p_fault=0.0, p_write=0.0)
            for l in w["layers"]:
                l.pop("falsy", None)
                for k in ("slowSetUp", "slowTearDown"):
                    l.pop(k, None)
                if l["kind"] != "unit":
                    l["setUp"] = l["tearDown"] = True
            for t in w["tests"]:
                for k in ("doctest", "rebind", "ownstream", "label"):
                    t.pop(k, None)
            w.pop("sysPathObject", None)
            for k_, l in enumerate(w["layers"]):
                if l["kind"] != "unit" and (not l["name"].isidentifier() or l["module"] == "wrt"):
                    l["module"], l["name"] = "wlayers", "Z%d" % k_
            w["layerModules"] = True
            all_by_alias(w, "canon" if i % 2 == 0 else True)
            pair.append(w)
        if i % 2 == 0:
            # the same dotted names in both runs, on other places of another base graph
            nu1 = [l for l in pair[0]["layers"] if l["kind"] != "unit"]
            nu2 = [l for l in pair[1]["layers"] if l["kind"] != "unit"]
            ids = [(l["module"], l["name"]) for l in nu1]
            rng.shuffle(ids)
            for l, (m_, n_) in zip(nu2, ids):
                l["module"], l["name"] = m_, n_
        o = {"verbose": 1, "processes": 1}
        obs, err = cw.run_in_process(ctx, [(pair[0], o), (pair[1], o)], tag="tw")
        c = cw.Case(pair[1], o, "second-run-in-process")
        c.first_world = pair[0]
        ctx.count(("twice-order", json_key(c)), nontrivial=True, sample=None)
        ctx.bump("second-run-in-process")
        if obs is None:
            ctx.drift("runner.twice", "worker failed: %s" % err, c.replay_obj())
            continue
        c.obs = obs[1]
        cw.run_models(ctx, [c])
        if getattr(c.obs, "exc", None):
            ctx.violation("the second run in the process was aborted: %s" % c.obs.exc[:300],
                          {"world": pair[1], "first_world": pair[0], "opts": o}, signature="world-run-order")
            continue
        bad = cw.run_order_violation(c, strict=True)
        if bad:
            ctx.violation("second run in one process, layers named by dotted-name strings: " + bad,
                          {"world": pair[1], "first_world": pair[0], "opts": o}, signature="world-run-order")


def json_key(c):
    import json
    return json.dumps(c.replay_obj(), sort_keys=True, default=str)[:2000]


def search(ctx, budget_s=90):
    """Failing-input search on the real code, run when a proof obligation or the correspondence is broken:
    graphs rich in multiple inheritance (4-8 nodes, class and instance layers), every subset of requested
    layers, several input orders; only the property's clauses are evaluated."""
    import time
    from zope.testrunner import runner
    rng = ctx.rng
    t0 = time.time()
    tried = 0
    while time.time() - t0 < budget_s:
        n = rng.randint(4, 8)
        with_unit = rng.random() < 0.3
        names = rng.sample(NAME_POOL, min(n, len(NAME_POOL)))
        spec = []
        for i in range(n):
            if with_unit and i == 0:
                spec.append(("unit", ("zope.testrunner.layer", "UnitTests"), []))
                continue
            earlier = list(range(1 if with_unit else 0, i))
            k = rng.choice([1, 2, 2, 3, 3])
            spec.append((rng.choice(["class", "instance", "instance"]), names[i], rng.sample(earlier, min(k, len(earlier)))))
        spec = [(("instance" if k == "class" and any(spec[b][0] == "instance" for b in bs) else k), nm, bs)
                for k, nm, bs in spec]
        w = build_world(spec)
        for sub in subsets(n, rng, 64):
            first = None
            for trial in range(2):
                ls = list(sub)
                if trial:
                    rng.shuffle(ls)
                order = w.idx(runner.order_by_bases([w.objs[i] for i in ls]))
                tried += 1
                bad = monitor(w, ls, order)
                if bad is None and first is not None and first != order:
                    bad = "order depends on input order: %r vs %r" % (first, order)
                if bad:
                    ctx.violation(bad + " (found by the failing-input search after %d inputs)" % tried,
                                  {"spec": w.spec, "ls": ls, "real": {"order": order}}, signature="order-clause")
                    ctx.extra["search_inputs"] = tried
                    return
                first = order
    ctx.extra["search_inputs"] = tried


def replay(ctx, obj):
    case = obj.get("case", {})
    if "spec" not in case:
        return run(ctx)
    w = build_world([tuple(s) for s in case["spec"]])
    ls = case["ls"]
    ans = ctx.driver.batch([query(w, ls)])[0]
    r = real(w, ls)
    ctx.count((str(w.spec), tuple(ls)), sample={"spec": w.spec, "ls": ls, "real": r, "model": ans})
    bad = monitor(w, ls, r["order"])
    if bad:
        ctx.violation(bad, case, signature="order-clause")
    elif any(r[k] != ans.get(k) for k in ("order", "gather", "keys")):
        ctx.drift("layers", "model differs from real", case)
