"""C01 — layer stack exactness and nesting: correspondence of the layer/test event sequence of every
process with Model/Runner, monitor = the property's clauses replayed on the real traces."""
from harness import corr_world as cw
from harness import worlds

PROP = "C01"
LEAN_MODULE = "Ztr.Props.C01"
LEAN_DEPS = ["Ztr.Props.C10", "Ztr.Props.C03"]
THEOREMS = ['Ztr.Runner.C01_events', 'Ztr.Runner.C01_exact_stack', 'Ztr.Runner.C01_setUp_guard',
            'Ztr.Runner.C01_tearDown_order', 'Ztr.Runner.C01_all_torn_down', 'Ztr.Runner.C01_balance',
            'Ztr.Runner.C01_frozen', 'Ztr.Runner.C01_rest_in_children', 'Ztr.Runner.inv_finalState',
            'Ztr.Layers.C10_bases_first', 'Ztr.Layers.C10_once']
RULE = ("random layer DAGs of 1-6 layers (class/instance layers, single and multiple inheritance, hooks present or "
        "absent), 0-4 tests per layer incl. unit tests, fault tables (setUp raises on attempt k / always, tearDown "
        "raises or raises NotImplementedError), options over --repeat, -x, -j N, --shuffle-seed, --layer; every "
        "process of the run (parent, resumed children, -j children) is compared event by event. Non-trivial = at "
        "least 2 layers and 1 test; distinct by (world, options)")
ASSUMPTIONS = [
    "layer hooks do not call back into the runner; MemoryError/KeyboardInterrupt/EndRun exits and -D are not modelled",
    "hook outcomes depend on the layer and the number of earlier calls in the same process (fault tables)",
]
TRUSTED = ["CPython unittest 3.12.1 callback protocol (Model/Proto, validated on every run)"]

KINDS = ("lsu", "ltd", "ph")


def monitor(c):
    """The clauses of C01 on the real traces.  Returns None or a description."""
    w = c.world
    L = w["layers"]
    visible = {i for i, l in enumerate(L) if l["setUp"] and l["tearDown"]}
    tests = {t["id"]: t for t in w["tests"]}
    parent, children = cw.real_processes(c)
    procs = [("parent", parent)] + [("child %r" % (k,), v) for k, v in children.items()]
    for pname, evs in procs:
        active = []
        frozen = False
        for i, e in enumerate(evs):
            if e[0] == "lsu":
                l = e[1]
                if frozen:
                    return "%s: layer %d set up after a tearDown raised NotImplementedError" % (pname, l)
                if l in visible:
                    if l in active:
                        return "%s: setUp of layer %d while it is set up" % (pname, l)
                    missing = [b for b in L[l]["bases"] if b in visible and b not in active]
                    if missing:
                        return "%s: setUp of layer %d while its bases %r are not set up" % (pname, l, missing)
                    if e[2]:
                        active.append(l)
            elif e[0] == "ltd":
                l = e[1]
                if l in visible:
                    if l not in active:
                        return "%s: tearDown of layer %d which is not set up" % (pname, l)
                    derived = [d for d in active if d != l and l in worlds.closure(L, d)]
                    if derived:
                        return "%s: tearDown of layer %d while derived layers %r are set up" % (pname, l, derived)
                    active.remove(l)
                if e[2] == "notimpl":
                    frozen = True
            elif e[0] == "ph":
                if frozen:
                    return "%s: test t%d runs after a tearDown raised NotImplementedError" % (pname, e[1])
                want = worlds.closure(L, tests[e[1]]["layer"]) & visible
                if set(active) != want:
                    return "%s: test t%d (layer %d) runs with layers %r set up, expected %r" % (
                        pname, e[1], tests[e[1]]["layer"], sorted(active), sorted(want))
        if active and not c.obs.timeout:
            return "%s: layers %r were never torn down" % (pname, sorted(active))
    return None


def state_monitor(c):
    """The clauses of C01 on the runner's own `setup_layers` dict, read from the Python stack at every
    layer/test event (hook-less layers included).  Returns None or a description."""
    w = c.world
    L = w["layers"]
    tests = {t["id"]: t for t in w["tests"]}
    for pid, pr in c.obs.procs.items():
        for e in pr["events"]:
            sl = e.get("sl")
            if e.get("ev") not in ("lsu", "ltd", "ph") or not isinstance(sl, list):
                continue
            if -1 in sl:
                continue
            if e["ev"] == "lsu":
                l = e["l"]
                if l in sl:
                    return "pid %s: setUp of layer %d while setup_layers = %r contains it" % (pid, l, sl)
                missing = [b for b in L[l]["bases"] if b not in sl]
                if missing:
                    return "pid %s: setUp of layer %d while its bases %r are not in setup_layers = %r" % (pid, l, missing, sl)
            elif e["ev"] == "ltd":
                l = e["l"]
                if l not in sl:
                    return "pid %s: tearDown of layer %d which is not in setup_layers = %r" % (pid, l, sl)
                derived = [d for d in sl if d != l and l in worlds.closure(L, d)]
                if derived:
                    return "pid %s: tearDown of layer %d while derived layers %r are in setup_layers" % (pid, l, derived)
            else:
                want = worlds.closure(L, tests[e["t"]]["layer"])
                if set(sl) != set(want) or len(set(sl)) != len(sl):
                    return "pid %s: test t%d (layer %d) runs with setup_layers = %r, expected exactly %r" % (
                        pid, e["t"], tests[e["t"]]["layer"], sl, sorted(want))
    return None


def compare_states(ctx, c):
    """model ghost snapshots == real `setup_layers` at every layer/test event, process by process"""
    names = {worlds.layer_name(c.world, i): i for i in range(len(c.world["layers"]))}

    def real_snaps(pr):
        return [[e["ev"], e.get("l", e.get("t")), e.get("sl")] for e in pr["events"] if e.get("ev") in KINDS]

    def model_snaps(m):
        return [[ev[0], ev[1], sn] for ev, sn in zip(m["trace"], m.get("snaps", [])) if ev[0] in KINDS]

    for pid, pr in c.obs.procs.items():
        if pr["resume"] is None:
            if pid != c.obs.parent_pid:
                continue
            m = c.parent_model
            who = "parent"
        else:
            m = c.child_models.get((names.get(pr["resume"][0], -1), pr["resume"][1]))
            who = "child %r" % (pr["resume"],)
        if not m or "error" in m:
            continue
        want, got = model_snaps(m), real_snaps(pr)
        if want != got:
            k = next((i for i, (a, b) in enumerate(zip(want, got)) if a != b), min(len(want), len(got)))
            ctx.drift("runner.setup_layers", "%s: setup_layers differs at event %d: model %r real %r" % (
                who, k, want[k:k + 2], got[k:k + 2]), c.replay_obj())
            return False
    ctx.bump("state-compared")
    return True


def gen_cases(ctx):
    rng = ctx.rng
    n = 120 if ctx.quick() else 2500
    cases = []
    for i in range(n):
        w = worlds.gen_world(rng, tests_per_layer=(0, 3), kinds=["pass", "pass", "fail", "error", "skipBody", "skipDeco"],
                             p_fault=0.35 if i % 4 != 1 else 0.15, p_write=0.0, nested=(i % 4 == 1))
        if i % 3 == 0:
            for l in w["layers"]:
                if l["kind"] != "unit":
                    l["setUp"] = l["tearDown"] = True
        o = worlds.gen_opts(rng, allow=("repeat", "stop", "j", "shuffle"))
        if i % 8 == 1:
            # layer names that contain one another, several of them unable to tear down: each child must still
            # run exactly its own layer
            nonunit = [l for l in w["layers"] if l["kind"] != "unit"]
            for k, l in enumerate(nonunit):
                l["module"] = "wlayers"
                l["name"] = "S" + "x" * k
                l["setUp"] = l["tearDown"] = True
                if k < len(nonunit) - 1 and rng.random() < 0.7:
                    l["tearDownFaults"] = [[999999, 2]]
            for t in w["tests"]:
                pass
            have = {t["layer"] for t in w["tests"]}
            for li, l in enumerate(w["layers"]):
                if l["kind"] != "unit" and li not in have:
                    t = worlds.gen_test(rng, max([x["id"] for x in w["tests"]] + [0]) + 1, [1], kind="pass", p_write=0.0)
                    t["layer"], t["module"] = li, next(iter(w["modules"]))
                    w["tests"].append(t)
                    w["modules"][t["module"]]["suites"].append({"t": "leaf", "id": t["id"], "lyr": li})
            o["processes"] = 1
            o["stopOnError"] = False
        if i % 10 == 2:
            # an unneeded layer below a needed one in the set-up order: X(A, B) runs first, then Y, which needs only
            # the base of X that was set up later (or earlier) - A must be gone when Y's tests run
            w = worlds.gen_world(rng, n_layers=4, tests_per_layer=(1, 2), kinds=["pass", "pass", "fail"], p_fault=0.0, p_write=0.0)
            nonunit = [k for k, l in enumerate(w["layers"]) if l["kind"] != "unit"]
            if len(nonunit) == 4:
                a, b, x, y = nonunit
                nm = rng.sample(["La", "Lb", "Lc", "Ld"], 4)
                for k, n_ in zip(nonunit, nm):
                    w["layers"][k].update(kind="instance", name=n_, module="wlayers", setUp=True, tearDown=True,
                                          setUpRaises=[], tearDownFaults=[])
                    w["layers"][k].pop("falsy", None)
                w["layers"][a]["bases"] = []
                w["layers"][b]["bases"] = []
                w["layers"][x]["bases"] = rng.choice([[a, b], [b, a]])
                w["layers"][y]["bases"] = [rng.choice([a, b])]
                o["processes"] = 1
                o["stopOnError"] = False
                o.pop("layer", None)
        if i % 10 == 3:
            # two fixture layers that are different objects under one dotted name (made by a factory, or instances
            # created with one name), each the base of its own layer with tests: when the second stack is entered the
            # first fixture is not needed any more, whatever it is called
            w = worlds.gen_world(rng, n_layers=4, tests_per_layer=(1, 2), kinds=["pass", "pass", "fail"], p_fault=0.0, p_write=0.0)
            nonunit = [k for k, l in enumerate(w["layers"]) if l["kind"] != "unit"]
            if len(nonunit) == 4:
                f1, f2, x, y = nonunit
                for k, n_ in zip(nonunit, ["Fixture", "Fixture", rng.choice(["X", "Ya"]), rng.choice(["Y", "Xa"])]):
                    w["layers"][k].update(kind="instance", name=n_, module="wlayers", setUp=True, tearDown=True,
                                          setUpRaises=[], tearDownFaults=[], bases=[])
                    w["layers"][k].pop("falsy", None)
                w["layers"][x]["bases"] = [f1]
                w["layers"][y]["bases"] = [f2]
                # the fixtures own no tests
                moved = {f1: x, f2: y}
                for t in w["tests"]:
                    t["layer"] = moved.get(t["layer"], t["layer"])

                def relayer(nodes):
                    for n_ in nodes:
                        if n_.get("lyr") in moved:
                            n_["lyr"] = moved[n_["lyr"]]
                        if n_["t"] == "node":
                            relayer(n_["kids"])
                for m_ in w["modules"].values():
                    relayer(m_["suites"])
                o["processes"] = 1
                o["stopOnError"] = False
                o.pop("layer", None)
        if i % 10 == 4:
            # independent layers run one after another in one process; the tearDown of the ones that run first raises
            # (an ordinary exception): the layer is gone all the same - recorded as an error, not set up any more, its
            # tearDown not attempted again
            w = worlds.gen_world(rng, n_layers=rng.choice([3, 4]), tests_per_layer=(1, 2), kinds=["pass", "pass", "fail"],
                                 p_fault=0.0, p_write=0.0)
            nonunit = sorted([k for k, l in enumerate(w["layers"]) if l["kind"] != "unit"], key=lambda k: worlds.layer_name(w, k))
            for rank, k in enumerate(nonunit):
                w["layers"][k].update(setUp=True, tearDown=True, setUpRaises=[], tearDownFaults=[], bases=[])
                if w["layers"][k]["kind"] == "class":
                    w["layers"][k]["kind"] = "instance"
                w["layers"][k].pop("falsy", None)
                if rank < len(nonunit) - 1 and (rank == 0 or rng.random() < 0.5):
                    w["layers"][k]["tearDownFaults"] = [[0, 1]]
            o["processes"] = 1
            o["stopOnError"] = False
            o.pop("layer", None)
        o["verbose"] = rng.choice([0, 1, 2])
        if rng.random() < 0.2 and i % 10 not in (2, 3, 4):
            names = [worlds.layer_name(w, i) for i in range(len(w["layers"]))]
            o["layer"] = [rng.choice(names).split(".")[-1]]
        cases.append(cw.Case(w, o))
    return cases


def check_cases(ctx, cases):
    cw.run_real_cases(ctx, cases)
    cw.run_models(ctx, cases)
    for c in cases:
        d = cw.describe(c)
        ctx.count(c.replay_obj(), nontrivial=len(c.world["layers"]) >= 3 and len(c.world["tests"]) >= 1, sample=d)
        ctx.bump("layers=%d" % len(c.world["layers"]))
        ctx.bump("processes=%d" % len(c.obs.procs))
        if any(l["tearDownFaults"] and l["tearDownFaults"][0][1] == 2 for l in c.world["layers"]):
            ctx.bump("has-notimpl")
        if any(l["setUpRaises"] for l in c.world["layers"]):
            ctx.bump("has-setUp-fault")
        for k in ("repeat", "stopOnError", "processes", "shuffle_seed", "layer"):
            if c.opts.get(k) not in (None, False, [], 1):
                ctx.bump("opt:" + k)
        if not cw.sane_run(ctx, c, PROP):
            continue
        bad = monitor(c) or state_monitor(c)
        if not bad and c.parent_model is not None and "error" not in c.parent_model and not cw.stateful(c.world) \
                and not c.opts.get("stopOnError") and not c.obs.timeout:
            # "the remaining layers run in fresh subprocesses": every test the model starts (in whichever process) is
            # started by some process of the real run
            real_started = {e["t"] for e in c.obs.events if e.get("ev") == "tstart"}
            model_started = {e[1] for m_ in [c.parent_model] + list(c.child_models.values()) if "error" not in m_
                             for e in m_["trace"] if e[0] == "tstart"}
            lost = sorted(model_started - real_started)
            if lost:
                tests_ = {t["id"]: t for t in c.world["tests"]}
                bad = "C01: test(s) %r of layer(s) %r never started in any process of the run" % (
                    ["t%d" % t for t in lost[:6]], sorted({worlds.layer_name(c.world, tests_[t]["layer"]) for t in lost}))
        if bad:
            ctx.violation(bad + " (opts %r)" % d["opts"], c.replay_obj(), signature="C01:" + bad.split(":")[1][:30])
            continue
        if cw.compare_traces(ctx, c, KINDS, "runner.layers"):
            compare_states(ctx, c)


def run(ctx):
    check_cases(ctx, cw.corpus_cases(PROP) + gen_cases(ctx))
    # the tear-down / set-up order of C01 is order_by_bases over gather_layers (the proofs use C10_bases_first):
    # the order function itself is tied to its model here too
    from harness import corr_layers
    corr_layers.order_cases(ctx)


def replay(ctx, obj):
    case = obj.get("case", {})
    if "world" not in case:
        return run(ctx)
    check_cases(ctx, [cw.Case(case["world"], case["opts"])])
