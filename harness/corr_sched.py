"""C06 — correspondence of Model/Sched with the real resume_tests: the real parent loop and the real
result collectors are driven with runner.spawn_layer_in_subprocess replaced by a fake child whose
completion order and output lines are scripted; all k! completion orders for small k."""
import io
import itertools
import re
import sys
import threading
import time
import types

PROP = "C06"
LEAN_MODULE = "Ztr.Props.C06Run"
LEAN_DEPS = ["Ztr.Props.C06", "Ztr.Props.C06Dots", "Ztr.Props.C06Order"]
THEOREMS = ["Ztr.Sched.C06_at_most_N", "Ztr.Sched.C06_progress", "Ztr.Sched.C06_blocks_in_order",
            "Ztr.Sched.C06_prints_all_done", "Ztr.Runner.C06_layer_same_in_every_process",
            "Ztr.Runner.C06_whole_run", "Ztr.Runner.C06_equals_sequential", "Ztr.Channel.C06_dots_exact",
            "Ztr.Channel.C06_keeps_all_but_dots", "Ztr.Sched.printed_eq", "Ztr.Sched.C06_outcomes_in_layer_order",
            "Ztr.Sched.C06_outcomes_complete", "Ztr.Sched.C06_all_displayed", "Ztr.Sched.C06_D46_witness"]
RULE = ("k = 1..4 layers (quick: all k! completion orders for k <= 3, sampled for k = 4; thorough: all orders for "
        "k <= 5), N in 1..k+1, the three result collectors (verbosity 0 / 2 / N = 1), 0-3 output lines per child plus "
        "keep-alive dot lines and 0-3 reported failures/errors per child (handed over when the child is through); the "
        "real resume_tests runs in a thread against fake children released in the chosen "
        "order; observed: the parent's stdout (blocks), the number of simultaneously alive children, the returned "
        "total, the run's failure and error lists. Non-trivial = k >= 2 and a completion order different from the layer order; distinct by (k, N, order, "
        "collector)")
ASSUMPTIONS = ["that a dead thread implies a reaped child (kill + communicate in finally) and the 10 ms polling are runtime",
               "equality of tests/outcomes with the sequential run is covered by the world runs of C02/C03/C12 with -j N",
               "'each layer's output' = every line of the child that is not a keep-alive line of dots; a dots-only line "
               "written by a test cannot be told apart from one (KNOWN-FINDING D38 of C13)"]
TRUSTED = ["CPython threading / queue (the fake child replaces only subprocess handling)"]


class SlowRaw(io.RawIOBase):
    """the parent's stdout with a slow reader behind it: every write takes a while, and a write that carries a
    line of child i tells child i so (a child may then finish *while* the parent is writing)"""

    def __init__(self, writing):
        self.data = bytearray()
        self.writing = writing

    def writable(self):
        return True

    def write(self, b):
        b = bytes(b)
        self.data += b
        for m in re.finditer(rb"LINE (\d+) ", b):
            i = int(m.group(1))
            if i < len(self.writing):
                self.writing[i].set()
        time.sleep(0.06)
        return len(b)


OUTCOME = 10 ** 6      # line tokens from here on are outcomes (even: a failure, odd: an error), not output


def real_run(k, n, order, verbose, lines, dots, late=None, chatty=False):
    from zope.testrunner import runner
    names = ["wl.L%d" % i for i in range(k)]
    gates = [threading.Event() for _ in range(k)]
    started = [threading.Event() for _ in range(k)]
    lock = threading.Lock()
    stat = {"cur": 0, "max": 0, "start_order": []}

    def fake_spawn(result, script_parts, options, features, layer_name, layer, failures, errors, skipped,
                   resume_number, cwd=None):
        i = names.index(layer_name)
        with lock:
            stat["cur"] += 1
            stat["max"] = max(stat["max"], stat["cur"])
            stat["start_order"].append(i)
        try:
            for j, ln in enumerate(lines[i]):
                if ln >= OUTCOME:
                    continue
                if dots and j == 0:
                    result.write(b"...\n")
                result.write(("LINE %d %d\n" % (i, ln)).encode())
            started[i].set()
            if chatty:
                # a layer whose tests come thick and fast: a keep-alive line of dots every few milliseconds for as long
                # as it runs
                t_end = time.time() + 30
                while not gates[i].wait(0.02) and time.time() < t_end:
                    result.write(b"..\n")
            else:
                gates[i].wait(30)
            # what the layer subprocess reported (tokens >= OUTCOME stand for failing / erroring tests): handed over when
            # the child is through - in completion order, as the real worker threads do
            for ln in lines[i]:
                if ln >= OUTCOME:
                    (failures if ln % 2 == 0 else errors).append(("T%d" % ln, None))
            if late:
                # finish exactly while the parent is busy writing this child's earlier lines (if it ever does
                # that before the child is done), appending the last lines of the layer
                writing[i].wait(0.25)
                for ln in late[i]:
                    result.write(("LINE %d %d\n" % (i, ln)).encode())
            result.num_ran = 10 + i
        finally:
            with lock:
                stat["cur"] -= 1
            result.done = True

    options = types.SimpleNamespace(processes=n, verbose=verbose, subunit=False, subunit_v2=False,
                                    stop_on_error=False)
    layers = [(names[i], object(), None) for i in range(k)]
    writing = [threading.Event() for _ in range(k)]
    raw = SlowRaw(writing) if late else io.BytesIO()
    out = io.TextIOWrapper(raw, encoding="utf-8", write_through=True)
    res = {}
    old_spawn = runner.spawn_layer_in_subprocess
    old_stdout = sys.stdout
    runner.spawn_layer_in_subprocess = fake_spawn
    sys.stdout = out

    run_failures, run_errors = [], []

    def target():
        try:
            res["total"] = runner.resume_tests(None, options, [], layers, run_failures, run_errors, [], None)
        except BaseException as e:  # noqa: BLE001
            res["exc"] = repr(e)

    t = threading.Thread(target=target)
    try:
        t.start()
        # progress: min(N, k) children get started before any is released
        want = min(n, k)
        deadline = time.time() + 10
        while sum(e.is_set() for e in started) < want and time.time() < deadline and t.is_alive():
            time.sleep(0.005)
        res["initial"] = sum(e.is_set() for e in started)
        time.sleep(0.03)
        res["initial_after_wait"] = sum(e.is_set() for e in started)
        # progress after every completion: a slot that becomes free is used for the next waiting layer
        # (simulation of which children must have been started by now; a child released before it was
        # started finishes as soon as it starts and frees its slot again)
        sim_running = list(range(min(n, k)))
        sim_ready = list(range(min(n, k), k))
        released = set()
        res["progress"] = []
        for i in order:
            gates[i].set()
            released.add(i)
            changed = True
            while changed:
                changed = False
                for x in list(sim_running):
                    if x in released:
                        sim_running.remove(x)
                        changed = True
                while len(sim_running) < n and sim_ready:
                    sim_running.append(sim_ready.pop(0))
                    changed = True
            expect_started = k - len(sim_ready)
            deadline = time.time() + 1.5
            while sum(e.is_set() for e in started) < expect_started and time.time() < deadline and t.is_alive():
                time.sleep(0.005)
            res["progress"].append([i, expect_started, sum(e.is_set() for e in started)])
            time.sleep(0.02)
        t.join(20)
        res["hung"] = t.is_alive()
    finally:
        for g in gates:
            g.set()
        t.join(5)
        runner.spawn_layer_in_subprocess = old_spawn
        sys.stdout = old_stdout
    out.flush()
    res["stdout"] = (bytes(raw.data) if late else raw.getvalue()).decode("utf-8", "replace")
    res["failures"] = [int(n[1:]) for n, _ in run_failures]
    res["errors"] = [int(n[1:]) for n, _ in run_errors]
    res.update(stat)
    return res


def model_schedule(k, n, order, lines):
    labels = [["iter"]]
    running = list(range(min(n, k)))
    ready = list(range(min(n, k), k))
    pending = list(order)
    written = set()
    while pending:
        i = next((x for x in pending if x in running), None)
        if i is None:
            labels.append(["iter"])
            while len(running) < n and ready:
                running.append(ready.pop(0))
            continue
        for x in running:
            if x not in written:
                written.add(x)
                for ln in lines[x]:
                    labels.append(["line", x, ln])
        labels += [["done", i], ["dead", i], ["iter"]]
        running.remove(i)
        pending.remove(i)
        labels.append(["iter"])
        while len(running) < n and ready:
            running.append(ready.pop(0))
    labels += [["iter"], ["iter"]]
    return labels


def run(ctx):
    rng = ctx.rng
    cases = []
    kmax = 3 if ctx.quick() else 5
    for k in range(1, kmax + 1):
        for order in itertools.permutations(range(k)):
            for n in range(1, k + 2):
                cases.append((k, n, list(order)))
    if ctx.quick():
        for _ in range(10):
            o = list(range(4))
            rng.shuffle(o)
            cases.append((4, rng.randint(1, 5), o))
        if len(cases) > 70:
            cases = rng.sample(cases, 70)
    full = []
    for k, n, order in cases:
        verbose = rng.choice([0, 2])
        lines = [[rng.randint(1, 999) for _ in range(rng.choice([0, 1, 2, 3]))] for _ in range(k)]
        for i_ in range(k):
            # failures and errors the layer reports (0..3), between its lines
            for _ in range(rng.choice([0, 1, 1, 2, 3])):
                lines[i_].insert(rng.randint(0, len(lines[i_])), OUTCOME + 10 * rng.randint(0, 9999) + rng.choice([0, 1]))
        dots = rng.random() < 0.5
        # chatty layers (a keep-alive line every few milliseconds while they run) where a slot frees while layers wait,
        # with the keep-alive collector (-vv)
        chatty = (k > n >= 2 and len(full) % 2 == 0) or len(full) % 7 == 3
        if chatty:
            verbose = 2
        full.append((k, n, order, verbose, lines, dots, chatty))
    import concurrent.futures
    # the fake replaces a module attribute: real runs are sequential
    reals = [real_run(*c[:6], chatty=c[6]) for c in full]
    # a slow reader behind the parent's stdout and children that finish (with more output) at that very moment
    late_cases = []
    for _ in range(4 if ctx.quick() else 40):
        k = rng.choice([2, 3])
        n = rng.choice([2, 3])
        order = list(range(k))
        rng.shuffle(order)
        lines = [[rng.randint(1, 999) for _ in range(rng.choice([2, 3]))] for _ in range(k)]
        late = [[rng.randint(1000, 1999) for _ in range(2)] for _ in range(k)]
        late_cases.append((k, n, order, 0, lines, False, late))
    for (k, n, order, verbose, lines, dots, late) in late_cases:
        res = real_run(k, n, order, verbose, lines, dots, late=late)
        case = {"k": k, "N": n, "finish_order": order, "lines": lines, "late_lines": late,
                "real": {kk: res.get(kk) for kk in ("total", "max", "hung", "exc")}, "stdout": res.get("stdout", "")[-800:]}
        ctx.count(("late", k, n, tuple(order), str(lines)), nontrivial=True, sample=None)
        ctx.bump("slow-reader")
        if res.get("hung") or res.get("exc"):
            ctx.violation("resume_tests did not return (%r) with a slow reader" % res.get("exc"), case, signature="C06:hang")
            continue
        got = [(int(a), int(b)) for a, b in re.findall(r"LINE (\d+) (\d+)", res["stdout"])]
        want = [(i, ln) for i in range(k) for ln in lines[i] + late[i]]
        if got != want:
            ctx.violation("with a slow reader the parent printed %r, the children wrote %r (contiguous blocks in layer "
                          "order expected)" % (got, want), case, signature="C06:lost-lines")
    answers = ctx.driver.batch([{"op": "sched", "n": c[1], "k": c[0], "labels": model_schedule(c[0], c[1], c[2], c[4])}
                                for c in full])
    for (k, n, order, verbose, lines, dots, chatty), res, ans in zip(full, reals, answers):
        case = {"k": k, "N": n, "finish_order": order, "verbose": verbose, "lines": lines, "dots": dots, "chatty": chatty,
                "real": {kk: res.get(kk) for kk in ("total", "max", "initial", "hung", "exc", "start_order", "progress")},
                "stdout": res.get("stdout", "")[-800:], "model": ans}
        ctx.count((k, n, tuple(order), verbose, dots), nontrivial=k >= 2 and order != sorted(order),
                  sample={"k": k, "N": n, "finish_order": order, "max_alive": res.get("max")})
        ctx.bump("k=%d" % k)
        ctx.bump("N=%d" % n)
        ctx.bump("collector=" + ("immediate" if n == 1 else "keepalive" if verbose > 1 else "deferred"))
        if res.get("hung") or res.get("exc"):
            ctx.violation("resume_tests did not return (%r)" % res.get("exc"), case, signature="C06:hang")
            continue
        if res["max"] > n:
            ctx.violation("%d children alive at once with -j %d" % (res["max"], n), case, signature="C06:too-many")
            continue
        if res["initial_after_wait"] != min(n, k):
            ctx.violation("%d children started at once, expected min(N, k) = %d" % (res["initial_after_wait"], min(n, k)),
                          case, signature="C06:progress")
            continue
        stuck = [p for p in res.get("progress", []) if p[2] < p[1]]
        if stuck:
            ctx.violation("after child %d finished only %d children had been started, %d expected: a free slot stays "
                          "unused while layers wait (-j %d, finish order %r)" % (stuck[0][0], stuck[0][2], stuck[0][1], n, order),
                          case, signature="C06:slot-unused")
            continue
        # blocks: the LINE lines must appear grouped per child, in layer order, complete
        got = [(int(a), int(b)) for a, b in re.findall(r"LINE (\d+) (\d+)", res["stdout"])]
        want = [(i, ln) for i in range(k) for ln in lines[i] if ln < OUTCOME]
        if got != want:
            ctx.violation("parent output lines %r, expected contiguous blocks in layer order %r" % (got, want), case,
                          signature="C06:order")
            continue
        # the lists of the run: the layers' failures and errors, layer by layer in layer order, whatever order the
        # children finished in (C06_outcomes_in_layer_order / C06_outcomes_complete)
        want_f = [ln for i in range(k) for ln in lines[i] if ln >= OUTCOME and ln % 2 == 0]
        want_e = [ln for i in range(k) for ln in lines[i] if ln >= OUTCOME and ln % 2 == 1]
        case["real"]["failures"], case["real"]["errors"] = res["failures"], res["errors"]
        if res["failures"] != want_f or res["errors"] != want_e:
            ctx.violation("finish order %r: the run's failure list is %r, its error list %r; the layers reported %r and %r "
                          "(layer order)" % (order, res["failures"], res["errors"], want_f, want_e), case,
                          signature="C06:outcome-order")
            continue
        if res["total"] != sum(10 + i for i in range(k)):
            ctx.violation("returned total %r, children ran %r" % (res["total"], sum(10 + i for i in range(k))), case,
                          signature="C06:total")
            continue
        if "error" in ans:
            ctx.drift("sched", "driver error %s" % ans["error"], case)
            continue
        mall = [(i, ln) for i, ls in ans["printed"] for ln in ls]
        mgot = [(i, ln) for i, ln in mall if ln < OUTCOME]
        mf = [ln for i, ln in mall if ln >= OUTCOME and ln % 2 == 0]
        me = [ln for i, ln in mall if ln >= OUTCOME and ln % 2 == 1]
        if mf != res["failures"] or me != res["errors"]:
            ctx.drift("sched.outcomes", "model merges failures %r errors %r, real %r %r" % (mf, me, res["failures"], res["errors"]), case)
        elif mgot != got or ans["maxRunning"] > n or not ans["finished"]:
            ctx.drift("sched", "model printed %r (max running %r, finished %r), real %r" % (
                mgot, ans["maxRunning"], ans["finished"], got), case)


def replay(ctx, obj):
    run(ctx)


def barrier_cases(ctx):
    """real layer subprocesses: with -j N and more than N layers, a layer whose test can only go on once a layer that is
    still waiting for a slot has started a test gets there - the slot a finished layer frees is used at once (the slot
    accounting of the real spawn code, worker threads and their helper threads included)"""
    import os
    import shutil
    from harness import corr_world as cw
    from harness import worlds
    rng = ctx.rng
    for i in range(2 if ctx.quick() else 12):
        n = 2 if i % 2 == 0 else 3
        w = worlds.gen_world(rng, n_layers=n + 2, tests_per_layer=(1, 1), kinds=["pass"], p_fault=0.0, p_write=0.0)
        for l in w["layers"]:
            if l["kind"] != "unit":
                l.update(setUp=True, tearDown=True, setUpRaises=[], tearDownFaults=[], bases=[])
                if l["kind"] == "class":
                    l["kind"] = "instance"
                l.pop("falsy", None)
                for k_ in ("slowSetUp", "slowTearDown"):
                    l.pop(k_, None)
        for t in w["tests"]:
            for k_ in ("doctest", "rebind", "ownstream", "label"):
                t.pop(k_, None)
        c = cw.Case(w, {"verbose": rng.choice([0, 1, 2]), "processes": n}, "barrier")
        cw.run_models(ctx, [c]) if False else None
        # the order in which the layers are handed to subprocesses: all layers with tests, in layer order
        cw.compute_groups(c)
        order = [li for li, ts in sorted(c.groups, key=lambda g: (w["layers"][g[0]]["kind"] != "unit",
                                                                   worlds.layer_name(w, g[0]))) if ts]
        if len(order) < n + 1:
            continue
        first_test = {li: ts[0] for li, ts in c.groups if ts}
        tests = {t["id"]: t for t in w["tests"]}
        # the layers of the first batch except the first wait for the layers that get the freed slots
        for rank in range(1, n):
            if n + rank - 1 < len(order):
                tests[first_test[order[rank]]]["body"]["waitForTest"] = first_test[order[n + rank - 1]]
        d = os.path.join(ctx.tmp, "bar%03d" % i)
        worlds.materialize(w, d)
        obs = worlds.run_real(w, dict(c.opts, _timeout=170), d)
        shutil.rmtree(d, ignore_errors=True)
        ctx.count(("barrier", i, n), nontrivial=True, sample=None)
        ctx.bump("real-children-barrier")
        waited = [e for e in obs.events if e.get("ev") == "waited"]
        bad = [e for e in waited if not e.get("ok")]
        if obs.timeout or bad or not waited:
            ctx.violation("-j %d, %d layers: the test t%s waits for a test of a layer that needs the slot freed by the first "
                          "layer - it %s (run order %r)" % (n, len(order), bad[0]["t"] if bad else "?",
                                                            "never started within 45 s" if bad else "did not report (timeout %r)" % obs.timeout,
                                                            [worlds.layer_name(w, li) for li in order]),
                          {"world": w, "opts": c.opts, "waited": waited}, signature="C06:slot-not-refilled")


_inner_run = run


def run(ctx):  # noqa: F811
    _inner_run(ctx)
    barrier_cases(ctx)
    # real -j N runs against sequential runs of the same worlds (same tests, same order per layer, same
    # outcomes and verdict), with --shuffle so that the order is not the discovery order
    from harness import corr_c03
    corr_c03.shuffle_modes(ctx, n=4 if ctx.quick() else 60)
    # "each layer's output": the real collectors keep every line of a child that is not a keep-alive line of dots
    from harness import corr_channel
    corr_channel.stdout_cases(ctx)
    option_glue(ctx)


def option_glue(ctx):
    """the N the scheduler works with is the N of the command line, whatever the machine looks like: every spelling
    of -j, with the runner confined to one CPU and unconfined (layers mostly wait - for daemons, sockets, each other)"""
    import os
    from zope.testrunner import options as ztr_options
    full = os.sched_getaffinity(0) if hasattr(os, "sched_getaffinity") else None
    try:
        for confined in (False, True):
            if confined:
                if not full:
                    break
                os.sched_setaffinity(0, {min(full)})
            for n in list(range(1, 9)) + [17, 64]:
                for argv in (["-j", str(n)], ["-j%d" % n], ["-vj%d" % n]):
                    try:
                        got = ztr_options.get_options(["test"] + argv + ["--path", ctx.tmp]).processes
                    except BaseException as e:  # noqa: BLE001
                        got = repr(e)
                    ctx.count(("glue", n, tuple(argv), confined), nontrivial=n > 1, sample=None)
                    ctx.bump("option-glue")
                    if got != n:
                        ctx.violation("%r asks for %d layer subprocesses at a time, the runner uses %r%s: fewer than N "
                                      "layers make progress at the same time" % (
                                          argv, n, got, " (process confined to one CPU)" if confined else ""),
                                      {"argv": argv, "confined_to_one_cpu": confined, "processes": got},
                                      signature="C06:N-changed")
    finally:
        if full:
            os.sched_setaffinity(0, full)
