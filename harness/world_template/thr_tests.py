"""Thread world: tests start threads through threading and _thread according to thr_world.json and log
(uid, ident) to $ZTR_TRACE; blocked threads are released at scripted later points."""
import _thread
import json
import os
import sys
import threading
import time
import unittest

HERE = os.path.dirname(os.path.abspath(__file__))
SPEC = json.load(open(os.path.join(HERE, "thr_world.json")))
TRACE = os.environ.get("ZTR_TRACE")
_seq = [0]
_lock = threading.Lock()
GATES = {}
STARTED = {}
IDENT = {}
THREADS = {}
REGISTER = {}
ACK = {}


def trace(ev):
    with _lock:
        ev["seq"] = _seq[0]
        _seq[0] += 1
        with open(TRACE, "a") as f:
            f.write(json.dumps(ev) + "\n")


def body(uid, name=None):
    ident = threading.get_ident()
    IDENT[uid] = ident
    # the name the thread goes by: the one `threading` lists for its ident (for a low-level thread that may be the
    # "Dummy-<n>" entry an earlier thread with the same ident left behind), else "Dummy-<ident>"
    if name is None:
        name = {t.ident: t.name for t in threading.enumerate()}.get(ident, "Dummy-%d" % ident)
    trace({"ev": "start", "uid": uid, "ident": ident, "name": name})
    STARTED[uid].set()
    deadline = time.time() + 60
    while not GATES[uid].wait(0.005) and time.time() < deadline:
        if uid in REGISTER and not ACK[uid].is_set():
            # asked (by a later test) to register with `threading`: from now on it is known as "Dummy-<n>"
            trace({"ev": "rename", "uid": uid, "name": threading.current_thread().name})
            ACK[uid].set()


def body_ct(uid):
    """a low-level thread that asks `threading` who it is (as logging does for every record):
    threading then keeps a _DummyThread entry for it, also after the thread has ended"""
    body(uid, threading.current_thread().name)


class QueueWorker(threading.Thread):
    """a thread object that is false while it has no pending jobs (defines __len__)"""

    def __len__(self):
        return 0


def gone(ident):
    for _ in range(2000):
        if ident not in sys._current_frames():
            return True
        time.sleep(0.001)
    return False


def do(action):
    kind = action[0]
    if kind == "start":
        _, uid, api, name = action
        GATES[uid] = threading.Event()
        STARTED[uid] = threading.Event()
        if api in ("threading", "threading_falsy"):
            cls = QueueWorker if api == "threading_falsy" else threading.Thread
            t = cls(target=body, args=(uid, name), name=name)
            t.daemon = True
            THREADS[uid] = t
            t.start()
        elif api == "_thread_ct":
            _thread.start_new_thread(body_ct, (uid,))
        else:
            _thread.start_new_thread(body, (uid,))
        STARTED[uid].wait(60)
    elif kind == "rename":
        # a running thread changes its name: a threading.Thread is given a new one, a low-level thread registers
        # with `threading` (as it does when it logs something)
        uid = action[1]
        if uid in THREADS:
            THREADS[uid].name = action[2]
            trace({"ev": "rename", "uid": uid, "name": action[2]})
        elif uid in GATES:
            ACK[uid] = threading.Event()
            REGISTER[uid] = True
            ACK[uid].wait(30)
    elif kind == "skip":
        raise unittest.SkipTest("skips itself")
    elif kind == "finish":
        uid = action[1]
        GATES[uid].set()
        ok = gone(IDENT[uid])
        trace({"ev": "finish", "uid": uid, "gone": ok})


CURRENT = [None]
HOOKS = SPEC.get("hooks") or {}


class ThrLayer:
    """a layer whose per-test set-up hook starts threads (a server restarted for a test): they exist before the test
    begins; the test's window in the trace opens when the hook is done"""

    @classmethod
    def testSetUp(cls):
        tid = CURRENT[0]
        for a in HOOKS.get(str(tid), {}).get("before", []):
            do(a)
        trace({"ev": "tstart", "t": tid})


class Base(unittest.TestCase):
    actions = ()
    tid = 0

    def __str__(self):
        return "t%d (thr)" % self.tid

    def run(self, result=None):
        CURRENT[0] = self.tid
        if not HOOKS:
            trace({"ev": "tstart", "t": self.tid})
        try:
            return unittest.TestCase.run(self, result)
        finally:
            trace({"ev": "tend", "t": self.tid})

    def runTest(self):
        for a in self.actions:
            do(a)


def test_suite():
    s = unittest.TestSuite()
    for t in SPEC["tests"]:
        ns = {"actions": t["actions"], "tid": t["id"], "__module__": "thr"}
        if HOOKS:
            ns["layer"] = ThrLayer
        if t.get("decoSkip"):
            # skipped by decorator: on Python 3.12 unittest calls addSkip and stopTest for it, never startTest
            ns["runTest"] = unittest.skip("skipped by decorator")(Base.runTest)
        cls = type("T%d" % t["id"], (Base,), ns)
        s.addTest(cls())
    return s
