"""Runtime of a generated test world (copied next to the world's tests.py).

Builds layer objects and test cases from world.json; every hook and every test phase appends one
JSON line (pid-tagged, ordered) to the file named by $ZTR_TRACE.
"""
import json
import os
import sys
import time
import unittest

HERE = os.path.dirname(os.path.abspath(__file__))
WORLD = json.load(open(os.path.join(HERE, "world.json")))
TRACE = os.environ.get("ZTR_TRACE")
_seq = [0]
_attempts = {}


def setup_layers_snapshot():
    """indices of the layers in the runner's own `setup_layers` dict (insertion order), found on the
    Python stack (`run_layer` / `setup_layer` / `tear_down_unneeded` have it as a local); None when
    no such frame exists"""
    f = sys._getframe(2)
    while f is not None:
        if f.f_code.co_name in ("setup_layer", "tear_down_unneeded", "run_layer"):
            sl = f.f_locals.get("setup_layers")
            if sl is not None:
                out = []
                for layer in list(sl):
                    idx = -1
                    for i, cand in enumerate(LAYERS):
                        if cand is layer:
                            idx = i
                            break
                    out.append(idx)
                return out
        f = f.f_back
    return None


def trace(ev):
    if not TRACE:
        return
    if ev.get("ev") in ("lsu", "ltd", "ph"):
        try:
            ev["sl"] = setup_layers_snapshot()
        except Exception:  # pragma: no cover
            ev["sl"] = "error"
    ev["pid"] = os.getpid()
    ev["seq"] = _seq[0]
    _seq[0] += 1
    # (the file named by the environment *now*: a second run in the same process writes its own trace)
    with open(os.environ.get("ZTR_TRACE") or TRACE, "a") as f:
        f.write(json.dumps(ev) + "\n")


def captured():
    """are sys.stdout / sys.stderr the runner's capture buffers?"""
    return [type(sys.stdout).__name__ == "BufferedStandardStream",
            type(sys.stderr).__name__ == "BufferedStandardStream"]


trace({"ev": "import", "argv": sys.argv[1:6]})


def _at_exit():
    # what the process is left with when the run is over (or was aborted): are the std streams still capture buffers?
    trace({"ev": "exit", "cap": captured()})


import atexit  # noqa: E402
atexit.register(_at_exit)

if WORLD.get("sysPathObject"):
    import pathlib
    sys.path.append(pathlib.Path(HERE) / "not-a-string-entry")

# code under test that binds the standard input when it is imported (before the runner's features are set up)
_stdin_readline = sys.stdin.readline


class LayerError(Exception):
    pass


class UnhashableError(Exception):
    """an exception class that defines __eq__ without __hash__ (as dataclasses do)"""
    def __eq__(self, other):
        return self is other
    __hash__ = None


def raise_styled(style, cls, msg, hook=None):
    """raise `cls(msg)` plain, chained (`from`), inside an except block (context), or as an unhashable class"""
    if style == "attr-hook" and hook:
        # what `super().setUp()` raises when no base defines the hook: an AttributeError that names the hook
        e = AttributeError("'super' object has no attribute %r (%s)" % (hook, msg))
        e.name = hook
        raise e
    if style == "nomsg":
        # an exception without any message: str(e) == ""
        raise cls()
    if style == "notimpl" and hook == "setUp":
        # an "abstract" base layer: its setUp is not implemented - for a setUp that is an error like any other (only a
        # tearDown may say "not supported" this way)
        raise NotImplementedError(msg)
    if style == "oserror":
        # what a fixture that cannot get a resource raises: an OSError with an errno (out of memory for a fork or an
        # mmap, no space left, too many open files) - an Exception like any other
        import errno
        raise OSError(errno.ENOMEM if len(msg) % 2 else errno.ENOSPC, msg)
    if style == "cause":
        try:
            raise KeyError("inner of " + msg)
        except KeyError as e:
            raise cls(msg) from e
    if style == "context":
        try:
            raise KeyError("inner of " + msg)
        except KeyError:
            raise cls(msg)
    if style == "syntax":
        # a SyntaxError raised at run time (compile / exec / import of a module that does not compile): its
        # traceback ends in a location line without a function name
        compile("def broken(:\n", "generated_%s.py" % abs(hash(msg)), "exec")
    if style == "unhashable":
        raise UnhashableError(msg)
    if style == "unhashable-cause":
        try:
            raise UnhashableError("inner of " + msg)
        except UnhashableError as e:
            raise cls(msg) from e
    raise cls(msg)


def py_death(how):
    """ways in which a layer hook brings the process down through Python: exceptions the runner lets through"""
    if how == "pyexit0":
        raise SystemExit(0)
    if how == "pyexit3":
        raise SystemExit(3)
    if how == "pymemory":
        raise MemoryError("out of memory in a layer hook")
    if how == "pyinterrupt":
        raise KeyboardInterrupt()


_clock = [0.0, time.time]


def clock_jump(seconds):
    """the clock moves on by `seconds` - what the runner sees when a hook or a test takes that long"""
    _clock[0] += seconds
    real = _clock[1]
    time.time = lambda: real() + _clock[0]


def _attempt(kind, idx):
    k = _attempts.get((kind, idx), 0)
    _attempts[(kind, idx)] = k + 1
    return k


class LayerStream:
    """a stream a layer installs as sys.stdout / sys.stderr for its lifetime (a tee, a prefixing wrapper): it passes
    everything on to the stream it replaced"""

    def __init__(self, inner):
        self._inner = inner

    def __getattr__(self, name):
        return getattr(self._inner, name)


_swapped = []       # [layer idx, its stdout, its stderr, the stdout it replaced, the stderr it replaced]


_base_streams = []  # the std streams found by the latest layer setUp that ran with no stream-swapping layer set up


def own_streams():
    """are sys.stdout / sys.stderr the streams that were in place when the layers were set up (the innermost
    stream-swapping layer's own streams, if there is one)?"""
    if not _swapped:
        return not _base_streams or (sys.stdout is _base_streams[0] and sys.stderr is _base_streams[1])
    return sys.stdout is _swapped[-1][1] and sys.stderr is _swapped[-1][2]


def _release_resources(idx):
    _cannot_release(idx)


def _cannot_release(idx):
    raise NotImplementedError("the resources of layer %d cannot be released" % idx)


def make_hooks(idx, spec):
    hooks = {}
    if spec["setUp"]:
        def setUp(*a):
            k = _attempt("su", idx)
            raises = k in spec["setUpRaises"] or 999999 in spec["setUpRaises"]
            trace({"ev": "lsu", "l": idx, "ok": not raises})
            if not _swapped:
                _base_streams[:] = [sys.stdout, sys.stderr]
            if spec.get("dieInSetUp"):
                trace({"ev": "die", "how": spec["dieInSetUp"]})
                sys.stdout.flush()
                py_death(spec["dieInSetUp"])
                os._exit(0 if spec["dieInSetUp"] == "exit0" else 3)
            if spec.get("slowSetUp"):
                clock_jump(spec["slowSetUp"])
            if raises:
                raise_styled(spec.get("excStyle"), LayerError, "setUp of layer %d fails (attempt %d)" % (idx, k), hook="setUp")
            if spec.get("swapStreams"):
                _swapped.append([idx, LayerStream(sys.stdout), LayerStream(sys.stderr), sys.stdout, sys.stderr])
                sys.stdout, sys.stderr = _swapped[-1][1], _swapped[-1][2]
        hooks["setUp"] = setUp
    if spec["tearDown"]:
        def tearDown(*a):
            k = _attempt("td", idx)
            code = 0
            for att, c in spec["tearDownFaults"]:
                if att == k or att == 999999:
                    code = c
                    break
            trace({"ev": "ltd", "l": idx, "r": ["ok", "raise", "notimpl"][code], "own": own_streams()})
            if spec.get("slowTearDown"):
                clock_jump(spec["slowTearDown"])
            if code != 2 and _swapped and _swapped[-1][0] == idx:
                sys.stdout, sys.stderr = _swapped[-1][3], _swapped[-1][4]
                _swapped.pop()
            if spec.get("dieInTearDown"):
                trace({"ev": "die", "how": spec["dieInTearDown"]})
                sys.stdout.flush()
                py_death(spec["dieInTearDown"])
                os._exit(0 if spec["dieInTearDown"] == "exit0" else 3)
            if code == 1:
                raise_styled(spec.get("excStyle"), LayerError, "tearDown of layer %d fails" % idx, hook="tearDown")
            if code == 2:
                if idx % 2:
                    # "tear-down not supported" signalled from code the hook calls (a helper, an abstract method of
                    # a base class, super().tearDown()) - NotImplementedError is NotImplementedError
                    _release_resources(idx)
                raise NotImplementedError
        hooks["tearDown"] = tearDown
    if spec["testSetUp"]:
        def testSetUp(*a):
            trace({"ev": "tsu", "l": idx, "cap": captured(), "own": own_streams()})
            if spec.get("testSetUpRaises"):
                raise LayerError("testSetUp of layer %d fails" % idx)
        hooks["testSetUp"] = testSetUp
    if spec["testTearDown"]:
        def testTearDown(*a):
            trace({"ev": "ttd", "l": idx, "cap": captured(), "own": own_streams()})
            if spec.get("testTearDownRaises"):
                raise LayerError("testTearDown of layer %d fails" % idx)
        hooks["testTearDown"] = testTearDown
    return hooks


LAYERS = []


def build_layers():
    from zope.testrunner.layer import UnitTests
    for idx, spec in enumerate(WORLD["layers"]):
        if spec["kind"] == "unit":
            LAYERS.append(UnitTests)
            continue
        hooks = make_hooks(idx, spec)
        bases = tuple(LAYERS[b] for b in spec["bases"])
        if spec["kind"] == "class":
            ns = {k: classmethod(v) for k, v in hooks.items()}
            ns["__module__"] = spec["module"]
            LAYERS.append(type(spec["name"], bases or (object,), ns))
        else:
            ns = {}
            if spec.get("falsy"):
                # a layer object that is false as long as it holds no resources (a container filled in setUp)
                ns["__len__"] = lambda self: 0
            o = type("InstanceLayer", (), ns)()
            o.__name__ = spec["name"]
            o.__module__ = spec["module"]
            o.__bases__ = bases
            for k, v in hooks.items():
                setattr(o, k, v)
            LAYERS.append(o)


build_layers()
# every layer object is also reachable under a second dotted name (wrt.ALIAS_<index>): tests may declare their layer
# by that string
for _i, _l in enumerate(LAYERS):
    globals()["ALIAS_%d" % _i] = _l
# ... and under its own dotted name (module.name), through a module object that holds it (worlds whose tests name their
# layers by that string)
if WORLD.get("layerModules"):
    import types as _types
    for _i, _spec in enumerate(WORLD["layers"]):
        if _spec["kind"] != "unit" and _spec["module"] != "wrt" and _spec["name"].isidentifier():
            _m = sys.modules.get(_spec["module"])
            if _m is None:
                _m = sys.modules[_spec["module"]] = _types.ModuleType(_spec["module"])
            setattr(_m, _spec["name"], LAYERS[_i])


def layer_decl(node):
    """what a suite or test of the world declares as its layer: the object, an alias string, or the dotted name"""
    how = node.get("lyrAlias")
    if how == "canon":
        spec = WORLD["layers"][node["lyr"]]
        return spec["module"] + "." + spec["name"]
    if how:
        return "wrt.ALIAS_%d" % node["lyr"]
    return LAYERS[node["lyr"]]


INNER_SRC = """import sys, unittest
class Inner(unittest.TestCase):
    def test_ok(self):
        print("inner run: output of a passing test")
    def test_bad(self):
        print("inner run: output of a failing test")
        sys.stderr.write("inner run: stderr of a failing test\\n")
        self.fail("inner failure")
"""


def nested_run():
    """a test of code that embeds the runner: it runs the runner in-process (with --buffer) on a tree of its own"""
    import shutil
    import tempfile
    from zope.testrunner import run_internal
    d = tempfile.mkdtemp(prefix="ztr-inner-")
    try:
        with open(os.path.join(d, "innerztr.py"), "w") as f:
            f.write(INNER_SRC)
        run_internal(["--path", d, "--tests-pattern", "^innerztr$"], ["inner", "--buffer"])
    finally:
        shutil.rmtree(d, ignore_errors=True)
        sys.modules.pop("innerztr", None)
        sys.path[:] = [p_ for p_ in sys.path if p_ != d]


def do_part(test, ph, part):
    trace({"ev": "ph", "t": test.spec["id"], "ph": ph})
    for to_err, tok in part["writes"]:
        stream = sys.stderr if to_err else sys.stdout
        mode = tok % 3
        if part.get("rawbytes"):
            # undecodable bytes around the token, through the binary layer
            buf = getattr(stream, "buffer", None)
            if buf is not None:
                stream.flush()
                buf.write(b"\xff\xfeTOK%dK\x80\n" % tok)
                buf.flush()
            else:
                stream.write("TOK%dK\n" % tok)
        elif part.get("ctrl"):
            # terminal colours, a NUL, a form feed: legal output of a test, not legal characters of XML
            stream.write("\x1b[31mTOK%dK\x1b[0m\x00\x0c\ufffe\n" % tok)
        elif mode == 0:
            stream.write("TOK%dK\n" % tok)
        elif mode == 1:
            stream.write("TOK%dK" % tok)        # no trailing newline
        else:
            buf = getattr(stream, "buffer", None)
            if buf is not None:
                stream.flush()
                buf.write(("TOK%dK\n" % tok).encode())
                buf.flush()
            else:
                stream.write("TOK%dK\n" % tok)
    if part.get("waitForTest") is not None:
        # a test that can only go on once a test of another layer (running in another process at the same time) has
        # started: it watches the trace file for that test's start, for at most 45 seconds
        want_ = part["waitForTest"]
        deadline_ = time.time() + 45
        ok_ = False
        while time.time() < deadline_ and not ok_:
            try:
                with open(TRACE) as f_:
                    for line_ in f_:
                        if '"tstart"' in line_:
                            try:
                                e_ = json.loads(line_)
                            except ValueError:
                                continue
                            if e_.get("ev") == "tstart" and e_.get("t") == want_:
                                ok_ = True
                                break
            except OSError:
                pass
            if not ok_:
                time.sleep(0.05)
        trace({"ev": "waited", "t": test.spec["id"], "for": want_, "ok": ok_})
    if part.get("nested"):
        nested_run()
    if part.get("slow"):
        clock_jump(part["slow"])
    if part.get("sleep"):
        time.sleep(part["sleep"])      # really takes that long (layers of a -j run finish in another order)
    if part.get("fd2"):
        os.write(2, part["fd2"].encode("latin-1"))
    if part.get("droppath"):
        # import isolation: the test filters the directory of the tests out of sys.path and does not put it back
        here_ = os.path.dirname(os.path.abspath(__file__))
        sys.path[:] = [p_ for p_ in sys.path if not (isinstance(p_, str) and os.path.abspath(p_) == here_)]
    if part.get("chdir"):
        import tempfile
        os.chdir(tempfile.gettempdir())
    if part.get("argv"):
        # a test of command-line code: empties sys.argv in place and does not put it back
        del sys.argv[1:]
    if part.get("atexit_fd2"):
        # something that reports on the real stderr when the process shuts down (a fixture server being stopped):
        # in a layer subprocess that is after the report has been written
        import atexit
        text = part["atexit_fd2"].encode("latin-1")
        atexit.register(lambda: os.write(2, text))
    if part.get("readstdin"):
        # reads through the reference taken at import time: in a layer subprocess the real stdin is a pipe nobody
        # ever writes to
        _stdin_readline()
    if part.get("stderr_text"):
        sys.stderr.write(part["stderr_text"])
    if part.get("stdout_text"):
        sys.stdout.write(part["stdout_text"])
    if part.get("settrace"):
        # a test that installs a trace function of its own and removes it again
        def _tracer(frame, event, arg):
            return None
        sys.settrace(_tracer)
        sys.settrace(None)
    if part.get("gcthreshold"):
        # test code that tunes the collector and does not put the thresholds back
        import gc
        gc.set_threshold(123, 7, 7)
    if part.get("warnfilter"):
        # test code that changes the warning filters and does not restore them
        import warnings
        warnings.filterwarnings("ignore", message="ztr world %s" % (ph,))
    if part.get("close"):
        for name_, wanted in (("stdout", ("out", "both")), ("stderr", ("err", "both"))):
            stream_ = getattr(sys, name_)
            if part["close"] in wanted and type(stream_).__name__ == "BufferedStandardStream":
                stream_.close()
    if part.get("leakstreams"):
        # a test that installs a stream of its own as sys.stdout and sys.stderr and goes wrong before it can put
        # back what it found (only in worlds run with --buffer, where the runner owns the std streams of a test)
        import io as _io
        sys.stdout = sys.stderr = _io.StringIO()
    exc = part.get("exc")
    if exc and part.get("once"):
        # a test whose outcome depends on state that survives --repeat iterations: it raises only the first
        # time this phase runs in this process
        if _attempt("once", (test.spec["id"], str(ph))) > 0:
            exc = None
    if exc in ("exit0", "exit3", "sigkill", "segv", "linger"):
        trace({"ev": "die", "how": exc})
        sys.stdout.flush()
        if exc == "linger":
            # the process gives up its standard streams (a test that daemonises in place) and lives on: for the parent
            # both pipes are at their end although nobody has exited
            os.close(1)
            os.close(2)
            time.sleep(150)
            os._exit(0)
        if exc == "exit0":
            os._exit(0)
        if exc == "exit3":
            os._exit(3)
        import signal
        os.kill(os.getpid(), signal.SIGKILL if exc == "sigkill" else signal.SIGSEGV)
    if exc == "fail":
        if part.get("excStyle") == "nomsg":
            raise AssertionError()
        raise AssertionError("failure in %s of t%d" % (ph, test.spec["id"]))
    if exc == "error":
        raise_styled(part.get("excStyle"), ValueError, "error in %s of t%d" % (ph, test.spec["id"]))
    if exc == "skip":
        raise unittest.SkipTest("skip in %s" % (ph,))
    if exc == "interrupt":
        raise KeyboardInterrupt()
    if exc == "sysexit":
        raise SystemExit(3)


class Base(unittest.TestCase):
    spec = None

    def __init__(self):
        unittest.TestCase.__init__(self, "runTest")

    def __str__(self):
        return "t%d (%s)%s" % (self.spec["id"], self.spec.get("module", "wtests"),
                               (" " + self.spec["label"]) if self.spec.get("label") else "")

    def id(self):
        return "%s.%s.t%d" % (self.__class__.__module__, self.__class__.__name__, self.spec["id"])

    def countTestCases(self):
        return self.spec["count"]

    def run(self, result=None):
        trace({"ev": "tstart", "t": self.spec["id"]})
        try:
            return unittest.TestCase.run(self, result)
        finally:
            trace({"ev": "tend", "t": self.spec["id"]})

    def setUp(self):
        if self.spec.get("rebind"):
            # a test that saves the standard streams and puts them back when it is over (registered first,
            # so it runs after tearDown and after every other clean-up)
            saved = (sys.stdout, sys.stderr)
            which = self.spec["rebind"]

            def put_back():
                # both streams, or only the one the test redirected
                if which != "err":
                    sys.stdout = saved[0]
                if which != "out":
                    sys.stderr = saved[1]
            self.addCleanup(put_back)
        if self.spec.get("ownstream"):
            # a test that captures its own sys.stdout for its whole duration and puts back what it found
            import io as _io
            found = sys.stdout
            sys.stdout = _io.StringIO()

            def put_found_back():
                sys.stdout = found
            self.addCleanup(put_found_back)
        for k, c in reversed(list(enumerate(self.spec["cleanups"]))):
            if c.get("exc") == "error" and c.get("excStyle") == "noframes":
                # a built-in registered as clean-up fails: the traceback has no frame outside unittest
                # (with "once": only the first time this test runs in this process)
                if not (c.get("once") and _attempt("once", (self.spec["id"], str(["cleanup", k]))) > 0):
                    self.addCleanup(os.rmdir, os.path.join(HERE, "no-such-directory-%d-%d" % (self.spec["id"], k)))
                c = dict(c, exc=None)
            self.addCleanup(do_part, self, ["cleanup", k], c)
        do_part(self, ["setUp"], self.spec["setUp"])

    def tearDown(self):
        do_part(self, ["tearDown"], self.spec["tearDown"])

    def _body(self):
        for k, sub in enumerate(self.spec["subs"]):
            with self.subTest(k=k):
                do_part(self, ["sub", k], sub)
        do_part(self, ["body"], self.spec["body"])


_group_classes = {}


def make_test(spec):
    if spec.get("classGroup") is not None and not spec["expectFail"] and not spec["decoSkip"]:
        # several tests that are instances of ONE test class (parametrised by hand): what differs between them -
        # script, layer, level - sits on the instance
        cls = _group_classes.get(spec["classGroup"])
        if cls is None:
            def runTest(self):
                self._body()
            cls = _group_classes[spec["classGroup"]] = type("G%d" % spec["classGroup"], (Base,),
                                                            {"runTest": runTest, "__module__": "wtests"})
        t = cls()
        t.spec = spec
        return t

    def runTest(self):
        self._body()
    if spec["expectFail"]:
        runTest = unittest.expectedFailure(runTest)
    if spec["decoSkip"]:
        runTest = unittest.skip("decorated")(runTest)
    ns = {"spec": spec, "runTest": runTest, "__module__": "wtests"}
    if spec.get("level") is not None:
        ns["level"] = spec["level"]
    cls = type("T%d" % spec["id"], (Base,), ns)
    return cls()


def make_doctest(spec):
    """the same script as a doctest: set-up and tear-down functions, one example that runs the body (its writes go
    to sys.stderr: doctest compares what examples write to sys.stdout), a second example that fails when the
    script says so"""
    import doctest

    class Holder:
        pass
    holder = Holder()
    holder.spec = spec
    # (what the body writes goes to sys.stderr whatever the script says: doctest owns sys.stdout during an example)
    body = dict(spec["body"], exc=None, writes=[[True, tok] for _, tok in spec["body"]["writes"]])

    def su(dt):
        do_part(holder, ["setUp"], spec["setUp"])

    def td(dt):
        do_part(holder, ["tearDown"], spec["tearDown"])
    src = ">>> _body()\n"

    def _fail():
        # an example whose output differs from the expected (empty) one; with "once" only the first time it runs
        if spec["body"].get("once") and _attempt("once", (spec["id"], "['body']")) > 0:
            return
        print("output the doctest does not expect")
    if spec["body"].get("exc") == "fail":
        src += ">>> _fail()\n"
    globs = {"_body": lambda: do_part(holder, ["body"], body), "_fail": _fail}
    dt = doctest.DocTestParser().get_doctest(src, globs, "wtests.T%d.t%d" % (spec["id"], spec["id"]), "wtests.py", 0)

    class DT(doctest.DocTestCase):
        def __str__(self):
            return "t%d (%s)%s" % (spec["id"], spec.get("module", "wtests"),
                                   (" " + spec["label"]) if spec.get("label") else "")

        def id(self):
            return "wtests.DT%d.t%d" % (spec["id"], spec["id"])

        def countTestCases(self):
            return spec["count"]

        def run(self, result=None):
            trace({"ev": "tstart", "t": spec["id"]})
            try:
                return doctest.DocTestCase.run(self, result)
            finally:
                trace({"ev": "tend", "t": spec["id"]})
    DT.__module__ = "wtests"
    DT.spec = spec
    return DT(dt, setUp=su, tearDown=td)


def build_suite(node):
    """node: {"t": "leaf", "id"} | {"t": "node", "kids", "lvl", "lyr"}"""
    tests = {t["id"]: t for t in WORLD["tests"]}
    if node["t"] == "leaf":
        t = make_doctest(tests[node["id"]]) if tests[node["id"]].get("doctest") else make_test(tests[node["id"]])
        holder = t if tests[node["id"]].get("classGroup") is not None else t.__class__
        if node.get("lyr") is not None:
            holder.layer = layer_decl(node)
        if node.get("lvl") is not None:
            holder.level = node["lvl"]
        return t
    kids_ = [build_suite(k) for k in node["kids"]]
    if (node.get("lyr") is not None or node.get("lvl") is not None) and len(node["kids"]) % 2 == 1:
        # the declaration sits on a TestSuite subclass (class SlowDbSuite(unittest.TestSuite): layer = ...; level = ...)
        # rather than on the suite object: a declaration all the same
        ns_ = {}
        if node.get("lyr") is not None:
            ns_["layer"] = layer_decl(node)
        if node.get("lvl") is not None:
            ns_["level"] = node["lvl"]
        return type("DeclaringSuite", (unittest.TestSuite,), ns_)(kids_)
    s = unittest.TestSuite(kids_)
    if node.get("lyr") is not None:
        s.layer = layer_decl(node)
    if node.get("lvl") is not None:
        s.level = node["lvl"]
    return s


class NotAnException(BaseException):
    pass


def fail_import(modname, where):
    """raise what world.json says this module raises at import time / inside test_suite()"""
    if where == "import" and WORLD["modules"][modname].get("needsHelper"):
        # code the tests use that is importable only through the path the wrapper script added
        import whelper  # noqa: F401
    if where == "import" and WORLD["modules"][modname].get("importErrorInChild") and "--resume-layer" in sys.argv:
        # a module that can be imported in the main process only (it looks at the terminal, at an environment the
        # layer subprocess does not have, ...)
        raise ImportError("module %s cannot be imported in a layer subprocess" % modname)
    kind = WORLD["modules"][modname].get("importError")
    if not kind:
        return
    if kind is True:
        kind = "error"
    if kind.startswith("suite:"):
        if where != "suite":
            return
        kind = kind[6:]
    elif where != "import":
        return
    if kind == "sysexit0":
        raise SystemExit(0)
    if kind == "sysexit3":
        raise SystemExit(3)
    if kind == "base":
        raise NotAnException("module %s cannot be imported" % modname)
    raise ImportError("module %s cannot be imported" % modname)


def suite_for_module(modname):
    mod = WORLD["modules"][modname]
    fail_import(modname, "suite")
    return unittest.TestSuite([build_suite(n) for n in mod["suites"]])
