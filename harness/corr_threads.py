"""C19 — correspondence of Model/Threads with the real leak report: worlds whose tests start real
threads (threading and _thread), finish some, leave others blocked until a later test; the model
gets the real idents; monitor = the ident-free statement."""
import json
import os
import re
import shutil
import subprocess

from harness import common

PROP = "C19"
LEAN_MODULE = "Ztr.Props.C19"
THEOREMS = ["Ztr.Threads.C19_exact", "Ztr.Threads.C19_exact_run", "Ztr.Threads.C19_only_once",
            "Ztr.Threads.C19_reuse_witness"]
RULE = ("sequences of 3-6 tests, each starting 0-3 threads via threading.Thread or _thread.start_new_thread (also low-level threads that call threading.current_thread()), named to "
        "match / not match the --ignore-new-thread pattern, each either finished before the test ends or left blocked "
        "until a scripted later test (or the end); the runner's 'left new threads behind' blocks are parsed and "
        "compared with the model fed with the logged (uid, ident) pairs. Non-trivial = at least one leaked and one "
        "finished thread; distinct by the action script")
ASSUMPTIONS = ["a finished thread is waited for until it has left sys._current_frames() (thread-exit timing is runtime)",
               "ident reuse into a test's snapshot is KNOWN-FINDING D12 (the guard of C19_exact)"]
TRUSTED = ["OS thread identifiers and sys._current_frames() (idents are logged by the world and given to the model)"]

RUN = """import contextlib, io, os, sys
from zope.testrunner import run, run_internal
pre = os.environ.get("ZTR_PRERUN_DIR")
if pre:
    # an earlier run in the same process (an embedding program, a test of the runner itself) that ignored every
    # thread name: nothing of it may survive into the run observed
    with contextlib.redirect_stdout(io.StringIO()):
        run_internal([], [sys.argv[0], "--path", pre, "--ignore-new-thread", ".", "--ignore-new-thread", "ign|w|Dummy"])
run()
"""


def gen_script(rng):
    ntests = rng.randint(3, 6)
    uid = 0
    tests = []
    pending = []      # (uid, release_at_test)
    alive = []        # (uid, api) of threads left running so far
    for t in range(ntests):
        actions = []
        # release threads scheduled for this test: before this test starts its own threads (their idents are then
        # likely to be reused, D12) or after (a thread ends and another is left behind in one test, no reuse)
        release = []
        for u, at in list(pending):
            if at == t:
                release.append(["finish", u])
                pending.remove((u, at))
                alive[:] = [x for x in alive if x[0] != u]
        release_late = rng.random() < 0.5
        if not release_late:
            actions += release
        # a thread left behind by an earlier test changes its name during this one (a worker renames itself, a
        # low-level thread registers with `threading`): across the ignore patterns in either direction
        for u, api in alive:
            if (release_late or ["finish", u] not in release) and rng.random() < 0.25:
                actions.append(["rename", u, rng.choice(["busy-%d", "ign-%d", "idle-%d", "xw%d"]) % u])
        for _ in range(rng.choice([0, 1, 1, 2, 3])):
            api = rng.choice(["threading", "_thread", "_thread_ct", "threading_falsy"])
            name = rng.choice(["worker-%d", "ign-%d", "w%d", "ab=ab-%d", "IGN-%d", "bg-ign-%d", "xw%d", "idle-%d"]) % uid
            if rng.random() < 0.2:
                name = rng.choice(["pool", "ign-pool"])      # several threads may carry the same name
            actions.append(["start", uid, api, name])
            fate = rng.choice(["finish", "finish", "leak-later", "leak-end"])
            if fate == "finish":
                actions.append(["finish", uid])
            elif fate == "leak-later" and t + 1 < ntests:
                pending.append((uid, rng.randint(t + 1, ntests - 1)))
                alive.append((uid, api))
            elif api != "_thread_ct":
                alive.append((uid, api))
            uid += 1
        if release_late:
            actions += release
        if rng.random() < 0.15:
            # the test skips itself after what it did (the check for threads left behind runs all the same)
            actions.append(["skip"])
        tests.append({"id": t, "actions": actions})
    # --ignore-new-thread may be given several times: each pattern stands alone (match mode: a name that merely
    # contains the pattern is not ignored)
    hooks = {}
    if rng.random() < 0.3:
        # a layer whose per-test set-up hook starts threads for some tests (not the first): they exist when the test
        # begins, whoever ends them - a later test, or nobody
        for t in range(1, ntests):
            if rng.random() < 0.6:
                api = rng.choice(["threading", "_thread"])
                hooks[str(t)] = {"before": [["start", uid, api, "srv-%d" % uid]]}
                later = [x for x in range(t, ntests)]
                if rng.random() < 0.5:
                    tests[rng.choice(later)]["actions"].append(["finish", uid])
                uid += 1
    # tests skipped by decorator between the others: they start nothing, and nothing is reported for them - whatever
    # the tests before them left behind
    k_ = 0
    while k_ < len(tests):
        if rng.random() < 0.25:
            tests.insert(k_ + 1, {"id": -1, "actions": [], "decoSkip": True})
            k_ += 1
        k_ += 1
    for n_, t_ in enumerate(tests):
        t_["id"] = n_
    ignore = rng.choice([["ign"], ["ign"], ["(?i)ign", "W\\d"], ["(w)orker-9", "(\\w+)=\\1"], ["ign", "w\\d+$"], ["IGN", "ign"],
                         ["idle", "Dummy-\\d{6,}$"], ["ign", "Dummy-\\d{6,}$"]])
    extra = {}
    if rng.random() < 0.3:
        extra["buffer"] = True          # the report of left-over threads is the runner's output, never captured
    if rng.random() < 0.25:
        extra["prerun"] = True          # an earlier run in the same process with other ignore patterns
    if rng.random() < 0.3:
        extra["verbose"] = rng.choice(["-vv", "-vvv", "-p"])
    return dict({"tests": tests, "ignore": ignore}, **dict(extra, **({"hooks": hooks} if hooks else {})))


def run_real(ctx, script, idx):
    d = os.path.join(ctx.tmp, "thr%04d" % idx)
    os.makedirs(d)
    shutil.copy(os.path.join(os.path.dirname(__file__), "world_template", "thr_tests.py"), os.path.join(d, "tests.py"))
    json.dump(script, open(os.path.join(d, "thr_world.json"), "w"))
    open(os.path.join(d, "ztr_run.py"), "w").write(RUN)
    trace = os.path.join(d, "trace.jsonl")
    env = dict(os.environ)
    env["ZTR_TRACE"] = trace
    ign_args = []
    for pat in script.get("ignore", ["ign"]):
        ign_args += ["--ignore-new-thread", pat]
    if script.get("buffer"):
        ign_args.append("--buffer")
    if script.get("verbose"):
        ign_args.append(script["verbose"])
    if script.get("prerun"):
        os.makedirs(os.path.join(d, "empty"))
        env["ZTR_PRERUN_DIR"] = os.path.join(d, "empty")
    p = subprocess.run([common.PY, os.path.join(d, "ztr_run.py"), "--path", d, "-v"] + ign_args,
                       cwd=d, env=env, stdout=subprocess.PIPE, stderr=subprocess.PIPE, timeout=120)
    events = [json.loads(l) for l in open(trace)] if os.path.exists(trace) else []
    events.sort(key=lambda e: e["seq"])
    out = p.stdout.decode("utf-8", "replace")
    shutil.rmtree(d, ignore_errors=True)
    return events, out


def parse_reports(out):
    """test id -> list of idents reported"""
    res = {}
    for m in re.finditer(r"The following test left new threads behind:\nt(\d+) \(thr\)\nNew thread\(s\): (.*)", out):
        idents = [int(x) for x in re.findall(r"(?:started (?:daemon )?|DummyThread )(\d+)", m.group(2))]
        res[int(m.group(1))] = idents
    return res


def directed_scripts():
    """ignore patterns whose meaning depends on each being matched on its own (groups, back-references, anchors),
    with leaked threads whose names only one of them matches"""
    out = []
    for ignore in (["(w)orker-9", "(\\w+)=\\1"], ["ign$|x", "w\\d+$"], ["(?i)ign", "W\\d"], ["IGN", "ign"]):
        tests = [{"id": 0, "actions": [["start", 0, "threading", "ab=ab-0"], ["start", 1, "threading", "worker-9"],
                                        ["start", 2, "threading", "w2"]]},
                 {"id": 1, "actions": [["start", 3, "threading", "IGN-3"], ["start", 4, "threading", "ign-4"],
                                        ["start", 5, "threading", "ab=cd-5"]]}]
        out.append({"tests": tests, "ignore": ignore})
    # threads that share a name, and thread objects that are false, left behind by one test
    out.append({"tests": [{"id": 0, "actions": [["start", 0, "threading", "pool"], ["start", 1, "threading", "pool"],
                                                  ["start", 2, "threading", "pool"]]},
                          {"id": 1, "actions": [["start", 3, "threading_falsy", "ign-worker"], ["start", 4, "threading_falsy", "bg"],
                                                  ["start", 5, "threading", "a"], ["start", 6, "threading", "a"]]}],
                "ignore": ["ign"]})
    # names that contain an ignore pattern without starting with it; threads that change their names across the
    # patterns while a later test runs (a low-level thread is "Dummy-<ident>" until it registers with `threading`)
    out.append({"tests": [{"id": 0, "actions": [["start", 0, "threading", "bg-ign-0"], ["start", 1, "threading", "xw1"],
                                                  ["start", 2, "threading", "ign-2"]]},
                          {"id": 1, "actions": [["start", 3, "threading", "pool-ign"], ["start", 4, "_thread", "x"]]}],
                "ignore": ["ign", "w\\d+$"]})
    out.append({"tests": [{"id": 0, "actions": [["start", 0, "threading", "idle-0"], ["start", 1, "_thread", "x"],
                                                  ["start", 2, "threading", "busy-2"]]},
                          {"id": 1, "actions": [["rename", 0, "busy-0"], ["rename", 1, "x"], ["rename", 2, "idle-2"]]},
                          {"id": 2, "actions": [["start", 3, "_thread", "x"], ["rename", 3, "x"]]},
                          {"id": 3, "actions": [["rename", 0, "idle-0"]]}],
                "ignore": ["idle", "Dummy-\\d{6,}$"]})
    # a layer's per-test set-up hook (re)starts a server thread for the second and third test; the second test ends
    # its own, the third leaves one of its own behind
    out.append({"tests": [{"id": 0, "actions": [["start", 0, "threading", "w0"], ["finish", 0]]},
                          {"id": 1, "actions": [["finish", 10]]},
                          {"id": 2, "actions": [["start", 1, "threading", "w1"]]},
                          {"id": 3, "actions": []}],
                "hooks": {"1": {"before": [["start", 10, "threading", "srv-10"]]},
                          "2": {"before": [["start", 11, "threading", "srv-11"]]},
                          "3": {"before": [["start", 12, "_thread", "x"]]}},
                "ignore": ["ign"]})
    # --buffer: tests that leave a thread behind and skip themselves are still being captured when they end; the report
    # of their threads is the runner's output all the same (also with progress/verbose output around it)
    for verbose in (None, "-vv"):
        out.append(dict({"tests": [{"id": 0, "actions": [["start", 0, "threading", "w0"], ["skip"]]},
                                   {"id": 1, "actions": [["start", 1, "_thread", "x"], ["skip"]]},
                                   {"id": 2, "actions": [["start", 2, "threading", "w2"]]},
                                   {"id": 3, "actions": []}],
                         "ignore": ["ign"], "buffer": True}, **({"verbose": verbose} if verbose else {})))
    # a test skipped by decorator right behind tests that left threads behind
    out.append({"tests": [{"id": 0, "actions": [["start", 0, "threading", "w0"]]},
                          {"id": 1, "actions": [], "decoSkip": True},
                          {"id": 2, "actions": [["start", 1, "_thread", "x"]]},
                          {"id": 3, "actions": [], "decoSkip": True},
                          {"id": 4, "actions": [], "decoSkip": True},
                          {"id": 5, "actions": [["start", 2, "threading", "w5"]]}],
                "ignore": ["ign"]})
    # an earlier run in the same process ignored every thread name: this one ignores only what it was told to
    out.append({"tests": [{"id": 0, "actions": [["start", 0, "threading", "w0"], ["start", 1, "threading", "ign-1"]]},
                          {"id": 1, "actions": [["start", 2, "_thread", "x"]]}],
                "ignore": ["ign"], "prerun": True})
    return out


def run(ctx):
    rng = ctx.rng
    n = 25 if ctx.quick() else 400
    scripts = directed_scripts() + [gen_script(rng) for _ in range(n)]
    import concurrent.futures
    with concurrent.futures.ThreadPoolExecutor(max_workers=8) as ex:
        reals = list(ex.map(lambda a: run_real(ctx, a[1], a[0]), enumerate(scripts)))
    queries = []
    infos = []
    for script, (events, out) in zip(scripts, reals):
        # threads started through _thread have no name: the runner sees "Dummy-<ident>"
        pats = script.get("ignore", ["ign"])
        hist = []
        ident_of = {}
        for e in events:
            if e["ev"] == "start":
                ident_of[e["uid"]] = e["ident"]
                hist.append(["start", e["uid"], e["ident"], any(re.match(pat, e["name"]) for pat in pats)])
            elif e["ev"] == "rename":
                hist.append(["rename", e["uid"], any(re.match(pat, e["name"]) for pat in pats)])
            elif e["ev"] == "finish":
                hist.append(["finish", e["uid"]])
            elif e["ev"] == "tstart":
                hist.append(["testStart"])
            elif e["ev"] == "tend":
                hist.append(["testStop"])
        queries.append({"op": "threads", "history": hist})
        infos.append((hist, ident_of))
    answers = ctx.driver.batch(queries)
    for script, (events, out), (hist, ident_of), ans in zip(scripts, reals, infos, answers):
        case = {"script": script, "history": hist, "model": ans, "output_tail": out[-1500:]}
        nleak = sum(1 for t in script["tests"] for a in t["actions"] if a[0] == "start") - \
            sum(1 for t in script["tests"] for a in t["actions"] if a[0] == "finish")
        ctx.count(json.dumps(script), nontrivial=nleak > 0, sample={"tests": script["tests"][:3]})
        ctx.bump("leaked=%d" % min(nleak, 4))
        if any(e["ev"] == "finish" and not e["gone"] for e in events):
            ctx.notes.append("a finished thread did not leave sys._current_frames() in time; case skipped")
            continue
        if "error" in ans:
            ctx.drift("threads", "driver error %s" % ans["error"], case)
            continue
        rep = parse_reports(out)
        # real reports as uid lists per test, via the idents (latest start with that ident before the test end)
        real = []
        alive_by_ident = {}
        tcur = None
        for h in hist:
            if h[0] == "start":
                alive_by_ident[h[2]] = h[1]
            elif h[0] == "testStart":
                tcur = 0 if tcur is None else tcur + 1
            elif h[0] == "testStop":
                real.append(sorted(alive_by_ident.get(i, -1) for i in rep.get(tcur, [])))
        spec = [sorted(x) for x in ans["spec"]]
        model = [sorted(x) for x in ans["reports"]]
        if real != spec:
            reuse = model == real     # the model (with real idents) explains it: ident reuse
            ctx.violation("threads reported per test %r, started-and-left-behind per test %r" % (real, spec), case,
                          signature="ident-reuse" if reuse else "C19:report")
            if not reuse:
                continue
        if real != model:
            ctx.drift("threads", "model reports %r, real %r" % (model, real), case)


def probe_d12(ctx):
    """the ident of a thread that ends inside the test is handed to the next thread started"""
    import sys
    import threading
    from zope.testrunner import threadsupport
    ev1, ev2 = threading.Event(), threading.Event()
    a = threading.Thread(target=ev1.wait)
    a.start()
    snap = threadsupport.enumerate()
    ia = a.ident
    ev1.set()
    a.join()
    hit = None
    for _ in range(50):
        b = threading.Thread(target=ev2.wait)
        b.start()
        if b.ident == ia:
            hit = b
            break
        ev2.set()
        b.join()
        ev2 = threading.Event()
    missed = False
    if hit is not None:
        new = [t for t in threadsupport.enumerate() if t.is_alive() and t not in snap]
        missed = not any(t.ident == hit.ident for t in new)
        ev2.set()
        hit.join()
    return missed, ("a thread started and left behind inside a test is not reported when it receives the ident of a "
                    "thread that was alive at the snapshot and ended inside the test (ident reuse is the norm on Linux)")


KNOWN_PROBES = {"D12": probe_d12}


def replay(ctx, obj):
    run(ctx)
